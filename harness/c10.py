"""C10 — REQUIRED_USE solving is sound, complete and preference-first (DESIGN §6 C10).

Streams
  fcs      REQUIRED_USE strings (||, ^^, ??, conditionals, negations, nested <= 3, <= 5 flags) parsed by
           the real `ebuild_src.base.required_use` getter, all IUSE subsets over the tree's flags,
           random forced/preferred sets; list(find_constraint_satisfaction(...)) canonicalised to
           [first, solutions sorted]                       impl vs Model_C10.run_fcs          (A)
                                                           impl vs Spec_C10.spec_fcs_ok       (B, in Coq)
                                                           + the same oracle in Python (PMS evaluator)
  fcs_src  the same calls judged against the SOURCE string's own structure (independent parser
           parse_src) whenever the implementation's parser restructured it: catches a parser / operator
           table that changes the meaning (e.g. '?? ( a )' collapsed to 'a')   Python PMS oracle + spec_fcs_ok
  direct   restriction objects built directly (negated groups, multi-value / all-mode leaves,
           empty groups, negated all-of on the spine): same comparisons, error branches
  problem  the Problem that find_constraint_satisfaction sets up, recorded by a Problem subclass:
           domains and truth tables of the constraints     impl vs Model_C10.run_problem      (A)
  solver   raw snakeoil Problems (bool domains incl. empty/one-value, truth-table constraints incl.
           ones over no variable)                          real Problem vs Spec_C10.contract_ok (contract S)
                                                           real Problem vs Model_C10.run_solver (solve_ref)
  glue     EAPI gating of REQUIRED_USE / '??' and the shape of the parsed tree (Python only)
"""

import itertools
from types import SimpleNamespace

from .common import Check, Err, Raw, cN, cbool, clist, cpair, cval, impl_call

IMPORTS = ("From Coq Require Import List NArith ZArith Bool.\n"
           "From Verif Require Import Base.Val C10.Model_C10 C10.Spec_C10.")
ANCHORS = ["restrictions/required_use.py", "ebuild/ebuild_src.py::base.required_use",
           "ebuild/ebuild_src.py::base._mk_required_use_node",
           # the lru_cache of _compiled_constraints is keyed by these
           "ebuild/conditionals.py::DepSet.__hash__", "ebuild/conditionals.py::DepSet.__eq__"]
FL = "abcdefgh"
KINDS = {"AssertionError": "AssertionError", "ValueError": "ValueError"}
OPS = ["||", "", "^^", "??"]
KNAME = {"||": "KOr", "": "KAnd", "^^": "KOne", "??": "KAmo"}


# --------------------------------------------------------------------------- trees
# ("F", neg, all, (flags...)) | ("C", neg, flag, [kids]) | ("G", op, neg, [kids])
def gen_tree(rng, depth, flags):
    k = rng.random()
    if depth == 0 or k < 0.36:
        return ("F", rng.random() < 0.3, False, (rng.choice(flags),))
    if k < 0.58:
        return ("C", rng.random() < 0.3, rng.choice(flags),
                [gen_tree(rng, depth - 1, flags) for _ in range(rng.randint(1, 3))])
    return ("G", rng.choice(OPS), False,
            [gen_tree(rng, depth - 1, flags) for _ in range(rng.randint(1, 3))])


def show(t):
    if t[0] == "F":
        return ("!" if t[1] else "") + t[3][0]
    if t[0] == "C":
        return ("!" if t[1] else "") + t[2] + "? ( " + " ".join(map(show, t[3])) + " )"
    return (t[1] + " " if t[1] else "") + "( " + " ".join(map(show, t[3])) + " )"


def parse_src(text):
    """REQUIRED_USE string -> source tree, written independently of pkgcore (PMS 8.2 syntax); the
    string's OWN structure, before any simplification the implementation's parser applies"""
    toks = text.split()
    pos = 0

    def items(closing):
        nonlocal pos
        out = []
        while pos < len(toks):
            t = toks[pos]
            if t == ")":
                if not closing:
                    raise ValueError("unbalanced )")
                pos += 1
                return out
            pos += 1
            if t in ("||", "^^", "??", "(") or t.endswith("?"):
                if t != "(":
                    if pos >= len(toks) or toks[pos] != "(":
                        raise ValueError("operator without group")
                    pos += 1
                kids = items(True)
                if t == "(":
                    out.append(("G", "", False, kids))
                elif t.endswith("?") and t not in ("??",):
                    f = t[:-1]
                    out.append(("C", f.startswith("!"), f.lstrip("!"), kids))
                else:
                    out.append(("G", t, False, kids))
            else:
                out.append(("F", t.startswith("!"), False, (t.lstrip("!"),)))
        if closing:
            raise ValueError("unbalanced (")
        return out
    return items(False)


def collapse1(t, keep_amo=False):
    """what DepSet.parse does to a source tree: a group with exactly one child is replaced by it
    (keep_amo: except a single-child ?? group, whose collapse changes the meaning — C09's repair keeps it)"""
    if t[0] == "F":
        return t
    if t[0] == "C":
        return ("C", t[1], t[2], [collapse1(c, keep_amo) for c in t[3]])
    kids = [collapse1(c, keep_amo) for c in t[3]]
    if len(kids) == 1 and not t[2] and not (keep_amo and t[1] == "??"):
        return kids[0]
    return ("G", t[1], t[2], kids)


def c_tree(t):
    if t[0] == "F":
        return "Flag %s %s %s" % (cbool(t[1]), cbool(t[2]), clist([cN(FL.index(f)) for f in t[3]], "N"))
    if t[0] == "C":
        return "Cond %s %s %s" % (cbool(t[1]), cN(FL.index(t[2])), clist(["(%s)" % c_tree(c) for c in t[3]], "ru"))
    return "Grp %s %s %s" % (KNAME[t[1]], cbool(t[2]), clist(["(%s)" % c_tree(c) for c in t[3]], "ru"))


def c_set(s):
    return clist([cN(FL.index(f)) for f in sorted(s)], "N")


def c_input(ts, iuse, ft, ff, pt):
    return cpair(clist(["(%s)" % c_tree(t) for t in ts], "ru"),
                 cpair(c_set(iuse), c_set(ft), c_set(ff), c_set(pt)))


def flags_of(t):
    if t[0] == "F":
        return set(t[3])
    if t[0] == "C":
        return {t[2]}.union(*map(flags_of, t[3]))
    return set().union(*map(flags_of, t[3]))


def depth_of(t):
    return 0 if t[0] == "F" else 1 + max([depth_of(c) for c in t[3]] or [0])


# PMS 8.2 meaning, written independently of the compilation (and of Spec_C10.v)
def pms(t, on):
    if t[0] == "F":
        hit = all(f in on for f in t[3]) if t[2] else any(f in on for f in t[3])
        return hit != t[1]
    if t[0] == "C":
        return ((t[2] in on) == t[1]) or all(pms(c, on) for c in t[3])
    if t[1] == "":
        return all(pms(c, on) for c in t[3]) != t[2]
    members = [c for c in t[3] if not (c[0] == "C" and (c[2] in on) == c[1])]
    n = sum(1 for c in members if pms(c, on))
    return {"||": n >= 1, "^^": n == 1, "??": n <= 1}[t[1]] != t[2]


def impl_sem(t, on):
    """the implication reading (what the compilation implements): used only to decide whether a PMS
    failure inside the known class is exactly the known finding and nothing more"""
    if t[0] == "F":
        return pms(t, on)
    if t[0] == "C":
        return ((t[2] in on) == t[1]) or all(impl_sem(c, on) for c in t[3])
    n = sum(1 for c in t[3] if impl_sem(c, on))
    return {"||": n >= 1, "": n == len(t[3]), "^^": n == 1, "??": n <= 1}[t[1]] != t[2]


def wf(t):
    if t[0] == "F":
        return (not t[2]) and len(t[3]) >= 1
    return len(t[3]) >= 1 and all(wf(c) for c in t[3])


def spine_ok(t):
    if t[0] == "C":
        return all(spine_ok(c) for c in t[3])
    if t[0] == "G" and t[1] == "":
        return (not t[2]) and all(spine_ok(c) for c in t[3])
    return True


def cond_in_group(t):
    """known-finding class predicate: a ||, ^^ or ?? group has a use-conditional group as an immediate child"""
    if t[0] == "F":
        return False
    if t[0] == "G" and t[1] != "" and any(c[0] == "C" for c in t[3]):
        return True
    return any(cond_in_group(c) for c in t[3])


def in_known_class_cond_member(ts):
    return any(cond_in_group(t) for t in ts)


# --------------------------------------------------------------------------- driving the implementation
class Impl:
    def __init__(self):
        from pkgcore.ebuild import eapi, ebuild_src
        from pkgcore.restrictions import boolean, packages, required_use, values
        self.values, self.packages, self.boolean, self.ru = values, packages, boolean, required_use
        self.getter = ebuild_src.base._get_attr["required_use"]
        self.mknode = ebuild_src.base._mk_required_use_node
        self.eapi = eapi
        self.cls = {"||": boolean.OrRestriction, "": boolean.AndRestriction,
                    "^^": boolean.JustOneRestriction, "??": boolean.AtMostOneOfRestriction}
        self.rcls = {v: k for k, v in self.cls.items()}

    def parse(self, s, eapi="8"):
        me = SimpleNamespace(eapi=self.eapi.get_eapi(eapi), data={"REQUIRED_USE": s},
                             _mk_required_use_node=self.mknode)
        return self.getter(me)

    def walk(self, r):
        if isinstance(r, self.values.ContainmentMatch):
            return ("F", bool(r.negate), bool(r.all), tuple(sorted(r.vals)))
        if isinstance(r, self.packages.Conditional):
            x = r.restriction
            (v,) = tuple(x.vals)
            return ("C", bool(x.negate), v, [self.walk(c) for c in r.payload])
        return ("G", self.rcls[type(r)], bool(r.negate), [self.walk(c) for c in r.restrictions])

    def build(self, t):
        if t[0] == "F":
            return self.values.ContainmentMatch(t[3], match_all=t[2], negate=t[1])
        if t[0] == "C":
            return self.packages.Conditional(
                "use", self.values.ContainmentMatch(t[2], negate=t[1]), tuple(self.build(c) for c in t[3]))
        return self.cls[t[1]](*[self.build(c) for c in t[3]], negate=t[2])

    def depset(self, ts):
        from pkgcore.ebuild import conditionals
        return conditionals.DepSet(tuple(self.build(t) for t in ts), self.values.ContainmentMatch)

    def solve(self, restricts, iuse, ft, ff, pt):
        def run():
            sols = list(self.ru.find_constraint_satisfaction(restricts, set(iuse), set(ft), set(ff), set(pt)))
            return [{k: v for k, v in s.items()} for s in sols]
        return impl_call(run, kinds=KINDS)

    def problem(self, restricts, iuse, ft, ff, pt):
        """the Problem as set up by find_constraint_satisfaction, via a recording subclass"""
        mod = self.ru
        real = getattr(mod, "Problem", None)
        if real is None:
            return None
        rec = []

        class Recorder(real):
            __slots__ = ()

            def __init__(self):
                super().__init__()
                rec.append(self)

        def run():
            mod.Problem = Recorder
            try:
                mod.find_constraint_satisfaction(restricts, set(iuse), set(ft), set(ff), set(pt))
            finally:
                mod.Problem = real
            (p,) = rec
            doms = sorted([FL.index(k), [bool(x) for x in d]] for k, d in p.variables.items())
            cons = []
            for func, vs in p.constraints:
                vl = sorted(vs)
                acc = []
                for n in range(len(vl) + 1):
                    for on in itertools.combinations(vl, n):
                        if func(**{v: (v in on) for v in vl}):
                            acc.append(mask(on))
                cons.append([mask(vl), sorted(acc)])
            # as a set of truth tables, sorted (see Model_C10.ckey): the lru_cache of _compiled_constraints
            # is keyed by DepSet equality, which ignores order and multiplicity of the top-level items
            keyed = {(vm | (sum(1 << m for m in acc) << 8)): [vm, acc] for vm, acc in cons}
            return [doms, [keyed[k] for k in sorted(keyed)]]
        return impl_call(run, kinds=KINDS)


def mask(fs):
    m = 0
    for f in fs:
        m |= 1 << FL.index(f)
    return m


def canon(sols, pref):
    """[is the first solution the preferred assignment?, all solutions sorted by on-mask];
    a solution is [keys mask, on mask]; pref(keys) gives the preferred on-set"""
    if isinstance(sols, Err):
        return sols
    enc = []
    for s in sols:
        for v in s.values():
            if v is not True and v is not False:
                raise TypeError("non-bool value in a solution")
        enc.append([mask(s.keys()), mask(k for k, v in s.items() if v)])
    first = bool(enc) and enc[0][1] == mask(pref(sols[0].keys()))
    return [first, sorted(enc, key=lambda e: e[1])]


def plain(x):
    return x.term if isinstance(x, Raw) else x


def r_sols(res):
    """compact Coq term for a canonical solution list (all key sets equal), else the generic encoding"""
    if isinstance(res, Err) or not res[1] or len({e[0] for e in res[1]}) != 1:
        return res if isinstance(res, Err) or res[1] else Raw("(sols_val %s 0 nil)" % cbool(res[0]))
    return Raw("(sols_val %s %d %s%%N)" % (cbool(res[0]), res[1][0][0], clist([str(e[1]) for e in res[1]], "N")))


def r_prob(pr):
    if isinstance(pr, Err):
        return pr
    ds = clist(["(%d, %s)" % (v, clist([cbool(b) for b in d], "bool")) for v, d in pr[0]], "N * list bool")
    cs = clist(["(%d, %s)" % (m, clist([str(a) for a in acc], "N")) for m, acc in pr[1]], "N * list N")
    return Raw("(prob_val %s%%N %s%%N)" % (ds, cs))


def oracle(ts, iuse, ft, ff, pt, sols, pms=pms):
    """the statement of C10 checked directly on the implementation's output; returns a reason or None"""
    if iuse & ft & ff:
        return None if sols == Err("AssertionError") else "overlapping forced sets did not raise AssertionError"
    if not all(wf(t) and spine_ok(t) for t in ts):
        return None
    if isinstance(sols, Err):
        return "raised %s on a well-formed input" % sols.kind
    ks = sorted(set(iuse).union(*map(flags_of, ts)))
    seen = []
    for s in sols:
        if sorted(s) != ks:
            return "solution keys %s are not IUSE + mentioned flags %s" % (sorted(s), ks)
        on = frozenset(k for k, v in s.items() if v)
        for k, v in s.items():
            if k in iuse and k in ft and not v:
                return "forced-on flag %s is off" % k
            if k in iuse and k in ff and v:
                return "forced-off flag %s is on" % k
            if k not in iuse and v:
                return "flag %s outside IUSE is on" % k
        if not all(pms(t, on) for t in ts):
            return "produced assignment %s does not satisfy the constraint" % sorted(on)
        if on in seen:
            return "assignment %s produced twice" % sorted(on)
        seen.append(on)
    free = [k for k in ks if k in iuse and k not in ft and k not in ff]
    fixed = frozenset(k for k in ks if k in iuse and k in ft)
    want = []
    for n in range(len(free) + 1):
        for c in itertools.combinations(free, n):
            on = fixed | frozenset(c)
            if all(pms(t, on) for t in ts):
                want.append(on)
    for on in want:
        if on not in seen:
            return "satisfying assignment %s is not produced" % sorted(on)
    pref = fixed | frozenset(k for k in free if k in pt)
    if pref in want and seen[0] != pref:
        return "preferred assignment %s satisfies but %s came first" % (sorted(pref), sorted(seen[0]))
    return None


def rand_sets(rng, univ):
    r = rng.random()
    pf = 0.0 if r < 0.25 else 0.18
    ft = {f for f in univ if rng.random() < pf}
    ff = {f for f in univ if rng.random() < pf}
    if rng.random() < 0.85:
        ff -= ft  # mostly respect the precondition; the rest is the error branch
    pt = {f for f in univ if rng.random() < 0.35}
    return ft, ff, pt


# --------------------------------------------------------------------------- the check
def main(chk: Check):
    chk.rule("REQUIRED_USE strings from random trees (||,^^,??,all-of,conditionals,negations; depth<=3; <=5 flags; "
             "1-3 top-level items) parsed by the real getter, every IUSE subset of the tree's flags (+ an "
             "unmentioned flag at random), random forced/preferred sets (15% violate the precondition); "
             "non-trivial = >=2 solutions and >=1 admissible non-solution; plus directly built restriction "
             "objects (malformed stream), the recorded Problem set-up, and raw Problems for contract S")
    ok = chk.build(["C10/Prop_C10.vo"])
    if ok:
        chk.check_assumptions("C10/Prop_C10.v")
    chk.lint(["C10"])
    chk.check_fingerprint(ANCHORS)
    rng = chk.rng
    impl = Impl()

    fcs_cases, fcs_meta, prob_cases, glue_bad, py_bad = [], [], [], [], []
    src_cases, src_meta = [], []

    def one(stream, ts, restricts, iuse, ft, ff, pt, src=None):
        sols = impl.solve(restricts, iuse, ft, ff, pt)
        try:
            res = canon(sols, lambda ks: [k for k in ks if k in iuse and (k in ft or (k in pt and k not in ff))])
        except TypeError:
            res = Err("non-bool")
        term = c_input(ts, iuse, ft, ff, pt)
        fcs_cases.append((term, r_sols(res)))
        meta = {"stream": stream, "source": src, "tree": [show(t) if wf(t) else repr(t) for t in ts],
                "iuse": sorted(iuse), "force_true": sorted(ft), "force_false": sorted(ff),
                "prefer_true": sorted(pt), "ts": ts}
        fcs_meta.append(meta)
        chk.count(stream)
        def judge(tree, m):
            why = oracle(tree, iuse, ft, ff, pt, sols)
            if why:
                # inside the known class the failure is the known finding only if the implication reading
                # explains the result completely
                m["known"] = False
                if in_known_class_cond_member(tree):
                    why2 = oracle(tree, iuse, ft, ff, pt, sols, pms=impl_sem)
                    m["known"] = why2 is None
                    if why2:
                        why = why2 + " (even under the implication reading, i.e. beyond the known finding)"
                py_bad.append((why, m, res))
        judge(ts, meta)
        # end to end: the meaning of the STRING (its own structure), not only of what the parser made of it
        if src is not None:
            src_ts = parse_src(src)
            if src_ts != ts:
                m2 = dict(meta, ts=src_ts, judged="source string")
                judge(src_ts, m2)
                src_cases.append((c_input(src_ts, iuse, ft, ff, pt), r_sols(res)))
                src_meta.append(m2)
        if not isinstance(sols, Err) and len(sols) >= 2:
            free = [k for k in set(iuse) if k not in ft and k not in ff]
            if len(sols) < 2 ** len(free):
                chk.nontrivial((stream, term))
        return res

    # ---- corpus first
    import json
    from .common import VERIF
    for f in sorted((VERIF / "corpus" / "C10").glob("*.json")):
        for e in json.loads(f.read_text()):
            d = impl.parse(e["source"])
            ts = [impl.walk(r) for r in d]
            args = [set(e[k]) for k in ("iuse", "force_true", "force_false", "prefer_true")]
            one("fcs", ts, d, *args, src=e["source"])
            pr = impl.problem(d, *args)
            if pr is not None:
                prob_cases.append((c_input(ts, *args), r_prob(pr)))

    # ---- fcs stream: real strings through the real getter
    n_trees = chk.n(55, 700)
    for _ in range(n_trees):
        nfl = rng.randint(1, 5)
        flags = FL[:nfl]
        src = [gen_tree(rng, rng.choice([1, 2, 2, 3, 3]), flags) for _ in range(rng.randint(1, 3))]
        s = " ".join(show(t) for t in src)
        eapi = rng.choice(["5", "6", "7", "8"])
        d = impl_call(lambda: impl.parse(s, eapi))
        if isinstance(d, Err):
            glue_bad.append({"what": "a valid EAPI %s REQUIRED_USE string is refused" % eapi, "input": s, "error": d.kind})
            continue
        ts = [impl.walk(r) for r in d]
        if parse_src(s) != src:
            raise AssertionError("harness: parse_src disagrees with the generator on " + s)
        if ts != [collapse1(t, True) for t in src]:
            glue_bad.append({"what": "parsed tree is not the source tree with single-child ||, ^^ and all-of groups "
                                     "collapsed (a single-child ?? group must stay: it is always satisfied)",
                             "input": s, "parsed": [show(t) for t in ts]})
        used = sorted(set().union(*map(flags_of, ts))) if ts else []
        subsets = [c for n in range(len(used) + 1) for c in itertools.combinations(used, n)]
        if len(subsets) > 16 and not chk.thorough:
            subsets = rng.sample(subsets, 16)
        for sub in subsets:
            iuse = set(sub)
            if rng.random() < 0.4:
                iuse.add("f")
            ft, ff, pt = rand_sets(rng, list(used) + ["f", "g"])
            one("fcs", ts, d, iuse, ft, ff, pt, src=s)
            if len(prob_cases) < chk.n(150, 2500) and rng.random() < 0.3:
                pr = impl.problem(d, iuse, ft, ff, pt)
                if pr is not None:
                    prob_cases.append((c_input(ts, iuse, ft, ff, pt), r_prob(pr)))
    # a few fixed shapes that must always be present
    for s in ["a", "!a", "|| ( a b )", "^^ ( a b c )", "?? ( a b )", "a? ( b )", "!a? ( b !c )",
              "a? ( b? ( c ) )", "|| ( a ( b c ) )", "^^ ( a ( b !c ) )", "a? ( || ( b c ) ) ?? ( a c )", ""]:
        d = impl.parse(s)
        ts = [impl.walk(r) for r in d]
        used = sorted(set().union(*map(flags_of, ts))) if ts else []
        for iuse in [set(used), set(used[:1]), set(used) | {"f"}]:
            for ft, ff, pt in [(set(), set(), set()), (set(used[:1]), set(), set(used)), (set(), set(used[:1]), {"f"})]:
                one("fcs", ts, d, iuse, ft, ff, pt, src=s)
                pr = impl.problem(d, iuse, ft, ff, pt)
                if pr is not None:
                    prob_cases.append((c_input(ts, iuse, ft, ff, pt), r_prob(pr)))

    # ---- direct stream: restriction objects that parsing never yields
    def gen_direct(depth, flags):
        k = rng.random()
        if depth == 0 or k < 0.35:
            nv = rng.choice([1, 1, 1, 2, 2, 0])
            return ("F", rng.random() < 0.3, rng.random() < 0.08, tuple(sorted(rng.sample(flags, min(nv, len(flags))))))
        if k < 0.55:
            return ("C", rng.random() < 0.3, rng.choice(flags),
                    [gen_direct(depth - 1, flags) for _ in range(rng.choice([0, 1, 1, 2, 3]))])
        return ("G", rng.choice(OPS), rng.random() < 0.3,
                [gen_direct(depth - 1, flags) for _ in range(rng.choice([0, 1, 1, 2, 2, 3]))])

    for _ in range(chk.n(200, 3000)):
        flags = list(FL[:rng.randint(1, 4)])
        ts = [gen_direct(rng.choice([1, 2, 2, 3]), flags) for _ in range(rng.randint(1, 2))]
        d = impl.depset(ts)
        used = sorted(set().union(*map(flags_of, ts)))
        iuse = {f for f in used + ["f"] if rng.random() < 0.7}
        ft, ff, pt = rand_sets(rng, used + ["f"])
        one("direct", ts, d, iuse, ft, ff, pt)
        if rng.random() < 0.3:
            pr = impl.problem(d, iuse, ft, ff, pt)
            if pr is not None:
                prob_cases.append((c_input(ts, iuse, ft, ff, pt), r_prob(pr)))
    chk.count("problem", len(prob_cases))
    chk.count("fcs_src", len(src_cases))
    if not prob_cases:
        chk.note("required_use.Problem not found as a module attribute: problem stream skipped")
    for k in (0, len(fcs_cases) // 3, 2 * len(fcs_cases) // 3):
        m = fcs_meta[k]
        chk.sample({"stream": m["stream"], "required_use": m["source"] or m["tree"], "iuse": m["iuse"],
                    "force_true": m["force_true"], "force_false": m["force_false"],
                    "prefer_true": m["prefer_true"], "impl": plain(fcs_cases[k][1])})

    # ---- solver stream: raw Problems for contract S
    from snakeoil.constraints import Problem
    sol_cases, sol_plain = [], []
    for _ in range(chk.n(350, 6000)):
        nv = rng.randint(0, 5)
        vs = list(FL[:nv])
        doms = []
        for v in vs:
            doms.append((v, rng.choice([(True, False), (False, True), (True, False), (False, True),
                                        (True,), (False,), ()] if rng.random() < 0.9 else [()])))
        rng.shuffle(doms)
        cons = []
        for _ in range(rng.randint(0, 4)):
            cv = sorted(rng.sample(vs, rng.randint(0, min(3, nv))))
            allm = [mask(c) for n in range(len(cv) + 1) for c in itertools.combinations(cv, n)]
            p_acc = rng.choice([0.3, 0.6, 0.85])
            cons.append((cv, sorted(m for m in allm if rng.random() < p_acc)))

        def run():
            p = Problem()
            for v, dvals in doms:
                p.add_variable(dvals, v)
            for cv, table in cons:
                p.add_constraint((lambda table: lambda **kw: mask(k for k, x in kw.items() if x) in table)(table),
                                 frozenset(cv))
            return [dict(s) for s in p]
        lastv = {v: dv[-1] for v, dv in doms if dv}
        res = canon(impl_call(run, kinds=KINDS), lambda ks: [k for k in ks if lastv.get(k)])
        term = cpair(clist([cpair(cN(FL.index(v)), clist([cbool(b) for b in dv], "bool")) for v, dv in doms], "dom"),
                     clist([cpair(clist([cN(FL.index(v)) for v in cv], "N"), clist([cN(m) for m in t], "N"))
                            for cv, t in cons], "tconstr"))
        sol_cases.append((term, r_sols(res)))
        sol_plain.append(res)
        if not isinstance(res, Err) and len(res[1]) >= 2 and any(t for _, t in cons):
            chk.nontrivial(("solver", term))
    chk.count("solver", len(sol_cases))
    chk.sample({"stream": "solver", "input": sol_cases[0][0], "impl": plain(sol_cases[0][1])})

    # ---- glue: EAPI gating
    for e, s, expect in [("3", "|| ( a b )", "empty"), ("4", "|| ( a b )", "ok"), ("4", "?? ( a b )", "error"),
                         ("5", "?? ( a b )", "ok"), ("8", "?? ( a b ) !a? ( b )", "ok"), ("8", "|| ( )", "error"),
                         ("8", "a? b", "error")]:
        d = impl_call(lambda: impl.parse(s, e))
        got = "error" if isinstance(d, Err) else ("empty" if not tuple(d) else "ok")
        chk.count("glue")
        if got != expect:
            glue_bad.append({"what": "EAPI gating of REQUIRED_USE", "eapi": e, "input": s, "expected": expect, "got": got})

    # ---- evaluate model and spec inside Coq
    bad_A, bad_B = [], []
    if ok:
        r = chk.coq_eval("fcs", IMPORTS, "fcs_input", fcs_cases,
                         ["mismatches run_fcs cases", "where_ (fun i r => negb (spec_fcs_ok i r)) cases"], shard=200)
        if r is not None:
            bad_A = [("fcs/direct", fcs_cases[i], fcs_meta[i]) for i in r[0]]
            bad_B = [(fcs_cases[i], fcs_meta[i]) for i in r[1]]
        r = chk.coq_eval("fcs_src", IMPORTS, "fcs_input", src_cases,
                         ["where_ (fun i r => negb (spec_fcs_ok i r)) cases"], shard=200)
        if r is not None:
            bad_B += [(src_cases[i], src_meta[i]) for i in r[0]]
        r = chk.coq_eval("problem", IMPORTS, "fcs_input", prob_cases, ["mismatches run_problem cases"], shard=200)
        if r is not None:
            bad_A += [("problem", prob_cases[i], None) for i in r[0]]
        r = chk.coq_eval("solver", IMPORTS, "solver_input", sol_cases,
                         ["mismatches run_solver cases", "where_ (fun i r => negb (contract_ok i r)) cases"], shard=200)
        if r is not None:
            for i in r[1][:3]:
                chk.violation("correspondence",
                              {"what": "snakeoil Problem breaks the recorded contract S (Spec_C10.contract_ok): the "
                                       "theorems of Prop_C10 assume S", "input": sol_cases[i][0], "implementation": plain(sol_cases[i][1])})
            for i in [i for i in r[0] if i not in r[1]][:3]:
                chk.violation("correspondence",
                              {"what": "snakeoil Problem and Model_C10.solve_ref disagree on a raw problem",
                               "input": sol_cases[i][0], "implementation": plain(sol_cases[i][1])}, no_input=True)

    # ---- property failures (B): concrete inputs, classified
    prop_fail = 0
    seen_known = False
    coq_only = [(c, m) for c, m in bad_B if not any(m is pm for _, pm, _ in py_bad)]
    for why, meta, res in py_bad:
        ex = {k: meta[k] for k in ("source", "tree", "iuse", "force_true", "force_false", "prefer_true")}
        ex["why"] = why
        ex["judged"] = meta.get("judged", "parsed tree")
        if meta["known"] and chk.known_finding("cond-member-of-group", ex):
            seen_known = True
            continue
        prop_fail += 1
        if prop_fail <= 3:
            chk.violation("property", {"what": why, "input": ex, "implementation": res})
    for c, m in coq_only:
        if in_known_class_cond_member(m["ts"]) and not any(m is bm for _, _, bm in bad_A) \
                and chk.known_finding("cond-member-of-group", m["tree"]):
            continue
        prop_fail += 1
        if prop_fail <= 3:
            chk.violation("property", {"what": "Spec_C10.spec_fcs_ok rejects the implementation's result",
                                       "input": c[0], "implementation": plain(c[1])})
    chk.cov["py_oracle_failures_in_known_class"] = sum(1 for _, m, _ in py_bad if m["known"])
    for g in glue_bad[:3]:
        chk.violation("correspondence", g, no_input=False)
    for stream, case, meta in bad_A[:3]:
        chk.violation("correspondence",
                      {"what": f"implementation and Model_C10 disagree on stream '{stream}' "
                               "(theorems of Prop_C10 no longer speak about this code)",
                       "input": case[0], "implementation": plain(case[1]),
                       "readable": None if meta is None else {k: meta[k] for k in meta if k not in ("ts", "known")}},
                      no_input=(prop_fail == 0))


def replay(chk: Check, data):
    """re-run one recorded case (needs detail.input with source/iuse/force_true/force_false/prefer_true)
    against implementation, Python oracle (spec), and model + spec inside Coq"""
    det = data.get("detail", {})
    inp = det.get("input") if isinstance(det.get("input"), dict) else det.get("readable")
    if not isinstance(inp, dict) or not inp.get("source") and inp.get("source") != "":
        print("replay: this record has no REQUIRED_USE source string; the Coq input term is in detail.input")
        return
    impl = Impl()
    d = impl.parse(inp["source"])
    ts = [impl.walk(r) for r in d]
    iuse, ft, ff, pt = (set(inp[k]) for k in ("iuse", "force_true", "force_false", "prefer_true"))
    sols = impl.solve(d, iuse, ft, ff, pt)
    res = canon(sols, lambda ks: [k for k in ks if k in iuse and (k in ft or (k in pt and k not in ff))])
    print("implementation:", sols)
    print("python oracle (PMS):", oracle(ts, iuse, ft, ff, pt, sols) or "accepts")
    print("in known class cond-member-of-group:", in_known_class_cond_member(ts))
    if chk.build(["C10/Spec_C10.vo"]):
        r = chk.coq_eval("replay", IMPORTS, "fcs_input", [(c_input(ts, iuse, ft, ff, pt), r_sols(res))],
                         ["mismatches run_fcs cases", "where_ (fun i r => negb (spec_fcs_ok i r)) cases"])
        if r is not None:
            print("model (Model_C10.run_fcs):", "disagrees" if r[0] else "agrees")
            print("spec (Spec_C10.spec_fcs_ok):", "rejects" if r[1] else "accepts")
