(* Proofs_C48.v — lemmas and proofs for C48; the property theorems are re-exported in Prop_C48.v. *)
From Coq Require Import List NArith ZArith Bool Arith Lia.
Import ListNotations.
From Verif Require Import Base.Val C48.Model_C48 C48.Spec_C48.
Local Open Scope N_scope.

(* ------------------------------------------------------------------ the stacked eclass view *)
Lemma ec_lookup_visible st n f : ec_lookup st n = Some f <-> visible st n f.
Proof.
  split.
  - revert f. induction st as [|repo r IH]; cbn; intros f H; [discriminate|].
    destruct (assoc n repo) as [f'|] eqn:E.
    + injection H as <-. exists [], repo, r. repeat split; auto. intros x [].
    + destruct (IH f H) as (pre & repo' & post & -> & Ha & Hp).
      exists (repo :: pre), repo', post. repeat split; auto.
      intros x [<-|Hx]; auto.
  - intros (pre & repo & post & -> & Ha & Hp). induction pre as [|x pre IH]; cbn.
    + rewrite Ha. reflexivity.
    + rewrite (Hp x (or_introl eq_refl)). apply IH. intros y Hy. apply Hp. now right.
Qed.

Lemma ecl_same_refl lay f : ecl_same lay f f = true.
Proof. destruct lay; cbn; rewrite ?N.eqb_refl; reflexivity. Qed.

Lemma ecl_ok_still lay st r : ecl_ok lay st r = true <-> eclass_still lay st r.
Proof.
  unfold ecl_ok, eclass_still. split.
  - destruct (ec_lookup st (fst r)) as [now|] eqn:E; [|discriminate]. intro H.
    exists now. split; [apply ec_lookup_visible; exact E|].
    destruct lay; cbn in H.
    + apply andb_true_iff in H as [H1 H2]. apply N.eqb_eq in H1, H2. auto.
    + apply N.eqb_eq in H. exact H.
  - intros [now [Hv H]]. apply ec_lookup_visible in Hv. rewrite Hv.
    destruct lay; cbn.
    + destruct H as [-> ->]. rewrite !N.eqb_refl. reflexivity.
    + rewrite H. apply N.eqb_refl.
Qed.

Lemma validate_spec lay w e : validate lay w e = true <-> spec_valid lay w e.
Proof.
  unfold validate, spec_valid. destruct (c_chf e =? chf_of lay (w_ebuild w)) eqn:Ec; cbn [negb].
  - apply N.eqb_eq in Ec. destruct (c_ecl e) as [l|].
    + destruct (c_inherit e) eqn:Ei; cbn [negb].
      * unfold rebuild_ok. rewrite forallb_forall. split.
        -- intro H. split; [exact Ec|]. right. exists l. repeat split; auto.
           intros r Hr. apply ecl_ok_still. auto.
        -- intros [_ [H|[l' [El [_ H]]]]]; [discriminate|]. injection El as <-.
           intros r Hr. apply ecl_ok_still. auto.
      * split; [discriminate|]. intros [_ [H|[l' [_ [H _]]]]]; discriminate.
    + split; [intros _; split; [exact Ec|now left]|reflexivity].
  - split; [discriminate|]. intros [H _]. apply N.eqb_neq in Ec. contradiction.
Qed.

(* ------------------------------------------------------------------ the scan over the caches *)
Definition invalid (w : world) (c : cache) : Prop :=
  forall e, c_slot c = Entry e -> validate (c_lay c) w e = false.

Lemma invalid_not_valid w c : invalid w c <-> ~ cache_valid w c.
Proof.
  unfold invalid, cache_valid. split.
  - intros H [e [Es Hv]]. apply validate_spec in Hv. rewrite (H e Es) in Hv. discriminate.
  - intros H e Es. destruct (validate (c_lay c) w e) eqn:V; [|reflexivity].
    exfalso. apply H. exists e. split; [exact Es|]. apply validate_spec. exact V.
Qed.

(* what the scan does to a cache it passes: a stale entry of a writable cache is deleted *)
Definition purge (c : cache) : cache :=
  match c_slot c with
  | Entry _ => if c_ro c then c else with_slot c Absent
  | _ => c
  end.

Lemma scan_all_invalid w cs : forall k, Forall (invalid w) cs -> scan w k cs = (None, map purge cs).
Proof.
  induction cs as [|c r IH]; intros k H; [reflexivity|]. inversion H as [|? ? Hc Hr]; subst.
  cbn [scan map]. unfold purge at 1. destruct (c_slot c) as [| |e] eqn:Es.
  - rewrite (IH (S k) Hr). reflexivity.
  - rewrite (IH (S k) Hr). reflexivity.
  - rewrite (Hc e Es), (IH (S k) Hr). reflexivity.
Qed.

Lemma scan_decomp w pre c e post : forall k,
  Forall (invalid w) pre -> c_slot c = Entry e -> validate (c_lay c) w e = true ->
  scan w k (pre ++ c :: post) = (Some ((k + length pre)%nat, c_payload e), map purge pre ++ c :: post).
Proof.
  induction pre as [|x pre IH]; intros k H Es Hv.
  - cbn [app scan length map]. rewrite Es, Hv, Nat.add_0_r. reflexivity.
  - inversion H as [|? ? Hx Hp]; subst. cbn [app scan length map]. unfold purge at 1.
    rewrite (IH (S k) Hp Es Hv). replace (S k + length pre)%nat with (k + S (length pre))%nat by lia.
    destruct (c_slot x) as [| |ex] eqn:Ex; try reflexivity.
    rewrite (Hx ex Ex). reflexivity.
Qed.

Lemma first_valid_split w cs :
  Forall (invalid w) cs \/
  exists pre c e post, cs = pre ++ c :: post /\ Forall (invalid w) pre /\
                       c_slot c = Entry e /\ validate (c_lay c) w e = true.
Proof.
  induction cs as [|c r IH]; [left; constructor|].
  destruct (c_slot c) as [| |e] eqn:Es.
  - destruct IH as [H|(pre & c' & e' & post & -> & Hp & Es' & Hv)].
    + left. constructor; [intros e He; congruence|exact H].
    + right. exists (c :: pre), c', e', post. repeat split; auto. constructor; [intros e He; congruence|exact Hp].
  - destruct IH as [H|(pre & c' & e' & post & -> & Hp & Es' & Hv)].
    + left. constructor; [intros e He; congruence|exact H].
    + right. exists (c :: pre), c', e', post. repeat split; auto. constructor; [intros e He; congruence|exact Hp].
  - destruct (validate (c_lay c) w e) eqn:V.
    + right. exists [], c, e, r. repeat split; auto.
    + destruct IH as [H|(pre & c' & e' & post & -> & Hp & Es' & Hv)].
      * left. constructor; [intros e0 He; rewrite Es in He; injection He as <-; exact V|exact H].
      * right. exists (c :: pre), c', e', post. repeat split; auto.
        constructor; [intros e0 He; rewrite Es in He; injection He as <-; exact V|exact Hp].
Qed.

(* the read, in closed form *)
Lemma get_metadata_regen w cs : Forall (invalid w) cs ->
  get_metadata w cs = (Regen (w_payload w), store_first w (map purge cs)).
Proof. intro H. unfold get_metadata. rewrite (scan_all_invalid w cs 0%nat H). reflexivity. Qed.

Lemma get_metadata_used w pre c e post :
  Forall (invalid w) pre -> c_slot c = Entry e -> validate (c_lay c) w e = true ->
  get_metadata w (pre ++ c :: post) = (Used (length pre) (c_payload e), map purge pre ++ c :: post).
Proof. intros H Es Hv. unfold get_metadata. rewrite (scan_decomp w pre c e post 0%nat H Es Hv). reflexivity. Qed.

(* ------------------------------------------------------------------ used <-> valid *)
Theorem used_iff_valid_proof : forall w cs i p,
  fst (get_metadata w cs) = Used i p <->
  exists pre c post e,
    cs = pre ++ c :: post /\ length pre = i /\ c_slot c = Entry e /\
    spec_valid (c_lay c) w e /\ c_payload e = p /\ Forall (fun c' => ~ cache_valid w c') pre.
Proof.
  intros w cs i p. split.
  - intro H. destruct (first_valid_split w cs) as [Ha|(pre & c & e & post & -> & Hp & Es & Hv)].
    + rewrite (get_metadata_regen w cs Ha) in H. discriminate.
    + rewrite (get_metadata_used w pre c e post Hp Es Hv) in H. cbn in H. injection H as <- <-.
      exists pre, c, post, e. split; [reflexivity|]. split; [reflexivity|]. split; [exact Es|].
      split; [apply validate_spec; exact Hv|]. split; [reflexivity|].
      eapply Forall_impl; [|exact Hp]. intros x. apply invalid_not_valid.
  - intros (pre & c & post & e & -> & <- & Es & Hv & <- & Hp).
    rewrite (get_metadata_used w pre c e post); auto.
    + eapply Forall_impl; [|exact Hp]. intros x. apply invalid_not_valid.
    + apply validate_spec. exact Hv.
Qed.

Theorem regen_iff_none_valid_proof : forall w cs p,
  fst (get_metadata w cs) = Regen p <-> p = w_payload w /\ Forall (fun c => ~ cache_valid w c) cs.
Proof.
  intros w cs p. split.
  - intro H. destruct (first_valid_split w cs) as [Ha|(pre & c & e & post & -> & Hp & Es & Hv)].
    + rewrite (get_metadata_regen w cs Ha) in H. cbn in H. injection H as <-. split; [reflexivity|].
      eapply Forall_impl; [|exact Ha]. intros x. apply invalid_not_valid.
    + rewrite (get_metadata_used w pre c e post Hp Es Hv) in H. discriminate.
  - intros [-> H]. rewrite (get_metadata_regen w cs); [reflexivity|].
    eapply Forall_impl; [|exact H]. intros x. apply invalid_not_valid.
Qed.

(* the statement for one cache, as in the property text *)
Theorem single_cache_proof : forall w c,
  (exists p, fst (get_metadata w [c]) = Used 0 p) <-> cache_valid w c.
Proof.
  intros w c. split.
  - intros [p H]. apply used_iff_valid_proof in H as (pre & c' & post & e & E & L & Es & Hv & _).
    destruct pre; [|discriminate]. cbn in E. injection E as <- _. now exists e.
  - intros [e [Es Hv]]. exists (c_payload e). apply used_iff_valid_proof.
    exists [], c, [], e. split; [reflexivity|]. split; [reflexivity|]. split; [exact Es|].
    split; [exact Hv|]. split; [reflexivity|constructor].
Qed.


(* ------------------------------------------------------------------ what a read does to the caches *)
(* a cache the scan passed over: untouched if read-only or not holding an entry; a (stale)
   entry of a writable cache is deleted *)
Definition passed_rel (c c' : cache) : Prop :=
  same_cfg c c' /\
  (c_ro c = true -> c_slot c' = c_slot c) /\
  (c_ro c = false -> (forall e, c_slot c = Entry e -> c_slot c' = Absent) /\
                     ((forall e, c_slot c <> Entry e) -> c_slot c' = c_slot c)).
(* a cache after a regeneration: read-only ones untouched; a writable one holds the fresh
   entry, or nothing, or the unreadable file it held before — never a stale entry *)
Definition regen_rel (w : world) (c c' : cache) : Prop :=
  same_cfg c c' /\
  (c_ro c = true -> c_slot c' = c_slot c) /\
  (c_ro c = false -> c_slot c' = Entry (fresh (c_lay c) w) \/ c_slot c' = Absent \/
                     (c_slot c' = Corrupt /\ c_slot c = Corrupt)).

Lemma purge_cfg c : same_cfg c (purge c).
Proof. unfold purge, same_cfg. destruct (c_slot c); try (repeat split; reflexivity). destruct (c_ro c) eqn:E; repeat split; cbn; auto. Qed.

Lemma purge_slot c :
  c_slot (purge c) = match c_slot c with Entry e => if c_ro c then Entry e else Absent | s => s end.
Proof. unfold purge. destruct (c_slot c) eqn:E; try exact E. destruct (c_ro c); [exact E|reflexivity]. Qed.

Lemma purge_passed c : passed_rel c (purge c).
Proof.
  split; [apply purge_cfg|]. rewrite purge_slot. split.
  - intro Hro. rewrite Hro. destruct (c_slot c); reflexivity.
  - intro Hro. rewrite Hro. split.
    + intros e Es. rewrite Es. reflexivity.
    + intro Hn. destruct (c_slot c) as [| |e] eqn:Es; try reflexivity. exfalso. exact (Hn e eq_refl).
Qed.

Lemma purge_regen w c : regen_rel w c (purge c).
Proof.
  split; [apply purge_cfg|]. rewrite purge_slot. split.
  - intro Hro. rewrite Hro. destruct (c_slot c); reflexivity.
  - intro Hro. rewrite Hro. destruct (c_slot c) as [| |e] eqn:Es.
    + right. left. reflexivity.
    + right. right. split; reflexivity.
    + right. left. reflexivity.
Qed.

Lemma purge_invalid w c : invalid w c -> invalid w (purge c).
Proof.
  unfold invalid. intros H e. rewrite purge_slot. destruct (purge_cfg c) as (-> & _).
  destruct (c_slot c) as [| |e0] eqn:Es; try discriminate.
  destruct (c_ro c); [|discriminate]. intro E. injection E as <-. apply H. reflexivity.
Qed.

Lemma writable_purge c : writable (purge c) = writable c.
Proof. destruct (purge_cfg c) as (_ & H1 & H2). unfold writable. rewrite H1, H2. reflexivity. Qed.

Lemma store_first_split w pre c post :
  Forall (fun x => writable x = false) pre -> writable c = true ->
  store_first w (map purge (pre ++ c :: post)) =
  map purge pre ++ with_slot (purge c) (Entry (fresh (c_lay c) w)) :: map purge post.
Proof.
  intros Hp Hc. induction Hp as [|x pre Hx Hp IH]; cbn [app map store_first].
  - fold (writable (purge c)). rewrite writable_purge, Hc.
    destruct (purge_cfg c) as (-> & _). reflexivity.
  - fold (writable (purge x)). rewrite writable_purge, Hx. rewrite IH. reflexivity.
Qed.

Lemma store_first_none w cs : Forall (fun x => writable x = false) cs -> store_first w cs = cs.
Proof.
  induction 1 as [|x r Hx Hr IH]; cbn [store_first]; [reflexivity|].
  fold (writable x). rewrite Hx, IH. reflexivity.
Qed.

Lemma first_writable_split (cs : list cache) :
  Forall (fun x => writable x = false) cs \/
  exists pre c post, cs = pre ++ c :: post /\ Forall (fun x => writable x = false) pre /\ writable c = true.
Proof.
  induction cs as [|c r IH]; [left; constructor|]. destruct (writable c) eqn:W.
  - right. exists [], c, r. repeat split; auto.
  - destruct IH as [H|(pre & c' & post & -> & Hp & Hc)].
    + left. constructor; assumption.
    + right. exists (c :: pre), c', post. repeat split; auto.
Qed.

Lemma regen_forall2 w cs : Forall2 (regen_rel w) cs (store_first w (map purge cs)).
Proof.
  induction cs as [|c r IH]; cbn [map store_first]; [constructor|].
  fold (writable (purge c)). rewrite writable_purge. destruct (writable c) eqn:W.
  - constructor.
    + destruct (purge_cfg c) as (L & R & F). split; [repeat split; assumption|]. split.
      * intro Hro. unfold writable in W. rewrite Hro in W. discriminate.
      * intros _. left. cbn. rewrite L. reflexivity.
    + clear IH. induction r; cbn; constructor; [apply purge_regen|assumption].
  - constructor; [apply purge_regen|exact IH].
Qed.

Theorem stale_replaced_proof : forall w cs p cs',
  get_metadata w cs = (Regen p, cs') ->
  Forall2 (regen_rel w) cs cs' /\
  forall pre c post, cs = pre ++ c :: post ->
    Forall (fun x => writable x = false) pre -> writable c = true ->
    exists c', nth_error cs' (length pre) = Some c' /\ c_slot c' = Entry (fresh (c_lay c) w).
Proof.
  intros w cs p cs' H.
  destruct (first_valid_split w cs) as [Ha|(pre & c & e & post & -> & Hp & Es & Hv)].
  2:{ rewrite (get_metadata_used w pre c e post Hp Es Hv) in H. discriminate. }
  rewrite (get_metadata_regen w cs Ha) in H. injection H as _ <-. split; [apply regen_forall2|].
  intros pre c post -> Hp Hc. rewrite (store_first_split w pre c post Hp Hc).
  exists (with_slot (purge c) (Entry (fresh (c_lay c) w))). split; [|reflexivity].
  rewrite nth_error_app2 by (rewrite map_length; lia). rewrite map_length, Nat.sub_diag. reflexivity.
Qed.

Theorem used_keeps_proof : forall w cs i p cs',
  get_metadata w cs = (Used i p, cs') ->
  exists pre c post pre',
    cs = pre ++ c :: post /\ cs' = pre' ++ c :: post /\ length pre = i /\ Forall2 passed_rel pre pre'.
Proof.
  intros w cs i p cs' H.
  destruct (first_valid_split w cs) as [Ha|(pre & c & e & post & -> & Hp & Es & Hv)].
  - rewrite (get_metadata_regen w cs Ha) in H. discriminate.
  - rewrite (get_metadata_used w pre c e post Hp Es Hv) in H. injection H as <- _ <-.
    exists pre, c, post, (map purge pre). repeat split; auto.
    clear. induction pre; cbn; constructor; [apply purge_passed|assumption].
Qed.

(* ------------------------------------------------------------------ the regenerated entry is valid *)
Definition fresh_ok (w : world) : Prop := w_inherit_key w = true \/ w_inherited w = [].

Lemma fresh_valid lay w : fresh_ok w -> validate lay w (fresh lay w) = true.
Proof.
  intro Hok. unfold validate, fresh. cbn [c_chf c_ecl c_inherit]. rewrite N.eqb_refl. cbn [negb].
  destruct (w_inherited w) as [|n l] eqn:Ei; [reflexivity|].
  destruct Hok as [Hk|Hk]; [|congruence]. rewrite Hk. cbn [negb].
  unfold rebuild_ok. apply forallb_forall. intros r Hr. apply in_flat_map in Hr as [m [_ Hr]].
  destruct (ec_lookup (w_stack w) m) as [f|] eqn:E; [|destruct Hr]. destruct Hr as [<-|[]].
  unfold ecl_ok. cbn [fst snd]. rewrite E. apply ecl_same_refl.
Qed.

Theorem reread_proof : forall w cs p cs',
  get_metadata w cs = (Regen p, cs') -> existsb writable cs = true -> fresh_ok w ->
  exists i, fst (get_metadata w cs') = Used i (w_payload w).
Proof.
  intros w cs p cs' H Hw Hok.
  destruct (first_valid_split w cs) as [Ha|(pre & c & e & post & -> & Hp & Es & Hv)].
  2:{ rewrite (get_metadata_used w pre c e post Hp Es Hv) in H. discriminate. }
  rewrite (get_metadata_regen w cs Ha) in H. injection H as _ <-.
  destruct (first_writable_split cs) as [Hn|(pre & c & post & -> & Hp & Hc)].
  - exfalso. apply existsb_exists in Hw as [x [Hx Wx]]. rewrite Forall_forall in Hn. rewrite (Hn x Hx) in Wx. discriminate.
  - rewrite (store_first_split w pre c post Hp Hc).
    exists (length (map purge pre)).
    rewrite (get_metadata_used w (map purge pre) _ (fresh (c_lay c) w) (map purge post)).
    + reflexivity.
    + apply Forall_app in Ha as [Ha _]. clear -Ha. induction Ha; cbn; constructor; [apply purge_invalid|]; assumption.
    + reflexivity.
    + cbn [c_lay with_slot]. destruct (purge_cfg c) as (-> & _). apply fresh_valid. exact Hok.
Qed.

(* ------------------------------------------------------------------ non-vacuity *)
Definition ex_stack : stack := [[(1, mk_f 1 100 7)]; [(1, mk_f 2 90 7); (2, mk_f 2 50 9)]].
Definition ex_world : world := mk_w (mk_f 0 1000 42) ex_stack [1; 2] true 5.
Definition ex_good : slot := mk_e 1000 (Some [(1, mk_f 1 100 0); (2, mk_f 2 50 0)]) true 4.
Definition ex_moved : slot := mk_e 1000 (Some [(1, mk_f 2 100 0)]) true 3.      (* eclass 1 recorded in repo 2 *)
Example ex_used : fst (get_metadata ex_world [mk_c Flat false false ex_moved; mk_c Flat true false ex_good]) = Used 1 4.
Proof. reflexivity. Qed.
Example ex_purged : snd (get_metadata ex_world [mk_c Flat false false ex_moved; mk_c Flat true false ex_good])
                    = [mk_c Flat false false Absent; mk_c Flat true false ex_good].
Proof. reflexivity. Qed.
Example ex_regen : fst (get_metadata ex_world [mk_c Flat true false ex_moved; mk_c Md5 false false Corrupt]) = Regen 5.
Proof. reflexivity. Qed.
Example ex_valid : cache_valid ex_world (mk_c Flat true false ex_good).
Proof. eexists. split; [reflexivity|]. apply validate_spec. reflexivity. Qed.
(* the md5 layout does not record the location: the moved eclass is still valid there *)
Example ex_md5_moved : validate Md5 ex_world {| c_chf := 42; c_ecl := Some [(1, mk_f 2 0 7)]; c_inherit := true; c_payload := 1 |} = true
                    /\ validate Flat ex_world {| c_chf := 1000; c_ecl := Some [(1, mk_f 2 100 0)]; c_inherit := true; c_payload := 1 |} = false.
Proof. split; reflexivity. Qed.
