"""C34 — saved-environment filtering removes exactly the named definitions (DESIGN §6 C34).

Streams
  dump    random variables (all quoting styles bash's `set` emits) and functions (bodies built
          from a command grammar, normalised by bash's own `declare -f`) are DEFINED IN REAL BASH
          and dumped by bash; the dump is filtered by filter_env.main_run with random name lists
          (blacklist and whitelist mode).
            A  implementation vs Model_C34.main_run                       (in Coq)
            B1 implementation vs Spec_C34.spec_dump_ok: output = the concatenation of exactly the
               surviving rendered definitions (no stray bytes)            (in Coq)
            B2 bash as oracle: the filtered text is sourced in a clean bash; every surviving
               definition has the same `declare -p` / `declare -f` as after sourcing the unfiltered
               dump, every removed one is undefined
  render  Spec_C34.render (the dump AST of the theorems) vs the text bash printed (ties the
          spec's renderer to real bash)                                    (in Coq)
  raw     hand-written snippets (tests/ebuild/test_filter_env.py shapes), mutated dumps and random
          strings over the scanner's special characters: implementation vs model only
"""

import io
import os
import re
import shutil
import signal
import subprocess
import tempfile

from .common import Check, Err, Raw, cbool, clist, cpair, cstr, impl_call, shrink_list

IMPORTS = ("From Coq Require Import List NArith ZArith Bool.\n"
           "From Verif Require Import Base.Val C34.Model_C34 C34.Spec_C34.")
ANCHORS = ["ebuild/filter_env.py"]
BASH = ["env", "-i", "LC_ALL=C", "PATH=/usr/bin:/bin", "bash", "--norc", "--noprofile"]


# ------------------------------------------------------------------------------- generator
VAR_NAMES = ["FOO", "BAR", "PV", "S", "A_b", "x1", "CFLAGS", "_u", "D", "EPREFIX", "T9", "zz"]
FUNC_NAMES = ["src_unpack", "src_compile", "pkg_setup", "tc-arch", "foo", "bar", "_h", "f1",
              "econf", "use_enable", "x", "die"]
OTHER_NAMES = ["MISC", "KEEPME", "OPT", "NN"]

PLAIN = "abcxyzAZ019_-+./:,@%"


def g_plain(rng, lo=1, hi=6):
    return "".join(rng.choice(PLAIN) for _ in range(rng.randint(lo, hi)))


def g_value(rng):
    """A scalar value; returns (value, feature)."""
    k = rng.randrange(12)
    if k == 0:
        return "", "empty"
    if k <= 2:
        return g_plain(rng, 1, 10), "bare"
    if k == 3:
        return g_plain(rng) + " " + g_plain(rng), "space"
    if k == 4:
        return g_plain(rng, 0, 3) + "'" + g_plain(rng, 0, 3) + rng.choice(["", "'", " 'x y'"]), "squote"
    if k == 5:
        return rng.choice(["a\nb", "l1\n}\nl2", "\ttab", "x\n", "\n{\n", "a\rb", "\x01\x7f", "e\x1b[0m"]) + g_plain(rng, 0, 3), "ansi"
    if k == 6:
        return rng.choice(["}", "{", "};", "{ }", "() {", "a}b", "f() { :; }", "}\n"]) + g_plain(rng, 0, 2), "brace"
    if k == 7:
        return rng.choice(["$x", "${y}", "$(z)", "`w`", "$((1))", "\\", "a\\b", "\\'", '"q"', 'a"b', "$'"]) + g_plain(rng, 0, 2), "dollar"
    if k == 8:
        return rng.choice(["#c", "a #b", ";", "a;b", "x=y", "a=b c=d", "<<EOF", "(p)", "a(b", ")", "&|<>", "*?[a]", "~", "!"]), "meta"
    if k == 9:
        return "".join(rng.choice(" '\"$`\\{}()#;=\n\tab<-") for _ in range(rng.randint(1, 8))), "soup"
    if k == 10:
        return g_plain(rng) + rng.choice(["'\n'", "\\\n", "'}'", "\"}\"", "$'\\''"]), "mix"
    return g_plain(rng, 8, 30), "long"


def sq(s):
    return "'" + s.replace("'", "'\\''") + "'"


def g_var(rng, name):
    """Returns (bash source defining it, feature set)."""
    if rng.random() < 0.22:
        n = rng.randint(0, 4)
        vals = [g_value(rng) for _ in range(n)]
        if rng.random() < 0.3 and n:
            idx = sorted(rng.sample(range(12), n))
            src = f"{name}=(" + " ".join(f"[{i}]={sq(v)}" for i, (v, _) in zip(idx, vals)) + ")"
        else:
            src = f"{name}=(" + " ".join(sq(v) for v, _ in vals) + ")"
        return src, {"array"} | {"arr-" + f for _, f in vals}
    v, f = g_value(rng)
    return f"{name}={sq(v)}", {"val-" + f}


TRIGGERS = ["open-brace-word", "quoted-brace-in-expansion", "close-brace-word", "assign-closes-cmdsub",
            "heredoc-in-group", "escaped-brace-expansion-in-group"]


class BodyGen:
    """Random function bodies as bash source.  Every construct used is recorded in self.feat.
    `trig` = None: only constructs the scanner is expected to nest correctly; otherwise exactly
    one occurrence of the named trigger shape (a known mis-nesting class) is planted."""

    def __init__(self, rng, depth, trig=None, simple=False):
        self.plainmode = simple   # only constructs inside the proved token grammar (Spec_C34.body_ok)
        self.rng = rng
        self.feat = set()
        self.maxdepth = depth
        self.trig = trig
        self.planted = False
        self.brace_depth = 0  # > 0 anywhere below a {...} group (brace-unsafe shapes are avoided there)
        self.ctx = "top"      # which walker scans the current text: top (process_scope), brace, paren (walk_escaped)

    def word_part(self, d, indq=False, insub=False):
        r = self.rng
        k = r.randrange(22 if not indq else 12)
        if insub:      # inside $( ) / backquotes: plain material only
            k = r.choice([0, 1, 3, 7, 12, 16, 17, 21]) if not indq else r.choice([0, 3, 10, 11])
        if self.plainmode:
            k = r.choice([0, 1, 2, 4, 8, 10, 12, 13, 16, 17]) if not indq else r.choice([0, 1, 10, 11])
            if k == 4:
                self.feat.add("pe-op")
                return "${x" + r.choice([":-", ":+", "-", "%", "%%", "#", "##", "/", "//"]) + g_plain(r, 0, 4) + "}"
        if k <= 2:
            return g_plain(r)
        if k == 3:
            self.feat.add("var")
            return r.choice(["$x", "$1", "$@", "$#", "$?", "$$", "${x}", "${#x}", "${x[@]}", "${!x}", "$_a", "${x:1:2}",
                             "${$}", "${?}", "${#}", "${!}", "${@}", "${*}", "${-}", "${0}", "${10}", "${#x[@]}", "${x[0]}",
                             "${x:-$$}", "${x:-${$}}", "$!", "$-", "$*"])
        if k == 4:
            self.feat.add("pe-op")
            return "${x" + r.choice([":-", ":+", "-", "%", "%%", "#", "##", "/", "//", ":="]) + self.pe_word(d, indq) + "}"
        if k == 5:
            self.feat.add("pe-brace")
            if self.brace_depth > 0 and not indq:
                return "${x" + r.choice(["%", "%%", "#", "//", ":-", "/"]) + r.choice(["a", "*", "a*b"]) + "}"
            return "${x" + r.choice(["%", "%%", "#", "//", ":-", "/"]) + r.choice(["\\}", "\\}*", "a\\}b", "\\}/\\{", "\\{", "{"]) + "}"
        if k == 6 and d < self.maxdepth:
            self.feat.add("cmdsub")
            old, self.ctx = self.ctx, "top"
            t = "$(" + self.sublist(d + 1) + ")"
            self.ctx = old
            return t
        if k == 7:
            self.feat.add("arith")
            return "$((" + r.choice(["1+2", "x<<2", "(1+2)*3", "x>1?2:3", "a[1]", "x%2", "1 << 3", "x++"]) + "))"
        if k == 8:
            self.feat.add("esc")
            return r.choice(["\\}", "\\{", "\\$", "\\\\", "\\\"", "\\`"] if indq else
                            ["\\}", "\\{", "\\;", "\\'", "\\\"", "\\ ", "\\#", "\\(", "\\)", "\\$", "\\\\"])
        if k == 9 and d < self.maxdepth and not insub:
            self.feat.add("backquote")
            old, self.ctx = self.ctx, "paren"
            t = "`" + self.simple(d + 1, insub=True) + "`"
            self.ctx = old
            return t
        if k == 10:
            self.feat.add("brace-char")
            return r.choice(["}", "{", "{}", "}{", "a}", "{a", "};"]) if indq else r.choice(["{a,b}", "{}", "a}", "{1..3}", "x{a,b}y"] if self.brace_depth == 0 else ["{a,b}", "{}", "{1..3}", "x{a,b}y"])
        if k == 11:
            self.feat.add("hash-char")
            return r.choice(["#", "a#b", "#}"]) if indq else r.choice(["a#b", "x#"])
        if k == 12:
            self.feat.add("sq")
            if insub:
                return "'" + "".join(r.choice("ab }{#;") for _ in range(r.randint(0, 4))) + "'"
            return "'" + "".join(r.choice("ab }{#;$\"()`\\<\n") for _ in range(r.randint(0, 6))) + "'"
        if k == 13 or k == 14:
            self.feat.add("dq")
            return '"' + "".join(self.word_part(d, indq=True, insub=insub) if r.random() < 0.7 else r.choice([" ", "'", "(", ")", ";", "\n"])
                                 for _ in range(r.randint(0, 4))) + '"'
        if k == 15:
            self.feat.add("ansi")
            return "$'" + r.choice(["a\\nb", "\\'", "}\\'{", "\\\\", "x\\ty", "\\'}"]) + "'"
        if k == 16:
            self.feat.add("glob")
            return r.choice(["*", "?", "[a-z]*", "*.c"])
        if k == 17:
            self.feat.add("tilde-eq")
            return r.choice(["~", "a=b", "--opt=val", "-f", "--x={}"])
        return g_plain(r)

    def pe_word(self, d, indq=False):
        r = self.rng
        k = r.randrange(6)
        if k == 0:
            return ""
        if k == 1:
            return g_plain(r)
        if k == 2:
            return "$y"
        if k == 3:
            return "${y:-" + g_plain(r) + "}"
        if indq:
            return g_plain(r)
        if k == 4:
            return "'" + g_plain(r) + " '"
        return '"' + g_plain(r) + ' $z"'

    def word(self, d, insub=False):
        return "".join(self.word_part(d, insub=insub) for _ in range(self.rng.choice([1, 1, 1, 2, 2, 3])))

    def trigger_word(self):
        """The planted mis-nesting shape, when it is a word."""
        r = self.rng
        t = self.trig
        if t == "open-brace-word":
            return r.choice(["x{", "{a", "}{", "${x%\\{}{", "a{b"])
        if t == "quoted-brace-in-expansion":
            return r.choice(["${x%'}'}", "${x%\"}\"}", "\"${x%\"}\"}\"", "${x:-\"a}b\"}", "${x//'}'/y}"])
        if t == "assign-closes-cmdsub":
            return r.choice(["$(v=1)", "$(echo a; v=b)", "\"$(v=(1 2))\""])
        return None

    def simple(self, d, insub=False):
        r = self.rng
        cmd = r.choice(["echo", "echo", ":", "emake", "local", "einfo", "cd", "[", "printf", "true"])
        if insub and cmd == "local":
            cmd = "echo"
        if self.plainmode:
            ws = [self.word(d) for _ in range(r.randint(0, 4))]
            cmd = r.choice(["echo", ":", "emake", "einfo", "cd", "printf", "true", "local"])
            s = cmd + "".join(" " + w for w in ws)
            if r.random() < 0.15:
                s += r.choice([" > /dev/null", " 2>&1", " >&2", " &> /dev/null"])
            return s
        n = r.randint(0, 4)
        ws = [self.word(d, insub=insub) for _ in range(n)]
        if not self.planted and self.trig and d <= 1 and not insub and r.random() < 0.5:
            tw = self.trigger_word()
            if tw is not None:
                ws.insert(r.randint(0, len(ws)), tw)
                self.planted = True
                self.feat.add("TRIG-" + self.trig)
        if cmd == "[":
            return "[ " + (ws[0] if ws else "a") + " = " + (ws[1] if len(ws) > 1 else "b") + " ]"
        if cmd == "local":
            self.feat.add("local")
            return "local v" + ("=" + ws[0] if ws else "")
        s = cmd + "".join(" " + w for w in ws)
        k = r.randrange(14)
        if k == 0 and not insub:
            self.feat.add("assign-prefix")
            s = "V=" + self.word(d) + " " + s
        elif k == 1:
            self.feat.add("redir")
            s += r.choice([" > /dev/null", " 2>&1", " >> \"$T\"/log", " < /dev/null", " &> /dev/null", " >&2"])
        elif k == 2:
            self.feat.add("herestring")
            s += " <<< " + self.word(d, insub=insub)
        return s

    def sublist(self, d):
        """Command list inside $( ): simple commands only, no assignments."""
        r = self.rng
        return "; ".join(self.simple(d, insub=True) for _ in range(r.choice([1, 1, 2])))

    def heredoc(self, safe):
        r = self.rng
        quoted = r.random() < 0.5
        dash = r.random() < 0.3
        delim = r.choice(["EOF", "END", "_E", "EOT"])
        self.feat.add("heredoc-q" if quoted else "heredoc")
        pool = ["text", "a $x b", "EOFX", "EOF ", "a=b", "x EOF", "a b c", " _EOF"]
        if not safe:
            pool += ["}", "{", " } ", "f() {", ") ;", "'", "\"", "# c", "it's", "<<"]
            if quoted:
                pool += ["$(z", "`q", "\\", "${y", "$"]
        lines = [r.choice(pool) for _ in range(r.randint(0, 3))]
        body = "".join(("\t" if dash else "") + l + "\n" for l in lines)
        return ("cat <<" + ("-" if dash else "") + ("'" + delim + "'" if quoted else delim) + "\n" + body
                + ("\t" if dash else "") + delim + "\n")

    def command(self, d, ingroup=False):
        r = self.rng
        k = r.randrange(26)
        if self.plainmode:
            k = r.choice([0, 1, 2, 5, 6, 9, 10, 11, 12, 13, 14, 16, 17, 18, 22])
        deep = d < self.maxdepth
        if not self.planted and self.trig in ("close-brace-word", "heredoc-in-group", "escaped-brace-expansion-in-group") and d <= 1 and r.random() < 0.4:
            self.planted = True
            self.feat.add("TRIG-" + self.trig)
            if self.trig == "escaped-brace-expansion-in-group":
                return r.choice(["{ echo ${x%\\}}; }", "{ :; echo a ${x//\\}/b} c; }", "{ v=${x:-\\}}; }"])
            if self.trig == "close-brace-word":
                return r.choice(["{ echo }; }", "case $x in }) echo 1;; esac", "{ echo a; echo } b; }", "( { echo }; } )"])
            return r.choice(["{ cat <<EOF\n}\nEOF\n}", "( cat <<EOF\n)\nEOF\n)", "{ cat <<'E'\n a }\nE\n}"])
        if k <= 8 or not deep:
            if k == 3:
                self.feat.add("assign")
                return "v=" + self.word(d)
            if k == 4:
                self.feat.add("array-assign")
                return "arr=(" + " ".join(self.word(d) for _ in range(r.randint(0, 3))) + ")"
            return self.simple(d)
        if k == 9:
            self.feat.add("group")
            old, self.ctx = self.ctx, "brace"
            self.brace_depth += 1
            t = "{ " + self.cmdlist(d + 1, ingroup=True) + "; }"
            self.brace_depth -= 1
            self.ctx = old
            return t
        if k == 10:
            self.feat.add("subshell")
            old, self.ctx = self.ctx, "paren"
            t = "( " + self.cmdlist(d + 1, ingroup=True) + " )"
            self.ctx = old
            return t
        if k == 11:
            self.feat.add("if")
            s = "if " + self.simple(d) + "; then " + self.cmdlist(d + 1, ingroup)
            if r.random() < 0.4:
                s += "; elif " + self.simple(d) + "; then " + self.cmdlist(d + 1, ingroup)
            if r.random() < 0.5:
                s += "; else " + self.cmdlist(d + 1, ingroup)
            return s + "; fi"
        if k == 12:
            self.feat.add("for")
            return "for i in " + " ".join(self.word(d) for _ in range(r.randint(0, 3))) + "; do " + self.cmdlist(d + 1, ingroup) + "; done"
        if k == 13:
            self.feat.add("while")
            return r.choice(["while", "until"]) + " " + self.simple(d) + "; do " + self.cmdlist(d + 1, ingroup) + "; done"
        if k == 14 or k == 15:
            self.feat.add("case")
            arms = []
            for _ in range(r.randint(1, 3)):
                pat = r.choice(["a", "a|b", "*", "\"}\"", "'}'", "\\}", "x*", "\"$x\"", "[a-z]", "'{'", "-*", "\"{\""])
                if self.plainmode and "$" in pat:
                    pat = "b*"
                if "}" in pat or "{" in pat:
                    self.feat.add("case-brace-pattern")
                arms.append(pat + ") " + self.cmdlist(d + 1, ingroup) + " ;;")
            return "case " + (g_plain(r) if self.plainmode else self.word(d)) + " in " + " ".join(arms) + " esac"
        if k == 16:
            self.feat.add("pipeline")
            return self.simple(d) + " | " + self.simple(d)
        if k == 17:
            self.feat.add("andor")
            return self.simple(d) + r.choice([" && ", " || "]) + self.simple(d)
        if k == 18:
            self.feat.add("cond")
            if self.plainmode:
                return "[[ " + r.choice(["a == \"}\"", "-n x", "x = a*", "a != '{' && b == x", "x == \"{\""]) + " ]]"
            return "[[ " + r.choice(["$a == \"}\"", "-n $x", "$x = a*", "$x =~ ^a.*$", "$a != '{' && $b == x", "${x} == \"{\""]
                                    + (["-z ${x%\\}}"] if self.brace_depth == 0 else [])) + " ]]"
        if k == 19 or k == 20:
            return self.heredoc(safe=ingroup)
        if k == 21:
            self.feat.add("nested-func")
            old, self.ctx = self.ctx, ("top" if self.ctx == "top" else self.ctx)
            t = r.choice(["inner() { ", "function inner { "]) + self.cmdlist(d + 1, ingroup=(self.ctx != "top")) + "; }"
            self.ctx = old
            return t
        if k == 22:
            self.feat.add("arith-cmd")
            return "(( " + r.choice(["x++", "x = 1 << 2", "a > b", "x %= 2", "y = (1+2)*3"]) + " ))"
        if k == 23:
            self.feat.add("comment")
            return self.simple(d) + " # " + r.choice(["c", "}", "{", "it's", "\"", "$(", "`"]) + "\n"
        return self.simple(d)

    def cmdlist(self, d, ingroup=False):
        n = self.rng.choice([1, 1, 2, 2, 3])
        out = ""
        for i in range(n):
            c = self.command(d, ingroup)
            if out:
                out += "" if out.endswith("\n") else "; "
            out += c
        if out.endswith("\n"):
            out += ":"
        return out

    def body(self):
        b = self.cmdlist(0)
        if self.trig and not self.planted:
            tw = self.trigger_word()
            self.planted = True
            self.feat.add("TRIG-" + self.trig)
            if tw is not None:
                b += ("" if b.endswith("\n") else "; ") + "echo " + tw
            elif self.trig == "close-brace-word":
                b += ("" if b.endswith("\n") else "; ") + "{ echo }; }"
            elif self.trig == "escaped-brace-expansion-in-group":
                b += ("" if b.endswith("\n") else "; ") + "{ echo ${x%\\}}; }"
            else:
                b += ("" if b.endswith("\n") else "; ") + "{ cat <<EOF\n}\nEOF\n}"
        return b


def g_func(rng, name, depth, trig=None, simple=False):
    bg = BodyGen(rng, depth, trig, simple)
    body = bg.body()
    sep = "\n" if body.endswith("\n") else ";"
    return f"{name}() {{ {body}{sep} }}", bg.feat


# ------------------------------------------------------------------------------- bash driver
DRIVER = r'''
n=$1; d=$2
for ((i=0; i<n; i++)); do
(
  source "$d/v$i.sh" 2>/dev/null
  set > "$d/vd$i"
  source "$d/f$i.sh" 2>"$d/ferr$i"
  while read -r fn; do
    echo "@@FUNC $fn"
    declare -f "$fn"
  done < "$d/fn$i" > "$d/fd$i"
)
done
'''

VERIFY = r'''
n=$1; d=$2
for ((i=0; i<n; i++)); do
  for w in u f; do
  (
    source "$d/$w$i.env" >/dev/null 2>"$d/serr$w$i"
    echo "@@RC $?"
    while read -r k nm; do
      echo "@@ $k $nm"
      if [[ $k == v ]]; then declare -p "$nm" 2>/dev/null || echo "@@undefined"
      else declare -f "$nm" || echo "@@undefined"; fi
    done < "$d/names$i"
  ) > "$d/st$w$i" 2>/dev/null
  done
done
'''


class Case:
    __slots__ = ("chunks", "feat", "vars", "funcs", "vwl", "fwl", "impl", "data", "trig")


def build_cases(chk, n, depth, trig_share=0.12):
    """Generate n cases, let bash define and dump them; returns list of Case (chunks filled in)."""
    rng = chk.rng
    d = tempfile.mkdtemp(prefix="c34_", dir=str(chk.scratch))
    specs = []
    for i in range(n):
        nv = rng.choice([0, 1, 2, 3, 4])
        nf = rng.choice([0, 1, 1, 2, 3])
        if nv + nf == 0:
            nv = 1
        vnames = rng.sample(VAR_NAMES, nv)
        fnames = rng.sample(FUNC_NAMES, nf)
        vs = [(nm,) + g_var(rng, nm) for nm in vnames]
        fs = []
        for nm in fnames:
            u = rng.random()
            if u < trig_share:
                fs.append((nm,) + g_func(rng, nm, depth, rng.choice(TRIGGERS)))
            elif u < trig_share + 0.35:
                fs.append((nm,) + g_func(rng, nm, depth, None, simple=True))
            else:
                fs.append((nm,) + g_func(rng, nm, depth))
        with open(f"{d}/v{i}.sh", "w") as f:
            f.write("".join(src + "\n" for _, src, _ in vs))
        with open(f"{d}/f{i}.sh", "w") as f:
            f.write("".join(src + "\n" for _, src, _ in fs))
        with open(f"{d}/fn{i}", "w") as f:
            f.write("".join(nm + "\n" for nm in fnames))
        specs.append((vs, fs))
    with open(f"{d}/driver.sh", "w") as f:
        f.write(DRIVER)
    subprocess.run(BASH + [f"{d}/driver.sh", str(n), d], stdin=subprocess.DEVNULL,
                   stdout=subprocess.DEVNULL, stderr=subprocess.DEVNULL, timeout=600)
    cases = []
    for i, (vs, fs) in enumerate(specs):
        try:
            vd = open(f"{d}/vd{i}", encoding="latin-1").read().split("\n")
            fd = open(f"{d}/fd{i}", encoding="latin-1").read()
        except OSError:
            continue
        chunks = []
        feat = set()
        trig = {}
        for nm, _, ft in vs:
            ls = [l for l in vd if l.startswith(nm + "=")]
            if len(ls) == 1:
                chunks.append(("v", nm, ls[0] + "\n"))
                feat |= ft
        parts = re.split(r"^@@FUNC (\S+)\n", fd, flags=re.M)
        got = {parts[j]: parts[j + 1] for j in range(1, len(parts) - 1, 2)}
        for nm, _, ft in fs:
            if got.get(nm):
                chunks.append(("f", nm, got[nm]))
                feat |= ft
                for t in ft:
                    if t.startswith("TRIG-"):
                        trig[nm] = t[5:]
        if not chunks:
            continue
        if rng.random() < 0.35:
            rng.shuffle(chunks)          # any concatenation of whole definitions is a dump
        c = Case()
        c.chunks, c.feat, c.trig = chunks, feat, trig
        cases.append(c)
    shutil.rmtree(d, ignore_errors=True)
    return cases


def pick_filters(rng, c):
    vn = [nm for k, nm, _ in c.chunks if k == "v"]
    fn = [nm for k, nm, _ in c.chunks if k == "f"]

    def pick(names, pool):
        k = rng.randrange(8)
        if k == 0:
            return []
        sel = [x for x in names if rng.random() < 0.5]
        if k == 1:
            sel += rng.sample(pool, 2)           # names that are not defined
        if k == 2 and names:
            sel.append(names[0][:-1] or "q")     # a proper prefix must not match
            sel.append(names[0] + "x")
        if k == 3 and sel:
            sel.append("")                       # empty tokens are dropped by build_regex_string
        rng.shuffle(sel)
        return sel
    c.vars = pick(vn, VAR_NAMES)
    c.funcs = pick(fn, FUNC_NAMES)
    c.vwl = rng.random() < 0.3
    c.fwl = rng.random() < 0.3


class Hang(Exception):
    pass


def _alarm(signum, frame):
    raise Hang()


HANGS = [0]


def run_impl(data, vars_, funcs, vwl, fwl):
    from pkgcore.ebuild.filter_env import main_run
    out = io.BytesIO()
    old = signal.signal(signal.SIGALRM, _alarm)
    # a scanner that hangs on many inputs must not stall the check: after 6 timeouts wait only 0.3 s
    signal.setitimer(signal.ITIMER_REAL, 2.0 if HANGS[0] < 6 else 0.3)
    try:
        main_run(out, data, vars_, funcs, vwl, fwl)
        return out.getvalue().decode("utf-8")
    except Hang:
        HANGS[0] += 1
        return Err("hang")
    except RecursionError:
        return Err("RecursionError")
    except Exception as e:  # noqa: BLE001
        return Err(type(e).__name__)
    finally:
        signal.setitimer(signal.ITIMER_REAL, 0)
        signal.signal(signal.SIGALRM, old)


def survives(c, kind, nm):
    toks = [t for t in (c.vars if kind == "v" else c.funcs) if t]
    if not (c.vars if kind == "v" else c.funcs):
        return True
    wl = c.vwl if kind == "v" else c.fwl
    return (nm in toks) == wl


def expected_text(c):
    """Every chunk is one definition followed by its terminating newline; a removed definition
    leaves that newline behind (the separator is not part of the definition)."""
    return "".join((t if survives(c, k, nm) else "\n") for k, nm, t in c.chunks)


def digest(r):
    """(length, polynomial hash) of an output string — Model_C34.digest."""
    if isinstance(r, Err):
        return r
    h = 7
    for ch in r:
        h = (h * 257 + ord(ch) + 1) % 2147483647
    return [len(r), h]


def c_names(l):
    return clist([cstr(x) for x in l], "list N")


def c_case(c):
    chunks = clist([cpair(cpair(cbool(k == "f"), cstr(nm)), cstr(t)) for k, nm, t in c.chunks], "(bool * list N) * list N")
    return cpair(cpair(chunks, c_names(c.vars), c_names(c.funcs)), cpair(cbool(c.vwl), cbool(c.fwl)))


def bash_oracle(chk, cases):
    """B2: source unfiltered and filtered text in clean bash; compare the surviving definitions.
    Returns {index: description} of failures."""
    d = tempfile.mkdtemp(prefix="c34v_", dir=str(chk.scratch))
    idx = []
    for i, c in enumerate(cases):
        if isinstance(c.impl, Err):
            continue
        k = len(idx)
        idx.append(i)
        with open(f"{d}/u{k}.env", "w", encoding="latin-1") as f:
            f.write(c.data)
        with open(f"{d}/f{k}.env", "w", encoding="latin-1") as f:
            f.write(c.impl)
        with open(f"{d}/names{k}", "w") as f:
            f.write("".join(f"{kd} {nm}\n" for kd, nm, _ in c.chunks))
    with open(f"{d}/verify.sh", "w") as f:
        f.write(VERIFY)
    try:
        subprocess.run(BASH + [f"{d}/verify.sh", str(len(idx)), d], stdin=subprocess.DEVNULL,
                       stdout=subprocess.DEVNULL, stderr=subprocess.DEVNULL, timeout=900)
    except subprocess.TimeoutExpired:
        chk.note("bash oracle timed out; results of the cases it did not reach are missing")
    bad = {}
    for k, i in enumerate(idx):
        c = cases[i]

        def parse(p):
            try:
                t = open(p, encoding="latin-1").read()
            except OSError:
                return None
            parts = re.split(r"^@@ ([vf]) (\S+)\n", t, flags=re.M)
            return {(parts[j], parts[j + 1]): parts[j + 2] for j in range(1, len(parts) - 2, 3)}
        su, sf = parse(f"{d}/stu{k}"), parse(f"{d}/stf{k}")
        if su is None or sf is None:
            continue
        for kd, nm, _ in c.chunks:
            want = su.get((kd, nm)) if survives(c, kd, nm) else "@@undefined\n"
            if sf.get((kd, nm)) != want:
                bad[i] = (f"after sourcing the filtered text, {'function' if kd == 'f' else 'variable'} {nm} is "
                          f"{sf.get((kd, nm))!r}, expected {want!r}")
                break
    shutil.rmtree(d, ignore_errors=True)
    return bad



# ------------------------------------------------------------------------------- bash text -> dump AST (Spec_C34.def)
def c_pairs(ps):
    return clist(["(%s,%d%%N)" % (cbool(b), ord(ch)) for b, ch in ps], "bool * N")


def lex_pairs(t, i, closer):
    """content of "..." / $'...': (escaped?, char) pairs up to the unescaped closer; returns (pairs, index after closer)."""
    ps = []
    while i < len(t):
        ch = t[i]
        if ch == closer:
            return ps, i + 1
        if ch == "\\" and i + 1 < len(t):
            ps.append((True, t[i + 1]))
            i += 2
            continue
        ps.append((False, ch))
        i += 1
    return None, i


def lex_value(v):
    """`set`-style value text -> Coq qvalue term, or None."""
    def segs(t, i, stop):
        out = []
        while i < len(t) and t[i] not in stop:
            ch = t[i]
            if ch == "'":
                j = t.find("'", i + 1)
                if j < 0:
                    return None, i
                out.append("VSq " + cstr(t[i + 1:j]))
                i = j + 1
            elif ch == "\\" and i + 1 < len(t):
                out.append("VEsc %d%%N" % ord(t[i + 1]))
                i += 2
            elif ch == "$" and t[i + 1:i + 2] == "'":
                ps, i = lex_pairs(t, i + 2, "'")
                if ps is None:
                    return None, i
                out.append("VAnsi " + c_pairs(ps))
            elif ch == '"':
                ps, i = lex_pairs(t, i + 1, '"')
                if ps is None:
                    return None, i
                out.append("VDq " + c_pairs(ps))
            else:
                j = i
                while j < len(t) and t[j] not in "'\\\"" and t[j] not in stop and not (t[j] == "$" and t[j + 1:j + 2] == "'"):
                    j += 1
                if j == i:
                    j = i + 1
                out.append("VBare " + cstr(t[i:j]))
                i = j
        return out, i
    if v.startswith("(") and v.endswith(")"):
        t = v[1:-1]
        elems = []
        i = 0
        while i < len(t):
            if t[i] != "[":
                return None
            j = t.find("]=", i)
            if j < 0:
                return None
            sg, k = segs(t, j + 2, " ")
            if sg is None:
                return None
            elems.append("(%s, %s)" % (cstr(t[i + 1:j]), clist(sg, "vseg")))
            i = k
            if i < len(t):
                if t[i] != " " or i + 1 >= len(t):
                    return None
                i += 1
        return "(QArray %s)" % clist(elems, "list N * list vseg")
    sg, k = segs(v, 0, "")
    if sg is None:
        return None
    return "(QScalar %s)" % clist(sg, "vseg")


IDENT = re.compile(r"[A-Za-z0-9_]*")


def lex_dollar(t, i, indq):
    """t[i] == "$": one expansion token (or None when it is none of the modelled shapes)."""
    nxt = t[i + 1:i + 2]
    if nxt == "{" and "}" in t[i + 2:]:
        j = t.find("}", i + 2)
        return "TPE " + cstr(t[i + 2:j]), j + 1
    if nxt == "'" and not indq:
        ps, j = lex_pairs(t, i + 2, "'")
        if ps is not None:
            return "TAnsi " + c_pairs(ps), j
        return None
    if t[i + 1:i + 3] == "((":
        inner, j = lex_toks(t, i + 3, ")")
        if t[j:j + 2] == "))":
            return "TArith " + clist(["(%s)" % x for x in inner], "tok"), j + 2
        return None
    if nxt == "(":
        inner, j = lex_toks(t, i + 2, ")")
        if t[j:j + 1] == ")":
            return "TSub " + clist(["(%s)" % x for x in inner], "tok"), j + 1
        return None
    m = IDENT.match(t, i + 1)
    return "TVar " + cstr(m.group(0)), m.end()


def lex_dq(t, i):
    """t[i-1] was the opening quote; returns (token term, index after the closing quote) or (None, i)."""
    toks, plain = [], []
    while i < len(t):
        ch = t[i]
        if ch == '"':
            if all(p is not None for p in plain):
                return "TDq " + c_pairs(plain), i + 1
            return "TDqx " + clist(["(%s)" % x for x in toks], "tok"), i + 1
        if ch == "\\" and i + 1 < len(t):
            toks.append("TEsc %d%%N" % ord(t[i + 1]))
            plain.append((True, t[i + 1]))
            i += 2
        elif ch == "$":
            r = lex_dollar(t, i, True)
            if r is None:
                toks.append("TLit 36%N")
                i += 1
            else:
                toks.append(r[0])
                i = r[1]
            plain.append(None)
        else:
            toks.append("TLit %d%%N" % ord(ch))
            plain.append((False, ch))
            i += 1
    return None, i


def lex_toks(t, i, closer):
    """token list up to the statement separator (closer None) or the closing delimiter."""
    out = []
    while i < len(t):
        ch = t[i]
        if closer is None and ch in ";\n":
            return out, i
        if closer is not None and ch == closer:
            return out, i
        if closer is None and t[i:i + 3] == "<<<":
            out.append("THs")
            i += 3
        elif ch == "\\" and i + 1 < len(t):
            out.append("TEsc %d%%N" % ord(t[i + 1]))
            i += 2
        elif ch == "'":
            j = t.find("'", i + 1)
            if j < 0:
                out.append("TLit 39%N")
                i += 1
            else:
                out.append("TSq " + cstr(t[i + 1:j]))
                i = j + 1
        elif ch == '"':
            tk, j = lex_dq(t, i + 1)
            if tk is None:
                out.append("TLit 34%N")
                i += 1
            else:
                out.append(tk)
                i = j
        elif ch == "$":
            r = lex_dollar(t, i, False)
            if r is None:
                out.append("TLit 36%N")
                i += 1
            else:
                out.append(r[0])
                i = r[1]
        elif ch in "{(":
            inner, j = lex_toks(t, i + 1, "}" if ch == "{" else ")")
            if j < len(t):
                out.append(("TBr " if ch == "{" else "TPar ") + clist(["(%s)" % x for x in inner], "tok"))
                i = j + 1
            else:
                out.append("TLit %d%%N" % ord(ch))
                i += 1
        else:
            out.append("TLit %d%%N" % ord(ch))
            i += 1
    return out, i


def lex_func(nm, t):
    head = nm + " () \n{"
    if not (t.startswith(head) and t.endswith("}\n")):
        return None
    b = t[len(head):-2]
    i = 0
    while i < len(b) and b[i].isspace():
        i += 1
    lead = b[:i]
    stmts = []
    while i < len(b):
        toks, j = lex_toks(b, i, None)
        if j >= len(b):
            return None                       # the body must end with a separator + white space
        sep = b[j]
        k = j + 1
        while k < len(b) and b[k].isspace():
            k += 1
        stmts.append("{| s_toks := %s; s_sep := %d%%N; s_ws := %s |}"
                     % (clist(["(%s)" % x for x in toks], "tok"), ord(sep), cstr(b[j + 1:k])))
        i = k
    return "(Func %s %s %s)" % (cstr(nm), cstr(lead), clist(stmts, "stmt"))


def lex_case(c):
    """The whole dump as a Coq `list def`, or None when some chunk is not of the expected outer shape."""
    ds = []
    for k, nm, t in c.chunks:
        if k == "v":
            if not (t.startswith(nm + "=") and t.endswith("\n")):
                return None
            v = lex_value(t[len(nm) + 1:-1])
            if v is None:
                return None
            ds.append("(Assign %s %s)" % (cstr(nm), v))
        else:
            f = lex_func(nm, t)
            if f is None:
                return None
            ds.append(f)
    return clist(ds, "def")



# ------------------------------------------------------------------------------- expansion x context matrix (fixed corpus)
# Every expansion form without brace/quote characters of its own, in every position a function body can
# hold it (which decides WHICH walker of the scanner sees it and with which end character).  The body goes
# on after the probe with an assignment and a command, and two more definitions follow the function, so
# that a walker that returns one character early/late shows up as (a) a function that is not removed
# whole, (b) an assignment inside the body that is removed by a variable filter, (c) damaged followers.
MATRIX_EXP = [
    "$$", "$?", "$#", "$!", "$@", "$*", "$-", "$0", "$1", "$_", "$x", "$x$y",
    "${$}", "${?}", "${#}", "${!}", "${@}", "${*}", "${-}", "${0}", "${1}", "${10}", "${_}",
    "${x}", "${#x}", "${!x}", "${x[0]}", "${x[@]}", "${#x[@]}", "${!x[@]}", "${x[$i]}",
    "${x:-a}", "${x:+a}", "${x:=a}", "${x:?a}", "${x-}", "${x%a}", "${x%%a*}", "${x#a}", "${x##*a}",
    "${x/a/b}", "${x//a/b}", "${x/#a/b}", "${x:1}", "${x:1:2}", "${x: -1}", "${x^}", "${x^^}", "${x,,}", "${x@Q}",
    "${x:-$y}", "${x:-${y}}", "${x:-$$}", "${x:-${$}}", "${x:-${?}}", "${x%$y}", "${x/$y/${z}}", "${!x*}",
    "$((1+2))", "$(($$))", "$((${$}+1))", "$((x<<2))", "$(( (1+2)*3 ))",
    "$(echo a)", "$(echo $$)", "$(echo ${$})", "$(echo \"${$}\")", "$($x)",
]
MATRIX_CTX = [
    ("word", "echo @E@ a@E@"),
    ("brace", "{ echo @E@; echo b; }"),
    ("brace2", "{ { echo @E@; }; echo b; }"),
    ("paren", "( echo @E@; echo b )"),
    ("paren-brace", "( { echo @E@; } )"),
    ("dq", "echo \"a @E@ b\""),
    ("dq-brace", "{ echo \"a @E@ b\"; }"),
    ("cmdsub", "echo $(echo @E@)"),
    ("cmdsub-brace", "{ echo $(echo @E@); }"),
    ("cond", "[[ -n @E@ ]]"),
    ("cond-brace", "{ [[ @E@ == a ]]; }"),
    ("case", "case @E@ in a) echo 1;; esac"),
    ("case-brace", "{ case a in a) echo @E@;; esac; }"),
    ("local", "local w=@E@"),
    ("local-brace", "{ local w=@E@; }"),
    ("assign", "w=@E@"),
    ("assign-brace", "{ w=@E@; }"),
    ("array", "arr=(@E@ b)"),
    ("array-brace", "{ arr=(@E@); }"),
    ("if-brace", "{ if true; then echo @E@; fi; }"),
    ("for", "for i in @E@; do :; done"),
    ("redir-brace", "{ echo a > \"$T\"/f.@E@; }"),
]
MATRIX_DRIVER = r"""
n=$1; d=$2
for ((i=0; i<n; i++)); do
  source "$d/m$i.sh" 2>/dev/null
  echo "@@FUNC mf$i"
  declare -f mf$i
done > "$d/mout" 2>/dev/null
"""


def matrix_cases(chk):
    """Returns the Case list of the matrix (bash-printed); cell names in c.feat."""
    d = tempfile.mkdtemp(prefix="c34m_", dir=str(chk.scratch))
    cells = [(e, cn, ct) for e in MATRIX_EXP for cn, ct in MATRIX_CTX]
    for i, (e, cn, ct) in enumerate(cells):
        with open(f"{d}/m{i}.sh", "w") as f:
            f.write(f"mf{i}() {{ {ct.replace('@E@', e)}; v=1; echo tail; }}\n")
    with open(f"{d}/driver.sh", "w") as f:
        f.write(MATRIX_DRIVER)
    try:
        subprocess.run(BASH + [f"{d}/driver.sh", str(len(cells)), d], stdin=subprocess.DEVNULL,
                       stdout=subprocess.DEVNULL, stderr=subprocess.DEVNULL, timeout=300)
        out = open(f"{d}/mout", encoding="latin-1").read()
    except (OSError, subprocess.TimeoutExpired):
        out = ""
    shutil.rmtree(d, ignore_errors=True)
    parts = re.split(r"^@@FUNC (\S+)\n", out, flags=re.M)
    got = {parts[j]: parts[j + 1] for j in range(1, len(parts) - 1, 2)}
    cases = []
    for i, (e, cn, ct) in enumerate(cells):
        t = got.get(f"mf{i}")
        if not t:
            continue                      # not valid bash in this position
        for cfg in (0, 1):
            c = Case()
            c.chunks = [("v", "A", "A=0\n"), ("f", f"mf{i}", t), ("v", "Z", "Z=1\n"), ("f", "g", "g () \n{ \n    :\n}\n")]
            c.feat, c.trig = {"matrix", "ctx-" + cn}, {}
            if cfg == 0:
                c.vars, c.funcs, c.vwl, c.fwl = [], [f"mf{i}"], False, False       # the function must go, whole
            else:
                c.vars, c.funcs, c.vwl, c.fwl = ["v", "w", "arr", "Z"], ["g"], False, False   # its body must stay intact
            cases.append(c)
    return cases


# ------------------------------------------------------------------------------- raw stream
SNIPPETS = [
    "function foo() {:;}", "functionfoo() {:;}", "foo() {\n    :\n}\n\nbar() {\n    :\n}\n",
    "MODULE_NAMES=${MODULE_NAMES//${i}(*};\ntc-arch ()\n{\n    tc-ninja_magic_to_arch portage $@\n}\n",
    "dar=${yar##.%}\nfoo() {\n:\n}\n",
    "src_unpack() {\n    use idn && {\n    # BIND 9.4.0 doesn't have this patch\n    :\n    }\n}\n\nsrc_compile() {\n    :\n}\n",
    "src_install() {\n    local -f ${f##*=}\n}\n\npkg_postinst() {\n    :\n}\n",
    "src_unpack() {\n    fir=${first##*=}\n}\n\nfoo() {\n    :\n}\n",
    "foo=\"bar\"\nfoo2() {\n\tdar=\"$(echo `echo foo`)\"\n}\n", "foo='bar ' \n abc=def; x() { :; }\n",
    "x=$(echo \"a)\" ) y=2\n", "foo() {\ncat <<EOF\n}\nEOF\n}\nbar=1\n", "foo() {\ncat <<-'E'\n\t}\n\tE\n}\nbar=1\n",
    "a=1 # c\nb=2\n", "declare -x FOO=\"bar\"\nFOO=1\n", "export A=1\n", "foo ( ) \n{ \n  echo }\n}\nbar=2\n",
    "FOO=$'a\\'b' BAR=2\n", "x=`echo \\`a\\``\n", "f() { echo ${x%\\}}; }\ng=1\n", "f() { echo \"${x//'}'/y}\"; }\ng=1\n",
    "a=${b", "a=$", "a='", "a=\"", "a=(", "f() {", "f() { $(", "f() { ${", "a=$'", "a=\\", "<<", "x <<", "x <<E", "x << 'E", "#", " #", "a#",
    "function f", "function", "f()", "f() \n", "=x", "a-b=1\n", "a=b;c=d\n", "a=1\x00b=2\n", "", "\n", "cat <<''\nx\n\n", "cat <<E\nE", "cat <<E\nE\n",
    "f() { cat <<E\n  E\nE\n}\n", "f () \n{ \n    { \n        echo ${$};\n        x=1\n    };\n    y=2\n}\nz=3\n",
    "f() { { echo ${?} ${#} ${!}; }; a=1; }\nb=2\n", "a=${$}\nb=2\n", "f() { echo \"${$}\" ${$$}; }\n", "f() { ( echo ${$} ); { echo $$; }; }\nq=1\n", "f() { `#c\n`; }\n", "x=`# c`\ny=2\n", "f() {\n x;}\ny=1\n", "f() {\n x; }; y=1\n", "f() { a\n}#\ny=1\n",
]
SOUP = " \t\n'\"$`\\{}()#;=<-ab_f0\x00"


def mutate(rng, s):
    if not s:
        return s
    k = rng.randrange(5)
    i = rng.randrange(len(s))
    if k == 0:
        return s[:i] + s[i + 1:]
    if k == 1:
        return s[:i] + rng.choice(SOUP) + s[i:]
    if k == 2:
        return s[:i]
    if k == 3:
        j = rng.randrange(len(s))
        return s[:i] + s[j:j + rng.randint(1, 8)] + s[i:]
    return s[:i] + rng.choice(SOUP) + s[i + 1:]


def c_raw(data, vars_, funcs, vwl, fwl):
    return cpair(cpair(cstr(data), c_names(vars_), c_names(funcs)), cpair(cbool(vwl), cbool(fwl)))


# ------------------------------------------------------------------------------- classification of findings
# Shapes of function text that the scanner is known to mis-nest on the unchanged tree
# (known_findings/C34.json).  The generator plants at most one of them per function and records
# which; a failure is attributed to a class only if, after shrinking the dump to a minimal failing
# list of definitions, every function left carries that planted shape and its text still contains
# one of the class's marker strings.
MARKERS = {
    "open-brace-word": ["x{\n", "x{;", "x{ ", "{a", "}{", "${x%\\{}{", "a{b"],
    "quoted-brace-in-expansion": ["${x%'}'}", "${x%\"}\"}", "${x:-\"a}b\"}", "${x//'}'/y}"],
    "close-brace-word": ["echo }", "})\n"],
    "assign-closes-cmdsub": ["$(v=1)", "v=b)", "$(v=(1 2))"],
    "heredoc-in-group": ["<<EOF\n}\nEOF", "<<EOF\n)\nEOF", "<<'E'\n a }\nE"],
    "escaped-brace-expansion-in-group": ["${x%\\}}", "${x//\\}/b}", "${x:-\\}}"],
}


def fails_textually(c, chunks):
    data = "".join(t for _, _, t in chunks)
    r = run_impl(data, c.vars, c.funcs, c.vwl, c.fwl)
    exp = "".join((t if survives(c, k, nm) else "\n") for k, nm, t in chunks)
    return r != exp


def finding_class(c):
    """Class id of a (B) failure on a bash-produced dump, or None when it is not one of the
    known mis-nesting shapes."""
    if c.impl == Err("hang"):
        return "heredoc-empty-delimiter-hang" if ("<<''" in c.data or '<<""' in c.data) else None
    chunks = list(c.chunks)
    if fails_textually(c, chunks):
        chunks = shrink_list(chunks, lambda cs: bool(cs) and fails_textually(c, cs), min_len=1)
    funcs = [(nm, t) for k, nm, t in chunks if k == "f"]
    if not funcs:
        return None
    classes = set()
    for nm, t in funcs:
        cls = c.trig.get(nm)
        if cls is None:
            # a function without a planted shape may only be a bystander (e.g. the definition that
            # follows the mis-nested one); it must not fail on its own
            if fails_textually(c, [("f", nm, t)]):
                return None
            continue
        if not any(m in t for m in MARKERS[cls]):
            return None
        classes.add(cls)
    return classes.pop() if len(classes) == 1 else None


WITNESS_SRC = "f() { { echo }; }; }\n"
WITNESS_TEXT = "f () \n{ \n    { \n        echo }\n    }\n}\n"      # = Proofs_C34.witness_f


def check_witness(chk):
    """The refutation witness of Prop_C34 (filter_commutes_refuted_on_bash_dump) must be what real bash
    prints for its source, and the real filter must fail on it exactly as the model does."""
    r = subprocess.run(BASH + ["-c", WITNESS_SRC + "declare -f f"], capture_output=True, text=True, timeout=60)
    if r.stdout != WITNESS_TEXT:
        chk.violation("correspondence", {"what": "bash no longer prints the refutation witness of Prop_C34 as recorded",
                                         "bash": r.stdout, "recorded": WITNESS_TEXT}, no_input=True)
        return
    out = run_impl(WITNESS_TEXT + "Z=1\n", [], ["f"], False, False)
    if out != "\n}\nZ=1\n":
        chk.note("the refutation witness of filter_commutes_refuted_on_bash_dump no longer fails on the implementation "
                 "as the model says (got %r)" % (out,))
        if out != "\nZ=1\n":
            chk.violation("correspondence", {"what": "implementation and model disagree on the refutation witness",
                                             "input": WITNESS_TEXT + "Z=1\n", "implementation": out}, no_input=True)
    chk.count("witness", 1)


# ------------------------------------------------------------------------------- main
def main(chk: Check):
    chk.rule("variables with values from 12 classes (every quoting style `set` emits: bare, '..', '\\'' splices, $'..', "
             "indexed arrays with \"..\"/$'..' elements) and functions whose bodies come from a command grammar "
             "(quotes, parameter expansions incl. escaped braces, $(..), $((..)), backquotes, groups, subshells, "
             "if/for/while/case incl. brace patterns, [[ ]], here-documents, nested functions, comments, redirections), "
             "all defined in real bash and dumped by bash; ~12% of the functions carry one planted shape of a known "
             "mis-nesting class; random blacklist/whitelist name lists; "
             "non-trivial = a dump containing a brace inside a value or a function body (quotes, expansion, "
             "here-document, case pattern) filtered with a non-empty name list")
    ok = chk.build(["C34/Prop_C34.vo"])
    if ok:
        chk.check_assumptions("C34/Prop_C34.v")
    chk.lint(["C34"])
    chk.check_fingerprint(ANCHORS)
    rng = chk.rng
    check_witness(chk)

    def budget(q, t):
        """thorough tier: t; quick tier: q, three times q when the anchored source changed"""
        if chk.thorough:
            return t
        return 3 * q if chk.fingerprint_changed else q

    # ---- dump stream
    cases = build_cases(chk, budget(70, 400), depth=2 if not chk.thorough else 3)
    hc = Case()       # the one fixed case of the hang class (costs its 2 s alarm once per run)
    hc.chunks, hc.feat, hc.trig = [("f", "f", "f () \n{ \n    cat <<''\nx\n\n}\n"), ("v", "Z", "Z=1\n")], {"heredoc-empty-delim"}, {}
    hc.vars, hc.funcs, hc.vwl, hc.fwl = [], ["f"], False, False
    corpus = []       # corpus first: one minimal bash-printed member of every known mis-nesting class
    cp = os.path.join(os.path.dirname(os.path.dirname(os.path.abspath(__file__))), "corpus", "C34", "known.json")
    if os.path.exists(cp):
        import json
        for e in json.load(open(cp)):
            c = Case()
            c.chunks = [tuple(x) for x in e["chunks"]]
            c.feat, c.trig = {"corpus"}, dict(e["trig"])
            c.vars, c.funcs, c.vwl, c.fwl = e["vars"], e["funcs"], e["vwl"], e["fwl"]
            corpus.append(c)
    feats = {}
    for c in cases:
        pick_filters(rng, c)
        c.data = "".join(t for _, _, t in c.chunks)
        c.impl = run_impl(c.data, c.vars, c.funcs, c.vwl, c.fwl)
        for f in c.feat:
            feats[f] = feats.get(f, 0) + 1
        if (c.vars or c.funcs) and any(("}" in t or "{" in t[t.find("{") + 1:]) for k, _, t in c.chunks):
            chk.nontrivial(c.data + repr((c.vars, c.funcs, c.vwl, c.fwl)))
    hc.data = "".join(t for _, _, t in hc.chunks)
    hc.impl = run_impl(hc.data, hc.vars, hc.funcs, hc.vwl, hc.fwl)
    # The model describes the scanner WITH the repair fixes/C34-heredoc-empty-delimiter.patch.  On a tree
    # without it the empty-delimiter here-document hangs (known finding); such runs cannot be compared
    # with the model and are left out of (A).
    unrepaired = hc.impl == Err("hang")
    chk.cov["heredoc_empty_delimiter_repaired"] = not unrepaired
    for c in corpus:
        c.data = "".join(t for _, _, t in c.chunks)
        c.impl = run_impl(c.data, c.vars, c.funcs, c.vwl, c.fwl)
    # the expansion x context matrix: every cell is judged textually (B1) on every run; a sample of the
    # cells (and every failing one) also goes through the model (A), the Coq spec and the bash oracle
    mcases = matrix_cases(chk)
    for c in mcases:
        c.data = "".join(t for _, _, t in c.chunks)
        c.impl = run_impl(c.data, c.vars, c.funcs, c.vwl, c.fwl)
        chk.nontrivial(("m", c.chunks[1][2], tuple(c.funcs)))
    chk.count("matrix", len(mcases))
    chk.cov["matrix_cells"] = len(mcases) // 2
    mbad = [c for c in mcases if c.impl != expected_text(c)]
    chk.cov["matrix_failing"] = len(mbad)
    msel = rng.sample(mcases, min(len(mcases), budget(50, 600)))
    bad_ids = set(id(c) for c in mbad[:20])
    cases = corpus + mbad[:20] + [c for c in msel if id(c) not in bad_ids] + cases
    cases.append(hc)
    chk.count("dump", len(cases))
    chk.cov["features"] = dict(sorted(feats.items()))
    for c in cases[:: max(1, len(cases) // 3)][:3]:
        chk.sample({"stream": "dump", "data": c.data, "vars": c.vars, "funcs": c.funcs,
                    "vars_is_whitelist": c.vwl, "funcs_is_whitelist": c.fwl, "impl": c.impl})

    # ---- raw stream
    raw = []
    small = [c.data for c in cases if len(c.data) < 260][:30]
    pool = list(SNIPPETS) + small
    for s in SNIPPETS:
        raw.append((s, ["foo", "dar", "a", "x", "MODULE_NAMES", "FOO", "g"], ["foo", "f", "src_unpack", "x"], False, False))
    for _ in range(budget(100, 1200)):
        k = rng.randrange(3)
        if k == 0:
            s = "".join(rng.choice(SOUP) for _ in range(rng.randint(0, 24)))
        else:
            s = rng.choice(pool)
            for _ in range(rng.randint(1, 3)):
                s = mutate(rng, s)
        raw.append((s, rng.sample(["a", "b", "f", "foo", "FOO", "x", ""], rng.randint(0, 3)),
                    rng.sample(["a", "b", "f", "foo", "bar", "x", ""], rng.randint(0, 3)),
                    rng.random() < 0.3, rng.random() < 0.3))
    raw_cases, raw_kept = [], []
    for item in raw:
        s, v, f, vw, fw = item
        r = run_impl(s, v, f, vw, fw)
        if r == Err("RecursionError") or (unrepaired and r == Err("hang")):
            continue
        raw_cases.append((c_raw(s, v, f, vw, fw), digest(r)))
        raw_kept.append((item, r))
        if isinstance(r, Err):
            chk.cov.setdefault("raw_errors", {})
            chk.cov["raw_errors"][r.kind] = chk.cov["raw_errors"].get(r.kind, 0) + 1
    chk.count("raw", len(raw_cases))

    # ---- B1 directly (the same comparison is made inside Coq against Spec_C34.expected_chunks)
    b1_py = [i for i, c in enumerate(cases) if c.impl != expected_text(c)]

    # ---- B2: bash oracle on a sample plus every textual failure
    nb2 = budget(25, 200)
    sel = sorted(set(range(min(nb2, len(cases)))) | set(b1_py[:60]))
    b2s = bash_oracle(chk, [cases[i] for i in sel])
    b2 = {sel[k]: v for k, v in b2s.items()}
    chk.count("bash-oracle", len(sel))

    # ---- Coq: model and spec
    a_bad, b1_bad = [], list(b1_py)
    if ok:
        cidx = [i for i, c in enumerate(cases) if not (unrepaired and c.impl == Err("hang"))]
        r = chk.coq_eval("dump", IMPORTS, "((list ((bool * list N) * list N)) * list (list N) * list (list N)) * (bool * bool)",
                         [(c_case(cases[i]), digest(cases[i].impl)) for i in cidx],
                         ["mismatches run_dump cases", "where_ (fun i r => negb (spec_dump_ok i r)) cases"], shard=40)
        if r is not None:
            a_bad = [cidx[i] for i in r[0]]
            b1_bad = sorted(set(cidx[i] for i in r[1]) | set(b1_py))
        r2 = chk.coq_eval("raw", IMPORTS, "(list N * list (list N) * list (list N)) * (bool * bool)", raw_cases,
                          ["mismatches run_filter cases"], shard=250)
        for i in (r2[0] if r2 else [])[:3]:
            item, impl = raw_kept[i]
            chk.violation("correspondence",
                          {"what": "implementation and Model_C34 disagree on the raw stream (theorems of Prop_C34 no longer "
                                   "speak about this code)", "input": {"data": item[0], "vars": item[1], "funcs": item[2],
                                                                       "vars_is_whitelist": item[3], "funcs_is_whitelist": item[4]},
                           "implementation": impl}, no_input=not (b1_bad or b2))

    # ---- render stream: the dump AST of the theorems against bash's own text, and how much of the
    #      stream lies inside the proved grammar (def_ok)
    if ok:
        rcases = []
        for c in [x for x in cases if "matrix" not in x.feat][: budget(20, 200)]:
            if c is hc or isinstance(c.impl, Err):
                continue
            term = lex_case(c)
            if term is not None:
                rcases.append((term, digest(c.data), c))
        r3 = chk.coq_eval("render", IMPORTS, "list def", [(t, d) for t, d, _ in rcases],
                          ["mismatches run_render cases", "where_ (fun i r => forallb def_ok i) cases",
                           "where_ (fun i r => negb (forallb (fun d => negb (is_func d) || def_ok d) i)) cases"], shard=25)
        chk.count("render", len(rcases))
        if r3 is not None:
            for i in r3[0][:3]:
                chk.violation("correspondence", {"what": "Spec_C34.render of the parsed dump AST differs from the text bash printed "
                                                         "(the spec's renderer no longer describes bash's dump format)",
                                                 "input": rcases[i][2].data}, no_input=True)
            chk.cov["render_cases"] = len(rcases)
            chk.cov["dumps_inside_proved_grammar"] = len(r3[1])
            chk.cov["share_of_bash_dumps_inside_def_ok"] = round(len(r3[1]) / max(1, len(rcases)), 3)
            nfun = sum(1 for _, _, c in rcases for k, _, _ in c.chunks if k == "f")
            chk.cov["render_functions"] = nfun
            chk.cov["dumps_with_a_function_outside_proved_grammar"] = len(r3[2])
            # every dump inside the proved grammar must pass (B): the theorem says so for the model
            ngr = 0
            for i in r3[1]:
                c = rcases[i][2]
                if c.impl != expected_text(c) and ngr < 2:
                    ngr += 1
                    chk.violation("property", {"what": "a dump inside the proved grammar (def_ok) is filtered wrongly: the model no "
                                                       "longer describes the code",
                                               "input": {"data": c.data, "vars": c.vars, "funcs": c.funcs,
                                                         "vars_is_whitelist": c.vwl, "funcs_is_whitelist": c.fwl},
                                               "expected": expected_text(c), "implementation": c.impl})

    # ---- report property failures (B1 textual, B2 bash) with classification
    failing = sorted(set(b1_bad) | set(b2))
    reported = 0
    unclassified = []
    for i in failing[:120]:
        if reported >= 3:
            break
        c = cases[i]
        ex = {"what": ("output is not the concatenation of the surviving definitions (each dropped one leaving its newline)"
                       if i in b1_bad else b2[i]),
              "input": {"data": c.data, "vars": c.vars, "funcs": c.funcs, "vars_is_whitelist": c.vwl,
                        "funcs_is_whitelist": c.fwl},
              "expected": expected_text(c), "implementation": c.impl, "bash": b2.get(i)}
        cls = finding_class(c)
        if cls is not None and chk.known_finding(cls, ex):
            continue
        unclassified.append(i)
        if reported < 3:
            chk.violation("property", ex)
            reported += 1
    for i in a_bad[:3]:
        c = cases[i]
        chk.violation("correspondence",
                      {"what": "implementation and Model_C34 disagree on a bash dump (theorems of Prop_C34 no longer "
                               "speak about this code)", "input": {"data": c.data, "vars": c.vars, "funcs": c.funcs,
                                                                   "vars_is_whitelist": c.vwl, "funcs_is_whitelist": c.fwl},
                       "implementation": c.impl}, no_input=not unclassified)


def replay(chk, data):
    inp = data.get("detail", {}).get("input")
    if not isinstance(inp, dict) or "data" not in inp:
        print("nothing to replay")
        return
    r = run_impl(inp["data"], inp.get("vars", []), inp.get("funcs", []), inp.get("vars_is_whitelist", False),
                 inp.get("funcs_is_whitelist", False))
    print("implementation:", repr(r))
    term = c_raw(inp["data"], inp.get("vars", []), inp.get("funcs", []), inp.get("vars_is_whitelist", False),
                 inp.get("funcs_is_whitelist", False))
    res = chk.coq_eval("replay", IMPORTS, "(list N * list (list N) * list (list N)) * (bool * bool)",
                       [(term, digest(r))], ["mismatches run_filter cases"])
    print("model agrees with implementation:", res is not None and not res[0])
    print("expected by spec:", repr(data.get("detail", {}).get("expected")))
