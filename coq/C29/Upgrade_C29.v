(* C29/Upgrade_C29.v — binpkg replace whose old and new tarball names differ. *)
From Coq Require Import List NArith ZArith Bool Lia.
Import ListNotations.
From Verif Require Import Base.Val C18.Fs C18.FsLemmas C29.Model_C29 C29.Spec_C29 C29.Proofs_C29.

(* ------------------------------------------------------------------ binpkg replace by ANOTHER file name
   (upgrade 1.0 -> 1.1, or 1.0 -> 1.0-r0 which install_or_replace treats as the same version):
   binpkg.repo_ops.replace.finalize_data is install.finalize_data — the op list is
   bin_install_ops for the new name and the old tarball is never named.  So at every crash prefix
   every other listed package, the old one included, is exactly as before: "never neither" holds
   in the strongest form (and the completed replace still lists the old tarball: a finding). *)
Section BinOthers.
  Variable base : path.
  Notation vis := (visible bin_cat_ok bin_skip base).

  Theorem bin_install_others_untouched_proof s cat pid pf chunks cache :
    nolinks s ->
    forall k q, vis q -> is_prefix (bin_final base cat pf) q = false ->
      lookup (run (firstn k (bin_install_ops s base cat pid pf chunks cache)) s) q = lookup s q.
  Proof.
    intros Hn k q Hq Hf.
    set (ops := bin_install_ops s base cat pid pf chunks cache).
    assert (Hops : Forall (fun o => outside bin_cat_ok bin_skip base o
                                    \/ o = Rename (bin_tmp base cat pid pf) (bin_final base cat pf)) ops).
    { unfold ops, bin_install_ops. apply Forall_app. split.
      - eapply Forall_impl; [|apply bin_stage_out]. intros; now left.
      - constructor; [now right|]. eapply Forall_impl; [|apply bin_cache_out]. intros; now left. }
    pose (Inv := fun t : fs => nolinks t /\ lookup t q = lookup s q).
    assert (HI : Inv (run (firstn k ops) s)).
    { apply run_prefix_inv; [|split; [exact Hn|reflexivity]].
      eapply Forall_impl; [|exact Hops]. intros o Ho t t' [Nt Lt] E. split.
      - eapply nolinks_step; [|exact Nt|exact E]. destruct Ho as [Ho| ->]; [now apply outside_plain in Ho|exact I].
      - rewrite <- Lt. destruct Ho as [Ho| ->].
        + exact (outside_frame _ _ _ _ _ _ Nt Ho E q Hq).
        + eapply apply_op_frame; [exact E|]. cbn. intros [H|H].
          * apply is_prefix_true in H as [r ->]. revert Hq. unfold bin_tmp. rewrite <- app_assoc. cbn.
            apply invisible_skipped. apply bin_skip_tmp.
          * congruence. }
    exact (proj2 HI).
  Qed.

  (* the old tarball of an upgrade replace is listed, in full, at every crash prefix and after *)
  Corollary bin_replace_old_kept_proof s cat pid old pf chunks cache :
    nolinks s -> bin_cat_ok cat = true -> bin_skip (old ++ TBZ2) = false -> old ++ TBZ2 <> pf ++ TBZ2 ->
    forall k, let t := run (firstn k (bin_install_ops s base cat pid pf chunks cache)) s in
      listed bin_cat_ok bin_skip false base t cat (old ++ TBZ2) = listed bin_cat_ok bin_skip false base s cat (old ++ TBZ2)
      /\ content base t cat (old ++ TBZ2) [] = content base s cat (old ++ TBZ2) [].
  Proof.
    intros Hn Hc Hs Hne k t.
    unfold listed, content, read_file.
    match goal with |- context [lookup t ?p] => assert (L : lookup t p = lookup s p) end.
    { apply bin_install_others_untouched_proof; [exact Hn|now exists cat, (old ++ TBZ2), []|].
      destruct (is_prefix _ _) eqn:E; [|reflexivity]. exfalso. apply is_prefix_true in E as [r E].
      unfold bin_final in E. rewrite <- app_assoc in E. apply app_inv_head in E. cbn in E.
      injection E as E _. apply Hne. now symmetry. }
    rewrite L. split; reflexivity.
  Qed.
End BinOthers.
