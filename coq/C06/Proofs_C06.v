(* Proofs_C06.v — proofs for C06. *)
From Coq Require Import List NArith ZArith Bool Arith Lia.
Import ListNotations.
From Verif Require Import Base.Val C06.Restr C06.RestrInd C06.Model_C06 C06.Spec_C06.

(* ------------------------------------------------------------------ 1. match is propositional *)
Lemma and_loop_sem n bs : and_loop n bs = xorb n (forallb (fun b => b) bs).
Proof. induction bs as [|[] r IH]; cbn; auto; destruct n; reflexivity. Qed.

Lemma or_loop_sem n bs : or_loop n bs = xorb n (existsb (fun b => b) bs).
Proof. induction bs as [|[] r IH]; cbn; auto; destruct n; reflexivity. Qed.

Lemma one_loop_sem n armed bs :
  one_loop n armed bs = xorb n (Nat.eqb (count_true bs + (if armed then 1 else 0)) 1).
Proof.
  revert armed; induction bs as [|[] r IH]; intros armed; cbn [one_loop count_true].
  - destruct armed, n; reflexivity.
  - destruct armed.
    + replace (1 + count_true r + 1) with (S (S (count_true r))) by lia. cbn. destruct n; reflexivity.
    + rewrite IH. f_equal. f_equal. lia.
  - rewrite IH. reflexivity.
Qed.

Lemma justone_sem n bs : justone n bs = xorb n (is_nil bs || Nat.eqb (count_true bs) 1).
Proof.
  destruct bs as [|b r]; [destruct n; reflexivity|].
  unfold justone. rewrite one_loop_sem. cbn [is_nil orb]. now rewrite Nat.add_0_r.
Qed.

Lemma atmost_loop_sem n armed bs :
  atmost_loop n armed bs = xorb n (Nat.leb (count_true bs + (if armed then 1 else 0)) 1).
Proof.
  revert armed; induction bs as [|[] r IH]; intros armed; cbn [atmost_loop count_true].
  - destruct armed, n; reflexivity.
  - destruct armed.
    + replace (1 + count_true r + 1) with (S (S (count_true r))) by lia. cbn. destruct n; reflexivity.
    + rewrite IH. f_equal. f_equal. lia.
  - rewrite IH. reflexivity.
Qed.

Lemma node_match_sem k n bs : node_match k n bs = node_sem k n bs.
Proof.
  destruct k; cbn [node_match node_sem].
  - apply and_loop_sem.
  - apply or_loop_sem.
  - apply justone_sem.
  - rewrite atmost_loop_sem. now rewrite Nat.add_0_r.
  - apply and_loop_sem.
Qed.

Theorem match_is_propositional_proof : forall e r, eval e r = prop_eval e r.
Proof.
  intros e. apply (restr_ind' (fun r => eval e r = prop_eval e r)); cbn [eval prop_eval].
  - reflexivity.
  - reflexivity.
  - intros r IH. now rewrite IH.
  - intros k n cs IH. rewrite node_match_sem. f_equal. now apply map_ext_Forall'.
Qed.

(* Prop-level reading of [prop_eval] at the four node kinds (so the spec is visibly the textbook one) *)
Lemma count_true_map_filter {A} (f : A -> bool) l : count_true (map f l) = length (filter f l).
Proof. induction l as [|a l IH]; cbn; [reflexivity|]. destruct (f a); cbn; lia. Qed.

Lemma forallb_id_map' {A} (f : A -> bool) l : forallb (fun b => b) (map f l) = forallb f l.
Proof. induction l; cbn; congruence. Qed.
Lemma existsb_id_map' {A} (f : A -> bool) l : existsb (fun b => b) (map f l) = existsb f l.
Proof. induction l; cbn; congruence. Qed.

Lemma prop_eval_negate e k n cs :
  prop_eval e (Node k (negb n) cs) = negb (prop_eval e (Node k n cs)).
Proof. cbn [prop_eval node_sem]. unfold node_sem. now destruct n; rewrite ?xorb_true_l, ?xorb_false_l, ?negb_involutive. Qed.

Lemma prop_eval_and e cs :
  prop_eval e (Node KAnd false cs) = true <-> (forall c, In c cs -> prop_eval e c = true).
Proof.
  cbn [prop_eval]. unfold node_sem. rewrite xorb_false_l, forallb_id_map', forallb_forall. reflexivity.
Qed.

Lemma prop_eval_or e cs :
  prop_eval e (Node KOr false cs) = true <-> (exists c, In c cs /\ prop_eval e c = true).
Proof.
  cbn [prop_eval]. unfold node_sem. rewrite xorb_false_l, existsb_id_map', existsb_exists. reflexivity.
Qed.

Lemma prop_eval_justone e n cs : cs <> [] ->
  prop_eval e (Node KJustOne n cs) = xorb n (Nat.eqb (length (filter (prop_eval e) cs)) 1).
Proof.
  intros H. cbn [prop_eval]. unfold node_sem. rewrite count_true_map_filter.
  destruct cs; [congruence|reflexivity].
Qed.

Lemma prop_eval_atmostone e n cs :
  prop_eval e (Node KAtMostOne n cs) = xorb n (Nat.leb (length (filter (prop_eval e) cs)) 1).
Proof. cbn [prop_eval]. unfold node_sem. now rewrite count_true_map_filter. Qed.

(* ------------------------------------------------------------------ 2. clause-list algebra *)
Section Clauses.
  Variable e : env.

  Lemma eval_dnf_app a b : eval_dnf e (a ++ b) = eval_dnf e a || eval_dnf e b.
  Proof. unfold eval_dnf. apply existsb_app. Qed.

  Lemma eval_cnf_app a b : eval_cnf e (a ++ b) = eval_cnf e a && eval_cnf e b.
  Proof. unfold eval_cnf. apply forallb_app. Qed.

  Lemma eval_dnf_single cl : eval_dnf e [cl] = forallb (eval e) cl.
  Proof. unfold eval_dnf. cbn. apply orb_false_r. Qed.

  Lemma eval_cnf_single cl : eval_cnf e [cl] = existsb (eval e) cl.
  Proof. unfold eval_cnf. cbn. apply andb_true_r. Qed.

  Lemma eval_dnf_prefix n b : eval_dnf e (map (fun n2 => n ++ n2) b) = forallb (eval e) n && eval_dnf e b.
  Proof.
    unfold eval_dnf. induction b as [|x b IH]; cbn.
    - now rewrite andb_false_r.
    - rewrite IH, forallb_app. destruct (forallb (eval e) n); reflexivity.
  Qed.

  Lemma eval_dnf_cross a b : eval_dnf e (cross a b) = eval_dnf e a && eval_dnf e b.
  Proof.
    unfold cross. induction a as [|n a IH]; cbn [flat_map].
    - reflexivity.
    - rewrite eval_dnf_app, eval_dnf_prefix, IH.
      change (eval_dnf e (n :: a)) with (forallb (eval e) n || eval_dnf e a).
      destruct (forallb (eval e) n), (eval_dnf e a), (eval_dnf e b); reflexivity.
  Qed.

  Lemma eval_dnf_product a others :
    eval_dnf e (product a others) = eval_dnf e a && forallb (eval_dnf e) others.
  Proof.
    revert a; induction others as [|o os IH]; intros a; cbn [product forallb].
    - now rewrite andb_true_r.
    - now rewrite eval_dnf_cross, IH.
  Qed.

  (* what a parent knows about a child's recorded normal form *)
  Definition child_dnf_ok (cd : restr * nf) : Prop :=
    has_nf (fst cd) = true -> forall s, snd cd = inl s -> eval_dnf e s = eval e (fst cd).
  Definition child_cnf_ok (cd : restr * nf) : Prop :=
    has_nf (fst cd) = true -> forall s, snd cd = inl s -> eval_cnf e s = eval e (fst cd).

  Lemma and_dnf_loop_ok l : Forall child_dnf_ok l -> forall hard opts s,
    and_dnf_loop hard opts l = inl s ->
    eval_dnf e s = forallb (eval e) hard && forallb (eval_dnf e) opts
                   && forallb (fun cd => eval e (fst cd)) l.
  Proof.
    induction 1 as [|[c d] l Hc Hl IH]; intros hard opts s Hs; cbn [and_dnf_loop] in Hs.
    - injection Hs as <-. rewrite eval_dnf_product, eval_dnf_single. cbn. now rewrite andb_true_r.
    - cbn [forallb fst]. unfold child_dnf_ok in Hc; cbn [fst snd] in Hc.
      destruct (has_nf c) eqn:Hn.
      + destruct d as [[|cl [|cl2 s2]]|err]; try discriminate.
        * rewrite (IH _ _ _ Hs), forallb_app.
          rewrite <- (Hc eq_refl _ eq_refl), eval_dnf_single.
          repeat rewrite <- andb_assoc. f_equal.
          rewrite andb_comm. repeat rewrite <- andb_assoc. f_equal. apply andb_comm.
        * rewrite (IH _ _ _ Hs), forallb_app. cbn [forallb].
          rewrite <- (Hc eq_refl _ eq_refl), andb_true_r.
          repeat rewrite <- andb_assoc. reflexivity.
      + rewrite (IH _ _ _ Hs), forallb_app. cbn [forallb]. rewrite andb_true_r.
        repeat rewrite <- andb_assoc. f_equal.
        rewrite andb_comm. repeat rewrite <- andb_assoc. f_equal. apply andb_comm.
  Qed.

  Lemma concat_nf_dnf_ok l : Forall child_dnf_ok l -> forall s,
    concat_nf l = inl s -> eval_dnf e s = existsb (fun cd => eval e (fst cd)) l.
  Proof.
    induction 1 as [|[c d] l Hc Hl IH]; intros s Hs; cbn [concat_nf] in Hs.
    - injection Hs as <-. reflexivity.
    - cbn [existsb fst]. unfold child_dnf_ok in Hc; cbn [fst snd] in Hc.
      destruct (has_nf c) eqn:Hn.
      + destruct d as [s1|]; [|discriminate]. destruct (concat_nf l) as [s'|]; [|discriminate].
        injection Hs as <-. rewrite eval_dnf_app, (IH _ eq_refl), (Hc eq_refl _ eq_refl). reflexivity.
      + destruct (concat_nf l) as [s'|]; [|discriminate].
        injection Hs as <-. cbn [app].
        change (eval_dnf e ([c] :: s')) with (forallb (eval e) [c] || eval_dnf e s').
        rewrite (IH _ eq_refl). cbn. now rewrite andb_true_r.
  Qed.

  Lemma concat_nf_cnf_ok l : Forall child_cnf_ok l -> forall s,
    concat_nf l = inl s -> eval_cnf e s = forallb (fun cd => eval e (fst cd)) l.
  Proof.
    induction 1 as [|[c d] l Hc Hl IH]; intros s Hs; cbn [concat_nf] in Hs.
    - injection Hs as <-. reflexivity.
    - cbn [forallb fst]. unfold child_cnf_ok in Hc; cbn [fst snd] in Hc.
      destruct (has_nf c) eqn:Hn.
      + destruct d as [s1|]; [|discriminate]. destruct (concat_nf l) as [s'|]; [|discriminate].
        injection Hs as <-. rewrite eval_cnf_app, (IH _ eq_refl), (Hc eq_refl _ eq_refl). reflexivity.
      + destruct (concat_nf l) as [s'|]; [|discriminate].
        injection Hs as <-. cbn [app].
        change (eval_cnf e ([c] :: s')) with (existsb (eval e) [c] && eval_cnf e s').
        rewrite (IH _ eq_refl). cbn. now rewrite orb_false_r.
  Qed.

  (* OrRestriction.cnf_solutions *)
  Lemma or_cnf_split_ok s2 : forall dc cn dc' cn',
    or_cnf_split dc cn s2 = (dc', cn') ->
    existsb (eval e) dc' || eval_dnf e cn' = existsb (eval e) dc || eval_dnf e cn || eval_dnf e s2.
  Proof.
    induction s2 as [|y r IH]; intros dc cn dc' cn' H; cbn [or_cnf_split] in H.
    - injection H as <- <-. unfold eval_dnf at 3. cbn. now rewrite orb_false_r.
    - change (eval_dnf e (y :: r)) with (forallb (eval e) y || eval_dnf e r).
      destruct y as [|x [|x2 y']].
      + rewrite (IH _ _ _ _ H), eval_dnf_app, eval_dnf_single. cbn [forallb].
        repeat rewrite <- orb_assoc. reflexivity.
      + rewrite (IH _ _ _ _ H), existsb_app. cbn [existsb forallb]. rewrite orb_false_r, andb_true_r.
        repeat rewrite <- orb_assoc. f_equal. rewrite orb_comm. repeat rewrite <- orb_assoc. f_equal.
        apply orb_comm.
      + rewrite (IH _ _ _ _ H), eval_dnf_app, eval_dnf_single.
        repeat rewrite <- orb_assoc. reflexivity.
  Qed.

  Lemma eval_cnf_suffix acc x :
    eval_cnf e (map (fun y => y ++ [x]) acc) = eval_cnf e acc || eval e x.
  Proof.
    unfold eval_cnf. induction acc as [|y acc IH]; cbn [map forallb].
    - reflexivity.
    - rewrite IH, existsb_app. cbn [existsb]. rewrite orb_false_r.
      destruct (existsb (eval e) y), (eval e x), (forallb (existsb (eval e)) acc); reflexivity.
  Qed.

  Lemma eval_cnf_distribute acc andreq :
    eval_cnf e (distribute acc andreq) = eval_cnf e acc || forallb (eval e) andreq.
  Proof.
    unfold distribute. induction andreq as [|x r IH]; cbn [flat_map forallb].
    - now rewrite orb_true_r.
    - rewrite eval_cnf_app, eval_cnf_suffix, IH.
      destruct (eval_cnf e acc), (eval e x), (forallb (eval e) r); reflexivity.
  Qed.

  Lemma eval_cnf_fold cn : forall acc,
    eval_cnf e (fold_left distribute cn acc) = eval_cnf e acc || eval_dnf e cn.
  Proof.
    induction cn as [|a cn IH]; intros acc; cbn [fold_left].
    - unfold eval_dnf. cbn. now rewrite orb_false_r.
    - rewrite IH, eval_cnf_distribute.
      change (eval_dnf e (a :: cn)) with (forallb (eval e) a || eval_dnf e cn).
      now rewrite orb_assoc.
  Qed.

  Lemma or_cnf_loop_ok l : Forall child_dnf_ok l -> forall dc cn s,
    or_cnf_loop dc cn l = inl s ->
    eval_cnf e s = existsb (eval e) dc || eval_dnf e cn || existsb (fun cd => eval e (fst cd)) l.
  Proof.
    induction 1 as [|[c d] l Hc Hl IH]; intros dc cn s Hs; cbn [or_cnf_loop] in Hs.
    - injection Hs as <-. rewrite eval_cnf_fold, eval_cnf_single. cbn. now rewrite orb_false_r.
    - cbn [existsb fst]. unfold child_dnf_ok in Hc; cbn [fst snd] in Hc.
      destruct (has_nf c) eqn:Hn.
      + destruct d as [s2|err]; [|discriminate].
        rewrite <- (Hc eq_refl _ eq_refl).
        assert (Hgen : forall dc' cn', or_cnf_split dc cn s2 = (dc', cn') ->
                  or_cnf_loop dc' cn' l = inl s ->
                  eval_cnf e s = existsb (eval e) dc || eval_dnf e cn
                                 || (eval_dnf e s2 || existsb (fun cd => eval e (fst cd)) l)).
        { intros dc' cn' Hsp Hl'. rewrite (IH _ _ _ Hl'), (or_cnf_split_ok _ _ _ _ _ Hsp).
          repeat rewrite <- orb_assoc. reflexivity. }
        destruct s2 as [|cl [|cl2 s2]].
        * apply (Hgen dc cn eq_refl Hs).
        * rewrite (IH _ _ _ Hs), eval_dnf_app. repeat rewrite <- orb_assoc. reflexivity.
        * destruct (or_cnf_split dc cn (cl :: cl2 :: s2)) as [dc' cn'] eqn:Hsp.
          apply (Hgen dc' cn' eq_refl Hs).
      + rewrite (IH _ _ _ Hs), existsb_app. cbn [existsb]. rewrite orb_false_r.
        repeat rewrite <- orb_assoc. f_equal. rewrite orb_comm. repeat rewrite <- orb_assoc. f_equal.
        apply orb_comm.
  Qed.
End Clauses.

(* ------------------------------------------------------------------ 3. dnf / cnf denote the tree *)
Lemma existsb_false_Forall {A} (f : A -> bool) l :
  existsb f l = false -> Forall (fun x => f x = false) l.
Proof.
  induction l as [|a l IH]; cbn; intros H; constructor;
    apply orb_false_iff in H as [H1 H2]; auto.
Qed.

Lemma forallb_map_fst {A B} (f : A -> bool) (g : A -> B) l :
  forallb (fun cd => f (fst cd)) (map (fun c => (c, g c)) l) = forallb f l.
Proof. induction l; cbn; congruence. Qed.
Lemma existsb_map_fst {A B} (f : A -> bool) (g : A -> B) l :
  existsb (fun cd => f (fst cd)) (map (fun c => (c, g c)) l) = existsb f l.
Proof. induction l; cbn; congruence. Qed.
Lemma forallb_id_map {A} (f : A -> bool) l : forallb (fun b => b) (map f l) = forallb f l.
Proof. induction l; cbn; congruence. Qed.
Lemma existsb_id_map {A} (f : A -> bool) l : existsb (fun b => b) (map f l) = existsb f l.
Proof. induction l; cbn; congruence. Qed.
Lemma existsb_negb {A} (f : A -> bool) l : existsb (fun x => negb (f x)) l = negb (forallb f l).
Proof. induction l as [|a l IH]; cbn; [reflexivity|]. rewrite IH. now destruct (f a). Qed.
Lemma forallb_negb {A} (f : A -> bool) l : forallb (fun x => negb (f x)) l = negb (existsb f l).
Proof. induction l as [|a l IH]; cbn; [reflexivity|]. rewrite IH. now destruct (f a). Qed.

Lemma existsb_map' {A B} (f : B -> bool) (g : A -> B) l : existsb f (map g l) = existsb (fun x => f (g x)) l.
Proof. induction l; cbn; congruence. Qed.
Lemma forallb_map' {A B} (f : B -> bool) (g : A -> B) l : forallb f (map g l) = forallb (fun x => f (g x)) l.
Proof. induction l; cbn; congruence. Qed.
Lemma existsb_ext' {A} (f g : A -> bool) l : (forall x, f x = g x) -> existsb f l = existsb g l.
Proof. intros H. induction l; cbn; congruence. Qed.
Lemma forallb_ext' {A} (f g : A -> bool) l : (forall x, f x = g x) -> forallb f l = forallb g l.
Proof. intros H. induction l; cbn; congruence. Qed.

Lemma eval_and e n cs : and_loop n (map (eval e) cs) = xorb n (forallb (eval e) cs).
Proof. now rewrite and_loop_sem, forallb_id_map. Qed.
Lemma eval_or e n cs : or_loop n (map (eval e) cs) = xorb n (existsb (eval e) cs).
Proof. now rewrite or_loop_sem, existsb_id_map. Qed.

Definition dnf_P fse r : Prop :=
  forall s, dnf_class fse r = false -> dnf fse r = inl s -> forall e, eval_dnf e s = eval e r.

Lemma lift_dnf_IH fse e cs :
  Forall (dnf_P fse) cs -> existsb (dnf_class fse) cs = false ->
  Forall (child_dnf_ok e) (map (fun c => (c, dnf fse c)) cs).
Proof.
  intros H Hc. apply existsb_false_Forall in Hc. apply Forall_map.
  rewrite Forall_forall in *. intros c Hin _ s Hs. cbn [fst snd] in *.
  exact (H c Hin s (Hc c Hin) Hs e).
Qed.

Lemma and_dnf_ok fse (n : bool) cs :
  Forall (dnf_P fse) cs ->
  (if n then is_nil cs else existsb (dnf_class fse) cs) = false ->
  forall s, and_dnf n cs (map (fun c => (c, dnf fse c)) cs) = inl s ->
  forall e, eval_dnf e s = and_loop n (map (eval e) cs).
Proof.
  intros IH Hc s Hs e. rewrite eval_and. unfold and_dnf in Hs. destruct n.
  - destruct cs as [|c cs]; [discriminate|]. injection Hs as <-.
    change (eval_dnf e (map (fun c0 => [Neg c0]) (c :: cs)) = xorb true (forallb (eval e) (c :: cs))).
    unfold eval_dnf. rewrite existsb_map'.
    transitivity (existsb (fun x => negb (eval e x)) (c :: cs)).
    + apply existsb_ext'. intros x. cbn. now rewrite andb_true_r.
    + now rewrite existsb_negb.
  - destruct cs as [|c cs]; [injection Hs as <-; reflexivity|].
    rewrite (and_dnf_loop_ok e _ (lift_dnf_IH fse e _ IH Hc) _ _ _ Hs), forallb_map_fst.
    now rewrite xorb_false_l.
Qed.

Theorem dnf_equiv_partial_proof : forall fse r s,
  dnf_class fse r = false -> dnf fse r = inl s -> forall e, eval_dnf e s = eval e r.
Proof.
  intros fse r. apply (restr_ind' (dnf_P fse)); unfold dnf_P.
  - intros n i s _ Hs e. injection Hs as <-. rewrite eval_dnf_single. cbn. now rewrite andb_true_r.
  - intros b s _ Hs e. injection Hs as <-. rewrite eval_dnf_single. cbn. now rewrite andb_true_r.
  - intros r' _ s _ Hs e. injection Hs as <-. rewrite eval_dnf_single. cbn [forallb]. now rewrite andb_true_r.
  - intros k n cs IH s Hc Hs e.
    assert (Hself : forall s, (inl [[Node k n cs]] : nf) = inl s -> eval_dnf e s = eval e (Node k n cs)).
    { intros s0 H0. injection H0 as <-. rewrite eval_dnf_single. cbn [forallb]. now rewrite andb_true_r. }
    cbn [dnf dnf_class] in Hs, Hc. cbn [eval node_match]. destruct k.
    + now apply (and_dnf_ok fse n cs IH Hc s Hs e).
    + rewrite eval_or. unfold or_dnf in Hs. destruct n.
      * injection Hs as <-. rewrite eval_dnf_single, forallb_map'.
        change (forallb (fun x => negb (eval e x)) cs = xorb true (existsb (eval e) cs)).
        rewrite forallb_negb. reflexivity.
      * destruct cs as [|c cs]; [discriminate|]. cbn [is_nil orb] in Hc.
        rewrite (concat_nf_dnf_ok e _ (lift_dnf_IH fse e _ IH Hc) _ Hs), existsb_map_fst.
        now rewrite xorb_false_l.
    + now apply Hself.
    + now apply Hself.
    + destruct fse.
      * now apply (and_dnf_ok true n cs IH Hc s Hs e).
      * now apply Hself.
Qed.

Definition cnf_P fse r : Prop :=
  forall s, cnf_class fse r = false -> cnf fse r = inl s -> forall e, eval_cnf e s = eval e r.

Lemma lift_cnf_IH fse e cs :
  Forall (cnf_P fse) cs -> existsb (cnf_class fse) cs = false ->
  Forall (child_cnf_ok e) (map (fun c => (c, cnf fse c)) cs).
Proof.
  intros H Hc. apply existsb_false_Forall in Hc. apply Forall_map.
  rewrite Forall_forall in *. intros c Hin _ s Hs. cbn [fst snd] in *.
  exact (H c Hin s (Hc c Hin) Hs e).
Qed.

Lemma dnf_children_ok fse e cs :
  existsb (dnf_class fse) cs = false ->
  Forall (child_dnf_ok e) (map (fun c => (c, dnf fse c)) cs).
Proof.
  intros Hc. apply existsb_false_Forall in Hc. apply Forall_map.
  rewrite Forall_forall in *. intros c Hin _ s Hs. cbn [fst snd] in *.
  exact (dnf_equiv_partial_proof fse c s (Hc c Hin) Hs e).
Qed.

Lemma and_cnf_ok fse (n : bool) cs :
  Forall (cnf_P fse) cs ->
  (if n then false else existsb (cnf_class fse) cs) = false ->
  forall s, and_cnf n (map (fun c => (c, cnf fse c)) cs) = inl s ->
  forall e, eval_cnf e s = and_loop n (map (eval e) cs).
Proof.
  intros IH Hc s Hs e. rewrite eval_and. unfold and_cnf in Hs. destruct n; [discriminate|].
  rewrite (concat_nf_cnf_ok e _ (lift_cnf_IH fse e _ IH Hc) _ Hs), forallb_map_fst. now rewrite xorb_false_l.
Qed.

Theorem cnf_equiv_partial_proof : forall fse r s,
  cnf_class fse r = false -> cnf fse r = inl s -> forall e, eval_cnf e s = eval e r.
Proof.
  intros fse r. apply (restr_ind' (cnf_P fse)); unfold cnf_P.
  - intros n i s _ Hs e. injection Hs as <-. rewrite eval_cnf_single. cbn. now rewrite orb_false_r.
  - intros b s _ Hs e. injection Hs as <-. rewrite eval_cnf_single. cbn. now rewrite orb_false_r.
  - intros r' _ s _ Hs e. injection Hs as <-. rewrite eval_cnf_single. cbn [existsb]. now rewrite orb_false_r.
  - intros k n cs IH s Hc Hs e.
    assert (Hself : forall s, (inl [[Node k n cs]] : nf) = inl s -> eval_cnf e s = eval e (Node k n cs)).
    { intros s0 H0. injection H0 as <-. rewrite eval_cnf_single. cbn [existsb]. now rewrite orb_false_r. }
    cbn [cnf cnf_class] in Hs, Hc. cbn [eval node_match]. destruct k.
    + now apply (and_cnf_ok fse n cs IH Hc s Hs e).
    + rewrite eval_or. unfold or_cnf in Hs. destruct n; [discriminate|].
      destruct cs as [|c cs]; [discriminate|]. cbn [is_nil orb] in Hc.
      rewrite (or_cnf_loop_ok e _ (dnf_children_ok fse e _ Hc) _ _ _ Hs), existsb_map_fst.
      now rewrite xorb_false_l.
    + now apply Hself.
    + now apply Hself.
    + destruct fse.
      * now apply (and_cnf_ok true n cs IH Hc s Hs e).
      * now apply Hself.
Qed.

(* the same two theorems against the SPEC's reading of both sides *)
Lemma sem_dnf_eval e s : sem_dnf e s = eval_dnf e s.
Proof.
  unfold sem_dnf, eval_dnf. apply existsb_ext'. intros cl. apply forallb_ext'. intros r.
  symmetry. apply match_is_propositional_proof.
Qed.
Lemma sem_cnf_eval e s : sem_cnf e s = eval_cnf e s.
Proof.
  unfold sem_cnf, eval_cnf. apply forallb_ext'. intros cl. apply existsb_ext'. intros r.
  symmetry. apply match_is_propositional_proof.
Qed.

Theorem dnf_denotes_formula_proof : forall fse r s,
  dnf_class fse r = false -> dnf fse r = inl s -> forall e, sem_dnf e s = prop_eval e r.
Proof.
  intros. rewrite sem_dnf_eval, <- match_is_propositional_proof. eauto using dnf_equiv_partial_proof.
Qed.
Theorem cnf_denotes_formula_proof : forall fse r s,
  cnf_class fse r = false -> cnf fse r = inl s -> forall e, sem_cnf e s = prop_eval e r.
Proof.
  intros. rewrite sem_cnf_eval, <- match_is_propositional_proof. eauto using cnf_equiv_partial_proof.
Qed.

(* ------------------------------------------------------------------ 4. refusals *)
(* dnf_solutions never refuses and never returns the empty list (so `assert s2` is dead) *)
Lemma cross_nonempty a b : a <> [] -> b <> [] -> cross a b <> [].
Proof. destruct a as [|x a], b as [|y b]; cbn; congruence. Qed.
Lemma product_nonempty others : forall a, a <> [] -> Forall (fun o => o <> []) others -> product a others <> [].
Proof.
  induction others as [|o os IH]; intros a Ha Ho; cbn; [assumption|].
  inversion Ho; subst. apply cross_nonempty; auto.
Qed.

Definition child_total (cd : restr * nf) : Prop := exists s, snd cd = inl s /\ s <> [].

Lemma and_dnf_loop_total l : Forall child_total l -> forall hard opts,
  Forall (fun o => o <> []) opts -> exists s, and_dnf_loop hard opts l = inl s /\ s <> [].
Proof.
  induction 1 as [|[c d] l Hc Hl IH]; intros hard opts Ho; cbn [and_dnf_loop].
  - eexists; split; [reflexivity|]. apply product_nonempty; [congruence|assumption].
  - destruct Hc as [s2 [Hd Hne]]; cbn [snd] in Hd; subst d. destruct (has_nf c).
    + destruct s2 as [|cl [|cl2 s2]]; [congruence|apply IH; assumption|].
      apply IH. apply Forall_app; split; [assumption|]. constructor; [congruence|constructor].
    + apply IH; auto.
Qed.

Lemma concat_nf_total l : l <> [] -> Forall child_total l -> exists s, concat_nf l = inl s /\ s <> [].
Proof.
  intros Hne H. induction H as [|[c d] l Hc Hl IH]; [congruence|]. cbn [concat_nf].
  destruct Hc as [s2 [Hd Hne2]]; cbn [snd] in Hd; subst d.
  destruct l as [|x l].
  - cbn. destruct (has_nf c); eexists; split; try reflexivity; rewrite app_nil_r; congruence.
  - destruct IH as [s' [-> Hs']]; [congruence|].
    destruct (has_nf c); eexists; split; try reflexivity; intros H0; apply app_eq_nil in H0 as [_ H0]; auto.
Qed.

Theorem dnf_never_refuses_proof : forall fse r, exists s, dnf fse r = inl s /\ s <> [].
Proof.
  intros fse. apply (restr_ind' (fun r => exists s, dnf fse r = inl s /\ s <> [])).
  - intros; eexists; split; [reflexivity|congruence].
  - intros; eexists; split; [reflexivity|congruence].
  - intros; eexists; split; [reflexivity|congruence].
  - intros k n cs IH.
    assert (Hch : Forall child_total (map (fun c => (c, dnf fse c)) cs)).
    { apply Forall_map. eapply Forall_impl; [|exact IH]. intros c Hc. exact Hc. }
    assert (Hand : exists s, and_dnf n cs (map (fun c => (c, dnf fse c)) cs) = inl s /\ s <> []).
    { unfold and_dnf. destruct n.
      - eexists; split; [reflexivity|]. destruct cs; cbn; congruence.
      - destruct cs as [|c cs]; [eexists; split; [reflexivity|congruence]|].
        apply and_dnf_loop_total; auto. }
    cbn [dnf]. destruct k; try (eexists; split; [reflexivity|congruence]).
    + exact Hand.
    + unfold or_dnf. destruct n; [eexists; split; [reflexivity|congruence]|].
      destruct cs as [|c cs]; [eexists; split; [reflexivity|congruence]|].
      apply concat_nf_total; [cbn; congruence|assumption].
    + destruct fse; [exact Hand|eexists; split; [reflexivity|congruence]].
Qed.

(* cnf_solutions refuses exactly with NotImplementedError (the assert cannot fire either) *)
Lemma concat_nf_err l e : concat_nf l = inr e ->
  exists c d, In (c, d) l /\ has_nf c = true /\ d = inr e.
Proof.
  induction l as [|[c d] l IH]; cbn [concat_nf]; [discriminate|].
  destruct (has_nf c) eqn:Hn.
  - destruct d as [s|e'].
    + destruct (concat_nf l) as [s'|e'] eqn:Hl; [discriminate|]. intros H; injection H as ->.
      destruct (IH eq_refl) as [c' [d' [Hin H']]]. exists c', d'. split; [now right|assumption].
    + intros H; injection H as ->. exists c, (inr e). split; [now left|auto].
  - destruct (concat_nf l) as [s'|e'] eqn:Hl; [discriminate|]. intros H; injection H as ->.
    destruct (IH eq_refl) as [c' [d' [Hin H']]]. exists c', d'. split; [now right|assumption].
Qed.

Lemma or_cnf_loop_total fse cs : forall dc cn,
  exists s, or_cnf_loop dc cn (map (fun c => (c, dnf fse c)) cs) = inl s.
Proof.
  induction cs as [|c cs IH]; intros dc cn; cbn [map or_cnf_loop]; [eexists; reflexivity|].
  destruct (has_nf c); [|apply IH].
  destruct (dnf_never_refuses_proof fse c) as [s2 [-> Hne]].
  destruct s2 as [|cl [|cl2 s2]]; [congruence|apply IH|].
  destruct (or_cnf_split dc cn (cl :: cl2 :: s2)). apply IH.
Qed.

Theorem cnf_refusal_kind_proof : forall fse r e, cnf fse r = inr e -> e = ENotImpl.
Proof.
  intros fse. apply (restr_ind' (fun r => forall e, cnf fse r = inr e -> e = ENotImpl)); try discriminate.
  intros k n cs IH e.
  assert (Hand : and_cnf n (map (fun c => (c, cnf fse c)) cs) = inr e -> e = ENotImpl).
  { unfold and_cnf. destruct n; [congruence|]. intros H.
    apply concat_nf_err in H as [c [d [Hin [_ ->]]]]. apply in_map_iff in Hin as [c' [Heq Hin]].
    injection Heq as -> Hd. rewrite Forall_forall in IH. eauto. }
  cbn [cnf]. destruct k; try discriminate.
  - exact Hand.
  - unfold or_cnf. destruct n; [congruence|]. destruct cs as [|c cs]; [discriminate|].
    destruct (or_cnf_loop_total fse (c :: cs) [] []) as [s ->]. discriminate.
  - destruct fse; [exact Hand|discriminate].
Qed.

(* ------------------------------------------------------------------ 5. the full statement is false *)
Definition dnf_equiv_full : Prop :=
  forall fse r s, dnf fse r = inl s -> forall e, eval_dnf e s = eval e r.
Definition cnf_equiv_full : Prop :=
  forall fse r s, cnf fse r = inl s -> forall e, eval_cnf e s = eval e r.

(* witnesses: the empty any-of, and the negated empty all-of *)
Lemma dnf_equiv_refuted_proof : ~ dnf_equiv_full.
Proof.
  intros H. specialize (H false (Node KOr false []) [[]] eq_refl (fun _ => false)).
  vm_compute in H. discriminate.
Qed.
Lemma dnf_equiv_refuted_nand_proof :
  exists s, dnf false (Node KAnd true []) = inl s /\
            forall e, eval_dnf e s = true /\ eval e (Node KAnd true []) = false.
Proof. exists [[]]. split; [reflexivity|]. intros e. split; reflexivity. Qed.
Lemma cnf_equiv_refuted_proof : ~ cnf_equiv_full.
Proof.
  intros H. specialize (H false (Node KOr false []) [] eq_refl (fun _ => false)).
  vm_compute in H. discriminate.
Qed.

(* the class predicates are not vacuous and not trivially true: examples *)
Definition ex_tree : restr :=
  Node KAnd false
    [Leaf false 0; Node KOr false [Leaf false 1; Node KAnd false [Leaf true 2; Leaf false 3]];
     Node KOr true [Leaf false 1; Leaf false 2]; Node KJustOne false [Leaf false 0; Leaf false 3];
     Neg (Node KAtMostOne true [Leaf false 1; Leaf false 2; Leaf false 3])].

Example ex_tree_outside_class : dnf_class false ex_tree = false /\ cnf_class false ex_tree = false.
Proof. split; reflexivity. Qed.
Example ex_tree_dnf :
  dnf false ex_tree =
  inl [[Leaf false 0; Neg (Leaf false 1); Neg (Leaf false 2); Node KJustOne false [Leaf false 0; Leaf false 3];
        Neg (Node KAtMostOne true [Leaf false 1; Leaf false 2; Leaf false 3]); Leaf false 1];
       [Leaf false 0; Neg (Leaf false 1); Neg (Leaf false 2); Node KJustOne false [Leaf false 0; Leaf false 3];
        Neg (Node KAtMostOne true [Leaf false 1; Leaf false 2; Leaf false 3]); Leaf true 2; Leaf false 3]].
Proof. reflexivity. Qed.
Example ex_tree_cnf_refused : cnf false ex_tree = inr ENotImpl.
Proof. reflexivity. Qed.
Example ex_or_cnf :
  cnf false (Node KOr false [Leaf false 0; Node KAnd false [Leaf false 1; Leaf false 2];
                             Node KAnd true [Leaf false 3; Leaf false 4]]) =
  inl [[Leaf false 0; Neg (Leaf false 3); Neg (Leaf false 4); Leaf false 1];
       [Leaf false 0; Neg (Leaf false 3); Neg (Leaf false 4); Leaf false 2]].
Proof. reflexivity. Qed.
Example ex_match_truth_table :
  map (fun m => eval (env_of_mask m) (Node KJustOne true [Leaf false 0; Leaf true 1; Always false])) [0;1;2;3]%N
  = [false; true; true; false].
Proof. reflexivity. Qed.
