(* Model_C12.v — executable model of the incremental-token functions of
   src/pkgcore/ebuild/misc.py.  No proofs here.

   ======================================================================= INTERFACE
   (importable by other properties:  From Verif Require Import C12.Model_C12.)

   Strings are [str = list N] (code points); a Python [set] of strings is a duplicate-free
   [list str] (insertion order is irrelevant: results are compared as sets / after [canon]).

   set primitives   mem x s | sadd x s | sdel x s | sunion s l | sdiff s l
   results          res ::= Ok (s : list str) | Fail (e : err)
                    err ::= EIndex          token ""  -> IndexError on token[0]
                          | EBareNeg        token "-" -> ValueError "incomplete negation"
                          | EBareNegGroup   "-@"      -> ValueError (license groups only)
                          | EBareGroup      "@"       -> ValueError (license groups only)

   expand fin ts orig            misc.incremental_expansion(ts, orig, finalize=fin)
   optimize strict ts            misc.optimize_incrementals(ts), the yielded items in yield order
                                 (strict = true: the repaired tree, which also rejects a bare "-"
                                  left of the "-*" that ends the scan; strict = false: pinned tree)
   split_negations s             snakeoil.sequences.split_negations(s)  -> Some (neg, pos) | None=error
   chunk_apply neg pos orig      misc.incremental_chunked(orig, [chunk(neg,pos)])  (one chunk)
   consume out orig              how domain.enabled_use consumes the stored frozenset:
                                 add_bare_global( *split_negations(out)) ; render_pkg(pre_defaults=orig)
   expand_license lics groups ts misc.incremental_expansion_license(pkg, lics, groups, ts);
                                 [groups] is the already closed mapping name -> members
                                 (Licenses.groups); a missing name denotes the empty group
   pull_data / pull_stream       collapsed_restrict_to_data(...).pull_data / iter_pull_data for one
                                 package, restrictions abstracted to (bucket, matches?)
   non_incremental_pull          non_incremental_collapsed_restrict_to_data.pull_data
   closure / close_groups        Licenses.groups: the nested @group definitions of a license_groups
                                 file flattened (order-independent reachability)
   license_filter / _seq         domain._apply_license_filter as bound by _pkg_filters: one query /
                                 a sequence of queries against one long-lived filter
   canon / enc_set / enc_res     canonical (sorted, duplicate-free) encoders for the harness
   ================================================================================= *)
From Coq Require Import List NArith ZArith Bool.
Import ListNotations.
From Verif Require Import Base.Val.

Definition DASH : N := 45%N.   (* "-" *)
Definition STAR : N := 42%N.   (* "*" *)
Definition AT : N := 64%N.     (* "@" *)
Definition USCORE : N := 95%N. (* "_" *)

(* ------------------------------------------------------------------ sets of strings *)
Definition mem (x : str) (s : list str) : bool := existsb (str_eqb x) s.
Definition sadd (x : str) (s : list str) : list str := if mem x s then s else s ++ [x].
Definition sdel (x : str) (s : list str) : list str := filter (fun y => negb (str_eqb x y)) s.
Definition sunion (s l : list str) : list str := fold_left (fun acc x => sadd x acc) l s.
Definition sdiff (s l : list str) : list str := filter (fun y => negb (mem y l)) s.

Inductive err : Type := EIndex | EBareNeg | EBareNegGroup | EBareGroup.
Inductive res : Type := Ok (s : list str) | Fail (e : err).

(* ------------------------------------------------------------------ incremental_expansion *)
(* one token of misc.incremental_expansion (misc.py:86-101) *)
Definition step (fin : bool) (t : str) (s : list str) : res :=
  match t with
  | [] => Fail EIndex                                  (* token[0] on "" *)
  | c :: i =>
      if N.eqb c DASH then
        match i with
        | [] => Fail EBareNeg
        | _ => let s' := if str_eqb i [STAR] then [] else sdel i s in
               Ok (if fin then s' else sadd t s')
        end
      else Ok (sadd t (sdel (DASH :: t) s))
  end.

Fixpoint expand (fin : bool) (ts : list str) (s : list str) : res :=
  match ts with
  | [] => Ok s
  | t :: r => match step fin t s with
              | Ok s' => expand fin r s'
              | Fail e => Fail e
              end
  end.

(* ------------------------------------------------------------------ optimize_incrementals *)
(* The generator walks reversed(sequence); [rs] is the reversed stream, [fin] the `finalized`
   set.  An exception raised later discards what was yielded before (the consumers build a
   frozenset from the generator).  On "-*" the pinned code returns at once; the repaired code
   first rejects a bare "-" anywhere in the not yet visited part. *)
Definition res_cons (t : str) (r : res) : res :=
  match r with Ok l => Ok (t :: l) | Fail e => Fail e end.

Fixpoint opt_scan (strict : bool) (rs : list str) (fin : list str) : res :=
  match rs with
  | [] => Ok []
  | t :: r =>
      match t with
      | [] => Fail EIndex
      | c :: i =>
          if N.eqb c DASH then
            match i with
            | [] => Fail EBareNeg
            | _ =>
                if str_eqb i [STAR] then
                  (if strict && existsb (str_eqb [DASH]) r then Fail EBareNeg else Ok [t])
                else if mem i fin then opt_scan strict r fin
                else res_cons t (opt_scan strict r (i :: fin))
            end
          else if mem t fin then opt_scan strict r fin
          else res_cons t (opt_scan strict r (t :: fin))
      end
  end.

Definition optimize (strict : bool) (ts : list str) : res := opt_scan strict (rev ts) [].

(* ------------------------------------------------------------------ the consumer of the stored set *)
(* snakeoil.sequences.split_negations over the elements of the stored frozenset *)
Fixpoint split_negations (s : list str) : option (list str * list str) :=
  match s with
  | [] => Some ([], [])
  | t :: r =>
      match t with
      | [] => None                                      (* IndexError *)
      | c :: i =>
          match split_negations r with
          | None => None
          | Some (neg, pos) =>
              if N.eqb c DASH then
                match i with [] => None | _ => Some (i :: neg, pos) end
              else Some (neg, t :: pos)
          end
      end
  end.

Fixpoint startswith (p s : str) : bool :=
  match p, s with
  | [], _ => true
  | x :: p', y :: s' => N.eqb x y && startswith p' s'
  | _ :: _, [] => false
  end.
(* flag.endswith("_*") *)
Definition ends_us_star (s : str) : bool :=
  match rev s with
  | a :: b :: _ => N.eqb a STAR && N.eqb b USCORE
  | _ => false
  end.
(* flag[:-2] *)
Definition drop_last2 (s : str) : str := firstn (length s - 2) s.

(* misc.incremental_chunked(orig, [chunk]) for ONE chunk (misc.py:70-79) *)
Definition chunk_apply (neg pos : list str) (orig : list str) : list str :=
  let s0 := if mem [STAR] neg then [] else orig in
  let s1 := fold_left (fun s flag =>
                         if ends_us_star flag
                         then filter (fun f => negb (startswith (drop_last2 flag) f)) s
                         else s) neg s0 in
  sunion (sdiff s1 neg) pos.

(* domain.enabled_use: ChunkedDataDict.add_bare_global( *split_negations(self.use)) followed by
   render_pkg(pkg, pre_defaults=orig).  _add_global ignores an empty (neg,pos).  None = the
   split raised. *)
Definition consume (out : list str) (orig : list str) : option (list str) :=
  match split_negations out with
  | None => None
  | Some (neg, pos) =>
      match neg, pos with
      | [], [] => Some orig
      | _, _ => Some (chunk_apply neg pos orig)
      end
  end.

(* ------------------------------------------------------------------ incremental_expansion_license *)
Fixpoint lookup (g : str) (groups : list (str * list str)) : list str :=
  match groups with
  | [] => []                                            (* license_groups.get(i, ()) *)
  | (k, v) :: r => if str_eqb g k then v else lookup g r
  end.

Definition step_license (lics : list str) (groups : list (str * list str))
           (t : str) (seen : list str) : res :=
  match t with
  | [] => Fail EIndex
  | c :: i =>
      if N.eqb c DASH then
        match i with
        | [] => Fail EBareNeg
        | d :: g =>
            if str_eqb i [STAR] then Ok []
            else if N.eqb d AT then
              match g with
              | [] => Fail EBareNegGroup
              | _ => Ok (sdiff seen (lookup g groups))
              end
            else Ok (sdel i seen)
        end
      else if N.eqb c AT then
        match i with
        | [] => Fail EBareGroup
        | _ => Ok (sunion seen (lookup i groups))
        end
      else if str_eqb t [STAR] then Ok (sunion seen lics)
      else Ok (sadd t seen)
  end.

Fixpoint expand_license_from (lics : list str) (groups : list (str * list str))
         (ts : list str) (seen : list str) : res :=
  match ts with
  | [] => Ok seen
  | t :: r => match step_license lics groups t seen with
              | Ok s' => expand_license_from lics groups r s'
              | Fail e => Fail e
              end
  end.
Definition expand_license lics groups ts : res := expand_license_from lics groups ts [].

(* ------------------------------------------------------------------ collapsed_restrict_to_data *)
(* A restriction is abstracted to the bucket __init__ sorts it into and whether it matches the
   one package we pull data for.  BAlways b = AlwaysBool with negate=b (AlwaysTrue = true;
   AlwaysFalse is dropped); BAtom samekey = an atom whose .key is / is not the package's key. *)
Inductive bucket : Type := BAlways (b : bool) | BRepo | BCat | BPkg | BMulti | BAtom (samekey : bool).
Definition source : Type := (bucket * bool * list str)%type.   (* bucket, matches pkg, data *)

Record collapsed : Type := {
  c_always : list str;                     (* the `always` token list *)
  c_repo : list (bool * list str);
  c_cat : list (bool * list str);
  c_pkg : list (bool * list str);
  c_multi : list (bool * list str);
  c_atoms : list (bool * list str) }.      (* atom_d[pkg.key] *)

Definition is_neg (t : str) : bool := match t with c :: _ => N.eqb c DASH | [] => false end.
Definition is_nil {A} (l : list A) : bool := match l with [] => true | _ => false end.

Definition collapse_one (c : collapsed) (s : source) : collapsed :=
  let '(b, m, data) := s in
  if is_nil data then c else
  match b with
  | BAlways true =>
      {| c_always := c_always c ++ data; c_repo := c_repo c; c_cat := c_cat c; c_pkg := c_pkg c;
         c_multi := c_multi c;
         c_atoms := if is_nil (c_atoms c) then [] else c_atoms c ++ [(true, filter is_neg data)] |}
  | BAlways false => c
  | BRepo => {| c_always := c_always c; c_repo := c_repo c ++ [(m, data)]; c_cat := c_cat c;
                c_pkg := c_pkg c; c_multi := c_multi c; c_atoms := c_atoms c |}
  | BCat => {| c_always := c_always c; c_repo := c_repo c; c_cat := c_cat c ++ [(m, data)];
               c_pkg := c_pkg c; c_multi := c_multi c; c_atoms := c_atoms c |}
  | BPkg => {| c_always := c_always c; c_repo := c_repo c; c_cat := c_cat c;
               c_pkg := c_pkg c ++ [(m, data)]; c_multi := c_multi c; c_atoms := c_atoms c |}
  | BMulti => {| c_always := c_always c; c_repo := c_repo c; c_cat := c_cat c; c_pkg := c_pkg c;
                 c_multi := c_multi c ++ [(m, data)]; c_atoms := c_atoms c |}
  | BAtom true => {| c_always := c_always c; c_repo := c_repo c; c_cat := c_cat c; c_pkg := c_pkg c;
                     c_multi := c_multi c; c_atoms := c_atoms c ++ [(m, data)] |}
  | BAtom false => c
  end.
Definition collapse (srcs : list source) : collapsed :=
  fold_left collapse_one srcs
            {| c_always := []; c_repo := []; c_cat := []; c_pkg := []; c_multi := []; c_atoms := [] |}.

Definition matched (l : list (bool * list str)) : list str :=
  concat (map snd (filter fst l)).
(* the tokens pull_data expands after the defaults: freeform buckets in the order
   repo, cat, pkg, multi, then the atoms of the package's key *)
Definition specific_tokens (c : collapsed) : list str :=
  matched (c_repo c) ++ matched (c_cat c) ++ matched (c_pkg c) ++ matched (c_multi c)
  ++ matched (c_atoms c).

Definition res_bind (r : res) (k : list str -> res) : res :=
  match r with Ok s => k s | Fail e => Fail e end.

(* self.defaults; [fd] = finalize_defaults *)
Definition defaults (fd : bool) (c : collapsed) : res :=
  if is_nil (c_always c) then Ok [] else expand fd (c_always c) [].

(* pull_data(pkg, pre_defaults=pre).  With pre non-empty the defaults set is re-applied token by
   token in set-iteration order; that order is only immaterial when the defaults are finalized,
   so the model covers fd = true or pre = []. *)
Definition pull_data (fd : bool) (srcs : list source) (pre : list str) : res :=
  let c := collapse srcs in
  res_bind (defaults fd c) (fun d =>
    res_bind (if is_nil pre then Ok (filter (fun x => negb (is_neg x)) d)
              else expand true d (sunion [] pre)) (fun s =>
      expand true (specific_tokens c) s)).

(* iter_pull_data(pkg, pre_defaults=pre): pre, defaults, freeform, atoms (None: __init__ raised) *)
Definition pull_stream (fd : bool) (srcs : list source) (pre : list str) : option (list str) :=
  let c := collapse srcs in
  match defaults fd c with
  | Ok d => Some (pre ++ d ++ specific_tokens c)
  | Fail _ => None
  end.

(* non_incremental_collapsed_restrict_to_data.pull_data: plain union, no negation handling *)
Definition non_incremental_pull (srcs : list source) : res :=
  let c := collapse srcs in
  res_bind (defaults true c) (fun d => Ok (sunion d (specific_tokens c))).

(* ------------------------------------------------------------------ encoders for the harness *)
Fixpoint str_ltb (a b : str) : bool :=
  match a, b with
  | [], [] => false
  | [], _ :: _ => true
  | _ :: _, [] => false
  | x :: a', y :: b' => if N.ltb x y then true else if N.eqb x y then str_ltb a' b' else false
  end.
Fixpoint insert (x : str) (l : list str) : list str :=
  match l with
  | [] => [x]
  | y :: r => if str_ltb x y then x :: l else if str_eqb x y then l else y :: insert x r
  end.
Definition canon (l : list str) : list str := fold_right insert [] l.
Definition enc_set (l : list str) : val := VL (map VS (canon l)).
Definition enc_err (e : err) : val :=
  VErr (match e with
        | EIndex => [73;110;100;101;120;69;114;114;111;114]               (* IndexError *)
        | EBareNeg => [86;97;108;117;101;69;114;114;111;114;58;45]        (* ValueError:- *)
        | EBareNegGroup => [86;97;108;117;101;69;114;114;111;114;58;45;64] (* ValueError:-@ *)
        | EBareGroup => [86;97;108;117;101;69;114;114;111;114;58;64]      (* ValueError:@ *)
        end)%N.
Definition enc_res (r : res) : val := match r with Ok s => enc_set s | Fail e => enc_err e end.

(* stream "expand": (finalize, orig, tokens) *)
Definition run_expand (i : bool * list str * list str) : val :=
  let '(fin, orig, ts) := i in enc_res (expand fin ts (sunion [] orig)).
(* stream "optimize": sorted(frozenset(optimize_incrementals(tokens))); strict = repaired tree *)
Definition run_optimize (ts : list str) : val := enc_res (optimize true ts).
Definition run_optimize_pinned (ts : list str) : val := enc_res (optimize false ts).
(* stream "consume": (tokens, orig) through optimize, frozenset, split_negations, add_bare_global,
   render_pkg *)
Definition run_consume_with (strict : bool) (i : list str * list str) : val :=
  let '(ts, orig) := i in
  match optimize strict ts with
  | Fail e => enc_err e
  | Ok out => match consume out (sunion [] orig) with
              | Some s => enc_set s
              | None => enc_err EBareNeg
              end
  end.
Definition run_consume := run_consume_with true.
Definition run_consume_pinned := run_consume_with false.
(* stream "license": (licenses, groups, tokens) *)
Definition run_license (i : list str * list (str * list str) * list str) : val :=
  let '(lics, groups, ts) := i in enc_res (expand_license lics groups ts).
(* stream "pull": (finalize_defaults, sources, pre_defaults) -> [pull_data; iter_pull_data as a set] *)
Definition run_pull (i : bool * list source * list str) : val :=
  let '(fd, srcs, pre) := i in enc_res (pull_data fd srcs pre).
Definition run_nipull (srcs : list source) : val := enc_res (non_incremental_pull srcs).

(* ------------------------------------------------------------------ Licenses.groups (repo_objs.py) *)
(* profiles/license_groups: name -> members, a member "@h" referring to group h.  Licenses.groups
   flattens the references (Licenses._expand_groups: repeated passes in definition order until no
   "@" member is left; a missing group, "@" alone and a self reference are dropped).  The result
   does not depend on the definition order: group g denotes the concrete members reachable from g
   through references.  [raw] is the file in definition order; fuel = number of groups + 1. *)
Fixpoint closure (raw : list (str * list str)) (fuel : nat) (g : str) : list str :=
  match fuel with
  | O => []
  | S f => flat_map (fun m => match m with
                              | c :: h => if N.eqb c AT then closure raw f h else [m]
                              | [] => [m]
                              end) (lookup g raw)
  end.
Definition close_groups (raw : list (str * list str)) : list (str * list str) :=
  map (fun kv => (fst kv, closure raw (S (length raw)) (fst kv))) raw.

(* ------------------------------------------------------------------ domain._apply_license_filter *)
(* The only caller of incremental_expansion_license.  [master] = ACCEPT_LICENSE tokens bound into
   the filter by _pkg_filters, [entries] = the token lists of the package.license lines.  A query
   is one package: which entries' atoms match it, and the DNF alternatives of its LICENSE.  The
   stream expanded for a package is master ++ the matching entries, in file order, and nothing
   else: the filter is a long-lived object but carries no state from one query to the next. *)
Inductive bres : Type := BOk (b : bool) | BFail (e : err).
Definition lic_query : Type := (list bool * list (list str))%type.
Definition superset (s l : list str) : bool := forallb (fun x => mem x s) l.
Definition license_stream (master : list str) (entries : list (list str)) (ms : list bool) : list str :=
  master ++ concat (map snd (filter fst (combine ms entries))).
Fixpoint license_accept (groups : list (str * list str)) (stream : list str)
         (alts : list (list str)) : bres :=
  match alts with
  | [] => BOk false
  | alt :: r =>
      match expand_license alt groups stream with
      | Fail e => BFail e
      | Ok s => if superset s alt then BOk true else license_accept groups stream r
      end
  end.
Definition license_filter (master : list str) (entries : list (list str))
           (groups : list (str * list str)) (q : lic_query) : bres :=
  license_accept groups (license_stream master entries (fst q)) (snd q).
(* a sequence of queries against ONE filter object *)
Definition license_filter_seq master entries groups (qs : list lic_query) : list bres :=
  map (license_filter master entries groups) qs.

(* all streams in one input type, so that one cases file can carry every stream *)
Inductive case_in : Type :=
| CExpand (i : bool * list str * list str)
| COptimize (ts : list str)
| CConsume (i : list str * list str)
| CLicense (i : list str * list (str * list str) * list str)
| CPull (i : bool * list source * list str)
| CNiPull (srcs : list source)
| CLicFilter (i : list str * list (list str) * list (str * list str) * list lic_query)
| CGroups (raw : list (str * list str)).
Definition enc_bres (r : bres) : val := match r with BOk b => VB b | BFail e => enc_err e end.
(* domain._pkg_filters installs the license filter only when there is an ACCEPT_LICENSE token or a
   package.license entry; without it every package passes *)
Definition license_visible_seq master (entries : list (list str)) groups (qs : list lic_query) : list bres :=
  if is_nil master && is_nil entries then map (fun _ => BOk true) qs
  else license_filter_seq master entries groups qs.
(* stream "licfilter": (ACCEPT_LICENSE, package.license entries, groups, queries in call order) *)
Definition run_licfilter (i : list str * list (list str) * list (str * list str) * list lic_query) : val :=
  let '(master, entries, groups, qs) := i in
  VL (map enc_bres (license_visible_seq master entries groups qs)).
(* stream "groups": Licenses(...).groups for a license_groups file, as [name; sorted members] in
   definition order *)
Definition run_groups (raw : list (str * list str)) : val :=
  VL (map (fun kv => VL [VS (fst kv); enc_set (snd kv)]) (close_groups raw)).
Definition run_case_with (strict : bool) (c : case_in) : val :=
  match c with
  | CExpand i => run_expand i
  | COptimize ts => enc_res (optimize strict ts)
  | CConsume i => run_consume_with strict i
  | CLicense i => run_license i
  | CPull i => run_pull i
  | CNiPull s => run_nipull s
  | CLicFilter i => run_licfilter i
  | CGroups raw => run_groups raw
  end.
Definition run_case := run_case_with true.            (* the repaired tree *)
Definition run_case_pinned := run_case_with false.    (* the pinned tree *)
