From Verif Require Import C07.Spec_C07.
