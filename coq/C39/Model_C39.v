(* Model_C39.v — executable model of pkgcore.bugzilla.changes.ListChange / BugUpdate.to_wire
   (src/pkgcore/bugzilla/changes.py).  No proofs here: the model must still evaluate when a
   proof breaks.  Values of a list field are abstract ids (N). *)
From Coq Require Import List NArith ZArith Bool.
Import ListNotations.
From Verif Require Import Base.Val.

Record change := { add : list N; remove : list N; replace : option (list N) }.

Definition mem (x : N) (l : list N) : bool := existsb (N.eqb x) l.
Definition overlap (a r : list N) : bool := existsb (fun x => mem x r) a.
Definition is_nil (l : list N) : bool := match l with [] => true | _ => false end.

(* ListChange.__post_init__: None models BugzillaUsageError *)
Definition valid (c : change) : bool :=
  match replace c with
  | Some _ => is_nil (add c) && is_nil (remove c)
  | None => negb (overlap (add c) (remove c))
  end.
Definition mk (a r : list N) (s : option (list N)) : option change :=
  let c := {| add := a; remove := r; replace := s |} in
  if valid c then Some c else None.

Definition keep_not_in (ex l : list N) : list N := filter (fun x => negb (mem x ex)) l.

(* ListChange.__or__ (changes.py:90) *)
Definition or_ (a b : change) : option change :=
  match replace b with
  | Some _ => Some b
  | None =>
      match replace a with
      | Some s => mk [] [] (Some (keep_not_in (remove b) s ++ keep_not_in s (add b)))
      | None => mk (add a ++ keep_not_in (add a) (add b))
                   (remove a ++ keep_not_in (remove a) (remove b)) None
      end
  end.

(* ListChange.__bool__ *)
Definition change_bool (c : change) : bool :=
  negb (is_nil (add c)) || negb (is_nil (remove c))
  || match replace c with Some _ => true | None => false end.

(* ListChange.to_wire: the keys of the wire dict with their value lists, in insertion order.
   key ids: 0 = "set", 1 = "add", 2 = "remove" *)
Definition change_wire (c : change) : list (N * list N) :=
  match replace c with
  | Some s => [(0%N, s)]
  | None =>
      (if is_nil (add c) then [] else [(1%N, add c)])
      ++ (if is_nil (remove c) then [] else [(2%N, remove c)])
  end.

(* BugUpdate.to_wire (changes.py:368): which keys appear.  Scalar fields are abstracted to
   "is set" (not None); list fields are changes; flags is a count; key ids follow the order
   of the code: 0 ids,1 status,2 resolution,3 dupe_of,4 summary,5 assigned_to,6 whiteboard,
   7 deadline, 8..13 cc keywords blocks depends_on see_also groups, 14 flags, 15 comment,
   16 cf_stabilisation_atoms, 17 cf_runtime_testing_required *)
Record update := { scalars : list bool;   (* status .. deadline, 7 entries *)
                   changes : list change; (* cc .. groups, 6 entries *)
                   nflags : nat; has_comment : bool; has_pkglist : bool; has_rtr : bool }.

Fixpoint keys_from (k : N) (bs : list bool) : list N :=
  match bs with [] => [] | b :: r => (if b then [k] else []) ++ keys_from (N.succ k) r end.

Definition update_wire_keys (u : update) : list N :=
  [0%N] ++ keys_from 1 (scalars u) ++ keys_from 8 (map change_bool (changes u))
  ++ keys_from 14 [match nflags u with O => false | _ => true end; has_comment u; has_pkglist u; has_rtr u].

(* ---------------------------------------------------------------- encoders for the harness *)
Definition enc_list (l : list N) : val := VL (map (fun x => VZ (Z.of_N x)) l).
Definition enc_change (c : change) : val :=
  VL [enc_list (add c); enc_list (remove c);
      match replace c with Some s => enc_list s | None => VNone end].
Definition refused : val := VErr [66;117;103;122;105;108;108;97;85;115;97;103;101;69;114;114;111;114]%N.
  (* "BugzillaUsageError" *)
Definition enc_opt (o : option change) : val :=
  match o with Some c => enc_change c | None => refused end.

(* stream "ctor": ListChange(add, remove, replace) *)
Definition run_ctor (i : list N * list N * option (list N)) : val :=
  let '(a, r, s) := i in enc_opt (mk a r s).
(* stream "or": a | b for two valid changes *)
Definition run_or (i : change * change) : val := enc_opt (or_ (fst i) (snd i)).
(* stream "cwire": ListChange.to_wire *)
Definition run_cwire (c : change) : val :=
  VL (map (fun kv => VL [VZ (Z.of_N (fst kv)); enc_list (snd kv)]) (change_wire c)).
(* stream "uwire": sorted-by-insertion key ids of BugUpdate.to_wire *)
Definition run_uwire (u : update) : val := enc_list (update_wire_keys u).
