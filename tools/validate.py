#!/usr/bin/env python3
"""validate.py [Cxx...] — validate evidence/Cxx.json and manifest.d/Cxx.json (run with /opt/veriftools/pyvenv/bin/python)."""
import json, sys
from pathlib import Path
import jsonschema
V = Path(__file__).resolve().parent.parent
es = json.load(open("/root/.vp/EVIDENCE.schema.json")); ms = json.load(open("/root/.vp/MANIFEST.schema.json"))
check_schema = ms["properties"]["checks"]["items"]
ids = sys.argv[1:] or [p.stem for p in sorted((V / "manifest.d").glob("C*.json"))]
rc = 0
for i in ids:
    for path, schema in ((V / "evidence" / f"{i}.json", es), (V / "manifest.d" / f"{i}.json", check_schema)):
        try:
            d = json.load(open(path)); jsonschema.validate(d, schema)
            extra = ""
            if "evidence" in str(path):
                c = d["coverage"]
                assert c["obligations"] >= 1 and c["obligations"] == c["discharged"], "obligations != discharged"
                assert c["distinct_nontrivial"] >= 2 and c["samples"], "coverage too thin"
                extra = f" obligations={c['obligations']} evals={c['evaluations']} nontrivial={c['distinct_nontrivial']} wall={d['wall_s']}"
            print(f"ok   {path}{extra}")
        except Exception as e:
            rc = 1; print(f"FAIL {path}: {str(e)[:300]}")
if len(sys.argv) == 1:
    jsonschema.validate(json.load(open(V / "MANIFEST.json")), ms); print("ok   MANIFEST.json")
sys.exit(rc)
