"""C26 — XPAK metadata segments round-trip and rewrites preserve the archive (DESIGN §6 C26).

Anchor: src/pkgcore/binpkg/xpak.py (Xpak.write_xpak, keys_dict, _check_magic, items/keys/get, _get_data).

Tables (fail-closed, coq/gen/Tables_xpak.v): the three magic strings, the two struct.Struct formats
(header, trailer) and the read-side key alias table `_reading_key_rewrites`.

Streams (A = implementation vs Model_C26, evaluated in Coq; B = Spec_C26 acceptor on the
implementation's recorded result, plus direct Python oracles on the implementation)
  write   write_xpak(path, mapping) on a file (absent / empty / archive prefix / prefix + segment /
          prefix whose tail mimics the magic)            -> raw bytes of the file afterwards
  read    Xpak(path): xpak_start, keys(), items()         on well-formed files
  readbad the same on malformed / crafted / mutated files (separate malformed stream)
  seq     repeated write_xpak calls on one file, growing and shrinking payloads -> every intermediate file
  get     Xpak(path).get(key) / key in xpak
"""

from __future__ import annotations

import ast
import os
import shutil
import struct as pystruct
import sys
import tempfile

from . import tables
from .common import Check, Err, Raw, cN, cbool, clist, cnat, copt, cpair, cstr, cval, impl_call
from .tables import TableError

IMPORTS = ("From Coq Require Import List NArith ZArith Bool.\n"
           "From Verif Require Import Base.Val gen.Tables_xpak C26.Model_C26 C26.Spec_C26.")
ANCHORS = ["binpkg/xpak.py::Xpak.write_xpak", "binpkg/xpak.py::Xpak.keys_dict", "binpkg/xpak.py::Xpak._check_magic",
           "binpkg/xpak.py::Xpak._get_data", "binpkg/xpak.py::Xpak.items", "binpkg/xpak.py::Xpak.__getitem__",
           "binpkg/xpak.py"]
XPAK = "binpkg/xpak.py"


# --------------------------------------------------------------------------- tables (fail-closed)
def _class_assigns(cls: ast.ClassDef, name: str) -> list[ast.expr]:
    out = []
    for n in cls.body:
        if isinstance(n, ast.Assign) and len(n.targets) == 1 and isinstance(n.targets[0], ast.Name) \
                and n.targets[0].id == name:
            out.append(n.value)
        elif isinstance(n, ast.AnnAssign) and isinstance(n.target, ast.Name) and n.target.id == name and n.value:
            out.append(n.value)
    return out


def _magic(cls, name) -> bytes:
    """`name = "LITERAL"` optionally followed by `name = name.encode("ascii")`; or a bytes literal."""
    vals = _class_assigns(cls, name)
    if not vals:
        raise TableError(f"Xpak.{name}: no class-level assignment")
    first = vals[0]
    if not (isinstance(first, ast.Constant) and isinstance(first.value, (str, bytes))):
        raise TableError(f"Xpak.{name}: first assignment is not a string literal: {ast.dump(first)[:120]}")
    val = first.value
    for later in vals[1:]:
        ok = (isinstance(later, ast.Call) and isinstance(later.func, ast.Attribute) and later.func.attr == "encode"
              and isinstance(later.func.value, ast.Name) and later.func.value.id == name and not later.keywords
              and len(later.args) <= 1
              and all(isinstance(a, ast.Constant) and a.value in ("ascii", "utf8", "utf-8") for a in later.args))
        if not ok or not isinstance(val, str):
            raise TableError(f"Xpak.{name}: unrecognised re-assignment: {ast.dump(later)[:120]}")
        try:
            val = val.encode("ascii")
        except UnicodeEncodeError as e:
            raise TableError(f"Xpak.{name}: not ASCII") from e
    if isinstance(val, str):
        raise TableError(f"Xpak.{name}: stays a str (the code compares it with bytes read from the file)")
    return val


def _struct_format(cls, name, magics_str: dict[str, str]) -> str:
    """`name = struct.Struct(<literal or f-string using only len(<magic name>)>)` -> format string."""
    vals = _class_assigns(cls, name)
    if len(vals) != 1:
        raise TableError(f"Xpak.{name}: expected one assignment, found {len(vals)}")
    v = vals[0]
    if not (isinstance(v, ast.Call) and isinstance(v.func, ast.Attribute) and v.func.attr == "Struct"
            and isinstance(v.func.value, ast.Name) and v.func.value.id == "struct"
            and len(v.args) == 1 and not v.keywords):
        raise TableError(f"Xpak.{name}: not struct.Struct(<fmt>): {ast.dump(v)[:160]}")
    a = v.args[0]
    if isinstance(a, ast.Constant) and isinstance(a.value, str):
        return a.value
    if not isinstance(a, ast.JoinedStr):
        raise TableError(f"Xpak.{name}: format is neither a literal nor an f-string")
    out = []
    for part in a.values:
        if isinstance(part, ast.Constant) and isinstance(part.value, str):
            out.append(part.value)
        elif (isinstance(part, ast.FormattedValue) and part.conversion == -1 and part.format_spec is None
              and isinstance(part.value, ast.Call) and isinstance(part.value.func, ast.Name)
              and part.value.func.id == "len" and len(part.value.args) == 1
              and isinstance(part.value.args[0], ast.Name) and part.value.args[0].id in magics_str):
            out.append(str(len(magics_str[part.value.args[0].id])))
        else:
            raise TableError(f"Xpak.{name}: unrecognised f-string part {ast.dump(part)[:160]}")
    return "".join(out)


def _parse_format(name: str, fmt: str) -> list:
    """'>8sLL' -> [8, None, None] (n = '<n>s' bytes field, None = 'L' unsigned 32 bit); big-endian only."""
    if not fmt.startswith(">"):
        raise TableError(f"Xpak.{name}: byte order of {fmt!r} is not '>' (the model is big-endian)")
    fields, i, body = [], 0, fmt[1:]
    while i < len(body):
        j = i
        while j < len(body) and body[j].isdigit():
            j += 1
        if j >= len(body):
            raise TableError(f"Xpak.{name}: dangling count in {fmt!r}")
        cnt, code = body[i:j], body[j]
        if code == "s":
            fields.append(int(cnt) if cnt else 1)
        elif code == "L":
            fields.extend([None] * (int(cnt) if cnt else 1))
        else:
            raise TableError(f"Xpak.{name}: unsupported struct code {code!r} in {fmt!r}")
        i = j + 1
    if pystruct.calcsize(fmt) != sum(4 if f is None else f for f in fields):
        raise TableError(f"Xpak.{name}: size of {fmt!r} not reproduced")
    return fields


def _tables():
    tree = tables.parse(XPAK)
    cls = None
    for n in tree.body:
        if isinstance(n, ast.ClassDef) and n.name == "Xpak":
            cls = n
    if cls is None:
        raise TableError("class Xpak not found")
    names = ("header_pre_magic", "trailer_pre_magic", "trailer_post_magic")
    magics = {n: _magic(cls, n) for n in names}
    # the f-strings use the *str* value that is current at that point of the class body
    magics_str = {n: m.decode("ascii") for n, m in magics.items()}
    fmts = {n: _parse_format(n, _struct_format(cls, n, magics_str)) for n in ("header", "trailer")}
    rw = _class_assigns(cls, "_reading_key_rewrites")
    if len(rw) != 1:
        raise TableError("Xpak._reading_key_rewrites: expected one assignment")
    rwd = tables.literal(rw[0])
    if not (isinstance(rwd, dict) and all(isinstance(k, str) and isinstance(v, str) for k, v in rwd.items())):
        raise TableError("Xpak._reading_key_rewrites is not a {str: str} literal")
    return magics, fmts, rwd


def gen_tables() -> dict[str, str]:
    magics, fmts, rwd = _tables()

    def fmt(fields):
        return clist([copt(f, cN, "N") for f in fields], "option N")

    t = tables.header("src/pkgcore/binpkg/xpak.py (class Xpak: magic strings, struct formats, read aliases)")
    t += "\n(* struct formats, big-endian ('>'): Some n = \"<n>s\" (n raw bytes), None = \"L\" (unsigned 32 bit) *)\n"
    for n, m in magics.items():
        t += f"Definition {n} : list N := {cstr(m)}.   (* {m!r} *)\n"
    t += f"Definition header_fmt : list (option N) := {fmt(fmts['header'])}.\n"
    t += f"Definition trailer_fmt : list (option N) := {fmt(fmts['trailer'])}.\n"
    t += ("Definition key_rewrites : list (list N * list N) := "
          + clist([cpair(cstr(k), cstr(v)) for k, v in rwd.items()], "list N * list N")
          + f".   (* {rwd!r} *)\n")
    return {"Tables_xpak.v": t}


# --------------------------------------------------------------------------- Coq terms
def c_pystr(s) -> str:
    return f"(PS {cstr(s)})" if isinstance(s, str) else f"(PB {cstr(s)})"


def c_data(d) -> str:
    return clist([cpair(c_pystr(k), c_pystr(v)) for k, v in d], "pystr * pystr")


def c_file(f) -> str:
    return copt(f, cstr, "list N")


# --------------------------------------------------------------------------- reference helpers (input construction, classification)
def be32(n):
    return pystruct.pack(">L", n)


def ref_segment(kvs) -> bytes:
    """documented format, used ONLY to build inputs (existing segments, crafted/mutated tails)."""
    idx, dat = b"", b""
    for k, v in kvs:
        idx += be32(len(k)) + k + be32(len(dat)) + be32(len(v))
        dat += v
    return (b"XPAKPACK" + be32(len(idx)) + be32(len(dat)) + idx + dat
            + b"XPAKSTOP" + be32(len(idx) + len(dat) + 24) + b"STOP")


def ref_parse_kind(f: bytes) -> str:
    """'ok' | 'oserror' | 'malformed' | 'struct' | 'unicode' — how far a reader of the documented
    format gets on f; used only to classify failures into the known class index-walk-crash."""
    n = len(f)
    if n < 16:
        return "oserror"
    if f[-16:-8] != b"XPAKSTOP" or f[-4:] != b"STOP":
        return "malformed"
    size = pystruct.unpack(">L", f[-8:-4])[0]
    if size + 8 > n:
        return "oserror"
    st = n - size - 8
    if len(f[st:st + 16]) < 16 or f[st:st + 8] != b"XPAKPACK":
        return "malformed"
    ilen = pystruct.unpack(">L", f[st + 8:st + 12])[0]
    pos = st + 16
    while ilen:
        if len(f[pos:pos + 4]) < 4:
            return "struct"
        kl = pystruct.unpack(">L", f[pos:pos + 4])[0]
        key = f[pos + 4:pos + 4 + kl]
        if any(b > 127 for b in key):
            return "unicode"
        if len(key) != kl or len(f[pos + 4 + kl:pos + 12 + kl]) < 8:
            return "malformed"
        pos += 12 + kl
        ilen -= 12 + kl
    return "ok"


def kf_repo_alias(data) -> bool:
    """known class: the mapping has the key 'repo' (str or bytes)."""
    return any((k if isinstance(k, str) else k.decode("latin1")) == "repo" for k, _ in data)


def kf_index_walk_crash(file_bytes) -> bool:
    """known class: trailer and header of the file's tail check out, but walking the index runs
    off the end of the file or meets a non-ASCII key byte."""
    return file_bytes is not None and ref_parse_kind(file_bytes) in ("struct", "unicode")


# --------------------------------------------------------------------------- generators
REAL_KEYS = ["CATEGORY", "PF", "SLOT", "USE", "DEPEND", "RDEPEND", "DESCRIPTION", "CFLAGS", "CHOST", "EAPI",
             "environment.bz2", "environment", "environmental", "environmen", "Environment", "REPO",
             "repository", "repo_", "BUILD_TIME", "SIZE", "x", ""]
TEXT = ["", "a", "gentoo", "sys-apps", "1.2.3-r1", "x86 ~amd64", "na\u00efve", "\u00e9", "\u00df\u00fc",
        "\u0416\u0443\u043a", "\u4e2d\u6587", "\u20ac", "\ud7ff", "\ue000", "\uffff", "\U00010000", "\U0001F600",
        "\U0010ffff", "\x00", "\x7f", "\x80", "\u07ff", "\u0800", "line\nline\n", "tab\there"]


def gen_key(rng, used):
    for _ in range(50):
        r = rng.random()
        if r < 0.55:
            k = rng.choice(REAL_KEYS)
        elif r < 0.7:
            k = "environment" + "".join(rng.choice("._abcXYZ019") for _ in range(rng.randrange(0, 5)))
        else:
            k = "".join(chr(rng.randrange(32, 127)) for _ in range(rng.randrange(0, 10)))
        if k != "repo" and k not in used:
            used.add(k)
            return k
    k = f"K{len(used)}"
    used.add(k)
    return k


def gen_text(rng):
    r = rng.random()
    if r < 0.5:
        return rng.choice(TEXT)
    if r < 0.8:
        return "".join(rng.choice(TEXT) for _ in range(rng.randrange(1, 4)))
    return "".join(chr(rng.choice([rng.randrange(0, 128), rng.randrange(128, 0x800), rng.randrange(0x800, 0xD800),
                                   rng.randrange(0xE000, 0x10000), rng.randrange(0x10000, 0x110000)]))
                   for _ in range(rng.randrange(1, 6)))


def gen_bin(rng, maxlen=12):
    return bytes(rng.choice([0, 0xff, 0x80, 0xc3, 0xe2, 0xf0, rng.randrange(256), rng.randrange(256)])
                 for _ in range(rng.randrange(0, maxlen)))


def gen_data(rng, n=None, scale=1):
    """an in-domain mapping: distinct ASCII keys (never 'repo'), text values for text keys
    (str, sometimes bytes holding valid UTF-8), bytes or str for environment* keys."""
    n = rng.choice([0, 1, 1, 2, 3, 4, 6]) if n is None else n
    used, out = set(), []
    for _ in range(n):
        k = gen_key(rng, used)
        if k.startswith("environment"):
            v = gen_bin(rng, 12 * scale) if rng.random() < 0.8 else gen_text(rng)
        else:
            v = gen_text(rng) * rng.choice([1, 1, 1, scale])
            if rng.random() < 0.15:
                v = v.encode("utf8")
        if rng.random() < 0.1:
            k = k.encode("ascii")
        out.append((k, v))
    return out


def gen_odd_data(rng):
    """mappings outside the statement's domain, for the model comparison: key 'repo', non-ASCII
    keys, str/bytes twins of one key, undecodable text, lone surrogates."""
    d = gen_data(rng, rng.choice([0, 1, 2, 3]))
    what = rng.choice(["repo", "repo", "repoREPO", "REPOrepo", "nonascii", "twin", "badtext", "surrogate", "surrogatekey"])
    ins = rng.randrange(len(d) + 1)
    if what == "repo":
        d.insert(ins, ("repo", gen_text(rng)))
    elif what == "repoREPO":
        d = [x for x in d if x[0] not in ("REPO", b"REPO")]
        d.insert(ins, ("repo", "gentoo"))
        d.append(("REPO", gen_text(rng)))
    elif what == "REPOrepo":
        d = [x for x in d if x[0] not in ("REPO", b"REPO")]
        d.insert(0, ("REPO", gen_text(rng)))
        d.append((rng.choice(["repo", b"repo"]), "other"))
    elif what == "nonascii":
        d.insert(ins, (rng.choice(["cl\u00e9", "\u4e2d", b"\xff", b"k\x80"]), "v"))
    elif what == "twin":
        k = rng.choice(["A", "environment.bz2", "twin"])
        d = [x for x in d if x[0] not in (k, k.encode())]
        d.insert(ins, (k, gen_text(rng)))
        d.append((k.encode(), gen_text(rng)))
    elif what == "badtext":
        d.insert(ins, ("BADTEXT", rng.choice([b"\xff", b"\xc3", b"\xe2\x82", b"\xc0\x80", b"\xed\xa0\x80", b"\xf4\x90\x80\x80",
                                              b"\xf0\x80\x80\x80", b"ok\x80", b"\xe0\x9f\xbf", b"\xf5\x80\x80\x80"])))
    elif what == "surrogate":
        d.insert(ins, ("SUR", rng.choice(["\ud800", "a\udfff", "\udc80b"])))
    else:
        d.insert(ins, ("k\ud800", "v"))
    return d, what


def gen_prefix(rng, scale=1):
    """archive bytes in front of the segment; never ends with b'STOP'."""
    r = rng.random()
    if r < 0.15:
        p = b""
    elif r < 0.3:
        p = bytes(rng.randrange(256) for _ in range(rng.randrange(1, 16)))
    elif r < 0.45:
        p = b"BZh91AY&SY" + bytes(rng.randrange(256) for _ in range(rng.randrange(6, 12 * scale)))
    else:
        p = bytes(rng.randrange(256) for _ in range(rng.randrange(16, 20 * scale)))
    if p.endswith(b"STOP"):
        p += b"\x00"
    return p


def gen_mimic(rng):
    """files WITHOUT a well-formed segment whose tail imitates parts of one."""
    pre = gen_prefix(rng)
    seg = ref_segment([(k if isinstance(k, bytes) else k.encode(), v if isinstance(v, bytes) else v.encode("utf8"))
                       for k, v in gen_data(rng, rng.choice([1, 2, 3]))])
    what = rng.choice(["trailer-only", "size0", "size-small", "size-big", "size-huge", "size-exact-file", "no-header",
                       "header-bad-magic", "post-magic-bad", "pre-magic-bad", "index-len-more", "index-len-less",
                       "index-len-odd", "key-len-big", "key-nonascii", "walk-eof", "walk-eof-exact", "truncated-tail",
                       "junk-after", "data-len-wrong", "offset-beyond", "byteflip", "short"])
    tr = lambda size: b"XPAKSTOP" + be32(size) + b"STOP"
    if what == "trailer-only":
        f = pre + tr(rng.choice([8, 16, 24, len(pre) + 8]))
    elif what == "size0":
        f = pre + seg[:-8] + be32(0) + b"STOP"
    elif what == "size-small":
        f = pre + seg[:-8] + be32(rng.randrange(0, 24)) + b"STOP"
    elif what == "size-big":
        f = pre + seg[:-8] + be32(len(pre) + len(seg) + rng.randrange(-7, 40)) + b"STOP"
    elif what == "size-huge":
        f = pre + seg[:-8] + be32(rng.choice([2 ** 32 - 1, 2 ** 32 - 8, 2 ** 31, 2 ** 24])) + b"STOP"
    elif what == "size-exact-file":
        f = pre + seg[:-8] + be32(len(pre) + len(seg) - 8) + b"STOP"
    elif what == "no-header":
        f = pre + tr(24) + tr(24)
    elif what == "header-bad-magic":
        i = rng.randrange(8)
        f = pre + seg[:i] + bytes([seg[i] ^ 0x20]) + seg[i + 1:]
    elif what == "post-magic-bad":
        f = pre + seg[:-1] + b"Q"
    elif what == "pre-magic-bad":
        f = pre + seg[:-16] + b"XPAKSTOp" + seg[-8:]
    elif what in ("index-len-more", "index-len-less", "index-len-odd"):
        il = pystruct.unpack(">L", seg[8:12])[0]
        il2 = {"index-len-more": il + rng.choice([1, 12, 13, 40]), "index-len-less": max(0, il - rng.choice([1, 12, 13])),
               "index-len-odd": rng.choice([1, 5, 11, 2 ** 32 - 1])}[what]
        f = pre + seg[:8] + be32(il2) + seg[12:]
    elif what == "key-len-big":
        f = pre + seg[:16] + be32(rng.choice([200, 2 ** 32 - 1, 2 ** 31])) + seg[20:]
    elif what == "key-nonascii":
        f = pre + seg[:20] + bytes([rng.choice([0x80, 0xff, 0xc3])]) + seg[21:]
        if pystruct.unpack(">L", seg[16:20])[0] == 0:
            f = pre + seg
    elif what == "walk-eof":
        # header says more index than there is; the walk swallows the trailer as a key and meets EOF
        f = pre + b"XPAKPACK" + be32(rng.choice([7, 21, 100])) + be32(0) + be32(8) + tr(28)
    elif what == "walk-eof-exact":
        f = pre + b"XPAKPACK" + be32(20) + be32(0) + be32(8) + tr(28)
    elif what == "truncated-tail":
        f = (pre + seg)[:-rng.randrange(1, 17)]
    elif what == "junk-after":
        f = pre + seg + bytes(rng.randrange(256) for _ in range(rng.randrange(1, 20)))
    elif what == "data-len-wrong":
        f = pre + seg[:12] + be32(rng.randrange(0, 300)) + seg[16:]
    elif what == "offset-beyond":
        kl = pystruct.unpack(">L", seg[16:20])[0]
        p = 20 + kl
        f = pre + seg[:p] + be32(rng.choice([1, 50, 5000, 2 ** 32 - 1])) + be32(rng.choice([0, 1, 40, 2 ** 32 - 1])) + seg[p + 8:]
    elif what == "byteflip":
        s = bytearray(pre + seg)
        i = rng.randrange(len(pre), len(s))
        s[i] ^= 1 << rng.randrange(8)
        f = bytes(s)
    else:
        f = (pre + seg)[-rng.randrange(0, 16):] if rng.random() < 0.5 else bytes(rng.randrange(256) for _ in range(rng.randrange(0, 16)))
    return f, what


# --------------------------------------------------------------------------- driving the implementation
class Driver:
    def __init__(self, chk):
        from pkgcore.binpkg import xpak
        self.xpak = xpak
        self.dir = tempfile.mkdtemp(prefix="c26fs_", dir=str(chk.scratch))
        self.n = 0

    def path(self, content):
        """a fresh path holding `content` (None: the path does not exist)."""
        self.n += 1
        p = os.path.join(self.dir, f"f{self.n}.tbz2")
        if content is not None:
            with open(p, "wb") as fh:
                fh.write(content)
        return p

    @staticmethod
    def raw(p):
        try:
            with open(p, "rb") as fh:
                return fh.read()
        except FileNotFoundError:
            return None

    def write(self, p, data):
        """write_xpak(p, dict(data)); returns the file's bytes afterwards or Err."""
        r = impl_call(lambda: self.xpak.Xpak.write_xpak(p, dict(data)))
        if isinstance(r, Err):
            return r
        return self.raw(p)

    @staticmethod
    def canon_items(items):
        out = []
        for k, v in items:
            if isinstance(v, str):
                out.append([k, [True, v]])
            else:
                out.append([k, [False, bytes(v)]])
        return out

    def read(self, p):
        X = self.xpak.Xpak

        def keys():
            x = X(p)
            ks = list(x.keys())
            return [x.xpak_start, ks]
        return [impl_call(keys), impl_call(lambda: self.canon_items(list(X(p).items())))]

    def start_items(self, p):
        X = self.xpak.Xpak

        def f():
            x = X(p)
            it = self.canon_items(list(x.items()))
            return [x.xpak_start, it]
        return impl_call(f)

    def get(self, p, key):
        X = self.xpak.Xpak

        def f():
            v = X(p)[key]
            return [isinstance(v, str), v]
        return impl_call(f)

    def cleanup(self):
        shutil.rmtree(self.dir, ignore_errors=True)


def expected_items(data):
    """the statement's reading of `data` (in-domain mappings only)."""
    out = []
    for k, v in data:
        ks = k if isinstance(k, str) else k.decode("ascii")
        if ks.startswith("environment"):
            out.append([ks, [False, v.encode("utf8") if isinstance(v, str) else v]])
        else:
            out.append([ks, [True, v if isinstance(v, str) else v.decode("utf8")]])
    return out


def in_domain(data) -> bool:
    try:
        ks = [k if isinstance(k, str) else k.decode("ascii") for k, _ in data]
        if any(ord(c) > 127 for k in ks for c in k) or len(set(ks)) != len(ks):
            return False
        for k, v in data:
            (k.encode("utf8") if isinstance(k, str) else k)
            (v.encode("utf8") if isinstance(v, str) else v)
        expected_items(data)
        return True
    except (UnicodeError, ValueError):
        return False


def enc_kvs(data):
    """byte-level entries for building input files (lone surrogates pass through as 3 bytes)."""
    return [(k if isinstance(k, bytes) else k.encode("utf8", "surrogatepass"),
             v if isinstance(v, bytes) else v.encode("utf8", "surrogatepass")) for k, v in data]


def data_json(data):
    return [[k if isinstance(k, str) else {"bytes": k.hex()}, v if isinstance(v, str) else {"bytes": v.hex()}]
            for k, v in data]


def data_from_json(j):
    f = lambda x: x if isinstance(x, str) else bytes.fromhex(x["bytes"])
    return [(f(k), f(v)) for k, v in j]


# --------------------------------------------------------------------------- property oracles on the implementation (B)
def oracle_roundtrip(drv, pre, data):
    """None if `write then read back` behaves as the statement says, else a description."""
    p = drv.path(pre)
    w = drv.write(p, data)
    if isinstance(w, Err):
        return f"write_xpak raised {w.kind}"
    if w[:len(pre)] != pre:
        return "bytes before the segment changed"
    r = drv.start_items(p)
    if isinstance(r, Err):
        return f"reading back raised {r.kind}"
    if r[0] != len(pre):
        return f"segment starts at {r[0]}, not at the end of the old file ({len(pre)})"
    if r[1] != expected_items(data):
        return "items() differ from the mapping written"
    return None


def main(chk: Check):
    chk.rule("mappings of 0-6 distinct ASCII keys (real XPAK keys, environment* keys, random printable) with "
             "unicode str / valid-UTF-8 bytes / binary values, written with write_xpak onto absent, empty, "
             "archive-prefix, prefix+segment and magic-mimicking files, read back with a fresh Xpak; sequences of "
             "3-6 rewrites with growing and shrinking payloads; a separate malformed stream of 23 kinds of "
             "crafted/mutated tails and out-of-domain mappings (key repo, non-ASCII keys, str/bytes twins, "
             "undecodable text, surrogates). non-trivial = roundtrip with >=2 keys, a non-empty prefix and a "
             "non-ASCII text or an environment* value; write onto an existing segment or a mimicking tail; "
             "sequence with both a longer and a shorter successor; every distinct (kind, outcome) of the malformed stream")
    try:
        tables.regenerate(sys.modules[__name__])
    except TableError as e:
        chk.violation("table", {"what": "cannot regenerate coq/gen/Tables_xpak.v from xpak.py (fail-closed): " + str(e)},
                      no_input=True)
    ok = chk.build(["C26/Prop_C26.vo"])
    import concurrent.futures as cf
    pool = cf.ThreadPoolExecutor(max_workers=8)
    assum = pool.submit(chk.check_assumptions, "C26/Prop_C26.v") if ok else None   # overlaps with case generation
    chk.lint(["C26", "gen/Tables_xpak.v"])
    chk.check_fingerprint(ANCHORS)

    rng = chk.rng
    scale = chk.n(1, 4)
    drv = Driver(chk)
    prop_fail = []      # (what, input-json, class_id or None)
    fresh_cache = {}

    def fresh(data):
        """segment the implementation writes for `data` into an empty file (differential reference)."""
        key = repr(data)
        if key not in fresh_cache:
            fresh_cache[key] = drv.write(drv.path(b""), data)
        return fresh_cache[key]

    def report(what, inp, cls=None):
        prop_fail.append((what, inp, cls))

    def guarded(inp, fn):
        """run one oracle; an implementation result the oracle cannot interpret is itself a
        property failure on that input (never an exception of the check)."""
        try:
            fn()
        except Exception as e:  # noqa: BLE001
            report(f"the implementation's result has an unexpected shape for the oracle ({type(e).__name__}: {e})", inp)

    def replaced_entirely(out, prefix, data):
        """None when `out` is exactly prefix ++ <the segment the implementation writes for data into an
        empty file> (so nothing of an older segment survives and the length is right), else a description."""
        fr = fresh(data)
        if isinstance(fr, Err) or not isinstance(fr, bytes):
            return f"write_xpak onto an empty file raised {getattr(fr, 'kind', fr)!r}"
        if not isinstance(out, bytes):
            return f"no file content after the write ({out!r})"
        if len(out) != len(prefix) + len(fr):
            return (f"file length {len(out)} after the write, expected {len(prefix)} (bytes before the segment) + "
                    f"{len(fr)} (new segment): the old segment was not replaced entirely")
        if out[:len(prefix)] != prefix:
            return "bytes before the segment changed"
        if out[len(prefix):] != fr:
            return "the bytes after the prefix are not the new segment"
        return None

    # ------------------------------------------------------------------ corpus
    corpus = []
    cdir = os.path.join(os.path.dirname(os.path.dirname(os.path.abspath(__file__))), "corpus", "C26")
    if os.path.isdir(cdir):
        import json
        for fn in sorted(os.listdir(cdir)):
            if fn.endswith(".json"):
                with open(os.path.join(cdir, fn)) as fh:
                    corpus.append(json.load(fh))

    # ------------------------------------------------------------------ roundtrip
    rt_cases, rt_meta = [], []
    rt_inputs = [(bytes.fromhex(c["pre"]), data_from_json(c["data"]), "corpus") for c in corpus if c.get("stream") == "roundtrip"]
    for _ in range(chk.n(130, 4000)):
        pre = gen_prefix(rng, scale)
        if rng.random() < 0.82:
            rt_inputs.append((pre, gen_data(rng, scale=scale), "domain"))
        else:
            d, what = gen_odd_data(rng)
            rt_inputs.append((pre, d, what))
    for pre, data, kind in rt_inputs:
        p = drv.path(pre)
        w = drv.write(p, data)
        res = w if isinstance(w, Err) else drv.start_items(p)
        rt_cases.append((cpair(cstr(pre), c_data(data)), res))
        rt_meta.append((pre, data, kind))
        dom = in_domain(data)
        if dom and len(data) >= 2 and pre and any(
                (isinstance(k, str) and k.startswith("environment")) or (isinstance(v, str) and not v.isascii())
                for k, v in data):
            chk.nontrivial(("rt", pre, repr(data)))
        if kind != "domain":
            chk.nontrivial(("rt-odd", kind, repr(res)[:40]))
        # (B) direct oracle on the implementation
        inp = {"stream": "roundtrip", "pre": pre.hex(), "data": data_json(data), "got": res}

        def rt_oracle(pre=pre, data=data, w=w, res=res, p=p, inp=inp):
            bad = None
            if isinstance(w, Err):
                bad = f"write_xpak raised {w.kind}"
            else:
                bad = replaced_entirely(w, pre, data)
            if bad is None:
                if isinstance(res, Err):
                    bad = f"reading back raised {res.kind}"
                elif res[0] != len(pre):
                    bad = f"segment starts at {res[0]}, not at the end of the old file ({len(pre)})"
                elif res[1] != expected_items(data):
                    bad = "items() differ from the mapping written"
            if bad is None:
                # second rewrite of the same path with the same mapping: the first segment must be
                # replaced, i.e. the file must not change at all
                w2 = drv.write(p, data)
                if isinstance(w2, Err):
                    bad = f"the second write_xpak on the same path raised {w2.kind}"
                elif w2 != w:
                    bad = ("rewriting the same mapping changed the file: " +
                           (replaced_entirely(w2, pre, data) or "contents differ"))
            if bad:
                if kf_repo_alias(data):
                    # search around the input: the same mapping without the key must round-trip exactly
                    rest = [x for x in data if (x[0] if isinstance(x[0], str) else x[0].decode("latin1")) != "repo"]
                    bad2 = oracle_roundtrip(drv, pre, rest)
                    if bad2 is None and "rewriting" not in bad and "length" not in bad:
                        report("key 'repo' is read back as 'REPO': " + bad, inp, "repo-alias")
                    else:
                        report(bad2 or bad, {"stream": "roundtrip", "pre": pre.hex(), "data": data_json(rest)})
                else:
                    report(bad, inp)
        if dom:
            guarded(inp, rt_oracle)
    chk.count("roundtrip", len(rt_cases))
    for s in rt_cases[:: max(1, len(rt_cases) // 2)][:2]:
        chk.sample({"stream": "roundtrip", "input": s[0][:600], "impl": s[1]})

    # ------------------------------------------------------------------ write (byte-exact file contents)
    wr_cases, wr_meta = [], []
    wr_inputs = [(None if c["file"] is None else bytes.fromhex(c["file"]), data_from_json(c["data"]), "corpus", None)
                 for c in corpus if c.get("stream") == "write"]
    for _ in range(chk.n(110, 3000)):
        r = rng.random()
        seg_at = None
        if r < 0.04:
            f, kind = None, "absent"
        elif r < 0.10:
            f, kind = b"", "empty"
        elif r < 0.25:
            f, kind = gen_prefix(rng, scale), "prefix"
        elif r < 0.60:
            pre = gen_prefix(rng, scale)
            old = gen_data(rng, scale=scale)
            if rng.random() < 0.5:
                f = fresh(old)
                f = pre + f if not isinstance(f, Err) else pre
            else:
                f = pre + ref_segment(enc_kvs(old))
            kind, seg_at = "segment", len(pre)
        else:
            f, kind = gen_mimic(rng)
            kind = "mimic:" + kind
        if rng.random() < 0.9:
            data = gen_data(rng, scale=scale)
        else:
            data, _ = gen_odd_data(rng)
        wr_inputs.append((f, data, kind, seg_at))
    for f, data, kind, seg_at in wr_inputs:
        p = drv.path(f)
        out = drv.write(p, data)
        if out is None:
            out = Err("file-vanished")
        after = drv.raw(p)
        wr_cases.append((cpair(c_file(f), c_data(data)), out))
        wr_meta.append((f, data, kind))
        if kind == "segment" or kind.startswith("mimic"):
            chk.nontrivial(("wr", kind, repr(f)[:80], repr(data)[:80]))
        inp = {"stream": "write", "file": None if f is None else f.hex(), "data": data_json(data), "kind": kind,
               "got": out}

        def wr_oracle(f=f, data=data, kind=kind, seg_at=seg_at, out=out, after=after, inp=inp):
            old = b"" if f is None else f
            if isinstance(out, Err):
                if after != f:
                    report(f"write_xpak raised {out.kind} and left the file modified", inp)
                elif f is not None and in_domain(data):
                    if kf_index_walk_crash(f):
                        report(f"write_xpak raised {out.kind} on a file whose tail only mimics a segment", inp, "index-walk-crash")
                    else:
                        report(f"write_xpak raised {out.kind} on an existing file and an in-domain mapping", inp)
                return
            if not in_domain(data):
                return
            fr = fresh(data)
            if isinstance(fr, Err):
                report(f"write_xpak onto an empty file raised {fr.kind}", inp)
                return
            n = len(out) - len(fr)
            if n < 0 or out[n:] != fr or n > len(old) or out[:n] != old[:n]:
                report("the file after write_xpak is not <prefix of the old file> + <the segment>", inp)
            elif seg_at is not None and n != seg_at:
                report(f"old segment started at {seg_at} but the new one was written at {n}: file length {len(out)}, "
                       f"expected {seg_at + len(fr)} (the old segment was not replaced entirely)", inp)
            elif seg_at is None and n != len(old) and ref_parse_kind(old) in ("oserror", "malformed"):
                report("file without a segment: the segment was not appended at the end "
                       f"({len(old) - n} bytes of the archive were cut off)", inp)
            else:
                # a second rewrite must replace the segment just written: same start, exact length
                data2 = [] if data else [("CATEGORY", "sys-apps")]
                out2 = drv.write(p, data2)
                bad = (f"the second write_xpak on the same path raised {out2.kind}" if isinstance(out2, Err)
                       else replaced_entirely(out2, old[:n], data2))
                if bad:
                    report("second rewrite: " + bad, dict(inp, second_data=data_json(data2),
                                                          got_second=out2))
        guarded(inp, wr_oracle)
    chk.count("write", len(wr_cases))
    for s in wr_cases[:: max(1, len(wr_cases) // 2)][:2]:
        chk.sample({"stream": "write", "input": s[0][:600], "impl": s[1]})

    # ------------------------------------------------------------------ seq (repeated rewrites)
    sq_cases, sq_crashed = [], []
    sq_inputs = [(bytes.fromhex(c["pre"]), c.get("had_segment", False), [data_from_json(d) for d in c["datas"]],
                  c.get("absent", False))
                 for c in corpus if c.get("stream") == "seq"]
    for _ in range(chk.n(16, 800)):
        absent = rng.random() < 0.12
        pre = b"" if absent else gen_prefix(rng, scale)
        had = (not absent) and rng.random() < 0.4
        steps = []
        for i in range(rng.randrange(3, 7)):
            sc = rng.choice([1, 1, 2, 4]) * scale
            n = rng.choice([0, 1, 2, 5, 8]) if rng.random() < 0.7 else None
            if rng.random() < 0.93:
                steps.append(gen_data(rng, n if n is None or n <= 6 else 6, scale=sc))
            else:
                steps.append(gen_odd_data(rng)[0])
        sq_inputs.append((pre, had, steps, absent))
    for pre, had, steps, absent in sq_inputs:
        f0 = None if absent else (pre + ref_segment(enc_kvs(gen_data(rng))) if had else pre)
        p = drv.path(f0)
        outs, lens, state = [], [], {"crashed": False}
        for d in steps:
            before = drv.raw(p)
            o = drv.write(p, d)
            if o is None:
                o = Err("file-vanished")
            outs.append(o)
            inp = {"stream": "seq", "pre": pre.hex(), "had_segment": had, "absent": absent,
                   "datas": [data_json(x) for x in steps], "step": len(outs) - 1, "got": o}

            def sq_oracle(d=d, o=o, before=before, inp=inp):
                if isinstance(o, Err):
                    if drv.raw(p) != before:
                        report(f"write_xpak raised {o.kind} and left the file modified", inp)
                    elif before is None:
                        pass        # the path does not exist: refusing is not a matter of this property
                    elif in_domain(d):
                        if kf_index_walk_crash(before):
                            state["crashed"] = True
                            report(f"rewrite raised {o.kind}: the file's own segment (written earlier with a non-ASCII "
                                   "key) cannot be walked", inp, "index-walk-crash")
                        else:
                            report(f"rewrite raised {o.kind}", inp)
                    return
                lens.append(len(o))
                if not in_domain(d):
                    return
                bad = replaced_entirely(o, pre, d)      # first AND every repeated rewrite: bytes and length
                if bad:
                    report(f"rewrite {len(outs)} of the same path: " + bad, inp)
                    return
                r = drv.start_items(p)
                if isinstance(r, Err) or r != [len(pre), expected_items(d)]:
                    if kf_repo_alias(d):
                        report("key 'repo' is read back as 'REPO'", inp, "repo-alias")
                    else:
                        report("reading back after a rewrite differs from the mapping written", inp)
            guarded(inp, sq_oracle)
        sq_cases.append((cpair(c_file(f0), clist([c_data(d) for d in steps], "list (pystr * pystr)")), outs))
        sq_crashed.append(state["crashed"])
        ups = any(b > a for a, b in zip(lens, lens[1:]))
        downs = any(b < a for a, b in zip(lens, lens[1:]))
        if ups and downs:
            chk.nontrivial(("sq", pre, repr(steps)[:200]))
        if absent:
            chk.nontrivial(("sq-absent", repr(outs)[:60]))
    chk.count("seq", len(sq_cases))
    if sq_cases:
        chk.sample({"stream": "seq", "input": sq_cases[0][0][:600], "impl": [o if isinstance(o, Err) else len(o) for o in sq_cases[0][1]]})

    # ------------------------------------------------------------------ read (well-formed, arbitrary byte-level entries) / readbad
    rd_cases, rb_cases, get_cases = [], [], []
    for _ in range(chk.n(30, 1000)):
        pre = gen_prefix(rng, scale)
        kvs = enc_kvs(gen_odd_data(rng)[0] if rng.random() < 0.4 else gen_data(rng, scale=scale))
        if rng.random() < 0.2 and kvs:
            kvs.append((rng.choice(kvs)[0], gen_bin(rng)))      # a repeated key: later entry wins, first position kept
        f = pre + ref_segment(kvs)
        p = drv.path(f)
        rd_cases.append((cstr(f), drv.read(p)))
        keys = [rng.choice([k.decode("latin1") for k, _ in kvs] + ["repo", "REPO", "missing", ""]) for _ in range(3)]
        get_cases.append((cpair(cstr(f), clist([cstr(k) for k in keys], "list N")), [drv.get(p, k) for k in keys]))
    chk.count("read", len(rd_cases))
    for _ in range(chk.n(120, 3000)):
        f, kind = gen_mimic(rng)
        p = drv.path(f)
        r = drv.read(p)
        rb_cases.append((cstr(f), r))
        chk.nontrivial(("rb", kind, repr([x if isinstance(x, Err) else "ok" for x in r])))
        if rng.random() < 0.25:
            keys = [rng.choice(REAL_KEYS) for _ in range(2)]
            get_cases.append((cpair(cstr(f), clist([cstr(k) for k in keys], "list N")), [drv.get(p, k) for k in keys]))
    chk.count("readbad", len(rb_cases))
    chk.count("get", len(get_cases))
    if rb_cases:
        chk.sample({"stream": "readbad", "input": rb_cases[0][0][:400], "impl": rb_cases[0][1]})
    # the two crafted members of the recorded class, every run
    for f in (b"tar" + b"XPAKPACK" + be32(7) + be32(0) + be32(8) + b"XPAKSTOP" + be32(28) + b"STOP",
              ref_segment([(b"k\xc3\xa9", b"v")])):
        p = drv.path(f)
        out = drv.write(p, [("CATEGORY", "sys-apps")])
        wr_cases.append((cpair(c_file(f), c_data([("CATEGORY", "sys-apps")])), out if out is not None else Err("file-vanished")))
        chk.count("write", 1)
        if isinstance(out, Err) and kf_index_walk_crash(f) and drv.raw(p) == f:
            report(f"write_xpak raised {out.kind} on a file whose tail only mimics a segment",
                   {"stream": "write", "file": f.hex(), "data": [["CATEGORY", "sys-apps"]], "got": out}, "index-walk-crash")
    drv.cleanup()

    # ------------------------------------------------------------------ evaluate model and spec inside Coq
    streams = [
        ("roundtrip", "list N * list (pystr * pystr)", rt_cases,
         ["mismatches run_roundtrip cases", "where_ (fun i r => negb (spec_roundtrip_ok i r)) cases"]),
        ("write", "option (list N) * list (pystr * pystr)", wr_cases,
         ["mismatches run_write cases", "where_ (fun i r => negb (spec_write_ok i r)) cases"]),
        ("seq", "option (list N) * list (list (pystr * pystr))", sq_cases,
         ["mismatches run_seq cases", "where_ (fun i r => negb (spec_seq_ok i r)) cases"]),
        ("read", "list N", rd_cases, ["mismatches run_read cases"]),
        ("readbad", "list N", rb_cases, ["mismatches run_read cases"]),
        ("get", "list N * list (list N)", get_cases, ["mismatches run_get cases"]),
    ]
    corr_bad = []
    if assum is not None:
        assum.result()
    shard = chk.n(70, 250)
    futs = [(st, pool.submit(chk.coq_eval, st[0], IMPORTS, st[1], st[2], st[3], shard)) for st in streams] if ok else []
    for (name, ty, cases, evals), fut in futs:
        try:
            r = fut.result()
        except Exception as e:  # noqa: BLE001 - e.g. a result value that cannot be rendered as a Coq term
            chk.violation("correspondence",
                          {"what": f"stream '{name}': the implementation's results could not be handed to Coq "
                                   f"({type(e).__name__}: {e})"}, no_input=not prop_fail)
            continue
        if r is None:
            continue
        for i in r[0]:
            corr_bad.append((name, cases[i]))
        if len(r) > 1:
            for i in r[1]:
                inp, res = cases[i]
                if name == "roundtrip" and kf_repo_alias(rt_meta[i][1]):
                    # classified above by the Python oracle as well; keep the class precise
                    rest = [x for x in rt_meta[i][1]
                            if (x[0] if isinstance(x[0], str) else x[0].decode("latin1")) != "repo"]
                    if in_domain(rest):
                        report("Spec_C26.spec_roundtrip_ok rejects the read-back (key 'repo' is read back as 'REPO')",
                               {"stream": name, "input": inp[:2000], "got": res}, "repo-alias")
                        continue
                if name == "seq" and sq_crashed[i]:
                    # the only refusals of encodable mappings in this sequence were classified above
                    # (index-walk-crash); every successful step was checked byte-exactly by the oracle
                    report("Spec_C26.spec_seq_ok rejects a refusal (index-walk-crash)",
                           {"stream": name, "input": inp[:2000]}, "index-walk-crash")
                    continue
                report(f"Spec_C26.spec_{name}_ok rejects the implementation's result",
                       {"stream": name, "input": inp[:4000], "got": res})

    # ------------------------------------------------------------------ report
    seen_inputs, per_stream = 0, {}
    for what, inp, cls in prop_fail:
        if cls is not None and chk.known_finding(cls, inp):
            continue
        seen_inputs += 1
        st = inp.get("stream") if isinstance(inp, dict) else None
        per_stream[st] = per_stream.get(st, 0) + 1
        if per_stream[st] <= 2 and sum(min(v, 2) for v in per_stream.values()) <= 8:   # a few per stream
            chk.violation("property", {"what": what, "input": inp})
    for name, case in corr_bad[:4]:
        chk.violation("correspondence",
                      {"what": f"implementation and Model_C26 disagree on stream '{name}' "
                               "(the theorems of Prop_C26 no longer speak about this code)",
                       "input": case[0][:4000], "implementation": case[1]},
                      no_input=not seen_inputs)
    if corr_bad:
        chk.note(f"{len(corr_bad)} correspondence mismatches")


def replay(chk: Check, data):
    """re-run one recorded property failure against the implementation."""
    inp = data.get("detail", {}).get("input", {})
    drv = Driver(chk)
    try:
        if inp.get("stream") == "roundtrip":
            print("oracle:", oracle_roundtrip(drv, bytes.fromhex(inp["pre"]), data_from_json(inp["data"])))
        elif inp.get("stream") == "write":
            f = None if inp["file"] is None else bytes.fromhex(inp["file"])
            p = drv.path(f)
            out = drv.write(p, data_from_json(inp["data"]))
            print("implementation:", out if isinstance(out, Err) else out.hex())
        elif inp.get("stream") == "seq":
            p = drv.path(None if inp.get("absent") else bytes.fromhex(inp["pre"]))
            for d in inp["datas"]:
                out = drv.write(p, data_from_json(d))
                print("implementation:", out if isinstance(out, Err) else out.hex())
        else:
            print("no structured input recorded (correspondence/proof tie): see 'detail'")
    finally:
        drv.cleanup()
