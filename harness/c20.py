"""C20 — unmerge removes exactly what it owns and never base directories (DESIGN §6 C20).

Stream `unmerge`: random old (and, for replace, new) contents sets over random live roots in a
scratch directory, driven through the real MergeEngine.uninstall / MergeEngine.replace with the
default triggers (sanity_check, [pre_merge, merge, post_merge,] pre_unmerge, unmerge,
post_unmerge, final).  Around the `unmerge` hook the harness records the os-level call trace
(harness/fsx.py) and snapshots the tree before and after.
  (A) trace + after-snapshot + raised flag  ==  Model_C20.run_case on (before-snapshot, offset,
      old, new)                                                            [evaluated in Coq]
  Histories: sequences of 2-3 such operations on ONE root path in this process, with directories
  turning into symlinks (and back) in between; every step is compared like a single case, so state the
  implementation carries from one engine to the next (memos keyed by path) shows up.
  (B) Spec_C20.spec_ok on the implementation's after-snapshot              [evaluated in Coq]
      + the statement itself checked directly on the real snapshots         [`oracle`, Python]
Stream `order`: the hook schedule of the three real engines vs Model_C20.run_names.
Tables: BaseSystemUnmergeProtection._preserve_sequence, the default-trigger table (priorities,
hooks, engine types, engine hooks) and the errno
tuple of unmerge_contents are regenerated from source (coq/gen/Tables_C20.v, fail closed).
"""

from __future__ import annotations

import ast
import concurrent.futures as cf
import errno
import os
import shutil
import sys
import tempfile

from . import fsx, tables
from .common import Check, Raw, cN, cZ, clist, cstr
from .tables import TableError

IMPORTS = ("From Coq Require Import List NArith ZArith Bool.\n"
           "From Verif Require Import Base.Val C18.Fs C20.Model_C20 C20.Spec_C20.\n"
           "Local Open Scope bs_scope.")
ANCHORS = ["fs/ops.py::unmerge_contents", "merge/engine.py::MergeEngine.get_remove_cset",
           "merge/engine.py::MergeEngine.uninstall", "merge/engine.py::MergeEngine.replace",
           "merge/engine.py::MergeEngine.execute_hook", "merge/engine.py::MergeEngine._get_livefs_intersect_cset",
           "merge/triggers.py::BaseSystemUnmergeProtection", "merge/triggers.py::unmerge",
           "merge/triggers.py::default_plugins_triggers", "merge/triggers.py::base.register",
           "merge/engine.py::MergeEngine.add_trigger",
           "fs/livefs.py::intersect", "fs/contents.py::contentsSet.difference",
           "fs/contents.py::contentsSet.difference_update"]


# --------------------------------------------------------------------------- tables (fail closed)
def _class_attr(tree, cls, name, fallback_cls=None):
    try:
        return tables.find_assign(tree, name, cls=cls)
    except TableError:
        if fallback_cls is None:
            raise
        # the attribute must really be absent from cls (not assigned twice / computed)
        c = tables.find_func(tree, cls)
        for n in ast.walk(c):
            if isinstance(n, (ast.Assign, ast.AnnAssign, ast.AugAssign)):
                tg = n.targets if isinstance(n, ast.Assign) else [n.target]
                if any(isinstance(t, ast.Name) and t.id == name for t in tg):
                    raise
        if [b.id for b in c.bases if isinstance(b, ast.Name)] != [fallback_cls]:
            raise TableError(f"{cls}: bases are no longer ({fallback_cls},)")
        return tables.find_assign(tree, name, cls=fallback_cls)


def _int_lit(node, what):
    v = tables.literal(node)
    if type(v) is not int:
        raise TableError(f"{what} is not an int literal")
    return v


def gen_tables():
    t = tables.parse("merge/triggers.py")
    seq = tables.literal(_class_attr(t, "BaseSystemUnmergeProtection", "_preserve_sequence"))
    if not (isinstance(seq, tuple) and seq and all(isinstance(x, str) and x for x in seq)):
        raise TableError("_preserve_sequence is not a non-empty tuple of non-empty strings")
    for cls in ("BaseSystemUnmergeProtection", "unmerge"):
        hooks = tables.literal(_class_attr(t, cls, "_hooks"))
        req = tables.literal(_class_attr(t, cls, "required_csets"))
        if tuple(hooks) != ("unmerge",):
            raise TableError(f"{cls}._hooks is no longer ('unmerge',): {hooks!r}")
        if tuple(req) != ("uninstall",):
            raise TableError(f"{cls}.required_csets is no longer ('uninstall',): {req!r}")
        et = _class_attr(t, cls, "_engine_types")
        if not (isinstance(et, ast.Name) and et.id == "UNINSTALLING_MODES"):
            raise TableError(f"{cls}._engine_types is no longer UNINSTALLING_MODES")
    # the errno tuple of the rmdir loop in unmerge_contents
    o = tables.parse("fs/ops.py")
    fn = tables.find_func(o, "unmerge_contents")
    tups = []
    for n in ast.walk(fn):
        if (isinstance(n, ast.Compare) and len(n.ops) == 1 and isinstance(n.ops[0], ast.NotIn)
                and isinstance(n.left, ast.Attribute) and n.left.attr == "errno"
                and isinstance(n.comparators[0], ast.Tuple)):
            tups.append(n.comparators[0])
    if len(tups) != 1:
        raise TableError(f"unmerge_contents: expected one `e.errno not in (...)`, found {len(tups)}")
    names = []
    for e in tups[0].elts:
        if not (isinstance(e, ast.Attribute) and isinstance(e.value, ast.Name) and e.value.id == "errno"
                and hasattr(errno, e.attr)):
            raise TableError("unmerge_contents: errno tuple member is not errno.<NAME>")
        names.append(e.attr)
    L = [tables.header("merge/triggers.py (BaseSystemUnmergeProtection, unmerge), fs/ops.py (unmerge_contents)")]
    L.append("(* BaseSystemUnmergeProtection._preserve_sequence, verbatim *)")
    L.append("Definition preserve_sequence : list str := " + clist([cstr(x.encode()) for x in seq], "str") + ".")
    L.append(f"(* {', '.join(seq)} *)")
    L.append("(* errno values the rmdir loop of unmerge_contents ignores: " + ", ".join(names) + " *)")
    L.append("Definition rmdir_ignored : list N := " + clist([cN(getattr(errno, n)) for n in names], "N") + ".")
    L.append(f"Definition E_NOENT : N := {cN(errno.ENOENT)}.")
    L.append(f"Definition E_NOTDIR : N := {cN(errno.ENOTDIR)}.")
    L.append(f"Definition E_NOTEMPTY : N := {cN(errno.ENOTEMPTY)}.")
    L.append(f"Definition E_BUSY : N := {cN(errno.EBUSY)}.")
    L += _hook_tables(t)
    return {"Tables_C20.v": "\n".join(L) + "\n"}


def _same(node, src):
    return ast.dump(node) == ast.dump(ast.parse(src, mode="eval").body)


def _inherited_attr(tree, cls, attr, depth=0):
    """class-level `attr = <expr>` of cls, following single in-module inheritance"""
    if depth > 6:
        raise TableError(f"{cls}: inheritance too deep")
    node = [n for n in ast.iter_child_nodes(tree) if isinstance(n, ast.ClassDef) and n.name == cls]
    if len(node) != 1:
        raise TableError(f"class {cls} not found exactly once in merge/triggers.py")
    node = node[0]
    hits = [n.value for n in node.body if isinstance(n, ast.Assign)
            and any(isinstance(x, ast.Name) and x.id == attr for x in n.targets)]
    hits += [n.value for n in node.body if isinstance(n, ast.AnnAssign) and isinstance(n.target, ast.Name)
             and n.target.id == attr and n.value is not None]
    if len(hits) > 1:
        raise TableError(f"{cls}.{attr}: assigned more than once")
    if hits:
        return hits[0]
    if len(node.bases) != 1 or not isinstance(node.bases[0], ast.Name):
        raise TableError(f"{cls}.{attr}: not defined / unsupported bases")
    return _inherited_attr(tree, node.bases[0].id, attr, depth + 1)


def _hook_tables(t):
    """the data that decides which default trigger runs when: default_plugins_triggers() (members,
    sort), per trigger (priority, _hooks, _engine_types), the hooks of each engine mode, and the
    shapes of the two sorts (registration order, execution order)"""
    from .common import copt
    c = tables.parse("merge/const.py")
    consts = {}
    for n in ("REPLACE_MODE", "INSTALL_MODE", "UNINSTALL_MODE"):
        v = tables.literal(tables.find_assign(c, n))
        if type(v) is not int or v < 0:
            raise TableError(f"merge/const.py: {n} is not a non-negative int literal")
        consts[n] = v
    if len(set(consts.values())) != 3:
        raise TableError("merge/const.py: modes are not distinct")
    modesets = {}
    for name in ("INSTALLING_MODES", "UNINSTALLING_MODES"):
        v = tables.find_assign(t, name)
        if not (isinstance(v, ast.Tuple) and all(
                isinstance(e, ast.Attribute) and isinstance(e.value, ast.Name) and e.value.id == "const"
                and e.attr in consts for e in v.elts)):
            raise TableError(f"{name}: expected a tuple of const.<MODE>")
        modesets[name] = [consts[e.attr] for e in v.elts]
    fn = tables.find_func(t, "default_plugins_triggers")
    body = [s for s in fn.body if not (isinstance(s, ast.Expr) and isinstance(s.value, ast.Constant))]
    if not (len(body) == 2 and isinstance(body[0], ast.Assign) and isinstance(body[0].value, ast.Tuple)
            and isinstance(body[1], ast.Return)
            and _same(body[1].value, "tuple(sorted(triggers, reverse=True, key=lambda x: (x.priority, x.__name__)))")
            and all(isinstance(e, ast.Name) for e in body[0].value.elts)):
        raise TableError("default_plugins_triggers: unexpected shape")
    rows = []
    for e in body[0].value.elts:
        pr = _int_lit(_inherited_attr(t, e.id, "priority"), f"{e.id}.priority")
        hooks = tables.literal(_inherited_attr(t, e.id, "_hooks"))
        if not (isinstance(hooks, tuple) and all(isinstance(h, str) for h in hooks)):
            raise TableError(f"{e.id}._hooks is not a tuple of string literals")
        et = _inherited_attr(t, e.id, "_engine_types")
        if isinstance(et, ast.Constant) and et.value is None:
            ets = None
        elif isinstance(et, ast.Name) and et.id in modesets:
            ets = modesets[et.id]
        else:
            raise TableError(f"{e.id}._engine_types: expected None or (UN)INSTALLING_MODES")
        rows.append((e.id, pr, hooks, ets))
    eng = tables.parse("merge/engine.py")

    def hook_names(name):
        v = tables.find_assign(eng, name, cls="MergeEngine")
        if not (isinstance(v, ast.DictComp) and isinstance(v.value, ast.List) and not v.value.elts
                and len(v.generators) == 1 and isinstance(v.key, ast.Name)):
            raise TableError(f"MergeEngine.{name}: expected {{x: [] for x in (<names>)}}")
        names = tables.literal(v.generators[0].iter)
        if not (isinstance(names, tuple) and all(isinstance(s, str) for s in names)):
            raise TableError(f"MergeEngine.{name}: hook names are not string literals")
        return list(names)
    ih, uh = hook_names("install_hooks"), hook_names("uninstall_hooks")
    rh = tables.find_assign(eng, "replace_hooks", cls="MergeEngine")
    if not (isinstance(rh, ast.DictComp) and _same(
            rh.generators[0].iter, "set(chain(install_hooks.keys(), uninstall_hooks.keys()))")):
        raise TableError("MergeEngine.replace_hooks is no longer the union of install and uninstall hooks")
    ex = tables.find_func(eng, "MergeEngine.execute_hook")
    fors = [n for n in ast.walk(ex) if isinstance(n, ast.For)]
    if not (len(fors) == 1 and _same(fors[0].iter, 'sorted(self.hooks[hook], key=operator.attrgetter("priority"))')):
        raise TableError("MergeEngine.execute_hook no longer runs sorted(self.hooks[hook], key=priority)")
    L = ["", "(* merge/const.py *)"]
    for k, v in consts.items():
        L.append(f"Definition {k} : N := {cN(v)}.")
    L.append("(* default_plugins_triggers(): (class name, priority, _hooks, _engine_types) in source order; the")
    L.append("   function returns them sorted(reverse=True, key=(priority, name)); execute_hook runs")
    L.append("   sorted(hooks[hook], key=priority) - both shapes are checked when this file is generated *)")
    L.append("Definition default_triggers : list (str * Z * list str * option (list N)) :=\n  %s." % clist(
        ["(%s, %s, %s, %s)" % (cstr(n), cZ(p), clist([cstr(h) for h in hs], "str"),
                               copt(et, lambda l: clist([cN(x) for x in l], "N"), "list N"))
         for n, p, hs, et in rows], "str * Z * list str * option (list N)"))
    L.append("(* MergeEngine.install_hooks / uninstall_hooks (replace_hooks is their union) *)")
    L.append("Definition install_hooks : list str := %s." % clist([cstr(h) for h in ih], "str"))
    L.append("Definition uninstall_hooks : list str := %s." % clist([cstr(h) for h in uh], "str"))
    L.append(f"Definition name_unmerge : str := {cstr('unmerge')}.                       (* trigger class and hook *)")
    L.append(f"Definition name_protection : str := {cstr('BaseSystemUnmergeProtection')}.")
    return L


# the base-system directories of the statement, pinned (same list as Spec_C20.base_system_dirs)
BASE_SYSTEM_DIRS = ["usr", "usr/lib", "usr/lib64", "usr/lib32", "usr/bin", "usr/sbin", "bin", "sbin", "lib",
                    "lib32", "lib64", "etc", "var", "home", "root"]


# --------------------------------------------------------------------------- case generation
FILES = ["f", "g", "x y", "été", "q#", "a.so", "zz"]
SUBDIRS = ["d", "lib-x", "lib.d", "share", "e e", "z"]
BASE_DIRS = ["usr", "usr/lib64", "usr/bin", "usr/sbin", "usr/lib32", "etc", "var", "bin", "sbin", "lib64",
             "home", "root", "opt", "usr/share", "var/lib", "opt/x"]


def gen_root(rng):
    """a live tree below the offset: {relpath: ("d",) | ("f", data) | ("l", target) | ("p",)}"""
    t = {}

    def mkdirs(p):
        parts = p.split("/")
        for i in range(1, len(parts) + 1):
            q = "/".join(parts[:i])
            if q in t and t[q][0] != "d":
                return False
            t.setdefault(q, ("d",))
        return True

    for d in BASE_DIRS:
        if rng.random() < 0.6:
            mkdirs(d)
    # classic multilib / merged-usr symlinks (relative targets keep everything below the base)
    style = rng.choice(["none", "lib64", "lib64", "merged", "odd"])
    if style in ("lib64", "merged", "odd"):
        mkdirs("usr/lib64")
        t["usr/lib"] = ("l", "lib64")
    else:
        if rng.random() < 0.7:
            mkdirs("usr/lib")
    if style == "merged":
        for n in ("bin", "sbin", "lib64", "lib"):
            if n in t:
                for k in [k for k in t if k == n or k.startswith(n + "/")]:
                    del t[k]
            mkdirs("usr/" + ("lib64" if n == "lib" else n))
            t[n] = ("l", "usr/" + n)
    elif rng.random() < 0.5 and "lib" not in t:
        if rng.random() < 0.5 and "lib64" in t and t["lib64"][0] == "d":
            t["lib"] = ("l", "lib64")
        else:
            mkdirs("lib")
    if style == "odd":
        mkdirs("opt")
        t["opt/u"] = ("l", "../usr")          # a second name for everything below usr
    # populate
    dirs = [k for k, v in t.items() if v[0] == "d"]
    for _ in range(rng.randint(2, 7)):
        if not dirs:
            break
        d = rng.choice(dirs)
        q = d + "/" + rng.choice(SUBDIRS)
        if q not in t:
            t[q] = ("d",)
            dirs.append(q)
    for _ in range(rng.randint(3, 12)):
        if not dirs:
            break
        d = rng.choice(dirs)
        q = d + "/" + rng.choice(FILES)
        if q in t:
            continue
        r = rng.random()
        if r < 0.62:
            t[q] = ("f", "o%d" % rng.randint(0, 99))
        elif r < 0.74:
            t[q] = ("l", rng.choice([f for f in FILES if f != q.rsplit("/", 1)[1]]))   # a sibling (maybe dangling)
        elif r < 0.84:
            t[q] = ("l", rng.choice(["../ext/keep", "../../ext", "../ext"]) if d.count("/") == 0
                    else rng.choice(["../" + rng.choice(SUBDIRS), "../../ext", "/nonexistent/abs"]))
        elif r < 0.92:
            t[q] = ("l", rng.choice(SUBDIRS))                    # link to a sibling directory
        else:
            t[q] = ("p",)
    return t


def resolve_lit(t, p):
    """follow symlinked directory components of the offset-relative name p inside the tree t
    (only used to pick interesting names; the check itself never relies on it)."""
    parts, out, fuel = p.split("/"), [], 40
    while parts and fuel:
        fuel -= 1
        c = parts.pop(0)
        if c == "..":
            out = out[:-1]
            continue
        q = "/".join(out + [c])
        v = t.get(q)
        if v and v[0] == "l" and parts:
            if v[1].startswith("/"):
                return None
            parts = v[1].split("/") + parts
            continue
        out.append(c)
    if parts:
        return None             # a symlink loop
    return "/".join(out)


def alias_names(t):
    """literal names that reach an object of the tree through a symlinked directory"""
    out = []
    links = [k for k, v in t.items() if v[0] == "l"]
    for l in links:
        tgt = resolve_lit(t, l + "/.")
        if tgt is None or t.get(tgt, ("",))[0] != "d":
            continue
        for k in t:
            if k.startswith(tgt + "/"):
                out.append(l + k[len(tgt):])
    return out


def gen_case(rng, n):
    t = gen_root(rng)
    c = gen_pkgs(rng, t)
    c.update({"n": n, "tree": t, "off": rng.choice(["o", "o", "o", "o/p", "s", ""]),
              "slash": rng.random() < 0.3, "ext": rng.random() < 0.8, "post": False})
    return c


def gen_pkgs(rng, t, mode=None):
    """an old (and for replace a new) package over the live tree t: {"mode", "old", "new", "flip"}"""
    names = sorted(t)
    mode = mode or rng.choice(["uninstall", "uninstall", "replace", "replace", "replace"])
    old = []

    def add(lst, p):
        if p and p not in lst:
            lst.append(p)

    # the package owns a few subtrees / files; parents are usually listed too (as real packages do)
    owned = rng.sample(names, min(len(names), rng.randint(2, 9)))
    for p in owned:
        if rng.random() < 0.8:
            parts = p.split("/")
            for i in range(1, len(parts)):
                if rng.random() < 0.85:
                    add(old, "/".join(parts[:i]))
        add(old, p)
        if t[p][0] == "d" and rng.random() < 0.5:          # everything inside: the directory will become empty
            for k in names:
                if k.startswith(p + "/"):
                    add(old, k)
    al = alias_names(t)
    for p in rng.sample(al, min(len(al), rng.choice([0, 0, 1, 2, 4]))):
        add(old, p)
        if rng.random() < 0.5:
            add(old, p.rsplit("/", 1)[0])
    for _ in range(rng.choice([0, 1, 2])):                   # recorded but gone from the live tree
        add(old, rng.choice(names + ["usr", "opt"]).rsplit("/", 1)[0] + "/" + rng.choice(["gone", "gone/deeper"]))
    for b in BASE_DIRS[:12] + ["usr/lib", "lib"]:
        if b in t and rng.random() < 0.45:
            add(old, b)
    if "etc" in t and t["etc"][0] == "d" and rng.random() < 0.35:
        # the package owns everything in etc (incl. the ld.so.conf the ldconfig trigger would create)
        t.setdefault("etc/ld.so.conf", ("f", "o0"))
        for k in sorted(t):
            if k == "etc" or k.startswith("etc/"):
                add(old, k)
    rng.shuffle(old)
    new = None
    if mode == "replace":
        new = []
        for p in old:
            if rng.random() < 0.55:
                add(new, p)
        # the new version moved some files to the resolved (or to the symlinked) name
        for p in old:
            r = resolve_lit(t, p)
            if r and r != p and rng.random() < 0.6:
                if p in new:
                    new.remove(p)
                add(new, r)
        for p in al:
            r = resolve_lit(t, p)
            if r in old and rng.random() < 0.3:
                add(new, p)
        dirs = [k for k, v in t.items() if v[0] == "d"]
        for _ in range(rng.choice([0, 1, 2, 3])):           # brand-new files
            if dirs:
                add(new, rng.choice(dirs) + "/" + rng.choice(["n1", "n2", "nd/n3"]))
        rng.shuffle(new)
    flip = [p for p in old if rng.random() < 0.06]      # recorded with the wrong type (the live type decides)
    return {"mode": mode, "old": old, "new": new, "flip": flip}


# --------------------------------------------------------------------------- histories on one long-lived root
# Every single case above runs on a fresh root path with fresh engines, so state that the
# implementation carries from one engine to the next (process-wide memos keyed by path, class-level
# caches) is invisible there.  A history is a SEQUENCE of engine operations on the SAME root path in
# this process, with the layout of the tree changing in between (a directory becomes a symlink to its
# new home, a symlink becomes a real directory again); every step is judged on its own by the
# (stateless) model, the spec and the oracle, so any carried state shows up as a failure of that step.
def read_tree(O):
    """the live tree below the offset O as a generator-style dict"""
    t = {}
    for d, ds, fs_ in os.walk(O):
        for name in ds + fs_:
            fp = os.path.join(d, name)
            rel = os.path.relpath(fp, O)
            if os.path.islink(fp):
                t[rel] = ("l", os.readlink(fp))
            elif os.path.isdir(fp):
                t[rel] = ("d",)
            elif os.path.isfile(fp):
                with open(fp, "rb") as f:
                    t[rel] = ("f", canon_data(f.read()))
            else:
                t[rel] = ("p",)
    return t


def gen_mutation(rng, t):
    """a layout change between two operations: ["migrate", D, D2] moves the content of the real
    directory D into its sibling D2 and leaves D as a symlink to it; ["unlink-mkdir", D] replaces the
    symlink D by a real (empty) directory; ["add", path, data] drops an unowned file"""
    dirs = [k for k, v in t.items() if v[0] == "d" and not any(
        t.get("/".join(k.split("/")[:i]), ("d",))[0] == "l" for i in range(1, k.count("/") + 1))]
    syms = [k for k, v in t.items() if v[0] == "l" and resolve_lit(t, k + "/.") in t
            and t[resolve_lit(t, k + "/.")][0] == "d"]
    r = rng.random()
    if dirs and r < 0.7:
        # prefer directories that hold something
        full = [d for d in dirs if any(k.startswith(d + "/") for k in t)] or dirs
        D = rng.choice(full)
        D2 = D + rng.choice(["64", "-real", ".d"])
        if D2 not in t or t[D2][0] == "d":
            return ["migrate", D, D2]
    if syms and r < 0.9:
        return ["unlink-mkdir", rng.choice(syms)]
    if dirs:
        return ["add", rng.choice(dirs) + "/" + rng.choice(["u1", "u2"]), "u"]
    return None


def apply_mutation(O, m):
    if m is None:
        return
    if m[0] == "migrate":
        D, D2 = os.path.join(O, m[1]), os.path.join(O, m[2])
        if not os.path.isdir(D) or os.path.islink(D) or (os.path.lexists(D2) and not os.path.isdir(D2)):
            return
        os.makedirs(D2, exist_ok=True)
        for name in os.listdir(D):
            if not os.path.lexists(os.path.join(D2, name)):
                os.rename(os.path.join(D, name), os.path.join(D2, name))
            else:
                p = os.path.join(D, name)
                shutil.rmtree(p) if os.path.isdir(p) and not os.path.islink(p) else os.unlink(p)
        os.rmdir(D)
        os.symlink(os.path.basename(m[2]), D)
    elif m[0] == "unlink-mkdir":
        D = os.path.join(O, m[1])
        if os.path.islink(D):
            os.unlink(D)
            os.mkdir(D)
    elif m[0] == "add":
        fp = os.path.join(O, m[1])
        if os.path.isdir(os.path.dirname(fp)) and not os.path.lexists(fp):
            with open(fp, "w") as f:
                f.write(m[2])


def directed_pkgs(rng, t, D, D2=None):
    """a replace whose packages live below D: before the migration (D2 None) old and new both list
    files below D; after it the old package is still recorded below D (now a symlink) and the new one
    installs the same files below the resolved directory D2"""
    parts = D.split("/")
    parents = ["/".join(parts[:i]) for i in range(1, len(parts))]
    if D2 is None:
        files = [k for k, v in t.items() if k.startswith(D + "/") and v[0] != "d" and "/" not in k[len(D) + 1:]][:3]
        fresh = D + "/m1"
        old = parents + [D] + files
        new = parents + [D] + files[:1] + [fresh]
    else:
        files = [k for k, v in t.items() if k.startswith(D2 + "/") and v[0] != "d" and "/" not in k[len(D2) + 1:]][:3]
        old = parents + [D] + [D + k[len(D2):] for k in files]
        new = parents + [D2] + files[:2]
    rng.shuffle(old)
    rng.shuffle(new)
    return {"mode": "replace", "old": old, "new": new, "flip": []}


def gen_history(rng, n):
    """{"kind": "history", tree, off, steps: [{"mutate": m | None, mode, old, new, flip}]}; the packages
    of a step are generated against the tree as it is on disk when the step starts, so the steps are
    filled in while the history runs (run_history)"""
    t = gen_root(rng)
    return {"kind": "history", "n": n, "tree": t, "off": rng.choice(["o", "o", "o/p", "s"]),
            "slash": rng.random() < 0.3, "ext": rng.random() < 0.5, "post": False,
            "directed": rng.random() < 0.5, "nsteps": rng.choice([2, 2, 3]), "seed": rng.getrandbits(32), "steps": None}


# --------------------------------------------------------------------------- driving the implementation
def build_tree(cb, case):
    """materialise the case below the per-case base directory cb; returns the absolute offset"""
    off = case["off"]
    real_off = "r" if off == "s" else off
    O = os.path.join(cb, real_off) if real_off else cb
    os.makedirs(O, exist_ok=True)
    if off == "s":
        os.symlink("r", os.path.join(cb, "s"))
    if case["ext"]:
        # something outside the offset nobody owns (symlinks of the tree point at it)
        up = os.path.dirname(O) if real_off else None
        if up:
            os.makedirs(os.path.join(up, "ext"), exist_ok=True)
            with open(os.path.join(up, "ext", "keep"), "w") as f:
                f.write("ext")
    for p in sorted(case["tree"], key=lambda k: (k.count("/"), k)):
        v = case["tree"][p]
        fp = os.path.join(O, p)
        if not os.path.isdir(os.path.dirname(fp)) or os.path.lexists(fp):
            continue
        if v[0] == "d":
            os.mkdir(fp)
        elif v[0] == "f":
            with open(fp, "w") as f:
                f.write(v[1])
        elif v[0] == "l":
            os.symlink(v[1], fp)
        else:
            os.mkfifo(fp)
    return os.path.join(cb, off) if off else cb


def make_contents(case, which, live_root):
    """contentsSet of fs objects for the old / new package (locations relative to the offset).
    The recorded type follows the live object when there is one (a few entries deliberately not)."""
    from pkgcore.fs import contents, fs
    from snakeoil.data_source import data_source

    objs = []
    for k, p in enumerate(case[which]):
        loc = "/" + p
        fp = os.path.join(live_root, p)
        kw = {"strict": False, "uid": 0, "gid": 0, "mtime": 1_200_000_000 + k}
        if which == "old" and p in case.get("flip", ()):
            if os.path.isdir(fp) and not os.path.islink(fp):
                objs.append(fs.fsFile(loc, mode=0o644, data=data_source(b"x"), **kw))
            else:
                objs.append(fs.fsDir(loc, mode=0o755, **kw))
        elif os.path.islink(fp) and which == "old":
            objs.append(fs.fsSymlink(loc, os.readlink(fp), **kw))
        elif os.path.isdir(fp) or (not os.path.lexists(fp) and p.endswith(("gone", "nd"))):
            objs.append(fs.fsDir(loc, mode=0o755, **kw))
        elif os.path.lexists(fp) and not os.path.isfile(fp) and which == "old":
            objs.append(fs.fsFifo(loc, mode=0o644, **kw))
        else:
            objs.append(fs.fsFile(loc, mode=0o644, data=data_source(("n%d" % k).encode()), **kw))
    return contents.contentsSet(objs)


class _Pkg:
    def __init__(self, contents, label):
        self.contents, self.label = contents, label

    def __str__(self):
        return self.label


def canon_data(d: bytes) -> str:
    import hashlib
    import re
    if re.fullmatch(rb"[a-z0-9]*", d):
        return d.decode()
    return "h" + hashlib.sha1(d).hexdigest()[:8]


def show_node(n) -> str:
    k = {"dir": "d", "file": "f", "sym": "l", "fifo": "p"}.get(n[0], "c")
    if k == "f":
        k += canon_data(n[1])
    elif k == "l":
        k += n[1]
    return k


def show_snapshot(snap) -> str:
    return ";".join("/".join(p) + "=" + show_node(snap[p]) for p in sorted(snap))


def show_diff(before, after) -> str:
    """GONE @ EXTRA: paths of `before` missing from `after` (sorted), then every binding of `after`
    that `before` does not have identically (type, data/target); see Model_C20.show_result"""
    gone = ";".join("/".join(p) for p in sorted(before) if p not in after)
    extra = ";".join("/".join(p) + "=" + show_node(after[p]) for p in sorted(after)
                     if p not in before or show_node(before[p]) != show_node(after[p]))
    return gone + "@" + extra


def show_trace(trace, cb) -> str:
    out = []
    rb = os.path.realpath(cb)
    for c in trace:
        if c.kind not in ("unlink", "rmdir"):
            out.append("?" + c.kind)
            continue
        lit = os.path.relpath(os.path.normpath(c.args[0]), rb)
        k = "u" if c.kind == "unlink" else "r"
        if c.ok:
            cp = "/".join(c.cpaths[0]) if c.cpaths[0] is not None else "<outside>"
            out.append(k + lit + ">" + ("" if cp == lit else cp))
        else:
            out.append(k + lit + "!")
    return ";".join(out)


def lstat_kind(p):
    try:
        st = os.lstat(p)
    except OSError:
        return None
    import stat as statmod
    return "d" if statmod.S_ISDIR(st.st_mode) else "n"


def run_case(case, base):
    """drive the real engine; returns a dict with input string, result string and oracle facts
    (or {"skip": reason})"""
    from pkgcore.merge.engine import MergeEngine
    from pkgcore.operations import observer as om

    cb = os.path.join(base, "c%d" % case["n"])
    tmp = os.path.join(base, "t%d" % case["n"])
    os.makedirs(cb)
    os.makedirs(tmp)
    O = build_tree(cb, case)
    try:
        return run_step(case, cb, O, tmp)
    finally:
        shutil.rmtree(cb, ignore_errors=True)
        shutil.rmtree(tmp, ignore_errors=True)


def run_history(h, base):
    """run a history on ONE root path; returns [(step_case, r)] (skipped steps are left out).  When
    h["steps"] is None the steps are generated here (and stored in h, which makes it replayable)."""
    import random
    cb = os.path.join(base, "h%d" % h["n"])
    tmp = os.path.join(base, "ht%d" % h["n"])
    os.makedirs(cb)
    os.makedirs(tmp)
    out = []
    try:
        O = build_tree(cb, h)
        live = os.path.realpath(O)
        steps = h["steps"]
        gen = steps is None
        if gen:
            steps = []
            rng = random.Random(h["seed"])
            D = D2 = None
        for k in range(h["nsteps"] if gen else len(steps)):
            if gen:
                t = read_tree(live)
                m = None
                if h["directed"]:
                    if k == 0:
                        cand = [d for d, v in t.items() if v[0] == "d" and any(
                            q.startswith(d + "/") and t[q][0] == "f" and "/" not in q[len(d) + 1:] for q in t)
                            and resolve_lit(t, d) == d and d + "64" not in t]
                        if cand:
                            D = rng.choice(cand)
                            st = directed_pkgs(rng, t, D)
                        else:
                            st = gen_pkgs(rng, t, "replace")
                    elif k == 1 and D is not None:
                        m = ["migrate", D, D + "64"]
                        apply_mutation(live, m)
                        t = read_tree(live)
                        st = directed_pkgs(rng, t, D, D + "64")
                    else:
                        m = gen_mutation(rng, t)
                        apply_mutation(live, m)
                        st = gen_pkgs(rng, read_tree(live))
                else:
                    if k > 0:
                        m = gen_mutation(rng, t)
                        apply_mutation(live, m)
                        t = read_tree(live)
                    st = gen_pkgs(rng, t, "replace" if rng.random() < 0.7 else None)
                st["mutate"] = m
                steps.append(st)
            else:
                st = steps[k]
                apply_mutation(live, st.get("mutate"))
            case = {"n": h["n"], "off": h["off"], "slash": h["slash"], "post": False, "mode": st["mode"],
                    "old": st["old"], "new": st["new"], "flip": st.get("flip", []),
                    "history": h, "step": k}
            r = run_step(case, cb, O, tmp)
            if "skip" not in r:
                out.append((case, r))
        if gen:
            h["steps"] = steps
    finally:
        shutil.rmtree(cb, ignore_errors=True)
        shutil.rmtree(tmp, ignore_errors=True)
    return out


def run_step(case, cb, O, tmp):
    """one engine operation on the tree that is on disk below cb (offset O); nothing is cleaned up"""
    from pkgcore.merge.engine import MergeEngine
    from pkgcore.operations import observer as om

    obs = om.repo_observer(om.null_output())
    old_c = make_contents(case, "old", O)
    offset = O + ("/" if case["slash"] else "")
    pre_exc = None
    try:
        if case["mode"] == "uninstall":
            e = MergeEngine.uninstall(tmp, _Pkg(old_c, "old"), offset=offset, observer=obs)
            hooks = ("sanity_check", "pre_unmerge")
        else:
            new_c = make_contents(case, "new", O)
            e = MergeEngine.replace(tmp, _Pkg(old_c, "old"), _Pkg(new_c, "new"), offset=offset, observer=obs)
            # post_merge / post_unmerge only spawn ldconfig (0.1-0.4 s each): run where the case asks for it (corpus 02)
            hooks = ("sanity_check", "pre_merge", "merge") + (("post_merge",) if case.get("post") else ()) \
                + ("pre_unmerge",)
        for h in hooks:
            getattr(e, h)()
    except Exception as x:  # noqa: BLE001 - a merge the generator made impossible (file over directory, ...)
        pre_exc = repr(x)
    if pre_exc is not None:
        return {"skip": pre_exc}
    rb = os.path.realpath(cb)
    before = fsx.snapshot(cb)
    # facts for the direct oracle, taken from the real tree before the removal
    offrel = case["off"]

    def facts(p):
        fp = os.path.join(O, p)
        c = fsx.canon(cb, fp)
        return {"loc": p, "kind": lstat_kind(fp), "canon": c}
    f_old = [facts(p) for p in case["old"]]
    f_new = [facts(p) for p in case["new"]] if case["new"] is not None else None
    f_prot = [facts(x) for x in BASE_SYSTEM_DIRS]
    run = fsx.record(lambda: e.unmerge(), cb)
    after = fsx.snapshot(cb)
    gone_after = {p: not os.path.lexists(os.path.join(O, p)) for p in case["old"]}
    post_exc = None
    try:
        if case.get("post"):
            e.post_unmerge()
        e.final()
    except Exception as x:  # noqa: BLE001
        post_exc = repr(x)
    inp = "@".join([offrel, show_snapshot(before), ";".join(case["old"]),
                    "-" if case["new"] is None else "+" + ";".join(case["new"])])
    res = "@".join([show_trace(run.trace, cb), show_diff(before, after), "1" if run.exc is not None else "0"])
    return {"input": inp, "result": res, "before": before, "after": after, "old": f_old, "new": f_new,
            "prot": f_prot, "gone_after": gone_after, "exc": repr(run.exc) if run.exc else None,
            "post_exc": post_exc, "ntrace": len(run.trace),
            "nonempty": any(c.kind == "rmdir" and not c.ok and c.errno == errno.ENOTEMPTY for c in run.trace)}


# --------------------------------------------------------------------------- (B) the statement, directly
def oracle(case, r):
    """Check the property statement on the real before/after snapshots.  Returns a list of
    (clause, detail) failures; `alias-protected` failures are the known class."""
    before, after = r["before"], r["after"]
    bad = []
    old, new, prot = r["old"], r["new"], r["prot"]
    offp = tuple(x for x in case["off"].split("/") if x)
    prot_locs = {f["loc"] for f in prot}
    new_locs = {f["loc"] for f in new} if new is not None else set()
    new_canon = {f["canon"] for f in new if f["canon"] is not None} if new is not None else set()

    def removable(f):       # the entry is the old package's alone and is not a protected name
        return (f["kind"] is not None and f["loc"] not in prot_locs and f["loc"] not in new_locs
                and f["canon"] not in new_canon)
    rem_canon = {f["canon"] for f in old if removable(f)}
    # 1. every listed non-directory that is the package's to remove is gone (by its listed name)
    for f in old:
        if removable(f) and f["kind"] == "n" and not r["gone_after"][f["loc"]]:
            bad.append(("listed-nondir-left", f["loc"]))
    # 2. nothing unlisted changes, nothing appears
    for p, n in before.items():
        if after.get(p) != n and not (p not in after and p in rem_canon):
            # mtime of a directory changes when an entry inside it is removed: compare type/content only
            if p in after and n[0] == "dir" and after[p][0] == "dir":
                continue
            bad.append(("unlisted-changed", "/".join(p)))
    for p in after:
        if p not in before:
            bad.append(("appeared", "/".join(p)))
    # 3. a removed directory was empty when it went: everything below it went as well (and, by 2, was listed)
    for p, n in before.items():
        if n[0] == "dir" and p not in after:
            for q in after:
                if q[:len(p)] == p and q != p:
                    bad.append(("nonempty-dir-removed", "/".join(p)))
                    break
    # 4. protected base directories survive
    for f in prot:
        c = f["canon"]
        if f["kind"] is not None and c in before and after.get(c, (None,))[0] != before[c][0]:
            via = [g["loc"] for g in old if g["canon"] == c and g["loc"] != f["loc"] and removable(g)]
            bad.append(("alias-protected" if via else "protected-removed", {"protected": f["loc"], "via": via}))
    # 5. replace: what the new package installs stays
    if new is not None:
        for f in new:
            c = f["canon"]
            if c is not None and c in before and (c not in after or after[c][0] != before[c][0]
                                                 or (before[c][0] in ("file", "sym") and after[c][1] != before[c][1])):
                bad.append(("new-entry-removed", f["loc"]))
    # 6. a listed symlink's target is untouched (unless it is itself the package's to remove): subsumed by 2,
    #    checked explicitly for the record
    for f in old:
        if f["kind"] == "n" and f["canon"] in before and before[f["canon"]][0] == "sym":
            tgt = fsx_canon_target(before, f["canon"])
            if tgt is not None and tgt in before and tgt not in rem_canon and tgt != f["canon"] \
                    and (tgt not in after or after[tgt][0] != before[tgt][0]):
                bad.append(("symlink-target-touched", f["loc"]))
    # 7. completeness of the deepest-first pass (alias-free cases only): no listed directory is left empty
    alias_free = all(f["canon"] == offp + tuple(f["loc"].split("/")) for f in old if f["kind"] is not None)
    if alias_free:
        for f in old:
            if removable(f) and f["kind"] == "d" and f["canon"] in after and after[f["canon"]][0] == "dir":
                c = f["canon"]
                if not any(q[:len(c)] == c and q != c for q in after):
                    bad.append(("empty-listed-dir-left", f["loc"]))
    # dedupe: alias-protected also shows up under clause 2 (the protected path is the canonical
    # name of an unprotected listed alias, so clause 2 accepts it) - nothing to do
    return bad


def fsx_canon_target(snap, c):
    """the path (tuple) the symlink at snapshot key c points to, resolved lexically against the
    snapshot (relative targets only); None when it leaves the base or is absolute"""
    tgt = snap[c][1]
    if tgt.startswith("/"):
        return None
    cur = list(c[:-1])
    parts = tgt.split("/")
    fuel = 40
    while parts and fuel:
        fuel -= 1
        x = parts.pop(0)
        if x in ("", "."):
            continue
        if x == "..":
            if not cur:
                return None
            cur.pop()
            continue
        q = tuple(cur + [x])
        n = snap.get(q)
        if n is not None and n[0] == "sym":
            if n[1].startswith("/"):
                return None
            parts = n[1].split("/") + parts
            continue
        cur.append(x)
    return tuple(cur)


def k_alias_protected(clause, detail):
    """known class: a protected base directory is removed because the old package lists it under
    another, unprotected name that reaches it through a symlinked directory"""
    return clause == "alias-protected" and bool(detail.get("via"))


def bstr(s: str) -> str:
    """Coq string literal (bs_scope) of the UTF-8 bytes of s"""
    return '"' + s.replace('"', '""') + '"'


def nontrivial_key(case, r):
    """non-trivial: old and new share entries, or a listed directory is non-empty at its rmdir,
    or a listed name goes through a symlinked directory"""
    shared = case["new"] is not None and set(case["old"]) & set(case["new"])
    nonempty = r["nonempty"]
    offp = tuple(x for x in case["off"].split("/") if x)
    alias = any(f["kind"] is not None and f["canon"] != offp + tuple(f["loc"].split("/")) for f in r["old"])
    return bool(shared or nonempty or alias)


def scratch_base():
    """a fresh scratch directory outside /repo and /verif; tmpfs when there is one (the shared
    disk under /tmp is slow when many checks run)"""
    d = "/dev/shm" if os.path.isdir("/dev/shm") and os.access("/dev/shm", os.W_OK) else None
    return tempfile.mkdtemp(prefix="verif_c20_", dir=d)


def load_corpus():
    import json
    from .common import VERIF
    out = []
    d = VERIF / "corpus" / "C20"
    if d.is_dir():
        for f in sorted(d.glob("*.json")):
            out.append(from_json(json.loads(f.read_text())))
    return out


def from_json(c):
    c = dict(c)
    c["tree"] = {k: tuple(v) for k, v in c["tree"].items()}
    if c.get("kind") == "history":
        c.setdefault("slash", False)
        c.setdefault("ext", False)
        c.setdefault("post", False)
    return c


def case_json(case):
    if "history" in case:       # a step of a history: the whole (replayable) history up to this step
        h = dict(case["history"])
        h["tree"] = {k: list(v) for k, v in h["tree"].items()}
        h["steps"] = [dict(st) for st in (h["steps"] or [])][:case["step"] + 1] if h["steps"] else None
        h["failing_step"] = case["step"]
        h.update({"mode": case["mode"], "old": case["old"], "new": case["new"]})
        return h
    c = dict(case)
    c["tree"] = {k: list(v) for k, v in case["tree"].items()}
    return c


def evaluate(chk, rows, name="unmerge"):
    """rows: [(case, r)] -> (A mismatches, B spec rejections) as index lists, or None"""
    cases = [(bstr(r["input"]) + "%bs", Raw("(VS (s2l " + bstr(r["result"]) + "%bs))")) for _, r in rows]
    return chk.coq_eval(name, IMPORTS, "bstr", cases,
                        ["mismatches run_case cases",
                         "where_ (fun i r => negb (spec_ok (dec_case i) r)) cases"], shard=30)


def hook_order_cases():
    """stream `order`: for every engine mode and every hook of that engine, the class names of the
    default triggers in the order execute_hook runs them (sorted by priority, stable)"""
    import operator

    from pkgcore.fs.contents import contentsSet
    from pkgcore.merge import const
    from pkgcore.merge.engine import MergeEngine
    from pkgcore.operations import observer as om

    tmp = scratch_base()
    out = []
    try:
        def pkg():
            return _Pkg(contentsSet(), "p")
        obs = om.repo_observer(om.null_output())
        engines = [(const.INSTALL_MODE, MergeEngine.install(tmp, pkg(), offset=tmp, observer=obs)),
                   (const.UNINSTALL_MODE, MergeEngine.uninstall(tmp, pkg(), offset=tmp, observer=obs)),
                   (const.REPLACE_MODE, MergeEngine.replace(tmp, pkg(), pkg(), offset=tmp, observer=obs))]
        for mode, e in engines:
            assert e.mode == mode
            for hook in sorted(e.hooks):
                names = [type(t).__name__ for t in sorted(e.hooks[hook], key=operator.attrgetter("priority"))]
                out.append((mode, hook, names))
    finally:
        shutil.rmtree(tmp, ignore_errors=True)
    return out


def main(chk: Check):
    chk.rule("random live trees below an offset in a scratch directory (base directories usr/etc/var/..., "
             "multilib usr/lib->lib64 and merged-usr symlinks, a second name for usr, files, fifos, dangling and "
             "outward symlinks), an old package listing subtrees, parents, base directories, names through "
             "symlinked directories and vanished paths; for replace a new package sharing entries, moving files "
             "to the resolved/symlinked name and adding files; driven through the real MergeEngine.uninstall / "
             ".replace with the default triggers; non-trivial = old and new share entries, or a listed directory "
             "is non-empty at its rmdir, or a listed name reaches its object through a symlinked directory")
    try:
        tables.regenerate(sys.modules[__name__])
    except TableError as e:
        chk.violation("table", {"what": f"Tables_C20.v cannot be regenerated from source: {e}"}, no_input=True)
    ok = chk.build(["C20/Prop_C20.vo"])
    if ok:
        chk.check_assumptions("C20/Prop_C20.v")
    chk.lint(["C20"])
    chk.check_fingerprint(ANCHORS)

    base = scratch_base()
    rows, skipped, hist = [], 0, {}
    try:
        corpus = load_corpus()
        todo = list(corpus)
        # quick 70 single cases + 10 histories (2-3 operations each on one root), thorough 400 + 40;
        # a changed fingerprint doubles the quick budget
        n, nh = (400, 40) if chk.thorough else ((140, 20) if chk.fingerprint_changed else (70, 10))
        for _ in range(nh):
            todo.append(gen_history(chk.rng, 0))
        for _ in range(n):
            todo.append(gen_case(chk.rng, 0))
        nhist = nsteps = 0
        for k, case in enumerate(todo):
            case["n"] = k
            if case.get("kind") == "history":
                got = run_history(case, base)
                nhist += 1
                nsteps += len(got)
                skipped += len(case["steps"] or []) - len(got)
            else:
                r = run_case(case, base)
                got = [(case, r)] if "skip" not in r else []
                skipped += 1 - len(got)
            for c, r in got:
                rows.append((c, r))
                key = c["mode"] + ("/off=" + (c["off"] or "<base>")) + ("/history" if "history" in c else "")
                hist[key] = hist.get(key, 0) + 1
                if nontrivial_key(c, r):
                    chk.nontrivial(r["input"])
        chk.cov["histories"] = nhist
        chk.cov["history_steps"] = nsteps
    finally:
        shutil.rmtree(base, ignore_errors=True)
    chk.count("unmerge", len(rows))
    chk.cov["skipped_merge_refused"] = skipped
    chk.cov["mode_offset_histogram"] = hist
    chk.cov["trace_calls"] = sum(r["ntrace"] for _, r in rows)
    for case, r in rows[:: max(1, len(rows) // 3)][:3]:
        chk.sample({"mode": case["mode"], "input": r["input"], "impl": r["result"]})

    # ---- stream `order`: the hook schedule of the three real engines vs Model_C20.run_names
    order = hook_order_cases()
    chk.count("order", len(order))
    for mode, hook, names in order:
        if "unmerge" in names:
            chk.nontrivial(("order", mode, hook))
            if "BaseSystemUnmergeProtection" not in names[:names.index("unmerge")]:
                chk.violation("property", {"what": "the unmerge trigger runs without BaseSystemUnmergeProtection before it",
                                           "input": {"mode": mode, "hook": hook, "runs": names}})
    order_future = None
    pool = cf.ThreadPoolExecutor(max_workers=1)
    if ok:      # evaluated in Coq while the main stream is prepared
        order_future = pool.submit(
            chk.coq_eval, "order", IMPORTS, "N * str",
            [(f"({cN(m)}, {cstr(h.encode())})", list(n)) for m, h, n in order], ["mismatches run_hook_order cases"])

    # ---- (B) in Python
    prop_bad = []
    for case, r in rows:
        for clause, detail in oracle(case, r):
            if k_alias_protected(clause, detail):
                if chk.known_finding("protected-dir-reached-through-alias", {"case": case_json(case), "detail": detail}):
                    continue
            prop_bad.append((clause, detail, case, r))
        if r["exc"]:
            prop_bad.append(("unmerge-raised", r["exc"], case, r))
    # ---- (A) and (B) in Coq
    a_bad, b_bad = [], []
    if ok and rows:
        res = evaluate(chk, rows)
        if res is not None:
            a_bad, b_bad = res
    if order_future is not None:
        ro = order_future.result()
        for k in (ro[0][:2] if ro is not None else []):
            m, h, n = order[k]
            chk.violation("correspondence", {"what": "the real engine's hook schedule differs from Model_C20.run_names "
                                                     "(theorems protection_before_unmerge / unmerge_scheduled no longer speak about this code)",
                                             "input": {"mode": m, "hook": h}, "implementation": n}, no_input=True)
    pool.shutdown()
    known_b = set()
    for i in b_bad:
        case, r = rows[i]
        orc = oracle(case, r)
        if orc and all(k_alias_protected(c, d) for c, d in orc):
            known_b.add(i)          # the Coq spec rejects exactly the known class
    seen = set()
    for clause, detail, case, r in prop_bad:
        if clause in seen:
            continue
        seen.add(clause)
        chk.violation("property", {"what": f"unmerge statement fails: {clause}", "detail": detail,
                                   "input": case_json(case), "model_input": r["input"], "implementation": r["result"]})
    for i in [i for i in b_bad if i not in known_b][:2]:
        if not prop_bad:
            case, r = rows[i]
            chk.violation("property", {"what": "Spec_C20.spec_ok rejects the implementation's result",
                                       "input": case_json(case), "model_input": r["input"], "implementation": r["result"]})
    for i in a_bad[:3]:
        case, r = rows[i]
        chk.violation("correspondence",
                      {"what": "implementation and Model_C20 disagree (trace / after-snapshot / raised flag); "
                               "the theorems of Prop_C20 no longer speak about this code",
                       "input": case_json(case), "model_input": r["input"], "implementation": r["result"]},
                      no_input=not (prop_bad or [i for i in b_bad if i not in known_b]))


def replay(chk: Check, data):
    d = data.get("detail", data)
    case = from_json(d.get("input", d))
    case["n"] = 0
    base = scratch_base()
    try:
        if case.get("kind") == "history":
            got = run_history(case, base)
        else:
            r = run_case(case, base)
            got = [(case, r)] if "skip" not in r else []
            if not got:
                print("merge refused:", r["skip"])
    finally:
        shutil.rmtree(base, ignore_errors=True)
    for c, r in got:
        if "history" in c:
            print("--- step", c["step"], "mutation before it:", c["history"]["steps"][c["step"]].get("mutate"))
        print("model input        :", r["input"])
        print("implementation     :", r["result"])
        print("statement failures :", oracle(c, r))
    if got:
        res = evaluate(chk, got, "replay")
        print("model agrees with implementation on steps:", res is not None and [i for i in range(len(got)) if i not in res[0]])
        print("spec accepts implementation on steps     :", res is not None and [i for i in range(len(got)) if i not in res[1]])
