From Coq Require Import List NArith ZArith Bool.
From Verif Require Import Base.Val C17.Model_C17 C17.Spec_C17.
