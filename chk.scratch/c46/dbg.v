(* Proofs_C46.v — lemmas and proofs; the property theorems are re-exported in Prop_C46.v. *)
From Coq Require Import List NArith ZArith Bool Lia.
Import ListNotations.
From Verif Require Import Base.Val C46.Model_C46 C46.Spec_C46.

(* ------------------------------------------------------------------ basic list facts *)
Lemma memN_In x l : memN x l = true <-> In x l.
Proof.
  unfold memN. rewrite existsb_exists. split.
  - intros [y [Hy He]]. apply N.eqb_eq in He. subst. exact Hy.
  - intro H. exists x. split; [exact H | apply N.eqb_refl].
Qed.

Lemma memN_false x l : memN x l = false <-> ~ In x l.
Proof.
  rewrite <- memN_In. destruct (memN x l); split; intro H; try reflexivity; try discriminate.
  exfalso. apply H. reflexivity.
Qed.

Lemma is_nil_true {A} (l : list A) : is_nil l = true <-> l = [].
Proof. destruct l; cbn; split; intro H; congruence. Qed.

Lemma is_nil_false {A} (l : list A) : is_nil l = false <-> l <> [].
Proof. destruct l; cbn; split; intro H; congruence. Qed.

Lemma insert_In f g l : In g (insert f l) <-> g = f \/ In g l.
Proof.
  induction l as [|h r IH]; cbn.
  - split; intros [H|H]; auto; contradiction.
  - destruct (f_id f <=? f_id h)%N; cbn.
    + split; intros [H|H]; subst; auto.
    + rewrite IH. split; intros [H|[H|H]]; subst; auto.
Qed.

Lemma sort_files_In g l : In g (sort_files l) <-> In g l.
Proof.
  induction l as [|h r IH]; cbn; [tauto|].
  rewrite insert_In, IH. split; intros [H|H]; auto.
Qed.

Lemma files_of_In f ps : In f (files_of ps) <-> exists p, In p ps /\ In f (p_files p).
Proof. unfold files_of. apply in_flat_map. Qed.

Lemma concat_In (f : file) ls : In f (concat ls) <-> exists l, In l ls /\ In f l.
Proof.
  rewrite in_concat. split; intros [l [H1 H2]]; exists l; tauto.
Qed.

Lemma matches_true ps p : matches ps p = true <-> exists x, In x ps /\ In x (p_pats p).
Proof.
  unfold matches. rewrite existsb_exists. split; intros [x [H1 H2]]; exists x; split; auto;
    apply memN_In; exact H2.
Qed.

(* ------------------------------------------------------------------ what is removed *)
Section WithSel.
  Variable scan : opts -> bool.
  Variable selected : file -> bool.

  Lemma removed_In o w f :
    In f (removed scan selected o w) <->
    In f (w_all w) /\ memN (f_id f) (target_files selected o w) = true
    /\ memN (f_id f) (saving scan o w) = false /\ passes o f = true.
  Proof.
    unfold removed. rewrite !filter_In, sort_files_In, andb_true_iff, negb_true_iff. tauto.
  Qed.

  Lemma passes_spec o f : passes o f = true <-> passes_filters o f.
  Proof.
    unfold passes, passes_filters. rewrite andb_true_iff.
    destruct (o_mod o) as [t|], (o_size o) as [s|]; rewrite ?Z.ltb_lt; split.
    all: try (intros [H1 H2]; split; intros x Hx; try discriminate; injection Hx as <-; assumption).
    all: try (intros [H1 H2]; split; try reflexivity; try (apply H1; reflexivity); try (apply H2; reflexivity)).
  Qed.

  Lemma has_restrict_true o : has_restrict o = true <-> targets_in_force o.
  Proof using.
    unfold has_restrict, targets_in_force. rewrite orb_true_iff, !negb_true_iff, !is_nil_false.
    split; intros [H|H]; [right|left|right|left]; exact H.
  Qed.

  Lemma target_files_In o w x :
    In x (target_files selected o w) ->
    In x (all_ids w) /\
    (targets_in_force o -> selected x = true /\ exists p, In p (w_repo w) /\ restrict_match o p = true).
  Proof using.
    unfold target_files. destruct (has_restrict o) eqn:Hr.
    - destruct (filter (restrict_match o) (w_repo w)) as [|p r] eqn:Hf; [contradiction|].
      rewrite filter_In. intros [H1 H2]. split; [exact H1|]. intros _. split; [exact H2|].
      exists p. apply filter_In. rewrite Hf. left. reflexivity.
    - intro H. split; [exact H|]. intro Ht. apply has_restrict_true in Ht. congruence.
  Qed.

  (* clause 0: only DISTDIR files that the targets select and the filters pass *)
  Theorem removed_subset_targets_and_filters_proof o w f :
    In f (removed scan selected o w) ->
    In f (w_all w) /\ passes_filters o f /\
    (targets_in_force o ->
       selected (f_id f) = true /\ exists p, In p (w_repo w) /\ restrict_match o p = true).
  Proof.
    rewrite removed_In. intros [Ha [Ht [_ Hp]]]. split; [exact Ha|]. split; [apply passes_spec; exact Hp|].
    apply memN_In in Ht. pose proof (target_files_In o w _ Ht) as Hq. tauto.
  Qed.

  Lemma saved_not_removed o w f :
    In (f_id f) (saving scan o w) -> ~ In f (removed scan selected o w).
  Proof.
    intros Hs Hr. apply removed_In in Hr as [_ [_ [Hn _]]]. apply memN_false in Hn. exact (Hn Hs).
  Qed.

  (* clauses that do not depend on when the repository is scanned *)
  Theorem never_removes_installed_proof o w f :
    needed_installed o w (f_id f) -> ~ In f (removed scan selected o w).
  Proof.
    intros [Ho [l [Hl Hf]]]. apply saved_not_removed. unfold saving, installed_dist. rewrite Ho.
    apply in_or_app. left. apply concat_In. exists l. tauto.
  Qed.

  Theorem never_removes_excluded_proof o w f :
    needed_excluded o w (f_id f) -> ~ In f (removed scan selected o w).
  Proof.
    intros [p [x [Hp [Hx [Hxp Hf]]]]]. apply saved_not_removed. unfold saving, excludes_dist.
    destruct (o_excl o) as [|e es] eqn:He; [contradiction|]. cbn [is_nil].
    apply in_or_app. right. apply in_or_app. right. apply in_or_app. left.
    apply files_of_In. exists p. split; [|exact Hf]. apply filter_In. split; [exact Hp|].
    apply matches_true. exists x. tauto.
  Qed.

  (* clauses that need the scan of the whole repository *)
  Lemma never_removes_existing_gen o w f :
    (o_exists o = true -> scan o = true) ->
    needed_existing o w (f_id f) -> ~ In f (removed scan selected o w).
  Proof.
    intros Hsc [Ho [p [Hp Hf]]]. apply saved_not_removed. unfold saving, exists_dist.
    rewrite (Hsc Ho). apply in_or_app. right. apply in_or_app. left. apply in_or_app. left.
    apply files_of_In. exists p. tauto.
  Qed.

  Lemma never_removes_fetch_restricted_gen o w f :
    (o_fetch o = true -> scan o = true) ->
    needed_fetch_restricted o w (f_id f) -> ~ In f (removed scan selected o w).
  Proof.
    intros Hsc [Ho [p [Hp [Hfr Hf]]]]. apply saved_not_removed. unfold saving, restricted_dist.
    rewrite (Hsc Ho). apply in_or_app. right. apply in_or_app. right. apply in_or_app. right.
    apply files_of_In. exists p. split; [|exact Hf]. apply filter_In. tauto.
  Qed.

  Lemma never_needed_gen o w f :
    (o_exists o = true -> scan o = true) -> (o_fetch o = true -> scan o = true) ->
    needed o w (f_id f) -> ~ In f (removed scan selected o w).
  Proof.
    intros H1 H2 [H|[H|[H|H]]].
    - apply never_removes_installed_proof; exact H.
    - apply never_removes_existing_gen; assumption.
    - apply never_removes_fetch_restricted_gen; assumption.
    - apply never_removes_excluded_proof; exact H.
  Qed.
End WithSel.

Lemma scan_fixed_exists o : o_exists o = true -> scan_fixed o = true.
Proof. unfold scan_fixed. intros ->. apply orb_true_r. Qed.
Lemma scan_fixed_fetch o : o_fetch o = true -> scan_fixed o = true.
Proof. unfold scan_fixed. intros ->. reflexivity. Qed.
Lemma scan_old_fetch o : o_fetch o = true -> scan_old o = true.
Proof. unfold scan_old. intros ->. reflexivity. Qed.

Theorem never_removes_existing_proof selected o w f :
  needed_existing o w (f_id f) -> ~ In f (removed scan_fixed selected o w).
Proof. apply never_removes_existing_gen. apply scan_fixed_exists. Qed.

Theorem never_removes_fetch_restricted_proof selected o w f :
  needed_fetch_restricted o w (f_id f) -> ~ In f (removed scan_fixed selected o w).
Proof. apply never_removes_fetch_restricted_gen. apply scan_fixed_fetch. Qed.

(* the four clauses together, for the repaired code *)
Theorem never_needed_proof selected o w f :
  needed o w (f_id f) -> ~ In f (removed scan_fixed selected o w).
Proof. apply never_needed_gen; [apply scan_fixed_exists | apply scan_fixed_fetch]. Qed.

(* ---- the code before the repair: the full statement is false, and where it held *)
Definition C46_full_statement (scan : opts -> bool) : Prop :=
  forall selected o w f, needed o w (f_id f) -> ~ In f (removed scan selected o w).

(* pclean dist -E app/foo; repository: foo-1.0 {1: foo-1.0.tar.gz}, foo-bar-1.0 {2: foo-bar-1.0.tar.gz};
   pattern 1 = "app/foo" matches only foo; the regex (foo)(\W\w+)+… selects both names *)
Definition wit_o : opts :=
  {| o_inst := false; o_exists := true; o_fetch := false; o_pretend := false;
     o_excl := []; o_targets := [1%N]; o_mod := None; o_size := None |}.
Definition wit_w : world :=
  {| w_all := [ {| f_id := 1%N; f_age := 0%Z; f_size := 1%Z |}; {| f_id := 2%N; f_age := 0%Z; f_size := 1%Z |} ];
     w_repo := [ {| p_files := [1%N]; p_fetch := false; p_pats := [1%N] |};
                 {| p_files := [2%N]; p_fetch := false; p_pats := [] |} ];
     w_inst := [] |}.
Definition wit_f : finfo := {| f_id := 2%N; f_age := 0%Z; f_size := 1%Z |}.

Theorem old_exists_clause_refuted_proof : ~ C46_full_statement scan_old.
Proof.
  intro H. apply (H (fun _ => true) wit_o wit_w wit_f).
  - right. left. split; [reflexivity|].
    exists {| p_files := [2%N]; p_fetch := false; p_pats := [] |}. split; [right; left; reflexivity | left; reflexivity].
  - vm_compute. left. reflexivity.
Qed.

(* the same input is safe after the repair *)
Example repaired_keeps_witness : removed scan_fixed (fun _ => true) wit_o wit_w = [].
Proof. reflexivity. Qed.

(* known class of the old behaviour: -E together with targets/exclusions and without -f *)
Definition old_known_class (o : opts) : bool := o_exists o && has_restrict o && negb (o_fetch o).

Theorem old_never_needed_partial_proof selected o w f :
  old_known_class o = false ->
  needed o w (f_id f) -> ~ In f (removed scan_old selected o w).
Proof.
  intro Hk. apply never_needed_gen; [|apply scan_old_fetch].
  intro He. unfold old_known_class in Hk. unfold scan_old. rewrite He in *. cbn in *.
  destruct (has_restrict o), (o_fetch o); cbn in *; congruence.
Qed.

(* ------------------------------------------------------------------ exactness *)
(* everything the options protect: the needed files, plus (documented over-approximation of
   the code) every repository distfile whenever -f is given *)
Definition protected (o : opts) (w : world) (f : file) : Prop :=
  needed o w f \/ (o_fetch o = true /\ exists p, In p (w_repo w) /\ In f (p_files p)).

Definition target_selected (selected : file -> bool) (o : opts) (w : world) (f : file) : Prop :=
  targets_in_force o ->
  selected f = true /\ exists p, In p (w_repo w) /\ restrict_match o p = true.

Lemma saving_fixed_In o w x : In x (saving scan_fixed o w) <-> protected o w x.
Proof.
  unfold saving, protected, needed, needed_installed, needed_existing, needed_fetch_restricted,
    needed_excluded, installed_dist, exists_dist, restricted_dist, excludes_dist, scan_fixed.
  rewrite !in_app_iff. split.
  - intros [H|[[H|H]|[H|H]]].
    + destruct (o_inst o); [|contradiction]. apply concat_In in H. left. left. tauto.
    + destruct (o_fetch o) eqn:Ef, (o_exists o) eqn:Ee; cbn in H; try contradiction;
        apply files_of_In in H.
      * left. right. left. tauto.
      * right. tauto.
      * left. right. left. tauto.
    + destruct (has_restrict o && o_exists o) eqn:E; [|contradiction].
      apply andb_true_iff in E as [_ E]. apply files_of_In in H as [p [Hp Hf]].
      apply filter_In in Hp as [Hp _]. left. right. left. split; [exact E|]. exists p. tauto.
    + destruct (o_excl o) as [|e es] eqn:He; [contradiction|]. cbn [is_nil] in H.
      apply files_of_In in H as [p [Hp Hf]]. apply filter_In in Hp as [Hp Hm].
      apply matches_true in Hm as [y [Hy1 Hy2]]. left. right. right. right. exists p, y. tauto.
    + destruct (o_fetch o || o_exists o) eqn:E; [|contradiction].
      apply files_of_In in H as [p [Hp Hf]]. apply filter_In in Hp as [Hp Hfr].
      destruct (o_fetch o) eqn:Ef.
      * right. split; [reflexivity|]. exists p. tauto.
      * cbn in E. left. right. left. split; [exact E|]. exists p. tauto.
  - intros [[H|[H|[H|H]]]|H].
    + destruct H as [Ho [l Hl]]. rewrite Ho. left. apply concat_In. exists l. exact Hl.
    + destruct H as [Ho [p Hp]]. rewrite Ho, orb_true_r. right. left. left. apply files_of_In. exists p. exact Hp.
    + destruct H as [Ho [p [Hp [Hfr Hf]]]]. rewrite Ho. cbn. right. left. left. apply files_of_In. exists p. tauto.
    + destruct H as [p [y [Hp [Hy1 [Hy2 Hf]]]]]. right. right. left.
      destruct (o_excl o) as [|e es] eqn:He; [contradiction|]. cbn [is_nil].
      apply files_of_In. exists p. split; [|exact Hf]. apply filter_In. split; [exact Hp|].
      apply matches_true. exists y. tauto.
    + destruct H as [Ho [p Hp]]. rewrite Ho. cbn. right. left. left. apply files_of_In. exists p. exact Hp.
Qed.

Lemma target_files_iff selected o w x :
  In x (target_files selected o w) <-> In x (all_ids w) /\ target_selected selected o w x.
Proof.
  split.
  - intro H. exact (target_files_In selected o w x H).
  - intros [Ha Ht]. unfold target_files, target_selected in *.
    destruct (has_restrict o) eqn:Hr; [|exact Ha].
    apply has_restrict_true in Hr. destruct (Ht Hr) as [Hs [p [Hp Hm]]].
    destruct (filter (restrict_match o) (w_repo w)) as [|q r] eqn:Hf.
    + assert (Hin : In p (filter (restrict_match o) (w_repo w))) by (apply filter_In; tauto).
      rewrite Hf in Hin. contradiction.
    + apply filter_In. tauto.
Qed.

(* the repaired code removes EXACTLY the unprotected selected files that pass the filters *)
Theorem removed_exact_proof selected o w f :
  In f (removed scan_fixed selected o w) <->
  In f (w_all w) /\ passes_filters o f /\ target_selected selected o w (f_id f) /\ ~ protected o w (f_id f).
Proof.
  rewrite removed_In, memN_In, memN_false, target_files_iff, saving_fixed_In, passes_spec.
  split.
  - intros [Ha [[_ Ht] [Hn Hp]]]. tauto.
  - intros [Ha [Hp [Ht Hn]]]. split; [exact Ha|]. split; [|tauto]. split; [|exact Ht].
    unfold all_ids. apply in_map. exact Ha.
Qed.

(* non-vacuity: a world in which something is removed and something needed is kept *)
Example something_removed :
  map f_id (removed scan_fixed (fun _ => true)
              {| o_inst := true; o_exists := false; o_fetch := false; o_pretend := false;
                 o_excl := []; o_targets := []; o_mod := Some 86400%Z; o_size := None |}
              {| w_all := [ {| f_id := 3%N; f_age := 90000%Z; f_size := 1%Z |};
                            {| f_id := 1%N; f_age := 90000%Z; f_size := 1%Z |};
                            {| f_id := 2%N; f_age := 100%Z; f_size := 1%Z |} ];
                 w_repo := []; w_inst := [[3%N]] |}) = [1%N].
Proof. reflexivity. Qed.


(* ------------------------------------------------------------------ the option glue *)
(* parse_qty recognises exactly DIGITS UNIT [newline] and computes value * unit *)
Lemma digits_spec s : forall acc any v rest,
  digits s acc any = Some (v, rest) ->
  exists ds, s = ds ++ rest /\ Forall (fun c => is_digit c = true) ds
    /\ (any = false -> ds <> [])
    /\ v = fold_left (fun a c => a * 10 + Z.of_N (c - 48))%Z ds acc
    /\ match rest with c :: _ => is_digit c = false | [] => True end.
Proof.
  induction s as [|c r IH]; intros acc any v rest H; cbn in H.
  - destruct any; [|discriminate]. injection H as <- <-. exists []. cbn.
    repeat split; auto. intro; discriminate.
  - destruct (is_digit c) eqn:Ed.
    + apply IH in H as [ds [E1 [E2 [_ [E4 E5]]]]]. exists (c :: ds). cbn. subst r.
      repeat split; auto. intros _; discriminate.
    + destruct any; [|discriminate]. injection H as <- <-. exists []. cbn.
      repeat split; auto. intro; discriminate.
Qed.

Lemma strip_nl_spec s : s = strip_nl s \/ s = strip_nl s ++ [10%N].
Proof.
  unfold strip_nl. destruct (rev s) as [|c r] eqn:E; [left; reflexivity|].
  assert (Hs : s = rev r ++ [c]) by (rewrite <- (rev_involutive s), E; reflexivity).
  destruct c as [|p]; [left; reflexivity|].
  destruct p as [p|p|]; try (left; reflexivity).
  destruct p as [p|p|]; try (left; reflexivity).
  destruct p as [p|p|]; try (left; reflexivity).
  destruct p as [p|p|]; try (left; reflexivity).
  right. exact Hs.
Qed.

Theorem parse_qty_sound_proof tbl s z : parse_qty tbl s = Some z -> qty_denotes tbl s z.
Proof.
  unfold parse_qty, qty_denotes. destruct (digits s 0 false) as [[v rest]|] eqn:Ed; [|discriminate].
  destruct (lookup (strip_nl rest) tbl) as [u|] eqn:El; [|discriminate]. intro H. injection H as <-.
  apply digits_spec in Ed as [ds [E1 [E2 [E3 [E4 _]]]]].
  exists ds, (strip_nl rest), rest, u. repeat split; auto.
  - destruct (strip_nl_spec rest) as [H|H]; [left|right]; exact H.
  - subst v. reflexivity.
Qed.

Example parse_time_1y : parse_qty time_units [49;121]%N = Some 31536000%Z.      (* "1y" *)
Proof. reflexivity. Qed.
Example parse_time_10min : parse_qty time_units [49;48;109;105;110]%N = Some 600%Z.   (* "10min" *)
Proof. reflexivity. Qed.
Example parse_time_2m : parse_qty time_units [50;109]%N = Some 5184000%Z.       (* "2m" = 60 days *)
Proof. reflexivity. Qed.
Example parse_size_100M : parse_qty size_units [49;48;48;77]%N = Some 104857600%Z.    (* "100M" *)
Proof. reflexivity. Qed.
Example parse_size_bad : parse_qty size_units [49;48;107]%N = None.               (* "10k" *)
Proof. reflexivity. Qed.

(* the parser loop computes the declarative reading of the command line *)
Definition Rq (tbl : list (str * Z)) (m : option str) (z : option Z) : Prop :=
  match m with None => z = None | Some s => z = parse_qty tbl s /\ z <> None end.

Lemma parse_toks_inv ts : forall o0 o m0 s0,
  parse_toks ts o0 = Some o ->
  Rq time_units m0 (o_mod o0) -> Rq size_units s0 (o_size o0) ->
  o_inst o = o_inst o0 || flag_given is_inst ts
  /\ o_exists o = o_exists o0 || flag_given is_exists ts
  /\ o_fetch o = o_fetch o0 || flag_given is_fetch ts
  /\ o_pretend o = o_pretend o0 || flag_given is_pretend ts
  /\ o_excl o = fold_left (fun acc t => match t with TExcl ps => ps | _ => acc end) ts (o_excl o0)
  /\ o_targets o = o_targets o0 ++ all_targets ts
  /\ Rq time_units (fold_left (fun acc t => match t with TMod s => Some s | _ => acc end) ts m0) (o_mod o)
  /\ Rq size_units (fold_left (fun acc t => match t with TSize s => Some s | _ => acc end) ts s0) (o_size o).
Proof.
  unfold flag_given.
  induction ts as [|t r IH]; intros o0 o m0 s0 H Rm Rs.
  - cbn in H. injection H as <-. cbn. rewrite !orb_false_r, app_nil_r. repeat split; auto.
  - destruct t; cbn [parse_toks] in H;
      try (destruct (parse_qty time_units s) as [z|] eqn:Eq; [|discriminate]);
      try (destruct (parse_qty size_units s) as [z|] eqn:Eq; [|discriminate]).
    all: match type of H with parse_toks _ ?o' = Some ?oo =>
           first [ match goal with Eq : parse_qty time_units ?s' = Some _ |- _ => specialize (IH o' oo (Some s') s0 H) end
                 | match goal with Eq : parse_qty size_units ?s' = Some _ |- _ => specialize (IH o' oo m0 (Some s') H) end
                 | specialize (IH o' oo m0 s0 H) ]
         end; cbn in IH.
    all: try (match goal with Eq : parse_qty time_units ?s' = Some ?z' |- _ =>
                assert (Hm : Rq time_units (Some s') (Some z')) by (split; [symmetry; exact Eq | discriminate]) end).
    all: try (match goal with Eq : parse_qty size_units ?s' = Some ?z' |- _ =>
                assert (Hs : Rq size_units (Some s') (Some z')) by (split; [symmetry; exact Eq | discriminate]) end).
    all: first [ specialize (IH Hm Rs) | specialize (IH Rm Hs) | specialize (IH Rm Rs) ].
    all: destruct IH as [I1 [I2 [I3 [I4 [I5 [I6 [I7 I8]]]]]]].
    all: cbn; rewrite I1, I2, I3, I4, I5, I6, ?orb_true_r, ?orb_false_r, <- ?app_assoc; cbn.
    all: repeat split; auto.
    all: try (destruct (o_inst o0); reflexivity); try (destruct (o_exists o0); reflexivity);
         try (destruct (o_fetch o0); reflexivity); try (destruct (o_pretend o0); reflexivity).
Qed.

Theorem parse_argv_spec_proof ts o : parse_argv ts = POk o -> spec_opts ts = Some o.
Proof.
  unfold parse_argv. destruct (parse_toks ts opts0) as [o'|] eqn:E; [|discriminate].
  destruct (existsb bad_pat (o_excl o')); [discriminate|].
  destruct (existsb bad_pat (o_targets o')); [discriminate|]. intro H. injection H as ->.
  apply (parse_toks_inv ts opts0 o None None) in E; [|reflexivity|reflexivity].
  destruct E as [I1 [I2 [I3 [I4 [I5 [I6 [I7 I8]]]]]]]. cbn in *.
  unfold spec_opts, last_mod, last_size, last_excl.
  destruct (fold_left _ ts None) as [sm|] eqn:Em in I7 |- *;
  destruct (fold_left (fun acc t => match t with TSize s => Some s | _ => acc end) ts None) as [ss|] eqn:Es in I8 |- *;
  cbn in I7, I8.
  all: repeat match goal with H : _ /\ _ |- _ => destruct H end.
  all: repeat match goal with
         | H : o_mod _ = parse_qty _ _ |- _ => rewrite <- H
         | H : o_size _ = parse_qty _ _ |- _ => rewrite <- H end.
  all: match goal with |- _ = Some ?oo => destruct oo as [a b c d e f g h] end; cbn in *; subst.
  all: repeat match goal with |- context [parse_qty ?t ?s] => destruct (parse_qty t s) eqn:? end.
  all: try congruence; reflexivity.
Qed.

(* ------------------------------------------------------------------ the whole run *)
(* command line to files left: whatever the options, a needed DISTDIR file is still there
   afterwards and is never announced for removal *)
Theorem run_never_removes_needed_proof i o kept printed :
  parse_argv (i_argv i) = POk o ->
  outcome scan_fixed i = Some (kept, printed) ->
  forall f, In f (w_all (i_world i)) -> needed o (i_world i) (f_id f) ->
            In (f_id f) kept /\ ~ In (f_id f) printed.
Proof.
  unfold outcome. intros -> H f Hf Hn.
  set (sel := fun x => memN x (i_sel i)) in *.
  assert (Hrm : ~ In (f_id f) (map f_id (removed scan_fixed sel o (i_world i)))).
  { intro Hin. apply in_map_iff in Hin as [g [Hg1 Hg2]].
    apply (never_needed_proof sel o (i_world i) g); [rewrite Hg1; exact Hn | exact Hg2]. }
  assert (Hev : In (f_id f) (map f_id (sort_files (w_all (i_world i))))).
  { apply in_map. apply sort_files_In. exact Hf. }
  destruct (i_tty i && negb (o_pretend o)); injection H as <- <-.
  - split; [|intros []]. apply filter_In. split; [exact Hev|].
    apply negb_true_iff. apply memN_false. exact Hrm.
  - split; [exact Hev | exact Hrm].
Qed.

(* and nothing disappears or is announced except removable files; errors remove nothing *)
Theorem run_only_removes_selected_proof i o kept printed :
  parse_argv (i_argv i) = POk o ->
  outcome scan_fixed i = Some (kept, printed) ->
  forall x, (In x (map f_id (w_all (i_world i))) /\ ~ In x kept) \/ In x printed ->
  exists f, f_id f = x /\ In f (removed scan_fixed (fun y => memN y (i_sel i)) o (i_world i)).
Proof.
  unfold outcome. intros -> H x Hx.
  set (sel := fun y => memN y (i_sel i)) in *.
  destruct (i_tty i && negb (o_pretend o)); injection H as <- <-.
  - destruct Hx as [[Ha Hk]|[]].
    destruct (memN x (map f_id (removed scan_fixed sel o (i_world i)))) eqn:Em.
    + apply memN_In, in_map_iff in Em. exact Em.
    + exfalso. apply Hk. apply filter_In. split.
      * apply in_map_iff in Ha as [g [Hg1 Hg2]]. apply in_map_iff. exists g.
        split; [exact Hg1 | apply sort_files_In; exact Hg2].
      * cbv beta. Show. rewrite Em. reflexivity.
  - destruct Hx as [[Ha Hk]|Hp].
    + exfalso. apply Hk. apply in_map_iff in Ha as [g [Hg1 Hg2]]. apply in_map_iff. exists g.
      split; [exact Hg1 | apply sort_files_In; exact Hg2].
    + apply in_map_iff in Hp. exact Hp.
Qed.

Theorem run_error_removes_nothing_proof i :
  outcome scan_fixed i = None ->
  run i = VL [match parse_argv (i_argv i) with PCrash => crash_error | _ => usage_error end;
              enc_ids (everything i); enc_ids []].
Proof. unfold run. intros ->. reflexivity. Qed.
