(* Complete_C03.v — COMPLETENESS of acceptance: every string the PMS grammar recogniser accepts is
   accepted by the model of atom.__init__, outside the recorded class (a version-like chunk with an
   upper-case letter), for text without newline.  Converse of Grammar_C03, stage by stage. *)
From Coq Require Import List NArith ZArith Bool Arith Lia.
Import ListNotations.
From Verif Require Import Base.Val gen.Tables_eapi gen.Tables_C03 C03.Model_C03 C03.Spec_C03
  C03.Proofs_C03 C03.Version_C03 C03.UseDep_C03 C03.Grammar_C03.
Local Open Scope N_scope.

(* ---------------------------------------------------------------- contiguous sub-strings *)
Definition sub (v s : str) : Prop := exists p q, s = p ++ v ++ q.

Lemma sub_refl s : sub s s.
Proof. exists [], []. now rewrite app_nil_r. Qed.
Lemma sub_trans a b c : sub a b -> sub b c -> sub a c.
Proof. intros (p & q & ->) (p' & q' & ->). exists (p' ++ p), (q ++ q'). now rewrite <- !app_assoc. Qed.
Lemma sub_app_l a b : sub a (a ++ b).
Proof. exists [], b. reflexivity. Qed.
Lemma sub_app_r a b : sub b (a ++ b).
Proof. exists a, []. now rewrite app_nil_r. Qed.
Lemma sub_cons_r x b : sub b (x :: b).
Proof. exact (sub_app_r [x] b). Qed.
Lemma sub_in v s x : sub v s -> In x v -> In x s.
Proof. intros (p & q & ->) H. apply in_or_app. right. apply in_or_app. now left. Qed.

Lemma sub_join c l ch : In ch l -> sub ch (join c l).
Proof.
  induction l as [|a r IH]; [intros []|]. destruct r as [|b r'].
  - intros [<-|[]]. apply sub_refl.
  - change (join c (a :: b :: r')) with (a ++ c :: join c (b :: r')).
    intros [<-|H]; [apply sub_app_l|].
    apply (sub_trans _ _ _ (IH H)). exact (sub_trans _ _ _ (sub_cons_r c _) (sub_app_r a _)).
Qed.

Lemma sub_chunk c s ch : In ch (split_on c s) -> sub ch s.
Proof. intros H. rewrite <- (join_split_on c s). now apply sub_join. Qed.

(* the recorded class, on the input: some contiguous piece is a version for the code's regex but
   carries an upper-case letter *)
Definition no_upper_version (s : str) : Prop :=
  forall v, sub v s -> m_version v = true -> no_upper v = true.

Lemma nuv_sub x s : sub x s -> no_upper_version s -> no_upper_version x.
Proof. intros Hx H v Hv. apply H. exact (sub_trans _ _ _ Hv Hx). Qed.

Lemma nuv_chunks name : no_upper_version name -> upper_version_chunk name = false.
Proof.
  intros H. unfold upper_version_chunk. destruct (existsb _ _) eqn:E; [|reflexivity]. exfalso.
  apply existsb_exists in E as (ch & Hin & Hc). apply andb_true_iff in Hc as [Hv Hu].
  rewrite (H ch (sub_chunk _ _ _ Hin) Hv) in Hu. discriminate.
Qed.

Lemma nl_sub x s : sub x s -> ~ In c_nl s -> ~ In c_nl x.
Proof. intros Hx Hn Hin. exact (Hn (sub_in _ _ _ Hx Hin)). Qed.

(* ---------------------------------------------------------------- characters an accepted cpv cannot contain *)
Definition cpv_foreign (ch : N) : bool :=
  ver_foreign ch && negb (s_cat_char ch) && negb (s_pkg_char ch)
  && negb (ch =? c_slash) && negb (ch =? c_dash) && negb (ch =? c_r).

Lemma pkg_name_chars n ch : pms_pkg_name n = true -> s_pkg_char ch = false -> ~ In ch n.
Proof.
  unfold pms_pkg_name. intros H Hc Hin. apply andb_true_iff in H as [H _]. apply andb_true_iff in H as [H _].
  rewrite forallb_forall in H. specialize (H _ Hin). congruence.
Qed.

Lemma cpv_no_char ch vd s c :
  cpv_foreign ch = true -> ~ In c_nl s -> parse_cpv vd s = Some c -> ~ In ch s.
Proof.
  unfold cpv_foreign. intros Hf Hn H.
  apply andb_true_iff in Hf as [Hf Hr]. apply andb_true_iff in Hf as [Hf Hd].
  apply andb_true_iff in Hf as [Hf Hs]. apply andb_true_iff in Hf as [Hf Hp].
  apply andb_true_iff in Hf as [Hv Hc].
  apply negb_true_iff in Hc, Hp. apply negb_true_iff, N.eqb_neq in Hr, Hd, Hs.
  apply cpv_structure in H as (cat & pkgver & -> & Hsl & Hcat & Hshape).
  destruct (cat_sound cat (not_in_app_l _ _ _ Hn) Hcat) as [Hcat' _].
  assert (Hnp : ~ In c_nl pkgver) by (intros Hin; apply Hn, in_or_app; right; now right).
  assert (Hdig : is_digit ch = false).
  { unfold ver_foreign in Hv. repeat (apply andb_true_iff in Hv as [Hv ?]). now apply negb_true_iff. }
  intros Hin. apply in_app_or in Hin as [Hin|[Hin|Hin]]; [|congruence|].
  - unfold pms_category in Hcat'. apply andb_true_iff in Hcat' as [Hcat' _].
    rewrite forallb_forall in Hcat'. specialize (Hcat' _ Hin). congruence.
  - destruct vd.
    + destruct Hshape as (name & v & Hpn & Hver & _ & Hs').
      assert (Hvc : ~ In ch v) by (apply (m_version_foreign ch); assumption).
      destruct Hs' as [[-> _] | (r & -> & Hrv & _)].
      * apply in_app_or in Hin as [Hin|[Hin|Hin]]; [|congruence | exact (Hvc Hin)].
        exact (pkg_name_chars _ _ (name_sound _ (not_in_app_l _ _ _ Hnp) Hpn) Hp Hin).
      * apply in_app_or in Hin as [Hin|[Hin|Hin]]; [|congruence|].
        -- exact (pkg_name_chars _ _ (name_sound _ (not_in_app_l _ _ _ Hnp) Hpn) Hp Hin).
        -- apply in_app_or in Hin as [Hin|[Hin|Hin]]; [exact (Hvc Hin) | congruence|].
           unfold isvalid_rev in Hrv. destruct r as [|x t]; [discriminate|].
           apply andb_true_iff in Hrv as [Hrv Hdd]. apply andb_true_iff in Hrv as [Hx _].
           apply N.eqb_eq in Hx. subst x. destruct Hin as [Hin|Hin]; [congruence|].
           exact (digits_no ch t Hdig Hdd Hin).
    + exact (pkg_name_chars _ _ (name_sound _ Hnp Hshape) Hp Hin).
Qed.

(* ---------------------------------------------------------------- cpv: the chunk algorithm takes the valid cut *)
Lemma version_not_rev v : ~ In c_nl v -> m_version v = true -> isvalid_rev v = false.
Proof.
  intros Hn. unfold m_version. rewrite (strip_nl_id _ Hn). unfold ver_full. cbn [ver_nums].
  destruct v as [|x t]; [discriminate|]. destruct (is_digit x) eqn:Ex; [|discriminate]. intros _.
  unfold isvalid_rev. destruct (N.eqb_spec x c_r) as [->|]; [discriminate | reflexivity].
Qed.

Lemma rev_chars r x : isvalid_rev r = true -> In x r -> x = c_r \/ is_digit x = true.
Proof.
  unfold isvalid_rev. destruct r as [|c t]; [discriminate|]. intros H.
  apply andb_true_iff in H as [H Hd]. apply andb_true_iff in H as [Hc _]. apply N.eqb_eq in Hc. subst c.
  intros [<-|Hin]; [now left | right]. rewrite forallb_forall in Hd. now apply Hd.
Qed.

Lemma parse_cpv_norev cat pkgver (a : list str) v :
  ~ In c_slash pkgver -> m_category cat = true ->
  split_on c_dash pkgver = a ++ [v] -> a <> [] ->
  isvalid_rev v = false -> m_version v = true -> valid_pkg_name a = true ->
  exists c, parse_cpv true (cat ++ c_slash :: pkgver) = Some c /\ c_rev c = Some [].
Proof.
  intros Hsl Hcat Hsp Hne Hr Hv Hp. unfold parse_cpv.
  rewrite (split_last_app _ _ _ Hsl), Hcat. cbn [negb]. rewrite Hsp.
  remember (a ++ [v]) as chunks eqn:Ech.
  destruct chunks as [|c0 [|c1 rest]].
  - destruct a; discriminate.
  - destruct a as [|a0 [|a1 a']]; [congruence | discriminate | discriminate].
  - rewrite Ech. rewrite last_last, Hr, Hv. cbn [negb]. rewrite removelast_last, Hp.
    eexists. split; reflexivity.
Qed.

Lemma parse_cpv_rev cat pkgver (a : list str) v r :
  ~ In c_slash pkgver -> m_category cat = true ->
  split_on c_dash pkgver = a ++ [v; r] -> a <> [] ->
  isvalid_rev r = true -> m_version v = true -> valid_pkg_name a = true ->
  exists c, parse_cpv true (cat ++ c_slash :: pkgver) = Some c.
Proof.
  intros Hsl Hcat Hsp Hne Hr Hv Hp. unfold parse_cpv.
  rewrite (split_last_app _ _ _ Hsl), Hcat. cbn [negb]. rewrite Hsp.
  assert (E2 : a ++ [v; r] = (a ++ [v]) ++ [r]) by now rewrite <- app_assoc.
  remember (a ++ [v; r]) as chunks eqn:Ech.
  destruct chunks as [|c0 [|c1 rest]].
  - destruct a; discriminate.
  - destruct a as [|a0 a']; [congruence|]. destruct a'; discriminate.
  - rewrite E2. rewrite last_last, Hr.
    assert (Hlen : (length ((a ++ [v]) ++ [r]) <? 3)%nat = false).
    { apply Nat.ltb_ge. rewrite !app_length. cbn [length]. destruct a; [congruence|]. cbn [length]. lia. }
    rewrite Hlen. rewrite removelast_last, last_last, Hv. cbn [negb]. rewrite removelast_last, Hp.
    eexists. reflexivity.
Qed.

Lemma cat_complete cat : pms_category cat = true -> m_category cat = true /\ ~ In c_slash cat /\ ~ In c_nl cat.
Proof.
  intros H.
  assert (Hch : forall x, In x cat -> s_cat_char x = true).
  { unfold pms_category in H. apply andb_true_iff in H as [H _]. now rewrite forallb_forall in H. }
  assert (Hn : ~ In c_nl cat) by (intros Hin; specialize (Hch _ Hin); vm_compute in Hch; discriminate).
  split; [now rewrite (proj1 charsets_agree_proof _ Hn)|]. split; [|exact Hn].
  intros Hin. specialize (Hch _ Hin). vm_compute in Hch. discriminate.
Qed.

Lemma cpv_unversioned_complete s :
  ~ In c_nl s -> no_upper_version s -> pms_unversioned s = true -> exists c, parse_cpv false s = Some c.
Proof.
  intros Hn Hup. unfold pms_unversioned. change 47 with c_slash.
  destruct (split_first c_slash s) as [[cat nm]|] eqn:Es; [|discriminate].
  apply split_first_spec in Es as [-> _]. intros H. apply andb_true_iff in H as [Hc Hp].
  destruct (cat_complete _ Hc) as (Hmc & _ & _).
  assert (Hsub : sub nm (cat ++ c_slash :: nm)) by exact (sub_trans _ _ _ (sub_cons_r c_slash nm) (sub_app_r cat _)).
  assert (Hsl : ~ In c_slash nm) by (apply (pkg_name_chars _ _ Hp); reflexivity).
  pose proof (name_complete nm (nl_sub _ _ Hsub Hn) (nuv_chunks _ (nuv_sub _ _ Hsub Hup)) Hp) as Hv.
  unfold parse_cpv. rewrite (split_last_app _ _ _ Hsl), Hmc. cbn [negb]. rewrite Hv. eexists. reflexivity.
Qed.

Lemma cpv_versioned_complete allow s :
  ~ In c_nl s -> no_upper_version s -> pms_versioned allow s = true ->
  exists c, parse_cpv true s = Some c /\ (allow = false -> nonempty_opt (c_rev c) = false).
Proof.
  intros Hn Hup. unfold pms_versioned. change 47 with c_slash.
  destruct (split_first c_slash s) as [[cat nv]|] eqn:Es; [|discriminate].
  apply split_first_spec in Es as [-> _]. intros H. apply andb_true_iff in H as [Hc Hex].
  destruct (cat_complete _ Hc) as (Hmc & _ & _).
  apply existsb_exists in Hex as ([name suf] & Hin & Hcut). cbn [fst snd] in Hcut.
  apply hyphen_cuts_spec in Hin. change 45 with c_dash in Hin. subst nv.
  apply andb_true_iff in Hcut as [Hcut Hallow]. apply andb_true_iff in Hcut as [Hp Hvr].
  assert (Hsubnv : sub (name ++ c_dash :: suf) (cat ++ c_slash :: name ++ c_dash :: suf))
    by exact (sub_trans _ _ _ (sub_cons_r c_slash _) (sub_app_r cat _)).
  assert (Hsubn : sub name (cat ++ c_slash :: name ++ c_dash :: suf))
    by exact (sub_trans _ _ _ (sub_app_l name _) Hsubnv).
  pose proof (name_complete name (nl_sub _ _ Hsubn Hn) (nuv_chunks _ (nuv_sub _ _ Hsubn Hup)) Hp) as Hvn.
  assert (Hsln : ~ In c_slash name) by (apply (pkg_name_chars _ _ Hp); reflexivity).
  unfold pms_version_rev in Hvr. unfold has_revision in Hallow. change 45 with c_dash in *.
  destruct (split_first c_dash suf) as [[v r]|] eqn:Ef.
  - apply split_first_spec in Ef as [-> Hvd]. apply andb_true_iff in Hvr as [Hv Hr].
    cbn [negb] in Hallow. rewrite orb_false_r in Hallow. subst allow.
    apply (proj2 version_agree_proof) in Hv. rewrite <- rev_is_pms in Hr.
    assert (Hsl : ~ In c_slash (name ++ c_dash :: v ++ c_dash :: r)).
    { intros Hi. apply in_app_or in Hi as [Hi|[Hi|Hi]]; [exact (Hsln Hi) | discriminate|].
      apply in_app_or in Hi as [Hi|[Hi|Hi]]; [|discriminate|].
      - exact (m_version_foreign c_slash eq_refl v Hv Hi).
      - destruct (rev_chars _ _ Hr Hi) as [E|E]; discriminate. }
    destruct (parse_cpv_rev cat _ (split_on c_dash name) v r Hsl Hmc) as (c & Hc');
      [ | apply split_on_nonnil | exact Hr | exact Hv | exact Hvn | ].
    + rewrite split_on_app. f_equal. rewrite split_on_app.
      rewrite (split_on_nosep _ _ Hvd), (split_on_nosep _ _ (isvalid_rev_no_dash _ Hr)). reflexivity.
    + exists c. split; [exact Hc' | discriminate].
  - apply (proj2 version_agree_proof) in Hvr.
    pose proof (m_version_no_dash _ Hvr) as Hvd.
    assert (Hsubv : sub suf (cat ++ c_slash :: name ++ c_dash :: suf))
      by exact (sub_trans _ _ _ (sub_trans _ _ _ (sub_cons_r c_dash suf) (sub_app_r name _)) Hsubnv).
    assert (Hsl : ~ In c_slash (name ++ c_dash :: suf)).
    { intros Hi. apply in_app_or in Hi as [Hi|[Hi|Hi]]; [exact (Hsln Hi) | discriminate|].
      exact (m_version_foreign c_slash eq_refl suf Hvr Hi). }
    destruct (parse_cpv_norev cat _ (split_on c_dash name) suf Hsl Hmc) as (c & Hc' & Hrev);
      [ | apply split_on_nonnil | exact (version_not_rev _ (nl_sub _ _ Hsubv Hn) Hvr) | exact Hvr | exact Hvn | ].
    + rewrite split_on_app. now rewrite (split_on_nosep _ _ Hvd).
    + exists c. split; [exact Hc' | intros _; now rewrite Hrev].
Qed.

(* ---------------------------------------------------------------- operator and blocker stages *)
Lemma op_complete b st a2 :
  ~ In c_nl a2 -> no_upper_version a2 -> pms_op_cpv a2 = true ->
  exists op cpv c,
    stage_op b st a2 = R3 b st op cpv
    /\ parse_cpv (negb (is_nil op)) cpv = Some c
    /\ str_eqb op [c_tilde] && nonempty_opt (c_rev c) = false
    /\ ~ In c_lbr op.
Proof.
  intros Hn Hup. unfold pms_op_cpv, stage_op. destruct a2 as [|d r]; [discriminate|].
  change 60 with c_lt. change 62 with c_gt. change 126 with c_tilde. change 61 with c_eq. change 42 with c_star.
  assert (Hsubr : sub r (d :: r)) by apply sub_cons_r.
  destruct ((d =? c_lt) || (d =? c_gt)) eqn:Elg.
  - assert (Hd : d = c_lt \/ d = c_gt) by (apply orb_true_iff in Elg as [E|E]; apply N.eqb_eq in E; auto).
    destruct r as [|e r']; [discriminate|].
    destruct (N.eqb_spec e c_eq) as [->|He]; intros H.
    + assert (Hs : sub r' (d :: c_eq :: r')) by exact (sub_trans _ _ _ (sub_cons_r c_eq r') Hsubr).
      destruct (cpv_versioned_complete true r' (nl_sub _ _ Hs Hn) (nuv_sub _ _ Hs Hup) H) as (c & Hc & _).
      exists [d; c_eq], r', c. repeat split; [exact Hc | | ].
      * destruct Hd as [-> | ->]; reflexivity.
      * intros [E|[E|[]]]; [destruct Hd as [-> | ->]; discriminate | discriminate].
    + destruct (cpv_versioned_complete true (e :: r') (nl_sub _ _ Hsubr Hn) (nuv_sub _ _ Hsubr Hup) H) as (c & Hc & _).
      exists [d], (e :: r'), c. repeat split; [exact Hc | | ].
      * destruct Hd as [-> | ->]; reflexivity.
      * intros [E|[]]. destruct Hd as [-> | ->]; discriminate.
  - destruct (N.eqb_spec d c_tilde) as [->|Htl].
    + intros H.
      destruct (cpv_versioned_complete false r (nl_sub _ _ Hsubr Hn) (nuv_sub _ _ Hsubr Hup) H) as (c & Hc & Hrev).
      exists [c_tilde], r, c. cbn. repeat split; [exact Hc | now rewrite (Hrev eq_refl) | ].
      intros [E|[]]. discriminate.
    + destruct (N.eqb_spec d c_eq) as [->|Heq].
      * destruct (rev r) as [|l r''] eqn:Er; [discriminate|].
        assert (Err : r = rev r'' ++ [l]) by (rewrite <- (rev_involutive r), Er; reflexivity).
        assert (El : lastc (c_eq :: r) = Some l).
        { rewrite Err. change (c_eq :: rev r'' ++ [l]) with ((c_eq :: rev r'') ++ [l]). apply lastc_snoc. }
        rewrite El.
        destruct (N.eqb_spec l c_star) as [->|Hl]; intros H.
        -- assert (Hs : sub (rev r'') (c_eq :: r)).
           { rewrite Err. exact (sub_trans _ _ _ (sub_app_l _ _) (sub_cons_r c_eq _)). }
           destruct (cpv_versioned_complete true _ (nl_sub _ _ Hs Hn) (nuv_sub _ _ Hs Hup) H) as (c & Hc & _).
           exists [c_eq; c_star], (rev r''), c. repeat split.
           ++ rewrite Err at 1. now rewrite removelast_last.
           ++ exact Hc.
           ++ intros [E|[E|[]]]; discriminate.
        -- destruct (cpv_versioned_complete true r (nl_sub _ _ Hsubr Hn) (nuv_sub _ _ Hsubr Hup) H) as (c & Hc & _).
           exists [c_eq], r, c. repeat split; [exact Hc|]. intros [E|[]]. discriminate.
      * intros H. destruct (cpv_unversioned_complete (d :: r) Hn Hup H) as (c & Hc).
        exists [], (d :: r), c. repeat split; [exact Hc | intros []].
Qed.

Lemma prefix_complete g f s3 :
  g_strong_blockers g = f_strong f ->
  ~ In c_nl s3 -> no_upper_version s3 -> pms_blocker_rest f s3 = true ->
  exists b st op cpv c,
    stage_prefix g s3 = R3 b st op cpv
    /\ parse_cpv (negb (is_nil op)) cpv = Some c
    /\ str_eqb op [c_tilde] && nonempty_opt (c_rev c) = false
    /\ ~ In c_lbr op.
Proof.
  intros G3 Hn Hup. unfold pms_blocker_rest, stage_prefix. destruct s3 as [|c t]; [discriminate|].
  change 33 with c_bang.
  destruct (N.eqb_spec c c_bang) as [->|Hb].
  - destruct t as [|d t']; [discriminate|].
    assert (Hs1 : sub (d :: t') (c_bang :: d :: t')) by apply sub_cons_r.
    destruct (N.eqb_spec d c_bang) as [->|Hd]; cbn [andb]; intros H.
    + apply andb_true_iff in H as [Hst H]. rewrite G3, Hst. cbn [negb andb tl].
      assert (Hs2 : sub t' (c_bang :: c_bang :: t')) by exact (sub_trans _ _ _ (sub_cons_r c_bang t') Hs1).
      destruct (op_complete true true t' (nl_sub _ _ Hs2 Hn) (nuv_sub _ _ Hs2 Hup) H) as (op & cpv & c & H1 & H2 & H3 & H4).
      exists true, true, op, cpv, c. auto.
    + destruct (op_complete true false (d :: t') (nl_sub _ _ Hs1 Hn) (nuv_sub _ _ Hs1 Hup) H) as (op & cpv & c & H1 & H2 & H3 & H4).
      exists true, false, op, cpv, c. auto.
  - cbn [andb]. intros H.
    destruct (op_complete false false (c :: t) Hn Hup H) as (op & cpv & c0 & H1 & H2 & H3 & H4).
    exists false, false, op, cpv, c0. auto.
Qed.

(* ---------------------------------------------------------------- slot stage *)
Lemma strip_cases sl : sl = slot_strip_eq sl \/ sl = slot_strip_eq sl ++ [c_eq].
Proof.
  unfold slot_strip_eq. destruct (rev sl) as [|l r] eqn:Er; [now left|].
  change 61 with c_eq. destruct (N.eqb_spec l c_eq) as [->|]; [right | now left].
  rewrite <- (rev_involutive sl), Er. reflexivity.
Qed.

Lemma slot_name_chars a x : pms_slot_name a = true -> In x a -> s_slot_char x = true.
Proof.
  unfold pms_slot_name. intros H Hin. apply andb_true_iff in H as [H _].
  rewrite forallb_forall in H. now apply H.
Qed.

Definition slot_third (sl : str) : bool :=
  match split_first 47 (slot_strip_eq sl) with
  | Some (a, b) => pms_slot_name a && pms_slot_name b
  | None => pms_slot_name (slot_strip_eq sl)
  end.

Lemma slot_spec_unfold f sl :
  pms_slot_spec f sl = f_slot f && (pms_slot_name sl || (f_subslot f && (str_eqb sl [42] || str_eqb sl [61] || slot_third sl))).
Proof. reflexivity. Qed.

Lemma slot_third_chars sl x :
  slot_third sl = true -> In x sl -> s_slot_char x = true \/ x = c_slash \/ x = c_eq.
Proof.
  unfold slot_third. change 47 with c_slash. intros H Hin.
  assert (Hx : In x (slot_strip_eq sl) \/ x = c_eq).
  { destruct (strip_cases sl) as [E|E]; rewrite E in Hin; [now left|].
    apply in_app_or in Hin as [Hin|[Hin|[]]]; [now left | now right]. }
  destruct Hx as [Hx|Hx]; [|auto].
  destruct (split_first c_slash (slot_strip_eq sl)) as [[a b]|] eqn:Es.
  - apply split_first_spec in Es as [Es _]. rewrite Es in Hx. apply andb_true_iff in H as [Ha Hb].
    apply in_app_or in Hx as [Hx|[Hx|Hx]]; [left; exact (slot_name_chars _ _ Ha Hx) | auto | left; exact (slot_name_chars _ _ Hb Hx)].
  - left. exact (slot_name_chars _ _ H Hx).
Qed.

Lemma slot_spec_chars f sl x :
  pms_slot_spec f sl = true -> In x sl ->
  s_slot_char x = true \/ x = c_slash \/ x = c_eq \/ x = c_star.
Proof.
  rewrite slot_spec_unfold. intros H Hin. apply andb_true_iff in H as [_ H].
  apply orb_true_iff in H as [H|H]; [left; exact (slot_name_chars _ _ H Hin)|].
  apply andb_true_iff in H as [_ H]. apply orb_true_iff in H as [H|H].
  - apply orb_true_iff in H as [H|H]; apply str_eqb_eq in H; subst sl; destruct Hin as [<-|[]]; auto.
  - destruct (slot_third_chars _ _ H Hin) as [E|[E|E]]; auto.
Qed.

Lemma name_third sl : pms_slot_name sl = true -> slot_third sl = true.
Proof.
  intros H.
  assert (Hs : slot_strip_eq sl = sl).
  { unfold slot_strip_eq. destruct (rev sl) as [|l r] eqn:Er; [reflexivity|].
    destruct (N.eqb_spec l 61) as [->|]; [|reflexivity]. exfalso.
    assert (Hin : In 61 sl) by (rewrite <- (rev_involutive sl), Er; apply in_or_app; right; now left).
    pose proof (slot_name_chars _ _ H Hin) as Hc. vm_compute in Hc. discriminate. }
  unfold slot_third. rewrite Hs. change 47 with c_slash.
  rewrite (proj2 (split_first_none c_slash sl)); [exact H|].
  intros Hin. pose proof (slot_name_chars _ _ H Hin) as Hc. vm_compute in Hc. discriminate.
Qed.

Lemma name_chunk a : pms_slot_name a = true -> slot_chunk_ok a = true.
Proof. intros H. rewrite (proj2 (proj2 (proj2 charsets_agree_proof))), H. reflexivity. Qed.

Lemma slot_body_complete g f sl ro :
  g_sub_slotting g = f_subslot f -> g_slot_deps g = f_slot f ->
  pms_slot_spec f sl = true ->
  g_slot_deps g = true /\ exists p, slot_body g sl ro = Some p /\ sp_repo p = ro.
Proof.
  intros G5 G1. rewrite slot_spec_unfold. intros H. apply andb_true_iff in H as [Hfs H].
  split; [now rewrite G1|]. unfold slot_body.
  destruct sl as [|c t].
  { exfalso. destruct (f_subslot f); cbn in H; discriminate. }
  rewrite G5, G1, Hfs. cbn [negb].
  destruct (f_subslot f).
  - cbn [andb] in H.
    assert (Hthird_fail : (c =? c_star) || (c =? c_eq) = true -> pms_slot_name (c :: t) = false /\ slot_third (c :: t) = false).
    { intros Hc. assert (Hsc : s_slot_char c = false).
      { apply orb_true_iff in Hc as [E|E]; apply N.eqb_eq in E; subst c; reflexivity. }
      assert (Hname : forall a, (a = [] \/ exists a', a = c :: a') -> pms_slot_name a = false).
      { intros a [->|(a' & ->)]; [reflexivity|]. unfold pms_slot_name. cbn [forallb]. now rewrite Hsc. }
      split; [apply Hname; right; eauto|].
      unfold slot_third. change 47 with c_slash.
      assert (Hpre : slot_strip_eq (c :: t) = [] \/ exists s', slot_strip_eq (c :: t) = c :: s').
      { destruct (strip_cases (c :: t)) as [E|E]; destruct (slot_strip_eq (c :: t)) as [|y s'] eqn:Es; auto;
          injection E as -> _; right; eauto. }
      destruct (split_first c_slash (slot_strip_eq (c :: t))) as [[a b]|] eqn:Es.
      - apply split_first_spec in Es as [Es _]. rewrite (Hname a); [reflexivity|].
        destruct Hpre as [E|(s' & E)]; rewrite E in Es.
        + destruct a; discriminate.
        + destruct a as [|a0 a']; [left; reflexivity | right; injection Es as -> _; eauto].
      - apply Hname. destruct Hpre as [E|(s' & E)]; rewrite E; [now left | right; eauto]. }
    destruct ((c =? c_star) || (c =? c_eq)) eqn:Ec.
    + destruct (Hthird_fail eq_refl) as [Hn1 Hn3]. rewrite Hn1, Hn3, orb_false_r in H. cbn [orb] in H.
      assert (Ht : t = []).
      { apply orb_true_iff in H as [H|H]; apply str_eqb_eq in H; now injection H. }
      subst t. cbn [is_nil negb]. eexists. split; reflexivity.
    + assert (Hthird : slot_third (c :: t) = true).
      { apply orb_true_iff in H as [H|H]; [now apply name_third|].
        apply orb_true_iff in H as [H|H]; [|exact H]. exfalso.
        apply orb_false_iff in Ec as [E1 E2]. apply N.eqb_neq in E1, E2.
        apply orb_true_iff in H as [H|H]; apply str_eqb_eq in H; injection H as H _; subst c;
          [exact (E1 eq_refl) | exact (E2 eq_refl)]. }
      unfold slot_third in Hthird. rewrite (spec_slot_body (c :: t)) in Hthird by discriminate.
      change 47 with c_slash in Hthird.
      destruct (split_first c_slash (snd (slot_op_split (c :: t)))) as [[a b]|].
      * apply andb_true_iff in Hthird as [Ha Hb]. rewrite (name_chunk _ Ha), (name_chunk _ Hb). cbn [andb].
        eexists. split; reflexivity.
      * rewrite (name_chunk _ Hthird). eexists. split; reflexivity.
  - cbn [andb] in H. rewrite orb_false_r in H. rewrite (name_chunk _ H). eexists. split; reflexivity.
Qed.

(* ---------------------------------------------------------------- everything left of the USE block *)
Lemma parse_rest_ok e n g body use colon lft p b st op cpv c :
  match colon with
  | Some (l, r) => lft = l /\ stage_slot g r = Some p
  | None => lft = body /\ p = no_slot
  end ->
  stage_prefix g lft = R3 b st op cpv ->
  is_some (sp_slot p) && negb (g_slot_deps g) = false ->
  is_some use && negb (g_use_deps g) = false ->
  is_some e && is_some (sp_repo p) = false ->
  parse_cpv (negb (is_nil op)) cpv = Some c ->
  str_eqb op [c_tilde] && nonempty_opt (c_rev c) = false ->
  is_ok (parse_rest e n g (body, use, colon)) = true.
Proof.
  intros Hc Hp E1 E2 E3 Ec Et. unfold parse_rest.
  destruct colon as [[l r]|]; destruct Hc as [<- Hs]; [rewrite Hs | rewrite <- Hs];
    rewrite Hp, E1, E2, E3, Ec, Et; reflexivity.
Qed.

Lemma sd_colon_head sl : ~ In c_colon sl -> split_dcolon (c_colon :: sl) = None.
Proof.
  intros Hn. destruct sl as [|y t]; [reflexivity|]. rewrite sd_cons.
  assert (Hy : (y =? c_colon) = false) by (apply N.eqb_neq; intros ->; apply Hn; now left).
  rewrite Hy, andb_false_r. now rewrite (sd_none _ Hn).
Qed.

Lemma head_no_lbr g l b st op cpv c :
  stage_prefix g l = R3 b st op cpv -> ~ In c_lbr op ->
  parse_cpv (negb (is_nil op)) cpv = Some c -> ~ In c_nl cpv -> ~ In c_lbr l.
Proof.
  intros Hp Hop Hc Hn. rewrite (stage_prefix_print _ _ _ _ _ _ Hp). unfold p_head. intros Hin.
  assert (Hcpv : ~ In c_lbr cpv) by (apply (cpv_no_char c_lbr _ _ _ eq_refl Hn Hc)).
  apply in_app_or in Hin as [Hin|Hin].
  - destruct b; [destruct st|]; cbn in Hin; repeat (destruct Hin as [Hin|Hin]; [discriminate|]); exact Hin.
  - destruct (str_eqb op [c_eq; c_star]).
    + destruct Hin as [Hin|Hin]; [discriminate|]. apply in_app_or in Hin as [Hin|[Hin|[]]]; [exact (Hcpv Hin) | discriminate].
    + apply in_app_or in Hin as [Hin|Hin]; [exact (Hop Hin) | exact (Hcpv Hin)].
Qed.

Lemma in_p_head_sub b st op cpv : sub cpv (p_head b st op cpv).
Proof.
  unfold p_head. apply (sub_trans _ (if str_eqb op [c_eq; c_star] then c_eq :: cpv ++ [c_star] else op ++ cpv)); [|apply sub_app_r].
  destruct (str_eqb op [c_eq; c_star]); [exact (sub_trans _ _ _ (sub_app_l cpv _) (sub_cons_r c_eq _)) | apply sub_app_r].
Qed.

Lemma repo_no_lbr rep x : pms_repo_name rep = true -> In x rep -> s_repo_char x = true.
Proof.
  unfold pms_repo_name. intros H Hin. apply andb_true_iff in H as [H _]. rewrite forallb_forall in H. now apply H.
Qed.

Lemma slot_spec_nil f : pms_slot_spec f [] = false.
Proof. rewrite slot_spec_unfold. destruct (f_slot f), (f_subslot f); reflexivity. Qed.

Lemma tail_complete e n g f s1 use :
  features_of e = Some f -> gates_feat g f -> f_repo f = negb (is_some e) ->
  is_some use && negb (g_use_deps g) = false ->
  ~ In c_nl s1 -> no_upper_version s1 -> spec_tail f s1 = true ->
  is_ok (parse_rest e n g (s1, use, split_first c_colon s1)) = true
  /\ ~ In c_lbr s1
  /\ match split_first c_colon s1 with Some (_, r) => r <> [] | None => True end.
Proof.
  intros Hf (G1 & G2 & G3 & G4 & G5) Hrepo EU Hn Hup. unfold spec_tail. change 58 with c_colon.
  (* a generic finisher once the left part [l] and the slot part are known *)
  assert (Hfin : forall l colon p,
            sub l s1 -> pms_blocker_rest f l = true ->
            match colon with Some (l', r) => l = l' /\ stage_slot g r = Some p | None => l = s1 /\ p = no_slot end ->
            is_some (sp_slot p) && negb (g_slot_deps g) = false ->
            is_some e && is_some (sp_repo p) = false ->
            is_ok (parse_rest e n g (s1, use, colon)) = true /\ ~ In c_lbr l).
  { intros l colon p Hs Hb Hc E1 E3.
    destruct (prefix_complete g f l G3 (nl_sub _ _ Hs Hn) (nuv_sub _ _ Hs Hup) Hb)
      as (b & st & op & cpv & c & Hp & Hcpv & Ht & Hop).
    split.
    - exact (parse_rest_ok e n g s1 use colon l p b st op cpv c Hc Hp E1 EU E3 Hcpv Ht).
    - apply (head_no_lbr g l b st op cpv c Hp Hop Hcpv).
      apply (nl_sub cpv l); [|exact (nl_sub _ _ Hs Hn)].
      rewrite (stage_prefix_print _ _ _ _ _ _ Hp). apply in_p_head_sub. }
  assert (Hslot : forall sl ro, pms_slot_spec f sl = true -> sl <> [] ->
            exists p, slot_body g sl ro = Some p /\ sp_repo p = ro
                      /\ is_some (sp_slot p) && negb (g_slot_deps g) = false).
  { intros sl ro Hs _. destruct (slot_body_complete g f sl ro G5 G1 Hs) as (Hd & p & Hp & Hr).
    exists p. split; [exact Hp|]. split; [exact Hr|]. rewrite Hd. apply andb_false_r. }
  assert (Hslot_lbr : forall sl, pms_slot_spec f sl = true -> ~ In c_lbr sl /\ ~ In c_colon sl).
  { intros sl Hs. split; intros Hin; destruct (slot_spec_chars f sl _ Hs Hin) as [E|[E|[E|E]]]; discriminate. }
  (* the case without repository part *)
  assert (Hnorepo : (f_repo f = true -> split_dcolon s1 = None) ->
            (match split_first c_colon s1 with
             | Some (pre, sl) => pms_slot_spec f sl && pms_blocker_rest f pre
             | None => pms_blocker_rest f s1
             end = true) ->
            is_ok (parse_rest e n g (s1, use, split_first c_colon s1)) = true /\ ~ In c_lbr s1
            /\ match split_first c_colon s1 with Some (_, r) => r <> [] | None => True end).
  { intros Hsd H. destruct (split_first c_colon s1) as [[l sl]|] eqn:E3.
    - apply split_first_spec in E3 as [E3 Hl]. apply andb_true_iff in H as [Hs Hb].
      destruct (Hslot_lbr _ Hs) as [Hsl1 Hsl2].
      destruct sl as [|c0 t0]; [rewrite slot_spec_nil in Hs; discriminate|].
      destruct (Hslot (c0 :: t0) None Hs ltac:(discriminate)) as (p & Hp & Hr & E1).
      assert (Hstage : stage_slot g (c0 :: t0) = Some p).
      { unfold stage_slot. rewrite (sd_colon_head _ Hsl2). cbn [fst snd repo_ok negb tl]. exact Hp. }
      assert (Hsub : sub l s1) by (rewrite E3; apply sub_app_l).
      destruct (Hfin l (Some (l, c0 :: t0)) p Hsub Hb (conj eq_refl Hstage) E1) as [Hok Hlbr].
      { rewrite Hr. cbn [is_some]. apply andb_false_r. }
      split; [exact Hok|]. split; [|discriminate].
      rewrite E3. intros Hin. apply in_app_or in Hin as [Hin|[Hin|Hin]]; [exact (Hlbr Hin) | discriminate | exact (Hsl1 Hin)].
    - destruct (Hfin s1 None no_slot (sub_refl s1) H (conj eq_refl eq_refl) eq_refl) as [Hok Hlbr].
      { cbn. apply andb_false_r. }
      auto. }
  destruct (f_repo f) eqn:Efr.
  - destruct (split_dcolon s1) as [[pre2 rep]|] eqn:Ed; cbn [fst snd].
    + pose proof (split_dcolon_spec _ _ _ Ed) as Es1. intros H.
      apply andb_true_iff in H as [H Hb]. apply andb_true_iff in H as [Hrep H3].
      assert (He : is_some e = false) by (destruct (is_some e); [discriminate | reflexivity]).
      assert (Hrepl : ~ In c_lbr rep) by (intros Hin; pose proof (repo_no_lbr _ _ Hrep Hin) as Hc; discriminate).
      assert (Hrok : repo_ok (Some rep) = true) by now rewrite (proj1 (proj2 (proj2 charsets_agree_proof))).
      destruct (split_first c_colon pre2) as [[l sl]|] eqn:E3; cbn [fst snd] in *.
      * apply split_first_spec in E3 as [E3 Hl]. subst pre2.
        destruct (Hslot_lbr _ H3) as [Hsl1 Hsl2].
        destruct sl as [|c0 t0]; [rewrite slot_spec_nil in H3; discriminate|].
        destruct (Hslot (c0 :: t0) (Some rep) H3 ltac:(discriminate)) as (p & Hp & Hr & E1).
        assert (E1' : s1 = l ++ c_colon :: ((c0 :: t0) ++ c_colon :: c_colon :: rep)).
        { rewrite Es1. rewrite <- app_assoc. reflexivity. }
        assert (Hsd : split_dcolon (c_colon :: (c0 :: t0) ++ c_colon :: c_colon :: rep) = Some (c_colon :: c0 :: t0, rep)).
        { rewrite E1' in Ed. rewrite (sd_app l _ Hl) in Ed.
          destruct (split_dcolon (c_colon :: (c0 :: t0) ++ c_colon :: c_colon :: rep)) as [[a b']|]; [|discriminate].
          injection Ed as Ea ->. apply app_inv_head in Ea. now subst a. }
        assert (Hstage : stage_slot g ((c0 :: t0) ++ c_colon :: c_colon :: rep) = Some p).
        { unfold stage_slot. rewrite Hsd. cbn [fst snd]. rewrite Hrok. cbn [negb tl]. exact Hp. }
        rewrite E1'. rewrite (split_first_app _ _ _ Hl).
        assert (Hsub : sub l s1) by (rewrite E1'; apply sub_app_l).
        destruct (Hfin l (Some (l, (c0 :: t0) ++ c_colon :: c_colon :: rep)) p Hsub Hb (conj eq_refl Hstage) E1) as [Hok Hlbr].
        { rewrite He. reflexivity. }
        rewrite <- E1'. split; [rewrite E1' at 1; exact Hok|]. split; [|discriminate].
        rewrite E1'. intros Hin. apply in_app_or in Hin as [Hin|[Hin|Hin]]; [exact (Hlbr Hin) | discriminate|].
        apply in_app_or in Hin as [Hin|[Hin|[Hin|Hin]]]; [exact (Hsl1 Hin) | discriminate | discriminate | exact (Hrepl Hin)].
      * pose proof (proj1 (split_first_none c_colon pre2) E3) as Hl.
        assert (E1' : s1 = pre2 ++ c_colon :: (c_colon :: rep)) by exact Es1.
        assert (Hstage : stage_slot g (c_colon :: rep) = Some {| sp_slot := None; sp_sub := None; sp_op := None; sp_repo := Some rep |}).
        { unfold stage_slot. rewrite sd_cons, N.eqb_refl. cbn [andb fst snd]. rewrite Hrok. reflexivity. }
        rewrite E1'. rewrite (split_first_app _ _ _ Hl).
        assert (Hsub : sub pre2 s1) by (rewrite E1'; apply sub_app_l).
        destruct (Hfin pre2 (Some (pre2, c_colon :: rep)) _ Hsub Hb (conj eq_refl Hstage) eq_refl) as [Hok Hlbr].
        { rewrite He. reflexivity. }
        rewrite <- E1'. split; [rewrite E1' at 1; exact Hok|]. split; [|discriminate].
        rewrite E1'. intros Hin. apply in_app_or in Hin as [Hin|[Hin|[Hin|Hin]]]; [exact (Hlbr Hin) | discriminate | discriminate | exact (Hrepl Hin)].
    + intros H. apply Hnorepo; [reflexivity|].
      destruct (split_first c_colon s1) as [[pre sl]|]; cbn [fst snd] in H; exact H.
  - cbn [fst snd]. intros H. apply Hnorepo; [discriminate|].
    destruct (split_first c_colon s1) as [[pre sl]|]; cbn [fst snd] in H; exact H.
Qed.

(* ---------------------------------------------------------------- the USE block and the whole atom *)
Lemma decl_no_rbr d x : decl d x -> ~ In c_rbr x.
Proof.
  intros (P & name & D & S & -> & Hf & HP & HD & HS) Hin.
  apply in_app_or in Hin as [Hin|Hin].
  - destruct HP as [-> | [[-> _] | [-> _]]]; [destruct Hin | |]; destruct Hin as [H|[]]; discriminate.
  - apply in_app_or in Hin as [Hin|Hin].
    + destruct (use_flag_facts _ Hf) as [Hall _]. rewrite forallb_forall in Hall.
      specialize (Hall _ Hin). vm_compute in Hall. discriminate.
    + apply in_app_or in Hin as [Hin|Hin].
      * destruct HD as [-> | (_ & b & [-> | ->] & ->)]; [destruct Hin | |];
          repeat (destruct Hin as [Hin|Hin]; [discriminate|]); destruct Hin.
      * destruct HS as [-> | [-> | ->]]; [destruct Hin | |]; destruct Hin as [H|[]]; discriminate.
Qed.

Lemma split_last_none_inv c s : split_last c s = None -> ~ In c s.
Proof.
  induction s as [|x t IH]; [intros _ []|]. cbn [split_last].
  destruct (split_last c t) as [[p q]|]; [discriminate|].
  destruct (N.eqb_spec x c) as [|Hne]; [discriminate|].
  intros _ [H|H]; [congruence | exact (IH eq_refl H)].
Qed.

Lemma u2_colon s :
  match split_first c_colon s with Some (_, r) => r <> [] | None => True end ->
  match split_first c_colon (removelast s) with
  | Some (p, q) => Some (p, q ++ [last s 0])
  | None => None
  end = split_first c_colon s.
Proof.
  destruct (split_first c_colon s) as [[l r]|] eqn:E.
  - intros Hr. apply split_first_spec in E as [-> Hl].
    assert (Er : r = removelast r ++ [last r 0]) by now apply app_removelast_last.
    assert (E1 : removelast (l ++ c_colon :: r) = l ++ c_colon :: removelast r).
    { rewrite removelast_app by discriminate. f_equal. destruct r as [|r0 r']; [congruence|]. reflexivity. }
    assert (E2 : last (l ++ c_colon :: r) 0 = last r 0).
    { rewrite Er at 1. rewrite app_comm_cons, app_assoc. apply last_last. }
    rewrite E1, (split_first_app _ _ _ Hl), E2. now rewrite <- Er.
  - intros _. pose proof (proj1 (split_first_none c_colon s) E) as Hn.
    rewrite (proj2 (split_first_none c_colon (removelast s))); [reflexivity|].
    intros Hin. apply Hn. now apply in_removelast.
Qed.

Lemma features_gates_full e f :
  features_of e = Some f -> exists g, gates_of e = Some g /\ gates_feat g f /\ f_repo f = negb (is_some e).
Proof.
  intros Hf. destruct (gates_of e) as [g|] eqn:Eg.
  - destruct (gates_features _ _ Eg) as (f' & Hf' & G & Hr). rewrite Hf in Hf'. injection Hf' as <-. eauto.
  - exfalso. apply (features_gates e); [congruence | exact Eg].
Qed.

(* COMPLETENESS: every string the PMS grammar recogniser accepts for an EAPI is accepted by the model
   of atom.__init__ — for text without newline in which no contiguous piece is a code-version carrying
   an upper-case letter (the recorded class on the rejecting side: names like "b-1A") *)
Lemma accept_complete_proof :
  forall e n s,
    pms_atom_b e s = true -> ~ In c_nl s -> no_upper_version s -> is_ok (parse_atom e n s) = true.
Proof.
  intros e n s. unfold pms_atom_b. destruct (features_of e) as [f|] eqn:Hf; [|discriminate].
  destruct (features_gates_full _ _ Hf) as (g & Eg & G & Hrepo).
  pose proof G as (G1 & G2 & G3 & G4 & G5).
  unfold pms_atom_feat, use_split. change 91 with c_lbr. change 93 with c_rbr. change 44 with c_comma.
  intros H Hn Hup.
  assert (Hne : s <> []).
  { intros ->. cbn in H. unfold spec_tail in H. destruct (f_repo f); cbn in H; discriminate. }
  unfold parse_atom. destruct s as [|x0 t0] eqn:Es; [congruence|]. rewrite <- Es in *. clear Es x0 t0.
  rewrite Eg. unfold stage_use.
  destruct (split_last c_lbr s) as [[pre rest]|] eqn:Esl.
  - apply split_last_spec in Esl as [Es Hrest].
    destruct (rev rest) as [|l ru] eqn:Er; [cbn in H; discriminate|].
    destruct (N.eqb_spec l c_rbr) as [->|]; [|cbn in H; discriminate]. cbn [fst snd] in H.
    apply andb_true_iff in H as [H Htail]. apply andb_true_iff in H as [Hfu Hdeps].
    assert (Erest : rest = rev ru ++ [c_rbr]) by (rewrite <- (rev_involutive rest), Er; reflexivity).
    set (u := rev ru) in *.
    assert (Hsubpre : sub pre s) by (rewrite Es; apply sub_app_l).
    assert (Hsubu : sub u s).
    { rewrite Es, Erest. exact (sub_trans _ _ _ (sub_app_l u _) (sub_trans _ _ _ (sub_cons_r c_lbr _) (sub_app_r pre _))). }
    assert (Hguse : g_use_deps g = true) by now rewrite G2.
    destruct (tail_complete e n g f pre (Some (sort_strs (split_on c_comma u))) Hf G Hrepo
                ltac:(cbn [is_some andb]; now rewrite Hguse) (nl_sub _ _ Hsubpre Hn) (nuv_sub _ _ Hsubpre Hup) Htail)
      as (Hok & Hprel & _).
    assert (Hdep : forall x, In x (split_on c_comma u) -> valid_use_dep (g_use_defaults g) x = true /\ ~ In c_rbr x).
    { intros x Hx. rewrite forallb_forall in Hdeps. specialize (Hdeps _ Hx).
      assert (Hnx : ~ In c_nl x) by exact (nl_sub _ _ (sub_trans _ _ _ (sub_chunk _ _ _ Hx) Hsubu) Hn).
      split; [rewrite G4, (use_dep_agree_proof _ _ Hnx); exact Hdeps|].
      exact (decl_no_rbr _ _ (spec_decl _ _ Hdeps)). }
    assert (Hur : ~ In c_rbr u).
    { intros Hin. rewrite <- (join_split_on c_comma u) in Hin.
      apply in_join in Hin as [Hin|(x & Hx & Hin)]; [discriminate | exact (proj2 (Hdep _ Hx) Hin)]. }
    rewrite Es at 1. rewrite (split_first_app _ _ _ Hprel). rewrite Erest, (split_first_app _ _ _ Hur).
    cbn [is_nil negb].
    assert (Hall : forallb (valid_use_dep (g_use_defaults g)) (sort_strs (split_on c_comma u)) = true).
    { apply forallb_forall. intros x Hx. apply (proj1 (sort_in _ _)) in Hx. exact (proj1 (Hdep _ Hx)). }
    rewrite Hall. exact Hok.
  - apply split_last_none_inv in Esl. cbn [fst snd andb] in H.
    destruct (tail_complete e n g f s None Hf G Hrepo eq_refl Hn Hup H) as (Hok & _ & Hr).
    rewrite (proj2 (split_first_none c_lbr s) Esl). rewrite (u2_colon s Hr). exact Hok.
Qed.

(* ---------------------------------------------------------------- the equivalence *)
(* the third recorded class, on the input: a slot or sub-slot name beginning with "+" *)
Definition no_plus_slot (s : str) : Prop :=
  ~ sub [c_colon; c_plus] s /\ ~ sub [c_slash; c_plus] s.

Lemma parse_cpv_unversioned_ver s c : parse_cpv false s = Some c -> c_ver c = None.
Proof.
  unfold parse_cpv. destruct (split_last c_slash s) as [[cat pkgver]|]; [|discriminate].
  destruct (negb (m_category cat)); [discriminate|].
  destruct (valid_pkg_name (split_on c_dash pkgver)); [|discriminate]. intros H; injection H as <-. reflexivity.
Qed.

Lemma slot_body_subslot g sl ro p y :
  slot_body g sl ro = Some p -> sp_sub p = Some y -> exists x0 x', sp_slot p = Some (x0 :: x').
Proof.
  unfold slot_body. destruct sl as [|c t]; [discriminate|].
  destruct (g_sub_slotting g).
  - destruct ((c =? c_star) || (c =? c_eq)).
    + destruct (negb (is_nil t)); [discriminate|]. intros H; injection H as <-. discriminate.
    + destruct (split_first c_slash (snd (slot_op_split (c :: t)))) as [[a b]|].
      * destruct (slot_chunk_ok a) eqn:Ha; [|discriminate]. destruct (slot_chunk_ok b); [|discriminate].
        cbn [andb]. intros H; injection H as <-. cbn [sp_sub sp_slot]. intros _.
        destruct a as [|a0 a']; [discriminate | eauto].
      * destruct (slot_chunk_ok _); [|discriminate]. intros H; injection H as <-. discriminate.
  - destruct (negb (g_slot_deps g)); [discriminate|]. destruct (slot_chunk_ok (c :: t)); [|discriminate].
    intros H; injection H as <-. discriminate.
Qed.

Lemma stage_slot_subslot g r p y :
  stage_slot g r = Some p -> sp_sub p = Some y -> exists x0 x', sp_slot p = Some (x0 :: x').
Proof.
  unfold stage_slot. destruct (negb (repo_ok _)); [discriminate|].
  destruct (tl _) as [|c t] eqn:Et.
  - destruct (snd _); [|discriminate]. intros H; injection H as <-. discriminate.
  - apply slot_body_subslot.
Qed.

Lemma sub_cons2 a b t : sub [a; b] (a :: b :: t).
Proof. exists [], t. reflexivity. Qed.

Lemma clean_from_input e n s a :
  parse_atom e n s = Ok a -> no_upper_version s -> no_plus_slot s -> clean_atom a.
Proof.
  unfold parse_atom. destruct s as [|x0 t0] eqn:Es; [discriminate|]. rewrite <- Es. 
  assert (Hne : s <> []) by (rewrite Es; discriminate). clear Es x0 t0.
  destruct (gates_of e) as [g|] eqn:Eg; [|discriminate].
  destruct (stage_use g s) as [[[body use] colon]|] eqn:Eu; [|discriminate].
  intros Hr Hup [Hp1 Hp2].
  destruct (stage_use_facts _ _ _ _ _ Hne Eu) as (_ & _ & Hcol & _).
  assert (Hbody : sub body s).
  { unfold stage_use in Eu. destruct (split_first c_lbr s) as [[pre post]|] eqn:E1.
    - destruct (split_first c_rbr post) as [[u tail]|]; [|discriminate].
      destruct (negb (is_nil tail)); [discriminate|]. destruct (forallb _ _); [|discriminate].
      injection Eu as <- _ _. apply split_first_spec in E1 as [-> _]. apply sub_app_l.
    - injection Eu as <- _ _. apply sub_refl. }
  apply parse_rest_inv in Hr as (lft & p & b & st & op & cpv & c & Hsp & Ep & _ & _ & _ & Ec & _ & Av & As & Ab & _).
  assert (Hlft : sub lft body).
  { destruct colon as [[l r]|]; destruct Hsp as [-> _]; [rewrite Hcol; apply sub_app_l | apply sub_refl]. }
  split.
  - (* version *)
    intros v Hv. rewrite Av in Hv.
    destruct (negb (is_nil op)) eqn:Evd.
    + apply cpv_structure in Ec as (cat & pkgver & Ecpv & _ & _ & name & v' & _ & Hmv & Ever & Hshape).
      rewrite Hv in Ever. injection Ever as <-.
      apply Hup; [|exact Hmv].
      assert (Hvp : sub v pkgver).
      { destruct Hshape as [[-> _] | (r & -> & _)].
        - exact (sub_trans _ _ _ (sub_cons_r c_dash v) (sub_app_r name _)).
        - exact (sub_trans _ _ _ (sub_trans _ _ _ (sub_app_l v _) (sub_cons_r c_dash _)) (sub_app_r name _)). }
      apply (sub_trans _ _ _ Hvp). rewrite Ecpv in *.
      apply (sub_trans _ _ _ (sub_trans _ _ _ (sub_cons_r c_slash pkgver) (sub_app_r cat _))).
      apply (sub_trans _ lft); [|exact (sub_trans _ _ _ Hlft Hbody)].
      rewrite (stage_prefix_print _ _ _ _ _ _ Ep). apply in_p_head_sub.
    + apply parse_cpv_unversioned_ver in Ec. congruence.
  - (* slot *)
    intros x Hx. rewrite As in Hx. destruct colon as [[l r]|]; destruct Hsp as [_ Hp]; [|subst p; discriminate].
    pose proof (stage_slot_print _ _ _ Hp) as Hpr. rewrite Hx in Hpr.
    destruct x as [|y x']; [discriminate|]. intros Hy. cbn [hd] in Hy. subst y.
    apply Hp1. apply (sub_trans _ (c_colon :: r)).
    + rewrite <- Hpr. unfold p_slot. cbn [nonempty_opt opt_str app].
      apply sub_cons2.
    + apply (sub_trans _ body); [rewrite Hcol; apply sub_app_r | exact Hbody].
  - (* sub-slot *)
    intros y Hy. rewrite Ab in Hy. destruct colon as [[l r]|]; destruct Hsp as [_ Hp]; [|subst p; discriminate].
    destruct (stage_slot_subslot _ _ _ _ Hp Hy) as (x0 & x' & Hx).
    pose proof (stage_slot_print _ _ _ Hp) as Hpr. rewrite Hx, Hy in Hpr.
    destruct y as [|y0 y']; [discriminate|]. intros Hy0. cbn [hd] in Hy0. subst y0.
    apply Hp2. apply (sub_trans _ (c_colon :: r)).
    + rewrite <- Hpr. unfold p_slot. cbn [nonempty_opt opt_str app].
      eapply sub_trans; [|apply sub_cons_r]. eapply sub_trans; [|apply sub_cons_r].
      eapply sub_trans; [|apply sub_app_l]. eapply sub_trans; [|apply sub_app_r]. apply sub_cons2.
    + apply (sub_trans _ body); [rewrite Hcol; apply sub_app_r | exact Hbody].
Qed.

(* the first sentence of the property, outside the recorded classes, as an equivalence *)
Lemma accept_iff_grammar_partial_proof :
  forall e n s,
    ~ In c_nl s -> no_upper_version s -> no_plus_slot s ->
    is_ok (parse_atom e n s) = pms_atom_b e s.
Proof.
  intros e n s Hn Hup Hpl. apply eq_true_iff_eq. split.
  - destruct (parse_atom e n s) as [a| |] eqn:E; try discriminate. intros _.
    exact (accept_sound_proof e n s a E Hn (clean_from_input e n s a E Hup Hpl)).
  - intros H. exact (accept_complete_proof e n s H Hn Hup).
Qed.

(* non-vacuity: the hypotheses hold for an atom that uses every feature; and they exclude the witnesses *)
Example ex_hyp_excludes :
  ~ no_plus_slot [97;47;98;58;43;48]            (* a/b:+0 *)
  /\ ~ no_upper_version [61;97;47;98;45;49;65]. (* =a/b-1A *)
Proof.
  split.
  - intros [H _]. apply H. exists [97;47;98], [48]. reflexivity.
  - intros H. specialize (H [49;65] (ex_intro _ [61;97;47;98;45] (ex_intro _ [] eq_refl)) eq_refl).
    vm_compute in H. discriminate.
Qed.
