"""C31 — environment handed to the build daemon arrives exactly (DESIGN §6 C31).

Streams
  gen    EbuildProcessor._generate_env_str(env)      impl vs Model_C31.generate_env_str      (A)
                                                     impl text, evaluated by the bash MODEL,
                                                     vs Spec_C31.expected_lookup              (B, in Coq)
  bash   REAL bash (`read -r -N n; IFS=$'\\0'; eval`) vs Model_C31.bash_eval on the generated
         texts and on hand-made texts of the same fragment (validates the bash model)
  frame  bytes written by send_env (inline / file)   impl vs Model_C31.frame / frame_file    (A)
                                                     impl bytes through Model reader vs spec  (B, in Coq)
  e2e    REAL daemon: process_ebuild, send_env (inline / file), dump of the variables,
         alive/yep!, shutdown_daemon                 dump vs model prediction (A) and vs
                                                     Spec_C31.spec_e2e_ok (B, in Coq) + python oracle
"""

import io
import os
import signal
import subprocess
import time

from .common import Check, Err, Raw, cN, cbool, clist, cpair, cstr, cval, impl_call, shrink_list

IMPORTS = ("From Coq Require Import List NArith ZArith Bool.\n"
           "From Verif Require Import Base.Val C31.Model_C31 C31.Spec_C31.")
EBD = "../../data/lib/pkgcore/ebd/"
ANCHORS = ["ebuild/processor.py::EbuildProcessor._generate_env_str",
           "ebuild/processor.py::EbuildProcessor._quote_env_value",
           "ebuild/processor.py::EbuildProcessor._quote_env_element",
           "ebuild/processor.py::EbuildProcessor.send_env",
           "ebuild/processor.py::EbuildProcessor._wire_len",
           "ebuild/processor.py::EbuildProcessor._run_depend_like_phase",
           "ebuild/processor.py::EbuildProcessor.write",
           EBD + "ebuild-daemon.bash", EBD + "ebuild-daemon-lib.bash"]
MARKER = "PKGCORE_NONEXPORTED_VARS"
KINDS = {"AttributeError": "AttributeError", "IndexError": "IndexError", "KeyError": "KeyError",
         "TypeError": "TypeError"}

# names: ordinary shell names (no variable bash itself treats specially)
NAMES = ["A", "B", "C", "_x", "a1", "USE", "PN", "FOO_BAR", "export", "E2", "zz9", "declare",
         "PV", "SLOT", "CFLAGS", "_", "__v", "D", "Z_9_z", "arr", "L", "M"]
NAMES.remove("_")  # `$_` is rewritten by bash after every command
# value tokens: everything that is special somewhere in the shell, plus ordinary text
TOKENS = (["a", "b", "Z", "x", "n", "t", "e", "0", "1", "4", "7", "ab", "foo", "B4r"] * 2
          + [" ", "  ", "'", "'", "\"", "\\", "\\", "$", "`", "\n", "\t", "(", ")", ";", "&", "|",
             "<", ">", "*", "?", "[", "]", "#", "~", "=", "{", "}", "!", "%", "-", ".", "/", ":", ",",
             "\r", "\x01", "\x7f", "\x1b", "\x0b",
             "é", "€", "\U0001f600", " ", "ß", "²", "中", "١",
             "\\n", "\\t", "\\\\", "\\'", "\\x41", "\\101", "\\u00e9", "\\c", "\\", "\\\n", "\\\"",
             "$(echo INJ)", "`echo INJ`", "${HOME}", "$HOME", "$'", "$\"", "\\$", "\\`", "''", "\"\"",
             "it's", "a b", "-O2 -pipe", "/usr/lib", "x=y", "[0]=", " # c", "$((1+1))"])


def gen_value(rng, maxn=6):
    n = rng.choice([0, 1, 1, 2, 3, 4, maxn])
    s = "".join(rng.choice(TOKENS) for _ in range(n))
    if ("$(" in s or "`" in s) and (">" in s or "<" in s):
        s = s.replace(">", "|").replace("<", "|")   # never let a broken generator redirect into a file
    return s


def gen_env(rng, size=None):
    """A mostly-valid environment: dict name -> str | list[str]; maybe the marker; readonly set."""
    n = size if size is not None else rng.choice([0, 1, 2, 3, 4, 6, 9])
    env = {}
    for k in rng.sample(NAMES, min(n, len(NAMES))):
        r = rng.random()
        if r < 0.22:
            env[k] = [gen_value(rng, 4) for _ in range(rng.choice([0, 1, 2, 3, 12]))]
        elif r < 0.26:
            env[k] = tuple(gen_value(rng, 3) for _ in range(rng.choice([1, 2])))
        elif r < 0.40:
            env[k] = "".join(rng.choice("abXYZ019é中²") for _ in range(rng.choice([1, 2, 5])))
        else:
            env[k] = gen_value(rng)
    if rng.random() < 0.55:
        pool = list(env) + rng.sample(NAMES, 2)
        marked = rng.sample(pool, rng.randint(0, min(len(pool), 4)))
        sep = rng.choice([" ", " ", " ", "  ", "\t", "\n", "  ", "\x0b", "\x1f", " "])
        val = sep.join(marked)
        if rng.random() < 0.2:
            val = " " + val + " "
        env[MARKER] = val
        if rng.random() < 0.5:   # dict order must not matter
            env = dict(rng.sample(list(env.items()), len(env)))
    ro = rng.sample(NAMES, rng.choice([0, 0, 0, 1, 2]))
    if ro and env and rng.random() < 0.7:
        ro[0] = rng.choice(list(env))
    return env, sorted(set(ro) - {MARKER})


def gen_bad_env(rng):
    """Malformed stream: bad first characters, empty key, wrong value types, marker not a string."""
    env, ro = gen_env(rng, rng.choice([0, 1, 2, 3]))
    what = rng.choice(["digit", "dash", "empty", "hialpha", "hinonalpha", "type", "type", "marker", "nul",
                       "midbad"])
    if what == "digit":
        env[rng.choice("0123456789") + "A"] = "v"
    elif what == "dash":
        env[rng.choice("-+.$ /") + "B"] = "v"
    elif what == "empty":
        env[""] = "v"
    elif what == "hialpha":
        env[rng.choice("é中ß") + "k"] = "v"
    elif what == "hinonalpha":
        env[rng.choice("²€١ ") + "k"] = "v"
    elif what == "type":
        env[rng.choice(NAMES)] = rng.choice([1, None, 2.5, b"x", {"a": 1}, True])
    elif what == "marker":
        env[MARKER] = rng.choice([["A"], ("A", "B"), None, 3])
    elif what == "nul":
        env[rng.choice(NAMES)] = "a\x00b"
    elif what == "midbad":
        env["A-B"] = "v"
    if rng.random() < 0.3:   # a second problem, to pin the order of the checks
        env[rng.choice(["1x", "", "Q"])] = rng.choice([1, "v"])
    return env, ro


# ----------------------------------------------------------------------------- Coq rendering
def c_pyval(v):
    if isinstance(v, str):
        return f"PStr {cstr(v)}"
    if isinstance(v, (list, tuple)):
        return "PList " + clist([cstr(x) for x in v], "str")
    return "POther"


def strings_of(env, ro):
    for k, v in env.items():
        yield k
        if isinstance(v, str):
            yield v
        elif isinstance(v, (list, tuple)):
            for x in v:
                if isinstance(x, str):
                    yield x
    yield from ro


def c_gen_input(env, ro):
    cps = sorted({ord(c) for s in strings_of(env, ro) for c in s if ord(c) >= 128})
    alnum = [c for c in cps if chr(c).isalnum()]
    alpha = [c for c in cps if chr(c).isalpha()]
    e = clist([cpair(cstr(k), c_pyval(v)) for k, v in env.items()], "str * pyval")
    return cpair(clist([cN(c) for c in alnum], "N"), clist([cN(c) for c in alpha], "N"),
                 clist([cstr(k) for k in ro], "str"), e)


def modelable(env):
    """list elements must be strings (the model has no str(value) of other objects)"""
    return all(isinstance(k, str) for k in env) and all(
        all(isinstance(x, str) for x in v) for v in env.values() if isinstance(v, (list, tuple)))


def in_domain(env):
    import re
    for k, v in env.items():
        if not re.fullmatch(r"[A-Za-z_][A-Za-z0-9_]*", k):
            return False
        vs = [v] if isinstance(v, str) else v if isinstance(v, (list, tuple)) else None
        if vs is None or any((not isinstance(x, str)) or "\x00" in x for x in vs):
            return False
    return isinstance(env.get(MARKER, ""), str)


def expected_state(env, ro):
    """python oracle of the statement: [name, exported, is_array, [[i, v]...]] per transferred key"""
    marked = set(env.get(MARKER, "").split())
    out = []
    for k, v in env.items():
        if k == MARKER or k in ro:
            continue
        if isinstance(v, str):
            out.append([k, k not in marked, False, [[0, v]]])
        else:
            out.append([k, k not in marked, True, [[i, x] for i, x in enumerate(v)]])
    return out


# ----------------------------------------------------------------------------- real bash
def dump_code(names):
    parts = []
    for n in names:
        parts.append(
            f'if [[ -v {n} || ${{{n}@a}} == *a* ]]; then printf \'V\\0%s\\0%s\\0%s\\0\' {n} "${{{n}@a}}" "${{#{n}[@]}}"; '
            f'if [[ ${{#{n}[@]}} -gt 0 ]]; then printf \'%s\\0\' "${{!{n}[@]}}" "${{{n}[@]}}"; fi; fi')
    return "; ".join(parts) if parts else ":"


def parse_dump(tokens, pos):
    """tokens after a record header: V name attrs count idx.. val.. ; returns (state, pos)"""
    state = []
    while pos < len(tokens) and tokens[pos] == b"V":
        name, attrs, cnt = tokens[pos + 1].decode(), tokens[pos + 2].decode(), int(tokens[pos + 3])
        idx = [int(x) for x in tokens[pos + 4: pos + 4 + cnt]]
        vals = [x.decode("utf-8", "replace") for x in tokens[pos + 4 + cnt: pos + 4 + 2 * cnt]]
        pos += 4 + 2 * cnt
        state.append([name, "x" in attrs, "a" in attrs, [[i, v] for i, v in zip(idx, vals)]])
    return state, pos


def run_real_bash(chk, cases, subshell=()):
    """cases: list of (names, text).  One bash process, the daemon's way of reading and evaluating:
    `read -r -N <bytes>` in the C locale, `IFS=$'\\0'`, `eval`.  Cases whose index is in `subshell`
    run in a subshell (texts that may do more than assign); the others run in the main shell and the
    variables are unset afterwards (a fork costs ~30 ms here).  Returns a list of state | Err."""
    d = chk.scratch / "bash"
    d.mkdir(exist_ok=True)
    lines = ["cd " + str(d)]
    clean = "unset -v __l __r __e " + " ".join(NAMES)
    for i, (names, text) in enumerate(cases):
        data = text.encode("utf-8")
        (d / f"c{i}.txt").write_bytes(data)
        body = (f"read -r -N {len(data)} __l < c{i}.txt; __r=$?; IFS=$'\\0'; eval \"${{__l}}\"; __e=$?; "
                f"IFS=$' \\t\\n'; printf 'C\\0%s\\0%s\\0%s\\0' {i} \"$__r\" \"$__e\"; {dump_code(names)}")
        if i in subshell:
            lines.append(f"( {body} ) </dev/null 2>>err.log")
        else:
            lines.append(f"{{ {body}; }} </dev/null 2>>err.log; {clean}")
    (d / "run.sh").write_text("\n".join(lines) + "\n")
    r = subprocess.run(["timeout", "300", "env", "-i", "PATH=/usr/bin:/bin", "bash", str(d / "run.sh")],
                       capture_output=True, cwd=d)
    toks = r.stdout.split(b"\0")
    out = [Err("no-output")] * len(cases)
    pos = 0
    while pos + 3 < len(toks) and toks[pos] == b"C":
        i, rr, re_ = int(toks[pos + 1]), int(toks[pos + 2]), int(toks[pos + 3])
        state, pos = parse_dump(toks, pos + 4)
        out[i] = state if (rr == 0 and re_ == 0) else Err("bash-error")
    return out


FRAG_SAFE = list("abZx019_-./,+@%:=") + ["é", "中"]


def gen_fragment_text(rng):
    """hand-made text of the emitted fragment and a little around it (both quoting repairs'
    forms, the whole $'..' escape table, blanks, several lines, out-of-order subscripts)"""
    def sq():
        return "'" + "".join(rng.choice(TOKENS).replace("'", "") for _ in range(rng.randint(0, 3))) + "'"

    def dq():
        body = ""
        for _ in range(rng.randint(0, 4)):
            t = rng.choice(TOKENS + ["\\\\", "\\\"", "\\$", "\\`", "\\\n", "\\a", "\\ "])
            if t in ("\\\\", "\\\"", "\\$", "\\`", "\\\n", "\\a", "\\ "):
                body += t
            else:
                body += "".join(c for c in t if c not in "\"$`\\")
        return "\"" + body + "\""

    def ansi():
        body = ""
        for _ in range(rng.randint(0, 4)):
            body += rng.choice(["a", "b", " ", "\"", "$", "`", "\n", "é", "\\\\", "\\'", "\\\"", "\\n", "\\t",
                                "\\a", "\\b", "\\e", "\\E", "\\f", "\\r", "\\v", "\\?", "\\101", "\\x41", "\\x4g",
                                "\\1", "\\12", "\\q", "\\z", "\\-", "\\ ", "\\0101", "\\x7e", "\\x411", "\\1012"])
        return "$'" + body + "'"

    def bare():
        return "".join(rng.choice(FRAG_SAFE) for _ in range(rng.randint(1, 4)))

    def value():
        r = rng.random()
        if r < 0.08:
            return ""
        parts = [rng.choice([sq, dq, ansi, bare])() for _ in range(1 if r < 0.7 else rng.randint(2, 3))]
        return "".join(parts)

    def arr():
        n = rng.choice([0, 1, 2, 3])
        idx = list(range(n))
        if n and rng.random() < 0.3:
            idx = rng.sample(range(12), n)
            if rng.random() < 0.3:
                idx[-1] = idx[0]
        sep = rng.choice([" ", " ", "  ", "\n", " \t"])
        inner = sep.join(f"[{i}]={value()}" for i in idx)
        if rng.random() < 0.2:
            inner = " " + inner + " "
        return "(" + inner + ")"

    names = rng.sample(NAMES, rng.randint(1, 4))
    lines, cur, exp = [], [], rng.random() < 0.5
    for k in names:
        cur.append(f"{k}=" + (arr() if rng.random() < 0.3 else value()))
        if rng.random() < 0.35:
            lines.append((exp, cur))
            cur, exp = [], rng.random() < 0.5
    if cur:
        lines.append((exp, cur))
    out = []
    for exp, words in lines:
        sep = rng.choice([" ", " ", " ", "  ", "\t"])
        ln = (("export" + sep) if exp else "") + sep.join(words)
        if rng.random() < 0.15:
            ln = " " + ln + " "
        out.append(ln)
    text = "\n".join(out)
    if rng.random() < 0.15:
        text += "\n"
    if rng.random() < 0.1:
        text = "\n" + text
    return names, text


MALFORMED = ["A='x", "A=\"x", "A=$'x", "A=$x", "A=$(echo a)", "A=`echo a`", "A=1;B=2", "A=1 nosuchcmd_zz9",
             "A=(a b)", "export", "A+=x", "A=a\\ b", "A=*", "A=~", "A=x#y", "A=[0]", "A=$'\\u00e9'", "A=$'\\cA'",
             "A=$'a\\0b'", "A=$'\\xe9'", "A=$'\\351'", "A=\"$B\"", "A=\"`echo a`\"", "A=([00]=a)", "A=([1+1]=a)",
             "export A", "export -n A=1", "A=1 export B=2", "A=$", "A=a$", "1A=b", "A =b", "A= b", "A=(\"x\")",
             "A=x)", "A=(x", "A=$\"x\"", "A='a'\\''b'", "A=a&", "A=a|b", "A=<x", "A={a,b}", "A=!x", "A=x\\"]


# ----------------------------------------------------------------------------- real daemon
class Timeout(Exception):
    pass


def _alarm(signum, frame):
    raise Timeout()


class Daemon:
    """one real EbuildProcessor; every call is guarded by an alarm so a desynchronised channel
    cannot hang the check"""

    def __init__(self, chk):
        self.chk = chk
        self.ebp = None
        self.devnull = open(os.devnull, "w")
        self.starts = 0

    def start(self):
        from pkgcore.ebuild import processor as P
        self.starts += 1
        old = signal.signal(signal.SIGALRM, _alarm)
        signal.setitimer(signal.ITIMER_REAL, 240)
        try:
            self.ebp = P.EbuildProcessor(False, False, fd_pipes={1: self.devnull.fileno(), 2: self.devnull.fileno()})
        finally:
            signal.setitimer(signal.ITIMER_REAL, 0)
            signal.signal(signal.SIGALRM, old)
        return self.ebp

    def stop(self, force=False):
        ebp, self.ebp = self.ebp, None
        if ebp is None:
            return
        try:
            if force:
                ebp.shutdown_processor(force=True)   # killpg of the group of the daemon we started
            else:
                self.guard(15, ebp.shutdown_processor)
        except BaseException:  # noqa: BLE001
            try:
                ebp.shutdown_processor(force=True)
            except BaseException:  # noqa: BLE001
                pass

    def guard(self, secs, fn, *a, **kw):
        old = signal.signal(signal.SIGALRM, _alarm)
        signal.setitimer(signal.ITIMER_REAL, secs)
        try:
            return fn(*a, **kw)
        finally:
            signal.setitimer(signal.ITIMER_REAL, 0)
            signal.signal(signal.SIGALRM, old)

    def _eval(self, code):
        """run our own bash through the (ASCII) inline channel"""
        self.ebp.write(f"start_receiving_env bytes {len(code.encode())}\n{code}", append_newline=False)
        return self.ebp.expect("env_received", flush=True)

    def open_session(self):
        def f():
            self.ebp.write("process_ebuild verif_c31")
            return True
        return self._guarded(f)

    def close_session(self):
        """leave the phase loop; the main loop must answer"""
        def f():
            self.ebp.write("shutdown_daemon")
            if self.ebp.read().strip() != "phases succeeded":
                return Err("desync-end")
            if not self.ebp.is_responsive:
                return Err("desync-mainloop")
            return True
        return self._guarded(f)

    def _guarded(self, f, secs=90):
        try:
            return self.guard(secs, f)
        except Timeout:
            return Err("timeout")
        except BaseException as e:  # noqa: BLE001
            return Err("exception-" + type(e).__name__)

    def transfer_slow(self, env, via_file, dumpfile):
        return self.transfer(env, via_file, dumpfile, secs=150)

    def transfer(self, env, via_file, dumpfile, secs=90):
        """inside a session: send_env; dump; alive; unset.  Returns state | Err(what)."""
        ebp = self.ebp
        names = [k for k in env if k != MARKER]
        tmpdir = None
        if via_file:
            tmpdir = str(self.chk.scratch / "xfer")
            os.makedirs(tmpdir, exist_ok=True)

        def steps():
            if not ebp.send_env(env, tmpdir=tmpdir):
                return Err("send_env-refused")
            if not self._eval("{ " + dump_code(names) + "; } > " + str(dumpfile)):
                return Err("desync-after-transfer")
            ebp.write("alive")
            if not ebp.expect("yep!", flush=True):
                return Err("desync-alive")
            if names and not self._eval("unset -v " + " ".join(names)):
                return Err("desync-unset")
            return None

        if dumpfile.exists():
            dumpfile.unlink()
        r = self._guarded(steps, secs)
        if r is not None:
            return r
        toks = dumpfile.read_bytes().split(b"\0")
        state, _ = parse_dump(toks, 0)
        return state


# ----------------------------------------------------------------------------- main
def make_proc(ro, P):
    proc = P.EbuildProcessor.__new__(P.EbuildProcessor)
    proc._readonly_vars = frozenset(ro)
    return proc


def is_nontrivial(env):
    for k, v in env.items():
        if k == MARKER:
            continue
        if isinstance(v, str) and "'" in v:
            return True
        if isinstance(v, (list, tuple)) and any(isinstance(x, str) and any(c in x for c in "\"$`\\") for x in v):
            return True
    return False


def key_of(env, ro):
    return repr((sorted(env.items(), key=lambda kv: kv[0]), ro))


def main(chk: Check):
    from pkgcore.ebuild import processor as P

    rng = chk.rng
    chk.rule("random environments over a token alphabet of every shell-special character, escape-looking "
             "sequences (\\n \\x41 \\\\), $(..)/`..`/${..}, control and non-ASCII text, lists/tuples, the "
             "non-exported marker with assorted whitespace, readonly names; separate malformed stream (bad "
             "first character, empty key, wrong types, NUL); non-trivial = an environment with a scalar "
             "that needs the $'..' form or a list element containing \" $ ` or \\")
    t_start = time.time()
    ok = chk.build(["C31/Prop_C31.vo"])
    if ok:
        chk.check_assumptions("C31/Prop_C31.v")
    chk.lint(["C31"])
    chk.check_fingerprint(ANCHORS)
    if os.environ.get("VERIF_C31_NO_ESCALATE") == "1" and chk.fingerprint_changed:
        # self-test knob (notes/C31.md): keep quick budgets for seeded mutations on a loaded machine
        chk.fingerprint_changed = False
        chk.note("fingerprint changed; escalation suppressed by VERIF_C31_NO_ESCALATE=1")

    timing = chk.cov.setdefault("timing_s", {})
    tlast = [t_start]

    def lap(name):
        now = time.time()
        timing[name] = round(now - tlast[0], 2)
        tlast[0] = now

    lap("build+assumptions+lint")
    # ------------------------------------------------------------------ gen
    envs = []
    import json
    from .common import VERIF
    for f in sorted((VERIF / "corpus" / "C31").glob("*.json")):
        d = json.loads(f.read_text())
        envs.append(({k: (v if isinstance(v, str) else list(v)) for k, v in d["env"].items()}, d.get("ro", [])))
    n_valid, n_bad = chk.n(170, 2400), chk.n(45, 400)
    for _ in range(n_valid):
        envs.append(gen_env(rng))
    bad = [gen_bad_env(rng) for _ in range(n_bad)]
    gen_cases, gen_meta = [], []
    for env, ro in envs + bad:
        if not modelable(env):
            continue
        res = impl_call(lambda: make_proc(ro, P)._generate_env_str(env), kinds=KINDS)
        gen_cases.append((c_gen_input(env, ro), res))
        gen_meta.append((env, ro, res))
        if is_nontrivial(env) and not isinstance(res, Err):
            chk.nontrivial(key_of(env, ro))
    chk.count("gen", len(gen_cases))
    errs = {}
    for _, _, r in gen_meta:
        if isinstance(r, Err):
            errs[r.kind] = errs.get(r.kind, 0) + 1
    chk.cov["gen_error_kinds"] = errs
    for env, ro, res in gen_meta[3:6]:
        chk.sample({"stream": "gen", "env": env, "readonly": ro, "impl": res})

    lap("gen")
    # ------------------------------------------------------------------ frame
    frame_cases, frame_meta = [], []
    xdir = chk.scratch / "framefile"
    xdir.mkdir(exist_ok=True)
    for env, ro, res in gen_meta[: chk.n(40, 500)]:
        if isinstance(res, Err):
            continue

        def wire(tmpdir):
            proc = make_proc(ro, P)
            buf = io.BytesIO()
            proc.ebd_write = io.TextIOWrapper(buf, encoding="utf-8")
            proc.expect = lambda *a, **k: True
            proc.send_env(env, tmpdir=tmpdir)
            proc.ebd_write.flush()
            return buf.getvalue()

        try:
            w1 = wire(None)
            w2 = wire(str(xdir))
            path = os.path.join(str(xdir), "ebd-env-transfer")
            with open(path, "rb") as fh:
                data = fh.read()
            rec = [w1, w2, data]
        except Exception as e:  # noqa: BLE001
            rec = Err(type(e).__name__)
            path = os.path.join(str(xdir), "ebd-env-transfer")
        frame_cases.append((cpair(cstr(res), cstr(path)), rec))
        frame_meta.append((env, ro, res))
    chk.count("frame", len(frame_cases))

    lap("frame")
    # ------------------------------------------------------------------ bash (real bash vs bash_eval)
    bash_in = []
    for env, ro, res in gen_meta:
        if isinstance(res, Err) or "\x00" in res:
            continue
        bash_in.append(([k for k in env if k != MARKER and in_domain({k: ""})], res,
                        "impl" if in_domain(env) else "impl-offdomain"))
    bash_in = bash_in[: chk.n(110, 1800)]
    for _ in range(chk.n(130, 1800)):
        names, text = gen_fragment_text(rng)
        bash_in.append((names, text, "hand"))
    for t in MALFORMED:
        bash_in.append((["A", "B"], t, "malformed"))
    real = run_real_bash(chk, [(n, t) for n, t, _ in bash_in],
                         subshell={i for i, b in enumerate(bash_in) if b[2] == "malformed"})
    bash_cases = [(cpair(clist([cstr(k) for k in n], "str"), cstr(t)), r) for (n, t, _), r in zip(bash_in, real)]
    chk.count("bash", len(bash_cases))
    chk.cov["bash_real_errors"] = sum(1 for r in real if isinstance(r, Err))
    chk.sample({"stream": "bash", "text": bash_in[-len(MALFORMED) - 1][1], "real_bash": real[-len(MALFORMED) - 1]})

    lap("bash")
    # ------------------------------------------------------------------ e2e (real daemon)
    e2e_cases, e2e_meta, py_bad = [], [], []
    dro = []
    n_e2e = chk.n(36, 300)
    dm = Daemon(chk)
    e2e_note = None
    try:
        t0 = time.time()
        ebp = dm.start()
        chk.cov["daemon_start_s"] = round(time.time() - t0, 2)
        chk.cov["daemon_locale_env"] = sorted(
            x.split(b"=")[0].decode() for x in open(f"/proc/{ebp.pid}/environ", "rb").read().split(b"\0")
            if x.startswith((b"LC_", b"LANG")))
    except BaseException as e:  # noqa: BLE001
        e2e_note = f"daemon could not be started: {type(e).__name__}: {e}"
        dm.ebp = None
    if dm.ebp is not None:
        dro = sorted(dm.ebp._readonly_vars)
        pool = [(env, ro) for env, ro, res in gen_meta if not isinstance(res, Err) and in_domain(env)]
        # fixed probes first: the shapes of the three repaired defects, an empty environment
        probes = [({"A": "it's a \\n b"}, []), ({"L": ["q\"$(echo INJ)", "a`b`", "c\\"]}, []),
                  ({"A": "é", "B": "x€y'z"}, []), ({}, []), ({"A": "", "L": []}, []),
                  ({"A": "x y", "B": "v", MARKER: "B"}, [])]
        todo = probes + [pool[i] for i in sorted(rng.sample(range(len(pool)), min(len(pool), n_e2e)))]
        failures = 0
        per_session = 25
        in_session = 0
        for j, (env, _ro) in enumerate(todo):
            env = {k: v for k, v in env.items() if k not in dro}
            via_file = (j % 2 == 1)
            if in_session == 0:
                dm.open_session()
            r = dm.transfer(env, via_file, chk.scratch / "dump.bin")
            if r == Err("timeout"):
                # a loaded machine can be slow; a desynchronised channel stays blocked: retry once,
                # alone in a fresh daemon, with a much longer limit
                chk.cov["e2e_timeout_retries"] = chk.cov.get("e2e_timeout_retries", 0) + 1
                dm.stop(force=True)
                try:
                    dm.start()
                    dm.open_session()
                    in_session = 0
                    r = dm.transfer_slow(env, via_file, chk.scratch / "dump.bin")
                except BaseException as e:  # noqa: BLE001
                    r = Err("restart-failed-" + type(e).__name__)
            in_session += 1
            if not isinstance(r, Err) and (in_session >= per_session or j == len(todo) - 1):
                c = dm.close_session()      # the main loop must still be in step
                in_session = 0
                if isinstance(c, Err):
                    r = c
            e2e_cases.append((c_gen_input(env, dro), r))
            e2e_meta.append((env, via_file, r))
            want = expected_state(env, dro)
            if r != want:
                py_bad.append({"env": env, "via_file": via_file, "daemon_state": r, "expected": want})
            if is_nontrivial(env):
                chk.nontrivial("e2e" + key_of(env, via_file))
            if isinstance(r, Err):
                failures += 1
                in_session = 0
                dm.stop(force=True)
                if failures >= 3:
                    e2e_note = "e2e stream stopped after 3 failed transfers"
                    break
                try:
                    dm.start()
                except BaseException as e:  # noqa: BLE001
                    e2e_note = f"daemon could not be restarted: {type(e).__name__}"
                    break
        dm.stop()
    dm.devnull.close()
    chk.count("e2e", len(e2e_cases))
    chk.cov["e2e_via_file"] = sum(1 for _, f, _ in e2e_meta if f)
    if e2e_note:
        chk.note(e2e_note)
    if e2e_meta:
        chk.sample({"stream": "e2e", "env": e2e_meta[0][0], "daemon_state": e2e_meta[0][2]})

    lap("e2e")
    # ------------------------------------------------------------------ evaluate inside Coq
    found_input = bool(py_bad)
    spec_bad = {"gen": [], "frame": [], "e2e": []}
    model_bad = {}
    if ok:
        import concurrent.futures as cf
        jobs = {
            "gen": ("gen_input", gen_cases,
                    ["mismatches run_gen cases", "where_ (fun i r => negb (spec_gen_ok i r)) cases"], 220),
            "frame": ("str * str", frame_cases,
                      ["mismatches run_frame2 cases", "where_ (fun i r => negb (spec_frame_val i r)) cases"], 60),
            "bash": ("list str * str", bash_cases, ["where_ bash_differs cases", "where_ bash_outside cases"], 150),
        }
        if e2e_cases:
            jobs["e2e"] = ("gen_input", e2e_cases,
                           ["mismatches run_e2e cases", "where_ (fun i r => negb (spec_e2e_ok i r)) cases"], 120)
        with cf.ThreadPoolExecutor(max_workers=4) as ex:
            futs = {name: ex.submit(chk.coq_eval, name, IMPORTS, ty, cases, evals, shard)
                    for name, (ty, cases, evals, shard) in jobs.items()}
            results = {name: f.result() for name, f in futs.items()}
        for name in ("gen", "frame", "e2e"):
            r = results.get(name)
            if r is not None:
                model_bad[name] = r[0]
                spec_bad[name] = r[1]
        r = results.get("bash")
        if r is not None:
            model_bad["bash"] = r[0]
            outside = set(r[1])
            chk.cov["bash_model_inside_fragment"] = len(bash_cases) - len(outside)
            # every text the implementation generated for a domain environment must be inside the fragment
            gen_out = [i for i in outside if bash_in[i][2] == "impl"]
            chk.cov["bash_impl_texts_outside_fragment"] = len(gen_out)
            hand_in = sum(1 for i, b in enumerate(bash_in) if b[2] == "hand" and i not in outside)
            chk.cov["bash_hand_texts_inside_fragment"] = hand_in

    lap("coq_eval")
    # ------------------------------------------------------------------ report
    # (B) property failures with a concrete input
    for b in py_bad[:3]:
        if not isinstance(b["daemon_state"], Err):      # reduce to the keys that matter (real-bash oracle)
            small = shrink_env(b["env"], dro, P, chk)
            if small is not b["env"]:
                b = {"env": small, "via_file": b["via_file"], "shrunk_from_keys": sorted(b["env"]),
                     "daemon_state_for_all_keys": b["daemon_state"], "expected": expected_state(small, dro)}
        chk.violation("property", {"what": "the daemon's variables after send_env are not the environment sent "
                                           "(or the channel lost synchronisation)", "input": b})
    for i in spec_bad["gen"][:3]:
        env, ro, res = gen_meta[i]
        found_input = True
        chk.violation("property", {"what": "the generated text, evaluated by the bash model, does not leave the "
                                           "variables the statement demands (Spec_C31.spec_gen_ok)",
                                   "input": {"env": shrink_env(env, ro, P, chk), "readonly": ro},
                                   "implementation": res})
    for i in spec_bad["frame"][:3]:
        env, ro, res = frame_meta[i]
        found_input = True
        chk.violation("property", {"what": "the bytes written by send_env are not consumed exactly by the daemon's "
                                           "reader (Spec_C31.spec_frame_val): the channel loses synchronisation",
                                   "input": {"env": env, "readonly": ro}, "wire": frame_cases[i][1]})
    if not py_bad:
        for i in spec_bad["e2e"][:3]:
            found_input = True
            chk.violation("property", {"what": "Spec_C31.spec_e2e_ok rejects the real daemon's state",
                                       "input": {"env": e2e_meta[i][0], "via_file": e2e_meta[i][1]},
                                       "daemon_state": e2e_meta[i][2]})
    # (A) correspondence
    for name, meta in (("gen", gen_meta), ("frame", frame_meta), ("e2e", e2e_meta)):
        for i in model_bad.get(name, [])[:3]:
            chk.violation("correspondence",
                          {"what": f"implementation and Model_C31 disagree on stream '{name}' (the theorems of "
                                   "Prop_C31 no longer speak about this code)",
                           "input": meta[i][0], "implementation": meta[i][-1]},
                          no_input=not found_input)
    for i in model_bad.get("bash", [])[:3]:
        chk.violation("correspondence",
                      {"what": "real bash and Model_C31.bash_eval disagree on a text inside the modelled fragment",
                       "text": bash_in[i][1], "names": bash_in[i][0], "origin": bash_in[i][2], "real_bash": real[i]},
                      no_input=not found_input)
    if chk.cov.get("bash_impl_texts_outside_fragment"):
        chk.violation("correspondence",
                      {"what": "the implementation generated text outside the fragment the bash model covers",
                       "count": chk.cov["bash_impl_texts_outside_fragment"]}, no_input=not found_input)
    if e2e_note and not e2e_cases:
        chk.violation("correspondence", {"what": e2e_note}, no_input=True)


def shrink_env(env, ro, P, chk=None):
    """smallest sub-environment whose generated text, evaluated by REAL bash, still differs from
    the expected state; falls back to the full environment"""
    if chk is None:
        return env

    def fails(items):
        e = dict(items)
        text = impl_call(lambda: make_proc(ro, P)._generate_env_str(e), kinds=KINDS)
        if isinstance(text, Err) or "\x00" in text or not in_domain(e):
            return False
        names = [k for k in e if k != MARKER]
        return run_real_bash(chk, [(names, text)], subshell={0})[0] != expected_state(e, ro)

    try:
        items = list(env.items())
        if not fails(items):
            return env
        return dict(shrink_list(items, fails, min_len=1))
    except Exception:  # noqa: BLE001
        return env


def replay(chk, data):
    from pkgcore.ebuild import processor as P
    inp = data.get("detail", {}).get("input", {})
    env = inp.get("env", inp)
    ro = inp.get("readonly", [])
    env = {k: (v if isinstance(v, str) else list(v)) for k, v in env.items()}
    res = impl_call(lambda: make_proc(ro, P)._generate_env_str(env), kinds=KINDS)
    print("implementation _generate_env_str:", repr(res))
    if not isinstance(res, Err):
        names = [k for k in env if k != MARKER]
        print("real bash state:", run_real_bash(chk, [(names, res)])[0])
    print("expected (statement):", expected_state(env, ro))
    r = chk.coq_eval("replay", IMPORTS, "gen_input", [(c_gen_input(env, ro), res)],
                     ["mismatches run_gen cases", "where_ (fun i r => negb (spec_gen_ok i r)) cases"])
    print("model disagrees:", r and r[0], " spec rejects:", r and r[1])
