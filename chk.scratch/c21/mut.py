import subprocess, sys, os, json
WT = os.environ.get("MUT_WT", "/tmp/wt_C21")
F = WT + "/src/pkgcore/ebuild/triggers.py"
MUTS = {
 "M1-offbyone": ("                    count = max(count, cfg_count + 1)\n", "                    count = max(count, cfg_count)\n"),
 "M2-single-mask-not-negated": ('r2 = values.StrGlobMatch(normpath(neg[0]).rstrip("/") + "/", negate=True)', 'r2 = values.StrGlobMatch(normpath(neg[0]).rstrip("/") + "/")'),
 "M3-restore-drops-real-name": ("            install_cset.add(old_entry)\n", "            pass\n"),
 "M4-uninstall-inverted": ("                    if not simple_chksum_compare(recorded_ent, x):\n", "                    if simple_chksum_compare(recorded_ent, x):\n"),
 "M5-strip-offset-no-rstrip": ("    return location[len(offset.rstrip(os.path.sep)) :]\n", "    return location[len(offset) :] if offset != os.path.sep else location\n"),
 "M6-break-becomes-continue": ("                        count = cfg_count\n                        break\n", "                        count = cfg_count\n                        continue\n"),
 "M7-harmless-refactor": ("""                    protected.setdefault(os.path.dirname(x.location), []).append(
                        (os.path.basename(replacement.location), replacement)
                    )
""", """                    dir_name, base_name = os.path.split(replacement.location)
                    bucket = protected.get(dir_name)
                    if bucket is None:
                        bucket = protected[dir_name] = []
                    bucket.append((base_name, replacement))
"""),
 "M8-chksum-mismatch-ignored": ("            if o != v:\n                return False\n", "            if o != v:\n                found = True\n"),
 "M9-ignore-filter-search": ("        values.StrRegex(fnmatch.translate(x), match=True)\n        for x in stable_unique(ignored)", "        values.StrRegex(fnmatch.translate(x))\n        for x in stable_unique(ignored)"),
}
which = sys.argv[1:] or list(MUTS)
for name in which:
    old, new = MUTS[name]
    src = open(F).read()
    assert src.count(old) == 1, (name, src.count(old))
    open(F, "w").write(src.replace(old, new))
    try:
        r = subprocess.run(["./check", "C21"], cwd="/verif", env=dict(os.environ, VERIF_REPO=WT), capture_output=True, text=True)
        kinds = []
        for ln in r.stdout.splitlines():
            if ln.startswith("VIOLATION"):
                p = ln.split("replay=")[1].split()[0]
                d = json.load(open(p))
                kinds.append(d["kind"] + ": " + str(d["detail"].get("what"))[:90])
        print(name, "exit", r.returncode, "|", r.stdout.strip().splitlines()[-1], flush=True)
        for k in kinds[:3]:
            print("    ", k, flush=True)
    finally:
        open(F, "w").write(src)
