(* Spec_C16.v — what the ordering functions must deliver, stated without the algorithms.

   * a stream is [desc]ending when no element is smaller than a later one;
   * a sorter is a [stable_sorter] when its result is a descending permutation of its input that
     keeps elements that compare equal in their original order;
   * "highest first": the head of the upgrade strategy's candidate stream is not smaller than any
     candidate in version order, and among candidates of equal version an installed one comes first;
   * "reuse first": in the minimal-install strategy's stream every installed candidate precedes every
     other candidate; in particular the head is installed whenever some installed package matches. *)
From Coq Require Import List NArith ZArith Bool Permutation.
Import ListNotations.
From Verif Require Import Base.Val C01.Model_C01 C16.Model_C16.

Section Order.
  Context {A : Type}.
  Variable lt : A -> A -> bool.
  Definition ge (x y : A) : Prop := lt x y = false.            (* x is not smaller than y *)
  Definition eqvb (x y : A) : bool := negb (lt x y) && negb (lt y x).
  Fixpoint desc (l : list A) : Prop :=
    match l with [] => True | x :: l' => Forall (ge x) l' /\ desc l' end.

  (* total preorder, relative to a domain (for packages: valid versions) *)
  Definition preorder_on (dom : A -> Prop) : Prop :=
    (forall x y, dom x -> dom y -> lt x y = true -> lt y x = false)
    /\ (forall x y z, dom x -> dom y -> dom z -> ge x y -> ge y z -> ge x z).

  Definition stable_sorter (dom : A -> Prop) (s : list A -> list A) : Prop :=
    forall l, Forall dom l ->
      Permutation (s l) l /\ desc (s l) /\ forall x, dom x -> filter (eqvb x) (s l) = filter (eqvb x) l.
End Order.

(* candidates offered to a strategy = the matching packages of all repositories *)
Definition offered (dbs : list repo) : list cand :=
  flat_map (fun r => map fst (filter snd (snd r))) dbs.
Definition cvalid (c : cand) : Prop := valid_version_core (ver (cc c)) = true.
Definition repo_ok (r : repo) : Prop :=           (* a repository is installed or not, as a whole *)
  Forall (fun e => clive (fst e) = fst r /\ cvalid (fst e)) (snd r).

(* boolean acceptors evaluated on the IMPLEMENTATION's recorded stream (comparison B) *)
Fixpoint find_tag (t : N) (l : list cand) : option cand :=
  match l with [] => None | c :: l' => if N.eqb (ctag c) t then Some c else find_tag t l' end.
Definition dec_stream (pool : list cand) (v : val) : option (list cand) :=
  match v with
  | VL l => fold_right (fun e acc => match e, acc with
                                     | VZ z, Some r => match find_tag (Z.to_N z) pool with
                                                       | Some c => Some (c :: r) | None => None end
                                     | _, _ => None end) (Some []) l
  | _ => None
  end.
Fixpoint descb (lt : cand -> cand -> bool) (l : list cand) : bool :=
  match l with [] => true | x :: l' => forallb (fun y => negb (lt x y)) l' && descb lt l' end.
Fixpoint live_prefixb (seen_other : bool) (l : list cand) : bool :=
  match l with
  | [] => true
  | c :: l' => if clive c then negb seen_other && live_prefixb seen_other l' else live_prefixb true l'
  end.
Definition same_tags (a b : list cand) : bool :=
  let ta := map ctag a in let tb := map ctag b in
  forallb (fun t => existsb (N.eqb t) tb) ta && forallb (fun t => existsb (N.eqb t) ta) tb
  && Nat.eqb (length ta) (length tb).
(* the strategy's recorded stream: a rearrangement of the offered candidates; upgrade: descending
   for highest-first order; minimal install: installed candidates first, each part descending *)
Definition spec_strategy_ok (i : N * list repo) (res : val) : bool :=
  let '(k, dbs) := i in
  match dec_stream (offered dbs) res with
  | None => false
  | Some l =>
      same_tags l (offered dbs) &&
      match k with
      | 0%N => descb lt_highest l
      | _ => live_prefixb false l && descb lt_highest (filter clive l)
             && descb lt_highest (filter (fun c => negb (clive c)) l)
      end
  end.
