import sys, collections, json, random
sys.path.insert(0, "/verif")
from harness.common import Check, Err
from harness import c34
chk = Check("C34")
chk.rng = random.Random(int(sys.argv[1]))
cases = c34.build_cases(chk, int(sys.argv[2]), int(sys.argv[4]) if len(sys.argv)>4 else 2, float(sys.argv[3]))
cnt = collections.Counter(); planted = collections.Counter(); unc = []
ex = {}
for c in cases:
    c34.pick_filters(chk.rng, c)
    c.data = "".join(t for _,_,t in c.chunks)
    c.impl = c34.run_impl(c.data, c.vars, c.funcs, c.vwl, c.fwl)
    for v in c.trig.values(): planted[v]+=1
    if c.impl != c34.expected_text(c):
        k = c34.finding_class(c)
        cnt[k]+=1
        if k is None: unc.append(c)
        elif k not in ex or len(c.data) < len(ex[k]["data"]):
            ex[k] = {"data": c.data, "vars": c.vars, "funcs": c.funcs, "vars_is_whitelist": c.vwl, "funcs_is_whitelist": c.fwl, "impl": c.impl if not isinstance(c.impl, Err) else repr(c.impl)}
print("planted", dict(planted)); print("failing by class", dict(cnt))
json.dump(ex, open("/verif/chk.scratch/c34/examples.json","w"), indent=1)
unc.sort(key=lambda c: len(c.data))
for c in unc[:3]:
    print("==== UNCLASSIFIED", c.vars, c.funcs, c.vwl, c.fwl, c.trig); print(c.data); print(repr(c.impl)[-300:])
import shutil; shutil.rmtree(chk.scratch, ignore_errors=True)
