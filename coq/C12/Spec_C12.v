(* Spec_C12.v — the statement of C12, written from the meaning of the tokens, not from the code.

   A token stream is read left to right.  Each token says, for every string x, whether it
   makes x a member ([adds]), removes it ([dels]) or leaves it alone.  The expansion of a
   stream over an original set is
     * the left fold of these per-token meanings over membership predicates ([sem_fold]), and
       equivalently
     * "last writer wins" ([last_writer] / [survives]): x is a member iff the last token that
       mentions x adds it, or no token mentions x and x was in the original set.
   Incomplete tokens ("", "-", and for licenses "-@", "@") have no meaning: the stream is rejected. *)
From Coq Require Import List NArith ZArith Bool.
Import ListNotations.
From Verif Require Import Base.Val C12.Model_C12.

Definition positive (x : str) : bool :=
  match x with c :: _ => negb (N.eqb c DASH) | [] => false end.
Definition CLEAR : str := [DASH; STAR].

(* ---------------------------------------------------------------- USE/FEATURES-like streams *)
(* well-formed token: not empty, not a bare "-" *)
Definition wf (t : str) : bool := negb (is_nil t) && negb (str_eqb t [DASH]).

(* [fin] = finalize: negations are consumed; with finalize off the negation token itself is
   kept in the set as a marker (and a positive token removes its marker). *)
Definition adds (fin : bool) (t x : str) : bool :=
  str_eqb t x && (positive t || negb fin).
Definition dels (fin : bool) (t x : str) : bool :=
  negb (adds fin t x)
  && (if positive t then str_eqb x (DASH :: t)          (* x removes the marker -x *)
      else str_eqb t CLEAR || str_eqb t (DASH :: x)).   (* -* removes everything, -x removes x *)

(* ---------------------------------------------------------------- ACCEPT_LICENSE streams *)
Definition wf_license (t : str) : bool :=
  wf t && negb (str_eqb t [DASH; AT]) && negb (str_eqb t [AT]).

Definition lic_adds (lics : list str) (groups : list (str * list str)) (t x : str) : bool :=
  match t with
  | [] => false
  | c :: i =>
      if N.eqb c DASH then false
      else if N.eqb c AT then mem x (lookup i groups)     (* @group: its members *)
      else if str_eqb t [STAR] then mem x lics            (* *: every license of the package *)
      else str_eqb t x
  end.
Definition lic_dels (lics : list str) (groups : list (str * list str)) (t x : str) : bool :=
  match t with
  | c :: (d :: g) as i =>
      N.eqb c DASH
      && (str_eqb i [STAR]                                (* -* *)
          || (if N.eqb d AT then mem x (lookup g groups)  (* -@group *)
              else str_eqb i x))                          (* -x *)
  | _ => false
  end.

(* ---------------------------------------------------------------- the two readings *)
Section Reading.
  Variable A D : str -> str -> bool.     (* adds, dels *)

  (* left fold over membership predicates *)
  Definition sem_step (t : str) (S : str -> bool) : str -> bool :=
    fun x => A t x || (S x && negb (D t x)).
  Definition sem_fold (ts : list str) (S : str -> bool) : str -> bool :=
    fold_left (fun S t => sem_step t S) ts S.

  (* last writer wins; [rs] is the stream REVERSED (head = last token) and [b] says whether x
     was in the original set *)
  Fixpoint last_writer (rs : list str) (x : str) (b : bool) : bool :=
    match rs with
    | [] => b
    | t :: r => if A t x then true else if D t x then false else last_writer r x b
    end.

  (* the same, stated with positions *)
  Definition survives (ts : list str) (orig : list str) (x : str) : Prop :=
    (exists l1 t l2, ts = l1 ++ t :: l2 /\ A t x = true /\ forall u, In u l2 -> D u x = false)
    \/ (In x orig /\ forall u, In u ts -> D u x = false).
End Reading.

Definition same_set (a b : list str) : Prop := forall x, In x a <-> In x b.

(* the tokens of a stream that the USE_EXPAND wildcard rule of the chunk consumer would treat
   specially ("-prefix_*"); they are outside C12's quantifier (they belong to C11) *)
Definition glob_neg (t : str) : bool :=
  match t with c :: i => N.eqb c DASH && ends_us_star i | [] => false end.

(* ---------------------------------------------------------------- rejected streams *)
Definition bad_inc (t : str) : option err :=
  if is_nil t then Some EIndex else if str_eqb t [DASH] then Some EBareNeg else None.
Definition bad_license (t : str) : option err :=
  if is_nil t then Some EIndex else if str_eqb t [DASH] then Some EBareNeg
  else if str_eqb t [DASH; AT] then Some EBareNegGroup
  else if str_eqb t [AT] then Some EBareGroup else None.
Fixpoint first_bad (k : str -> option err) (ts : list str) : option err :=
  match ts with
  | [] => None
  | t :: r => match k t with Some e => Some e | None => first_bad k r end
  end.

(* ---------------------------------------------------------------- acceptors for comparison (B):
   evaluated inside Coq on the IMPLEMENTATION's recorded result *)
Definition dec_set (v : val) : option (list str) :=
  match v with
  | VL l => Some (map (fun e => match e with VS s => s | _ => [] end) l)
  | _ => None
  end.
Definition set_eqb (a b : list str) : bool :=
  forallb (fun x => mem x b) a && forallb (fun x => mem x a) b.

(* expected members among a finite universe of candidates *)
Definition expected (A D : str -> str -> bool) (ts orig univ : list str) : list str :=
  filter (fun x => last_writer A D (rev ts) x (mem x orig)) univ.

Definition spec_expand_ok (i : bool * list str * list str) (r : val) : bool :=
  let '(fin, orig, ts) := i in
  match first_bad bad_inc ts with
  | Some e => val_eqb r (enc_err e)
  | None => match dec_set r with
            | Some s => set_eqb s (expected (adds fin) (dels fin) ts orig (orig ++ ts))
            | None => false
            end
  end.

(* the stored condensed set, consumed as domain.enabled_use consumes it, must give every
   flag (string not starting with "-") the membership the stream gives it *)
Definition spec_consume_ok (i : list str * list str) (r : val) : bool :=
  let '(ts, orig) := i in
  if existsb is_nil ts then true else        (* "" is not a token str.split() can produce: no claim *)
  match first_bad bad_inc ts with
  | Some _ => match r with VErr _ => true | _ => false end
  | None =>
      if existsb glob_neg ts then true else
      match dec_set r with
      | Some s => set_eqb (filter positive s)
                          (filter positive (expected (adds true) (dels true) ts orig (orig ++ ts)))
      | None => false
      end
  end.

Definition spec_license_ok (i : list str * list (str * list str) * list str) (r : val) : bool :=
  let '(lics, groups, ts) := i in
  match first_bad bad_license ts with
  | Some e => val_eqb r (enc_err e)
  | None => match dec_set r with
            | Some s => set_eqb s (expected (lic_adds lics groups) (lic_dels lics groups) ts []
                                            (lics ++ concat (map snd groups) ++ ts))
            | None => false
            end
  end.

(* pull_data must equal the plain expansion of the stream iter_pull_data yields *)
Definition spec_pull_ok (i : bool * list source * list str) (r : val) : bool :=
  let '(fd, srcs, pre) := i in
  match pull_stream fd srcs pre with
  | None => match r with VErr _ => true | _ => false end
  | Some ts =>
      match first_bad bad_inc ts with
      | Some _ => match r with VErr _ => true | _ => false end
      | None => match dec_set r with
                | Some s => set_eqb s (expected (adds true) (dels true) ts [] ts)
                | None => false
                end
      end
  end.

(* what a (possibly nested) group denotes: x is a concrete member reachable from g through at most
   n-1 references; independent of the order in which the groups are defined *)
Definition is_ref (m : str) : bool := match m with c :: _ => N.eqb c AT | [] => false end.
Inductive reach (raw : list (str * list str)) : nat -> str -> str -> Prop :=
| reach_here n g x : In x (lookup g raw) -> is_ref x = false -> reach raw (S n) g x
| reach_ref n g h x : In (AT :: h) (lookup g raw) -> reach raw n h x -> reach raw (S n) g x.

(* the license filter: a package is accepted iff some alternative of its LICENSE consists only of
   licenses that the stream "ACCEPT_LICENSE tokens, then the tokens of the package.license
   entries matching THIS package" leaves accepted — independently of any earlier query *)
Definition accepted_by_stream (groups : list (str * list str)) (stream : list str)
           (alts : list (list str)) : bool :=
  existsb (fun alt => forallb (fun x => last_writer (lic_adds alt groups) (lic_dels alt groups)
                                                    (rev stream) x false) alt) alts.
Definition spec_licfilter_answer master (entries : list (list str)) groups (q : lic_query) : val :=
  let stream := master ++ concat (map snd (filter fst (combine (fst q) entries))) in
  match first_bad bad_license stream with
  | Some e => match snd q with [] => VB false | _ => enc_err e end
  | None => VB (accepted_by_stream groups stream (snd q))
  end.
Definition spec_licfilter_ok
           (i : list str * list (list str) * list (str * list str) * list lic_query) (r : val) : bool :=
  let '(master, entries, groups, qs) := i in
  if is_nil master && is_nil entries then val_eqb r (VL (map (fun _ => VB true) qs))   (* no filter *)
  else val_eqb r (VL (map (spec_licfilter_answer master entries groups) qs)).

Definition spec_case_ok (c : case_in) (r : val) : bool :=
  match c with
  | CExpand i => spec_expand_ok i r
  | COptimize ts =>                       (* a bare "-" must be rejected; nothing else may be *)
      if existsb is_nil ts then true
      else match first_bad bad_inc ts, r with
           | Some _, VErr _ => true
           | Some _, _ => false
           | None, VErr _ => false
           | None, _ => true
           end
  | CConsume i => spec_consume_ok i r
  | CLicense i => spec_license_ok i r
  | CPull i => spec_pull_ok i r
  | CNiPull _ => true
  | CLicFilter i => spec_licfilter_ok i r
  | CGroups _ => true
  end.
