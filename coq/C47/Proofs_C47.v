(* Proofs_C47.v — lemmas and proofs for C47 (see Prop_C47.v for the statements). *)
From Coq Require Import List NArith ZArith Bool Lia.
Import ListNotations.
From Verif Require Import Base.Val C18.Fs C18.FsLemmas C47.Model_C47 C47.Spec_C47.

(* ------------------------------------------------------------------ generic: runs and crashes *)
Lemma run_opt_app a b s :
  run_opt (a ++ b) s = match run_opt a s with Some s' => run_opt b s' | None => None end.
Proof.
  revert s; induction a as [|o r IH]; cbn; intro s; [reflexivity|].
  destruct (apply_step s o); [apply IH|reflexivity].
Qed.

Lemma run_opt_run l s s' : run_opt l s = Some s' -> run l s = s'.
Proof.
  revert s; induction l as [|o r IH]; cbn; intros s H; [congruence|].
  destruct (apply_step s o); [now apply IH|discriminate].
Qed.

Lemma crash_of_app a b s s' :
  crash_of (a ++ b) s s' ->
  crash_of a s s' \/ exists s1, run_opt a s = Some s1 /\ crash_of b s1 s'.
Proof.
  revert s; induction a as [|o r IH]; cbn; intros s H.
  - right. exists s. split; [reflexivity|exact H].
  - inversion H as [| ? ? ? ? Hm | ? ? ? s1 ? Ha Hc0]; subst.
    + left. constructor.
    + left. now apply crash_mid.
    + apply IH in Hc0 as [Hc|[s2 [Hr Hc]]].
      * left. eapply crash_later; eauto.
      * right. exists s2. rewrite Ha. split; assumption.
Qed.

(* an invariant preserved by every step of the list (completed or interrupted) holds in every
   crash state *)
Definition preserves (P : st -> Prop) (o : step) : Prop :=
  (forall s s1, P s -> apply_step s o = Some s1 -> P s1) /\
  (forall s s', P s -> mid_step s o s' -> P s').

Lemma crash_inv (P : st -> Prop) l :
  Forall (preserves P) l -> forall s s', P s -> crash_of l s s' -> P s'.
Proof.
  intros HF s s' HP Hc. induction Hc as [l s|o l s s' Hmid|o l s s1 s' Happ Hc IH].
  - exact HP.
  - inversion HF as [|? ? Ho Hl]; subst. destruct Ho as [_ Hm]. eapply Hm; eauto.
  - inversion HF as [|? ? Ho Hl]; subst. destruct Ho as [Ha _]. apply IH; [assumption|]. eapply Ha; eauto.
Qed.

Lemma run_opt_inv (P : st -> Prop) l :
  Forall (preserves P) l -> forall s s', P s -> run_opt l s = Some s' -> P s'.
Proof.
  intros HF. induction HF as [|o r Ho _ IH]; cbn; intros s s' HP H.
  - congruence.
  - destruct (apply_step s o) eqn:E; [|discriminate]. eapply IH; [|exact H]. destruct Ho as [Ha _]. eauto.
Qed.

(* ------------------------------------------------------------------ recoverable is closed *)
Lemma slot_ok_dir t : slot_ok (Some (SDir t)).
Proof. right. eauto. Qed.
Lemma slot_ok_none : slot_ok None.
Proof. now left. Qed.
#[local] Hint Resolve slot_ok_dir slot_ok_none : c47.

Lemma recoverable_set w v s : recoverable s -> slot_ok v -> recoverable (set w v s).
Proof. intros (Hb & Hu & Ho) Hv. destruct w; cbn; repeat split; assumption. Qed.

Lemma recoverable_get w s : recoverable s -> slot_ok (get w s).
Proof. intros (Hb & Hu & Ho). destruct w; assumption. Qed.

Lemma step_recoverable o : preserves recoverable o.
Proof.
  split.
  - intros s s1 HR H. destruct o; cbn in H.
    + destruct (tf s); inversion H; subst; exact HR.
    + destruct (get w s); inversion H; subst. apply recoverable_set; auto with c47.
    + destruct (get a s) as [[|t]|] eqn:Ea; try discriminate.
      assert (Hok : recoverable (set b (Some (SDir t)) (set a None s)))
        by (apply recoverable_set; [apply recoverable_set|]; auto with c47).
      destruct (get b s) as [[|t']|]; try discriminate.
      * destruct (is_empty_tree t'); inversion H; subst; exact Hok.
      * inversion H; subst; exact Hok.
    + destruct (get w s) as [[|t]|]; inversion H; subst; try exact HR.
      apply recoverable_set; auto with c47.
    + destruct (dl s); inversion H; subst; exact HR.
    + destruct (dl s); inversion H; subst; exact HR.
    + destruct (dl s); inversion H; subst; exact HR.
    + destruct (dl s); inversion H; subst; exact HR.
    + destruct (tf s); inversion H; subst; exact HR.
    + destruct (upd s) as [[|t0]|]; try discriminate.
      destruct (is_empty_tree t0); inversion H; subst.
      apply (recoverable_set Upd); auto with c47.
    + destruct (base s) as [[|t]|]; try discriminate.
      destruct (lookup t [name]) as [[]|]; inversion H; subst;
        apply (recoverable_set Base); auto with c47.
    + destruct (base s) as [[|t]|]; try discriminate.
      destruct (lookup t [name]) as [[]|]; inversion H; subst;
        apply (recoverable_set Base); auto with c47.
  - intros s s' HR H. destruct o; cbn in H; try contradiction.
    + destruct H as (ta & tb & _ & ->). apply recoverable_set; auto with c47.
    + destruct H as (ta & tb & _ & ->). apply (recoverable_set Upd); auto with c47.
Qed.

Lemma recoverable_fresh s : recoverable s -> recoverable (fresh s).
Proof. intros H; exact H. Qed.

Lemma crash_recoverable l s s' : recoverable s -> crash_of l s s' -> recoverable s'.
Proof.
  intros HR Hc. eapply crash_inv; [|exact HR|exact Hc].
  apply Forall_forall. intros o _. apply step_recoverable.
Qed.

(* ------------------------------------------------------------------ steps that leave the repository alone *)
Definition no_base (o : step) : bool :=
  match o with
  | CreateT | CreateDl | WriteDl _ | CommitDl | DiscardDl | UnlinkT | Extract _ _ => true
  | MkDir w | RmTree w => match w with Base => false | _ => true end
  | RenameDir _ _ | OpenMeta _ | AppendMeta _ _ => false
  end.

Lemma no_base_preserves o b : no_base o = true -> preserves (fun s => base s = b) o.
Proof.
  intro Hn. split.
  - intros s s1 HP H. destruct o; cbn in Hn, H; try discriminate.
    + destruct (tf s); try discriminate; injection H as <-; exact HP.
    + destruct w; try discriminate; cbn in H.
      * destruct (upd s); try discriminate; injection H as <-; exact HP.
      * destruct (old s); try discriminate; injection H as <-; exact HP.
    + destruct w; try discriminate; cbn in H.
      * destruct (upd s) as [[|t]|]; try discriminate; injection H as <-; exact HP.
      * destruct (old s) as [[|t]|]; try discriminate; injection H as <-; exact HP.
    + destruct (dl s); try discriminate; injection H as <-; exact HP.
    + destruct (dl s); try discriminate; injection H as <-; exact HP.
    + destruct (dl s); try discriminate; injection H as <-; exact HP.
    + destruct (dl s); try discriminate; injection H as <-; exact HP.
    + destruct (tf s); try discriminate; injection H as <-; exact HP.
    + destruct (upd s) as [[|t0]|]; try discriminate.
      destruct (is_empty_tree t0); try discriminate; injection H as <-; exact HP.
  - intros s s' HP H. destruct o; cbn in Hn, H; try contradiction; try discriminate.
    + destruct H as (ta & tb & _ & ->). destruct w; try discriminate; exact HP.
    + destruct H as (ta & tb & _ & ->). exact HP.
Qed.

Lemma Forall_no_base_preserves l b :
  forallb no_base l = true -> Forall (preserves (fun s => base s = b)) l.
Proof.
  intro H. apply Forall_forall. intros o Ho. apply no_base_preserves.
  rewrite forallb_forall in H. now apply H.
Qed.

Lemma forallb_app' {A} (f : A -> bool) a b : forallb f (a ++ b) = forallb f a && forallb f b.
Proof. apply forallb_app. Qed.

Lemma no_base_writes cs : forallb no_base (map WriteDl cs) = true.
Proof. induction cs; cbn; auto. Qed.

Lemma no_base_exit s : forallb no_base (exit_steps s) = true.
Proof.
  unfold exit_steps. rewrite !forallb_app.
  destruct (is_dir (old s)), (is_dir (upd s)), (tf s), (dl s); reflexivity.
Qed.

Lemma no_base_recover s b : base s = Some b -> forallb no_base (recover_steps s) = true.
Proof.
  intro Hb. unfold recover_steps. rewrite Hb. cbn.
  destruct (is_dir (upd s)), (is_dir (old s)); reflexivity.
Qed.

(* ------------------------------------------------------------------ running the pieces *)
Lemma run_writes cs : forall s d, dl s = Some d ->
  run_opt (map WriteDl cs) s = Some (set_dl (Some (d ++ cs)) s).
Proof.
  induction cs as [|c cs IH]; cbn; intros s d Hd.
  - rewrite app_nil_r. destruct s; cbn in *; subst; reflexivity.
  - rewrite Hd. rewrite (IH _ (d ++ [c])); [|reflexivity].
    destruct s; cbn. now rewrite <- app_assoc.
Qed.

(* the bookkeeping writes: only base/name changes, and it stays a regular file *)
Definition file_or_none (o : option node) : Prop :=
  o = None \/ exists d m u g t i, o = Some (File d m u g t i).

Lemma run_appends name ds : forall s t,
  base s = Some (SDir t) -> (exists d m u g tm i, lookup t [name] = Some (File d m u g tm i)) ->
  exists t', run_opt (map (AppendMeta name) ds) s = Some (set Base (Some (SDir t')) s)
             /\ (forall q, q <> [name] -> lookup t' q = lookup t q)
             /\ file_or_none (lookup t' [name]).
Proof.
  induction ds as [|d ds IH]; intros s t Hb (d0 & m & u & g & tm & i & Hl).
  - exists t. cbn. split; [|split].
    + destruct s; cbn in *; subst; reflexivity.
    + auto.
    + right. eauto 10.
  - destruct (IH (set Base (Some (SDir (set_node t [name] (meta_node (d0 ++ d) m)))) s)
                  (set_node t [name] (meta_node (d0 ++ d) m))) as (t' & Hr & Hfr & Hf).
    + reflexivity.
    + rewrite lookup_set_same. unfold meta_node. eauto 10.
    + exists t'. split; [|split].
      * cbn in Hr |- *. rewrite Hb, Hl. cbn. rewrite Hr. destruct s; reflexivity.
      * intros q Hq. rewrite Hfr by exact Hq. now rewrite lookup_set_other.
      * exact Hf.
Qed.

Lemma run_meta chunk name v s t :
  base s = Some (SDir t) -> file_or_none (lookup t [name]) ->
  exists t', run_opt (meta_steps chunk name v) s = Some (set Base (Some (SDir t')) s)
             /\ (forall q, q <> [name] -> lookup t' q = lookup t q)
             /\ file_or_none (lookup t' [name]).
Proof.
  intros Hb Hf.
  assert (Hid : exists t', Some s = Some (set Base (Some (SDir t')) s)
             /\ (forall q, q <> [name] -> lookup t' q = lookup t q)
             /\ file_or_none (lookup t' [name])).
  { exists t. split; [|split]; auto. destruct s; cbn in *; subst; reflexivity. }
  unfold meta_steps. destruct v as [[|c d]|]; try exact Hid.
  cbn [run_opt apply_step]. rewrite Hb.
  assert (Hgo : forall m, exists t',
     run_opt (map (AppendMeta name) (chunks_of (S (length (c :: d))) chunk (c :: d)))
             (set Base (Some (SDir (set_node t [name] (meta_node [] m)))) s)
     = Some (set Base (Some (SDir t')) s)
     /\ (forall q, q <> [name] -> lookup t' q = lookup t q)
     /\ file_or_none (lookup t' [name])).
  { intro m.
    destruct (run_appends name (chunks_of (S (length (c :: d))) chunk (c :: d))
                (set Base (Some (SDir (set_node t [name] (meta_node [] m)))) s)
                (set_node t [name] (meta_node [] m))) as (t' & Hr & Hfr & Hff).
    - reflexivity.
    - rewrite lookup_set_same. unfold meta_node. eauto 10.
    - exists t'. split; [|split].
      + rewrite Hr. destruct s; reflexivity.
      + intros q Hq. rewrite Hfr by exact Hq. now rewrite lookup_set_other.
      + exact Hff. }
  destruct Hf as [Hn|(d0 & m & u & g & tm & i & Hl)].
  - rewrite Hn. apply Hgo.
  - rewrite Hl. apply Hgo.
Qed.

Lemma no_meta_is_base o : no_base o = true -> True.
Proof. trivial. Qed.

(* the bookkeeping steps keep "the directory agrees with tnew off the bookkeeping names" *)
Lemma etag_ne_modified : etag_name <> modified_name.
Proof. discriminate. Qed.

Definition is_meta_step (o : step) : bool :=
  match o with
  | OpenMeta n | AppendMeta n _ => str_eqb n etag_name || str_eqb n modified_name
  | _ => false
  end.

Lemma meta_step_preserves tnew o :
  is_meta_step o = true -> preserves (holds_new tnew) o.
Proof.
  intro Hm. split.
  - intros s s1 (t' & Hb & Hn) H.
    assert (Hset : forall name nd, str_eqb name etag_name || str_eqb name modified_name = true ->
                    holds_new tnew (set Base (Some (SDir (set_node t' [name] nd))) s)).
    { intros name nd Hname. exists (set_node t' [name] nd). split; [reflexivity|].
      intros q Hq. rewrite lookup_set_other; [now apply Hn|].
      intro Heq; subst q. apply Hq. apply orb_true_iff in Hname as [E|E]; apply str_eqb_eq in E; subst.
      - now left.
      - now right. }
    destruct o; cbn in Hm, H; try discriminate; rewrite Hb in H.
    + destruct (lookup t' [name]) as [[]|]; inversion H; subst; now apply Hset.
    + destruct (lookup t' [name]) as [[]|]; inversion H; subst; now apply Hset.
  - intros s s' _ H. destruct o; cbn in Hm, H; try discriminate; contradiction.
Qed.

Lemma is_meta_steps chunk name v :
  str_eqb name etag_name || str_eqb name modified_name = true ->
  forallb is_meta_step (meta_steps chunk name v) = true.
Proof.
  intro Hn. unfold meta_steps. destruct v as [[|c d]|]; try reflexivity.
  generalize (chunks_of (S (length (c :: d))) chunk (c :: d)). intro l.
  cbn [forallb is_meta_step]. rewrite Hn. cbn [andb].
  induction l as [|x l IH]; cbn [map forallb is_meta_step]; [reflexivity|].
  now rewrite Hn.
Qed.

Lemma no_base_holds_new tnew o : no_base o = true -> preserves (holds_new tnew) o.
Proof.
  intro Hn. split.
  - intros s s1 (t' & Hb & Hnw) H.
    destruct (no_base_preserves o (Some (SDir t')) Hn) as [Ha _].
    exists t'. split; [eapply Ha; eauto|exact Hnw].
  - intros s s' (t' & Hb & Hnw) H.
    destruct (no_base_preserves o (Some (SDir t')) Hn) as [_ Hmid].
    exists t'. split; [eapply Hmid; eauto|exact Hnw].
Qed.

(* ------------------------------------------------------------------ T1: a sync that does not update *)
Lemma run_no_base l : forallb no_base l = true -> forall s, base (run l s) = base s.
Proof.
  induction l as [|o l IH]; cbn; intros H s; [reflexivity|].
  apply andb_true_iff in H as [Ho Hl].
  destruct (apply_step s o) eqn:E; [|reflexivity].
  rewrite IH by exact Hl.
  destruct (no_base_preserves o (base s) Ho) as [Hp _]. eapply Hp; eauto.
Qed.

Lemma no_base_download b cs : b <> None -> forallb no_base (download_steps b cs) = true.
Proof.
  intro Hb. unfold download_steps. destruct b; [|congruence]. cbn. apply no_base_writes.
Qed.

Lemma sync_no_base fixed force sv tar chunk s0 b :
  base s0 = Some b ->
  snd (sync fixed force sv tar chunk s0) <> Updated ->
  forallb no_base (fst (sync fixed force sv tar chunk s0)) = true.
Proof.
  intros Hb. unfold sync. cbv zeta.
  remember (fresh s0) as sf eqn:Esf.
  assert (Hbf : base sf = Some b) by (subst sf; exact Hb).
  remember (CreateT :: (if fixed then recover_steps sf else [])) as p1 eqn:Ep1.
  assert (Hp1 : forallb no_base p1 = true).
  { subst p1. destruct fixed; cbn; [now apply no_base_recover with b|reflexivity]. }
  assert (Hb1 : base (run p1 sf) = Some b) by (rewrite run_no_base; auto).
  assert (Hfin : forall l o, forallb no_base l = true -> forallb no_base (fst (finish l sf o)) = true).
  { intros l o Hl. unfold finish. cbn [fst]. now rewrite forallb_app, Hl, no_base_exit. }
  destruct (negb (N.eqb (sv_status sv) 200)); [intros _; now apply Hfin|].
  destruct ((sv_inm sv && _) || _); [intros _; now apply Hfin|].
  destruct (negb force && _); [intros _; now apply Hfin|].
  rewrite Hb1.
  assert (Hdl : forallb no_base (download_steps (Some b) (sv_chunks sv)) = true)
    by (apply no_base_download; discriminate).
  destruct b as [|t]; [intros _; now apply Hfin|].
  destruct (negb (sv_complete sv)).
  { intros _. apply Hfin. now rewrite forallb_app, Hp1, Hdl. }
  destruct (upd (run p1 sf)).
  { intros _. apply Hfin. now rewrite !forallb_app, Hp1, Hdl. }
  destruct (old (run p1 sf)).
  { intros _. apply Hfin. now rewrite !forallb_app, Hp1, Hdl. }
  destruct (negb (snd tar)).
  { intros _. apply Hfin. now rewrite !forallb_app, Hp1, Hdl. }
  intro H. exfalso. apply H. reflexivity.
Qed.

Lemma failed_sync_untouched_proof :
  forall fixed force sv tar chunk s0 b s',
    base s0 = Some b ->
    snd (sync fixed force sv tar chunk s0) <> Updated ->
    crash_of (fst (sync fixed force sv tar chunk s0)) (fresh s0) s' ->
    base s' = Some b.
Proof.
  intros fixed force sv tar chunk s0 b s' Hb Hout Hc.
  refine (crash_inv (fun s => base s = Some b) _ _ (fresh s0) s' Hb Hc).
  apply Forall_no_base_preserves. now apply sync_no_base with b.
Qed.

(* ------------------------------------------------------------------ the state after _pre_download *)
Lemma pre_state s :
  recoverable s ->
  let p1 := CreateT :: recover_steps (fresh s) in
  exists s1, run_opt p1 (fresh s) = Some s1 /\
             base s1 = logical s /\ upd s1 = None /\ old s1 = None /\ tf s1 = Some [] /\ dl s1 = None
             /\ slot_ok (base s1).
Proof.
  intros (Hb & Hu & Ho). destruct s as [b u o t d]. cbn in Hb, Hu, Ho.
  destruct Hb as [->|[tb ->]], Hu as [->|[tu ->]], Ho as [->|[to ->]];
    cbn; eexists; (split; [reflexivity|]); cbn; repeat split; auto with c47.
Qed.

Lemma staged_state s1 cs tnew ok :
  upd s1 = None -> old s1 = None -> tf s1 = Some [] -> dl s1 = None -> slot_ok (base s1) ->
  run_opt (download_steps (base s1) cs ++ [CommitDl; MkDir Upd; MkDir Old; Extract tnew ok]) s1
  = Some (mkst (match base s1 with None => Some (SDir []) | b => b end)
               (Some (SDir tnew)) (Some (SDir [])) (Some cs) None).
Proof.
  intros Hu Ho Ht Hd Hb. destruct s1 as [b u o t d]. cbn in *. subst.
  unfold download_steps.
  destruct Hb as [->|[tb ->]]; cbn [app run_opt apply_step get set base upd old tf dl set_dl set_tf].
  - rewrite run_opt_app. erewrite run_writes by reflexivity. cbn. reflexivity.
  - rewrite run_opt_app. erewrite run_writes by reflexivity. cbn. reflexivity.
Qed.

Definition meta_free (t : tree) : Prop :=
  lookup t [etag_name] = None /\ lookup t [modified_name] = None.

(* the two renames and the bookkeeping writes, from the staged state *)
Lemma install_state chunk sv b0 tnew cs :
  slot_ok b0 -> b0 <> None -> meta_free tnew ->
  let sA := mkst b0 (Some (SDir tnew)) (Some (SDir [])) (Some cs) None in
  exists t' told, b0 = Some (SDir told) /\
    run_opt (install_steps chunk sv) sA = Some (mkst (Some (SDir t')) None (Some (SDir told)) (Some cs) None)
    /\ newish t' tnew.
Proof.
  intros Hb Hne (Hfe & Hfm) sA. destruct Hb as [->|[told ->]]; [congruence|].
  unfold install_steps. cbn [app run_opt apply_step get set base upd old tf dl is_empty_tree sA].
  rewrite run_opt_app.
  destruct (run_meta chunk etag_name (sv_etag sv)
              (mkst (Some (SDir tnew)) None (Some (SDir told)) (Some cs) None) tnew)
    as (t1 & Hr1 & Hf1 & Hn1); [reflexivity|left; exact Hfe|].
  rewrite Hr1. cbn [set base upd old tf dl].
  destruct (run_meta chunk modified_name (sv_mod sv)
              (mkst (Some (SDir t1)) None (Some (SDir told)) (Some cs) None) t1)
    as (t2 & Hr2 & Hf2 & Hn2); [reflexivity| |].
  { left. rewrite Hf1; [exact Hfm|]. intro E. injection E as E. symmetry in E. now apply etag_ne_modified. }
  rewrite Hr2. cbn [set base upd old tf dl].
  exists t2, told. split; [reflexivity|]. split; [reflexivity|].
  intros q Hq. rewrite Hf2, Hf1; [reflexivity| |].
  - intro E. apply Hq. now left.
  - intro E. apply Hq. now right.
Qed.

(* ------------------------------------------------------------------ the shape of an updating sync *)
Definition stage4 (tar : tree * bool) : list step :=
  [CommitDl; MkDir Upd; MkDir Old; Extract (fst tar) (snd tar)].

Lemma sync_updated_form force sv tar chunk s :
  recoverable s -> snd (sync true force sv tar chunk s) = Updated ->
  exists s1, run_opt (CreateT :: recover_steps (fresh s)) (fresh s) = Some s1 /\
    base s1 = logical s /\ upd s1 = None /\ old s1 = None /\ tf s1 = Some [] /\ dl s1 = None /\
    slot_ok (base s1) /\ snd tar = true /\
    let A := (CreateT :: recover_steps (fresh s)) ++ download_steps (base s1) (sv_chunks sv) ++ stage4 tar in
    fst (sync true force sv tar chunk s)
    = (A ++ install_steps chunk sv) ++ exit_steps (run (A ++ install_steps chunk sv) (fresh s)).
Proof.
  intros HR. destruct (pre_state s HR) as (s1 & Hr1 & Hb & Hu & Ho & Ht & Hd & Hok).
  unfold sync. cbv beta iota zeta.
  rewrite (run_opt_run _ _ _ Hr1).
  destruct (negb (N.eqb (sv_status sv) 200)); [discriminate|].
  destruct ((sv_inm sv && _) || _); [discriminate|].
  destruct (negb force && _); [discriminate|].
  rewrite Hu, Ho.
  intro Hout. exists s1. repeat (split; [assumption|]).
  destruct Hok as [E|[tb E]]; rewrite E in *.
  - destruct (negb (sv_complete sv)); [discriminate|].
    destruct (snd tar) eqn:Et; [|discriminate]. cbn [negb] in *.
    split; [reflexivity|]. unfold finish, stage4. cbn [fst]. rewrite Et. reflexivity.
  - destruct (negb (sv_complete sv)); [discriminate|].
    destruct (snd tar) eqn:Et; [|discriminate]. cbn [negb] in *.
    split; [reflexivity|]. unfold finish, stage4. cbn [fst]. rewrite Et. reflexivity.
Qed.

Lemma updated_runs force sv tar chunk s :
  recoverable s -> meta_free (fst tar) -> snd (sync true force sv tar chunk s) = Updated ->
  exists s1 t' told,
    let p1 := CreateT :: recover_steps (fresh s) in
    let A := p1 ++ download_steps (base s1) (sv_chunks sv) ++ stage4 tar in
    let b0 := match base s1 with None => Some (SDir []) | b => b end in
    let sA := mkst b0 (Some (SDir (fst tar))) (Some (SDir [])) (Some (sv_chunks sv)) None in
    let s5 := mkst (Some (SDir t')) None (Some (SDir told)) (Some (sv_chunks sv)) None in
    base s1 = logical s /\ b0 = Some (SDir told) /\
    run_opt p1 (fresh s) = Some s1 /\
    run_opt A (fresh s) = Some sA /\
    run_opt (install_steps chunk sv) sA = Some s5 /\ newish t' (fst tar) /\
    fst (sync true force sv tar chunk s) = (A ++ install_steps chunk sv) ++ [RmTree Old; UnlinkT].
Proof.
  intros HR Hmf Hout.
  destruct (sync_updated_form force sv tar chunk s HR Hout)
    as (s1 & Hr1 & Hb & Hu & Ho & Ht & Hd & Hok & Htar & Hform).
  cbv zeta in Hform.
  pose (b0 := match base s1 with None => Some (SDir []) | b => b end).
  assert (Hb0ok : slot_ok b0) by (unfold b0; destruct Hok as [->|[tb ->]]; auto with c47).
  assert (Hb0ne : b0 <> None) by (unfold b0; destruct (base s1); discriminate).
  destruct (install_state chunk sv b0 (fst tar) (sv_chunks sv) Hb0ok Hb0ne Hmf)
    as (t' & told & Eb0 & Hri & Hnew).
  exists s1, t', told. cbv zeta.
  assert (HA : run_opt ((CreateT :: recover_steps (fresh s)) ++
                        download_steps (base s1) (sv_chunks sv) ++ stage4 tar) (fresh s)
               = Some (mkst b0 (Some (SDir (fst tar))) (Some (SDir [])) (Some (sv_chunks sv)) None)).
  { rewrite run_opt_app, Hr1. unfold stage4. now apply staged_state. }
  split; [exact Hb|]. split; [exact Eb0|]. split; [exact Hr1|]. split; [exact HA|].
  split; [exact Hri|]. split; [exact Hnew|].
  rewrite Hform. f_equal.
  erewrite run_opt_run; [|rewrite run_opt_app, HA; exact Hri].
  reflexivity.
Qed.

(* ------------------------------------------------------------------ T3: the next sync completes *)
Lemma updated_final force sv tar chunk s :
  recoverable s -> meta_free (fst tar) -> snd (sync true force sv tar chunk s) = Updated ->
  exists sf, run_opt (fst (sync true force sv tar chunk s)) (fresh s) = Some sf
             /\ clean sf /\ holds_new (fst tar) sf.
Proof.
  intros HR Hmf Hout.
  destruct (updated_runs force sv tar chunk s HR Hmf Hout)
    as (s1 & t' & told & _ & _ & _ & HA & Hi & Hnew & Hform).
  cbv zeta in *. rewrite Hform.
  eexists. split.
  - rewrite run_opt_app. rewrite run_opt_app. rewrite HA, Hi. cbn. reflexivity.
  - split; [split; reflexivity|]. exists t'. split; [reflexivity|exact Hnew].
Qed.

Lemma unchanged_final force sv tar chunk s :
  recoverable s -> snd (sync true force sv tar chunk s) = Unchanged ->
  exists sf, run_opt (fst (sync true force sv tar chunk s)) (fresh s) = Some sf
             /\ clean sf /\ base sf = logical s.
Proof.
  intros HR. destruct (pre_state s HR) as (s1 & Hr1 & Hb & Hu & Ho & Ht & Hd & Hok).
  unfold sync. cbv beta iota zeta.
  rewrite (run_opt_run _ _ _ Hr1).
  assert (Hfin : exists sf, run_opt (fst (finish (CreateT :: recover_steps (fresh s)) (fresh s) Unchanged)) (fresh s) = Some sf
                            /\ clean sf /\ base sf = logical s).
  { unfold finish. cbn [fst]. rewrite (run_opt_run _ _ _ Hr1).
    assert (He : exit_steps s1 = [UnlinkT])
      by (unfold exit_steps; rewrite Hu, Ho, Ht, Hd; reflexivity).
    rewrite He. rewrite run_opt_app, Hr1. cbn [run_opt apply_step]. rewrite Ht.
    eexists. split; [reflexivity|]. cbn. repeat split; assumption. }
  destruct (negb (N.eqb (sv_status sv) 200)); [discriminate|].
  destruct ((sv_inm sv && _) || _); [intros _; exact Hfin|].
  destruct (negb force && _); [intros _; exact Hfin|].
  rewrite Hu, Ho.
  destruct Hok as [E|[tb E]]; rewrite E;
    destruct (negb (sv_complete sv)); try discriminate;
    destruct (negb (snd tar)); discriminate.
Qed.

Lemma good_sync_outcome force sv tar chunk s :
  recoverable s -> good_srv sv -> snd tar = true ->
  snd (sync true force sv tar chunk s) = Updated \/ snd (sync true force sv tar chunk s) = Unchanged.
Proof.
  intros HR [Hst Hc] Htar. destruct (pre_state s HR) as (s1 & Hr1 & Hb & Hu & Ho & Ht & Hd & Hok).
  unfold sync. cbv beta iota zeta.
  rewrite (run_opt_run _ _ _ Hr1). rewrite Hst, Hc, Htar, Hu, Ho. cbn [N.eqb Pos.eqb negb].
  destruct ((sv_inm sv && _) || _); [now right|].
  destruct (negb force && _); [now right|].
  destruct Hok as [E|[tb E]]; rewrite E; now left.
Qed.

Lemma next_sync_completes_proof :
  forall force sv tar chunk s,
    recoverable s -> good_srv sv -> snd tar = true -> meta_free (fst tar) ->
    exists sf, run_opt (fst (sync true force sv tar chunk s)) (fresh s) = Some sf /\ clean sf /\
      ((snd (sync true force sv tar chunk s) = Updated /\ holds_new (fst tar) sf) \/
       (snd (sync true force sv tar chunk s) = Unchanged /\ base sf = logical s)).
Proof.
  intros force sv tar chunk s HR Hg Htar Hmf.
  destruct (good_sync_outcome force sv tar chunk s HR Hg Htar) as [Hout|Hout].
  - destruct (updated_final force sv tar chunk s HR Hmf Hout) as (sf & Hr & Hc & Hn).
    exists sf. split; [exact Hr|]. split; [exact Hc|]. left. split; assumption.
  - destruct (unchanged_final force sv tar chunk s HR Hout) as (sf & Hr & Hc & Hn).
    exists sf. split; [exact Hr|]. split; [exact Hc|]. right. split; assumption.
Qed.

(* ------------------------------------------------------------------ T2: crash states of an updating sync *)
Lemma crash_old_or_new_partial_proof :
  forall force sv tar chunk s0 t0 s',
    recoverable s0 -> base s0 = Some (SDir t0) -> meta_free (fst tar) ->
    snd (sync true force sv tar chunk s0) = Updated ->
    crash_of (fst (sync true force sv tar chunk s0)) (fresh s0) s' ->
    old_or_new (Some (SDir t0)) (fst tar) s' \/ window t0 (fst tar) s'.
Proof.
  intros force sv tar chunk s0 t0 s' HR Hb Hmf Hout Hc.
  destruct (updated_runs force sv tar chunk s0 HR Hmf Hout)
    as (s1 & t' & told & Hb1 & Eb0 & Hr1 & HA & Hi & Hnew & Hform).
  cbv zeta in *. rewrite Hform in Hc.
  assert (Hl : logical s0 = Some (SDir t0)) by (unfold logical; rewrite Hb; reflexivity).
  rewrite Hl in Hb1. rewrite Hb1 in *. injection Eb0 as <-.
  apply crash_of_app in Hc as [Hc|(s5 & Hr5 & Hc)].
  - apply crash_of_app in Hc as [Hc|(sA & HrA & Hc)].
    + left. left. left.
      refine (crash_inv (fun s => base s = Some (SDir t0)) _ _ (fresh s0) s' Hb Hc).
      apply Forall_no_base_preserves. rewrite !forallb_app.
      apply andb_true_iff. split; [|apply andb_true_iff; split].
      * cbn. now apply no_base_recover with (SDir t0).
      * apply no_base_download. discriminate.
      * reflexivity.
    + rewrite HA in HrA. injection HrA as <-.
      unfold install_steps in Hc. cbn [app] in Hc.
      inversion Hc as [ | ? ? ? ? Hm | ? ? ? s2 ? Ha Hc2]; subst.
      * left. left. left. reflexivity.
      * cbn in Hm. contradiction.
      * cbn in Ha. injection Ha as <-.
        inversion Hc2 as [ | ? ? ? ? Hm | ? ? ? s3 ? Ha3 Hc3]; subst.
        -- right. repeat split.
        -- cbn in Hm. contradiction.
        -- cbn in Ha3. injection Ha3 as <-. left. right.
           refine (crash_inv (holds_new (fst tar)) _ _ _ s' _ Hc3).
           ++ apply Forall_forall. intros o Ho. apply meta_step_preserves.
              apply in_app_or in Ho as [Ho|Ho].
              ** assert (Hms : forallb is_meta_step (meta_steps chunk etag_name (sv_etag sv)) = true)
                   by (apply is_meta_steps; reflexivity).
                 rewrite forallb_forall in Hms. now apply Hms.
              ** assert (Hms : forallb is_meta_step (meta_steps chunk modified_name (sv_mod sv)) = true)
                   by (apply is_meta_steps; reflexivity).
                 rewrite forallb_forall in Hms. now apply Hms.
           ++ exists (fst tar). split; [reflexivity|]. intros q _. reflexivity.
  - left. right. rewrite run_opt_app, HA, Hi in Hr5. injection Hr5 as <-.
    refine (crash_inv (holds_new (fst tar)) _ _ _ s' _ Hc).
    + repeat constructor; apply no_base_holds_new; reflexivity.
    + exists t'. split; [reflexivity|exact Hnew].
Qed.

(* the full statement (every crash state holds the old or the new tree at the path) *)
Definition crash_old_or_new_statement : Prop :=
  forall force sv tar chunk s0 t0 s',
    recoverable s0 -> base s0 = Some (SDir t0) -> meta_free (fst tar) ->
    snd (sync true force sv tar chunk s0) = Updated ->
    crash_of (fst (sync true force sv tar chunk s0)) (fresh s0) s' ->
    old_or_new (Some (SDir t0)) (fst tar) s'.

Definition ex_old : tree := [([[111%N]], File [1%N] 420 0 0 NOW 0)].
Definition ex_new : tree := [([[110%N]], File [2%N] 420 0 0 NOW 0)].
Definition ex_s0 : st := mkst (Some (SDir ex_old)) None None None None.
Definition ex_srv : srv := mksrv 200 true false (Some [34;49;34]%N) None [7%N] true.
Definition ex_window : st := mkst None (Some (SDir ex_new)) (Some (SDir ex_old)) (Some [7%N]) None.

Lemma ex_window_reachable :
  crash_of (fst (sync true false ex_srv (ex_new, true) 0 ex_s0)) (fresh ex_s0) ex_window.
Proof.
  vm_compute.
  do 8 (eapply crash_later; [reflexivity|]). apply crash_here.
Qed.

Lemma crash_old_or_new_refuted_proof : ~ crash_old_or_new_statement.
Proof.
  intro H.
  assert (Hx : old_or_new (Some (SDir ex_old)) ex_new ex_window).
  { apply (H false ex_srv (ex_new, true) 0%nat ex_s0 ex_old ex_window).
    - unfold recoverable; cbn; repeat split; auto with c47.
    - reflexivity.
    - split; reflexivity.
    - reflexivity.
    - exact ex_window_reachable. }
  destruct Hx as [[Hx|[[Hx _]|[Hx _]]]|(t' & Hx & _)]; discriminate.
Qed.

(* ------------------------------------------------------------------ any history of interrupted syncs *)
Inductive attempts (fixed : bool) : st -> st -> Prop :=
| att_nil : forall s, attempts fixed s s
| att_more : forall s force sv tar chunk s' s'',
    crash_of (fst (sync fixed force sv tar chunk s)) (fresh s) s' ->
    attempts fixed s' s'' -> attempts fixed s s''.

Lemma attempts_recoverable fixed s s' : recoverable s -> attempts fixed s s' -> recoverable s'.
Proof.
  intros HR Ha. induction Ha as [|s force sv tar chunk s' s'' Hc _ IH]; [exact HR|].
  apply IH. eapply crash_recoverable; [|exact Hc]. exact HR.
Qed.

(* the statement "after interruptions at any points the next sync completes", for either code *)
Definition next_sync_statement (fixed : bool) : Prop :=
  forall s0 s force sv tar chunk,
    recoverable s0 -> attempts fixed s0 s ->
    good_srv sv -> snd tar = true -> meta_free (fst tar) ->
    exists sf, run_opt (fst (sync fixed force sv tar chunk s)) (fresh s) = Some sf /\ clean sf /\
      ((snd (sync fixed force sv tar chunk s) = Updated /\ holds_new (fst tar) sf) \/
       (snd (sync fixed force sv tar chunk s) = Unchanged /\ base sf = logical s)).

Lemma next_sync_after_any_history_proof : next_sync_statement true.
Proof.
  intros s0 s force sv tar chunk HR Ha Hg Htar Hmf.
  apply next_sync_completes_proof; auto. eapply attempts_recoverable; eauto.
Qed.

(* the code as pinned (no recovery in _pre_download): one crash after the staging mkdir and
   every later sync fails with "failed creating repo update dirs" *)
Definition ex_stale : st := mkst (Some (SDir ex_old)) (Some (SDir [])) None (Some [7%N]) None.

Lemma legacy_next_sync_refuted_proof : ~ next_sync_statement false.
Proof.
  intro H.
  destruct (H ex_s0 ex_stale false ex_srv (ex_new, true) 0%nat) as (sf & _ & _ & [[Ho _]|[Ho _]]).
  - unfold recoverable; cbn; repeat split; auto with c47.
  - eapply att_more with (force := false) (sv := ex_srv) (tar := (ex_new, true)) (chunk := 0%nat).
    + vm_compute. do 5 (eapply crash_later; [reflexivity|]).
      (* stop after MkDir Upd *) apply crash_here.
    + apply att_nil.
  - split; reflexivity.
  - reflexivity.
  - split; reflexivity.
  - vm_compute in Ho. discriminate.
  - vm_compute in Ho. discriminate.
Qed.

Lemma crash_preserves_recoverable_proof :
  forall fixed force sv tar chunk s s',
    recoverable s -> crash_of (fst (sync fixed force sv tar chunk s)) (fresh s) s' -> recoverable s'.
Proof. intros. eapply crash_recoverable; [|eassumption]. assumption. Qed.

(* ------------------------------------------------------------------ non-vacuity *)
Example ex_updated : snd (sync true false ex_srv (ex_new, true) 0 ex_s0) = Updated.
Proof. reflexivity. Qed.
Example ex_updated_steps :
  map step_tag (fst (sync true false ex_srv (ex_new, true) 0 ex_s0)) = [1;3;4;5;6;7;8;9;10;12;13;16;18]%N.
Proof. reflexivity. Qed.
Example ex_failed_unpack : snd (sync true false ex_srv (ex_new, false) 0 ex_s0) = Failed 5.
Proof. reflexivity. Qed.
Example ex_failed_fetch :
  snd (sync true false (mksrv 404 true false None None [] true) (ex_new, true) 0 ex_s0) = Failed 1.
Proof. reflexivity. Qed.
Example ex_recoverable : recoverable ex_s0 /\ recoverable ex_window /\ recoverable ex_stale.
Proof. unfold recoverable; cbn; repeat split; auto with c47. Qed.
Example ex_meta_free : meta_free ex_new.
Proof. split; reflexivity. Qed.
(* the repaired sync started in the window state puts the old tree back before anything else *)
Example ex_window_recovers :
  base (run [CreateT; RenameDir Old Base] (fresh ex_window)) = Some (SDir ex_old)
  /\ map step_tag (firstn 3 (fst (sync true false ex_srv (ex_new, true) 0 ex_window))) = [1;11;17]%N.
Proof. split; reflexivity. Qed.
(* ... and a follow-up sync from the window state ends with the new tree and no staging dirs *)
Example ex_window_then_sync :
  let r := sync true true ex_srv (ex_new, true) 0 ex_window in
  snd r = Updated /\ holds_new_b ex_new (run (fst r) (fresh ex_window)) = true
  /\ clean_b (run (fst r) (fresh ex_window)) = true.
Proof. vm_compute. repeat split. Qed.
