(* Spec_C36.v — the property's statement, written from its text and not from the loop.

   A run of a fetch is observed as: the result (a path or an error), the file finally at
   distdir/filename, and one event per spawned command (which command, which URI, the file
   it found, the file it left, its exit status).

   - verified      : "the file there has the expected size and every required checksum"
                     (a target without any checksum can only require: present and not empty)
   - good_event    : an attempt "leaves such a file" (without checksums the exit status is the
                     only evidence, so it must be 0)
   - is_partial    : a resumable partial file (size known, file shorter)
   - kept          : resumable partial files are handed unchanged to the resume command, the
                     resume command is used for nothing else, and a partial file that is there
                     when the fetch ends is still there
   - stuck         : oversized or wrong checksum — the KNOWN CLASS in which the code gives up
                     although attempts remain
   plus boolean acceptors evaluated on the IMPLEMENTATION's recorded runs (comparison B). *)
From Coq Require Import List NArith ZArith Bool Arith.
Import ListNotations.
From Verif Require Import Base.Val C36.Model_C36.

Section WithHash.
Variable H : N -> bytes -> N.

Definition flen (d : bytes) : N := N.of_nat (length d).

Definition size_ok (T : target) (d : bytes) : Prop :=
  (forall n, tsize T = Some n -> flen d = n) /\ (tsize T = None -> d <> []).
Definition digests_ok (T : target) (d : bytes) : Prop :=
  forall a v, In (a, v) (thashes T) -> H a d = v.

Definition verified (T : target) (f : file) : Prop :=
  tbad T = false /\ exists d, f = Some d /\ size_ok T d /\ digests_ok T d.

Definition wrong_checksum (T : target) (f : file) : Prop :=
  exists d a v, f = Some d /\ In (a, v) (thashes T) /\ H a d <> v.
Definition wrong_size (T : target) (f : file) : Prop :=
  exists d n, f = Some d /\ tsize T = Some n /\ flen d <> n.

Definition good_event (T : target) (e : event) : Prop :=
  verified T (epost e) /\ (nochk T = true -> estatus e = 0%Z).

Definition is_partial (T : target) (f : file) : Prop :=
  tbad T = false /\ exists n d, tsize T = Some n /\ f = Some d /\ (flen d < n)%N.

Fixpoint kept (T : target) (prev : file) (evs : list event) (ff : file) : Prop :=
  match evs with
  | [] => is_partial T prev -> ff = prev
  | e :: r => (is_partial T prev -> ekind e = CResume /\ eseen e = prev)
              /\ (ekind e = CResume -> is_partial T prev)
              /\ kept T (epost e) r ff
  end.

(* the world: every event is the scripted outcome applied to the file the command found *)
Fixpoint world_ok (hasres : bool) (outs : list outcome) (evs : list event) : Prop :=
  match evs with
  | [] => True
  | e :: r => (let '(a, st) := pick (hd idle outs) (shown hasres (ekind e)) in
               epost e = act a (eseen e) /\ estatus e = st)
              /\ world_ok hasres (tl outs) r
  end.

Definition last_state (f0 : file) (evs : list event) : file :=
  fold_left (fun _ e => epost e) evs f0.

(* the known class: a file that is too large, or has the right size (or no size is known and
   it is not empty) and a wrong digest *)
Definition oversized (T : target) (f : file) : Prop :=
  exists n d, tsize T = Some n /\ f = Some d /\ (n < flen d)%N.
Definition stuck (T : target) (f : file) : Prop :=
  tbad T = false /\ (oversized T f \/ exists d, f = Some d /\ size_ok T d /\ ~ digests_ok T d).

(* an outcome that leaves a good file whatever it finds and in whichever role it runs *)
Definition robust_good (T : target) (o : outcome) : Prop :=
  forall k f, verified T (act (fst (pick o k)) f) /\ (nochk T = true -> snd (pick o k) = 0%Z).

(* ------------------------------------------------------------------ boolean forms *)
Definition size_okb (T : target) (d : bytes) : bool :=
  match tsize T with Some n => N.eqb (flen d) n | None => match d with [] => false | _ => true end end.
Definition digests_okb (T : target) (d : bytes) : bool :=
  forallb (fun av => N.eqb (H (fst av) d) (snd av)) (thashes T).
Definition verifiedb (T : target) (f : file) : bool :=
  negb (tbad T) && match f with Some d => size_okb T d && digests_okb T d | None => false end.
Definition good_eventb (T : target) (e : event) : bool :=
  verifiedb T (epost e) && (negb (nochk T) || Z.eqb (estatus e) 0).
Definition is_partialb (T : target) (f : file) : bool :=
  negb (tbad T) && match tsize T, f with Some n, Some d => N.ltb (flen d) n | _, _ => false end.
Definition stuckb (T : target) (f : file) : bool :=
  negb (tbad T) &&
  match f with
  | Some d => match tsize T with Some n => N.ltb n (flen d) | None => false end
              || (size_okb T d && negb (digests_okb T d))
  | None => false
  end.

Definition file_eqb (a b : file) : bool :=
  match a, b with Some x, Some y => str_eqb x y | None, None => true | _, _ => false end.
Definition is_resume (k : cmd) : bool := match k with CResume => true | CFetch => false end.
Definition action_eqb (a b : action) : bool :=
  match a, b with
  | Leave, Leave | Remove, Remove => true
  | Write x, Write y | Append x, Append y | Resume x, Resume y => str_eqb x y
  | _, _ => false
  end.

(* [kept] on observed events, whose kind is the command actually run (with
   resume_command=None that is always the fetch command) *)
Fixpoint keptb (hasres : bool) (T : target) (prev : file) (evs : list event) (ff : file) : bool :=
  match evs with
  | [] => negb (is_partialb T prev) || file_eqb ff prev
  | e :: r =>
      (negb (is_partialb T prev)
       || ((negb hasres || is_resume (ekind e)) && file_eqb (eseen e) prev))
      && (negb (is_resume (ekind e)) || is_partialb T prev)
      && keptb hasres T (epost e) r ff
  end.

Fixpoint world_okb (outs : list outcome) (evs : list event) : bool :=
  match evs with
  | [] => true
  | e :: r => (let '(a, st) := pick (hd idle outs) (ekind e) in
               file_eqb (epost e) (act a (eseen e)) && Z.eqb (estatus e) st)
              && world_okb (tl outs) r
  end.

Fixpoint nlist_eqb (a b : list N) : bool :=
  match a, b with
  | [], [] => true
  | x :: a', y :: b' => N.eqb x y && nlist_eqb a' b'
  | _, _ => false
  end.

End WithHash.

(* ------------------------------------------------ decoding a recorded implementation run *)
Definition dec_file (v : val) : option file :=
  match v with VNone => Some None | VS d => Some (Some d) | _ => None end.
Definition dec_event (v : val) : option event :=
  match v with
  | VL [VB k; VZ u; s; p; VZ st] =>
      match dec_file s, dec_file p with
      | Some s', Some p' => Some {| ekind := if k then CResume else CFetch; euri := Z.to_N u;
                                    eseen := s'; epost := p'; estatus := st |}
      | _, _ => None
      end
  | _ => None
  end.
Fixpoint dec_events (l : list val) : option (list event) :=
  match l with
  | [] => Some []
  | v :: r => match dec_event v, dec_events r with
              | Some e, Some es => Some (e :: es)
              | _, _ => None
              end
  end.
(* (returned a path?, error kind, final file, events) *)
Definition dec_run (v : val) : option (bool * str * file * list event) :=
  match v with
  | VL [r; f; VL evs] =>
      match dec_file f, dec_events evs with
      | Some f', Some es =>
          match r with
          | VB true => Some (true, [], f', es)
          | VErr k => Some (false, k, f', es)
          | _ => None
          end
      | _, _ => None
      end
  | _ => None
  end.

Definition chksum_kind (k : str) : bool :=
  str_eqb k (kind_name EBig) || str_eqb k (kind_name EBad).

(* the run gave up although attempts and URIs remained, on a file of the known class *)
Definition gave_up_stuck (i : input) (v : val) : bool :=
  match dec_run v with
  | Some (false, k, ff, es) =>
      negb (Nat.eqb (length es) (Nat.min (attempts i) (length (uris i))))
      && chksum_kind k && stuckb toyH (tgt i) (last_state (file0 i) es)
  | _ => false
  end.

(* true = the recorded run is acceptable to the property (the known class exempted only from
   the "gives up only when exhausted" clause) *)
Definition spec_fetch_ok (i : input) (v : val) : bool :=
  let T := tgt i in
  match dec_run v with
  | None => false
  | Some (ok, k, ff, es) =>
      (* only_verified / never_wrong_checksum *)
      (negb ok || verifiedb toyH T ff)
      (* uses_every_attempt: some attempt (or the start) left a good file => a path *)
      && (negb (verifiedb toyH T (file0 i) || existsb (good_eventb toyH T) es) || ok)
      (* partial files kept for the resume command *)
      && keptb (has_resume i) T (file0 i) es ff
      (* one URI per attempt, in order *)
      && nlist_eqb (map euri es) (firstn (length es) (uris i))
      (* the events are the scripted world *)
      && world_okb (outs i) es
      (* gives up only when attempts or URIs are exhausted *)
      && (ok || Nat.eqb (length es) (Nat.min (attempts i) (length (uris i)))
          || tbad T || gave_up_stuck i v)
  end.
