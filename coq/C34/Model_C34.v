(* Model_C34.v — executable model of pkgcore.ebuild.filter_env (src/pkgcore/ebuild/filter_env.py).
   No proofs here.

   Representation.  The Python scanner works on one buffer [buff] with integer positions.  The
   model represents a position by a CURSOR: the character before the position (what the code
   reads as buff[pos-1]; [None] at position 0) and the remaining suffix buff[pos:].  Every
   position >= len(buff) is the cursor with the empty suffix (the code treats all of them
   alike: [pos < end] is false, buff[pos] raises IndexError, slices are cut at the end).
   The two places where the code goes BACKWARDS (a failed str.find that yields len(buff)-1,
   and the here-document delimiter test that scans back to the previous newline) use the whole
   buffer, which is a parameter of every function ([g]).

   All loops / mutual recursion of the scanner run on one explicit fuel; out-of-fuel is the
   error value [EFuel].  IndexError (caught by is_function/is_envvar, uncaught elsewhere) is
   [EIndex]. *)
From Coq Require Import List NArith ZArith Bool.
Import ListNotations.
From Verif Require Import Base.Val.
Local Open Scope N_scope.

(* ---------------------------------------------------------------- characters *)
Definition cNUL := 0.   Definition cTAB := 9.   Definition cNL := 10.  Definition cCR := 13.
Definition cSP := 32.   Definition cDQ := 34.   Definition cHASH := 35. Definition cDOL := 36.
Definition cSQ := 39.   Definition cLP := 40.   Definition cRP := 41.   Definition cMINUS := 45.
Definition cSEMI := 59. Definition cLT := 60.   Definition cEQ := 61.   Definition cBS := 92.
Definition cUS := 95.   Definition cBQ := 96.   Definition cLB := 123.  Definition cRB := 125.

Definition mem (x : N) (l : list N) : bool := existsb (N.eqb x) l.

(* str.isspace for one code point (Unicode White_Space + the four ASCII separators 28..31) *)
Definition isspace (c : N) : bool :=
  ((9 <=? c) && (c <=? 13)) || ((28 <=? c) && (c <=? 32)) || (c =? 133) || (c =? 160)
  || (c =? 5760) || ((8192 <=? c) && (c <=? 8202)) || (c =? 8232) || (c =? 8233)
  || (c =? 8239) || (c =? 8287) || (c =? 12288).
(* str.isalnum, exact below 256 (the harness generates only code points below 256) *)
Definition isalnum (c : N) : bool :=
  ((48 <=? c) && (c <=? 57)) || ((65 <=? c) && (c <=? 90)) || ((97 <=? c) && (c <=? 122))
  || (c =? 170) || (c =? 178) || (c =? 179) || (c =? 181) || (c =? 185) || (c =? 186)
  || ((188 <=? c) && (c <=? 190))
  || ((192 <=? c) && (c <=? 255) && negb (c =? 215) && negb (c =? 247)).
Definition isblank (c : N) : bool := (c =? cSP) || (c =? cTAB).   (* ch in " \t" *)

(* ---------------------------------------------------------------- cursors and results *)
Record cur := mkcur { prev : option N; suf : str }.

Inductive res (A : Type) : Type := Ok (a : A) | EIndex | EFuel.
Arguments Ok {A} a. Arguments EIndex {A}. Arguments EFuel {A}.
Definition bind {A B} (r : res A) (f : A -> res B) : res B :=
  match r with Ok a => f a | EIndex => EIndex | EFuel => EFuel end.
Notation "'do' x <- r ; k" := (bind r (fun x => k)) (at level 200, x pattern, r at level 100, k at level 200).

Definition hd_ (c : cur) : option N := match suf c with [] => None | x :: _ => Some x end.
(* pos + 1 *)
Definition adv1 (c : cur) : cur :=
  match suf c with [] => c | x :: r => mkcur (Some x) r end.
(* the cursor at position len(buff) - 1 *)
Fixpoint last_cur_from (p : option N) (s : str) : cur :=
  match s with
  | [] => mkcur p []
  | x :: r => match r with [] => mkcur p s | _ :: _ => last_cur_from (Some x) r end
  end.
Definition last_cur (g : str) : cur := last_cur_from None g.

(* buff[a:b] for positions given by their suffixes (empty when b is before a) *)
Definition slice (a b : str) : str := firstn (length a - length b) a.

(* buff.find(ch, pos): cursor AT the first occurrence *)
Fixpoint find_from (ch : N) (p : option N) (s : str) : option cur :=
  match s with
  | [] => None
  | x :: r => if x =? ch then Some (mkcur p s) else find_from ch (Some x) r
  end.
Definition find_char (ch : N) (c : cur) : option cur := find_from ch (prev c) (suf c).

(* walk_statement_no_parsing *)
Definition walk_no_parsing (g : str) (c : cur) (endc : N) : cur :=
  match find_char endc c with Some c' => c' | None => last_cur g end.

(* walk_statement_dollared_quote_parsing *)
Fixpoint walk_dollared_from (endc : N) (p : option N) (s : str) : cur :=
  match s with
  | [] => mkcur p []
  | x :: r =>
      if x =? endc then mkcur p s
      else if x =? cBS then
        match r with [] => mkcur (Some x) [] | y :: r' => walk_dollared_from endc (Some y) r' end
      else walk_dollared_from endc (Some x) r
  end.
Definition walk_dollared (c : cur) (endc : N) : cur := walk_dollared_from endc (prev c) (suf c).

(* walk_statement_pound *)
Definition prev_is_space (c : cur) : bool :=
  match prev c with None => true | Some x => isspace x end.   (* "if pos and not isspace" *)
Definition walk_pound (g : str) (c : cur) (endc : option N) : cur :=
  if negb (prev_is_space c) then adv1 c
  else
    let nl := find_char cNL c in
    match endc with
    | Some e =>
        if e =? cBQ then
          match nl, find_char cBQ c with
          | None, Some c2 => c2
          | None, None => last_cur g
          | Some c1, Some c2 => if (length (suf c2) <=? length (suf c1))%nat then c1 else c2
          | Some c1, None => c1
          end
        else match nl with Some c1 => c1 | None => last_cur g end
    | None => match nl with Some c1 => c1 | None => last_cur g end
    end.

(* ---------------------------------------------------------------- is_function / is_envvar *)
Fixpoint skip_while (f : N -> bool) (p : option N) (s : str) : option cur :=   (* None = IndexError *)
  match s with
  | [] => None
  | x :: r => if f x then skip_while f (Some x) r else Some (mkcur p s)
  end.
Fixpoint starts_with (w s : str) : bool :=
  match w, s with
  | [], _ => true
  | a :: w', b :: s' => (a =? b) && starts_with w' s'
  | _ :: _, [] => false
  end.
Definition kw_function : str := [102;117;110;99;116;105;111;110].
Fixpoint adv (n : nat) (c : cur) : cur := match n with O => c | S n' => adv n' (adv1 c) end.

Definition name_stop (c : N) : bool := mem c [cNUL; cSP; cTAB; cNL; cEQ; cDQ; cSQ; cLP; cRP].
Definition opt_bind {A B} (o : option A) (f : A -> option B) : option B :=
  match o with Some a => f a | None => None end.

(* returns the name and the cursor just after the opening brace *)
Definition is_function (c : cur) : option (str * cur) :=
  opt_bind (skip_while isblank (prev c) (suf c)) (fun c1 =>
  let c2 := if starts_with kw_function (suf c1)
            then match hd_ (adv 8 c1) with
                 | Some x => if isspace x then adv 9 c1 else c1
                 | None => c1
                 end
            else c1 in
  opt_bind (skip_while isspace (prev c2) (suf c2)) (fun c3 =>
  opt_bind (skip_while (fun x => negb (name_stop x)) (prev c3) (suf c3)) (fun c4 =>
  let name := slice (suf c3) (suf c4) in
  match name with
  | [] => None
  | _ =>
  opt_bind (skip_while isblank (prev c4) (suf c4)) (fun c5 =>
  match suf c5 with
  | x :: r5 => if negb (x =? cLP) then None else
    opt_bind (skip_while isblank (Some x) r5) (fun c6 =>
    match suf c6 with
    | y :: r6 => if negb (y =? cRP) then None else
      opt_bind (skip_while isspace (Some y) r6) (fun c7 =>
      match suf c7 with
      | z :: r7 => if z =? cLB then Some (name, mkcur (Some z) r7) else None
      | [] => None
      end)
    | [] => None
    end)
  | [] => None
  end)
  end))).

Definition envvar_stop (c : N) : bool := mem c [cNUL; cDQ; cSQ; cLP; cRP; cMINUS; cSP; cTAB; cNL].
Fixpoint envvar_scan (first : bool) (p : option N) (s : str) : option cur :=  (* cursor after '=' *)
  match s with
  | [] => None
  | x :: r =>
      if envvar_stop x then None
      else if x =? cEQ then (if first then None else Some (mkcur (Some x) r))
      else envvar_scan false (Some x) r
  end.
Definition is_envvar (c : cur) : option (str * cur) :=
  opt_bind (skip_while isblank (prev c) (suf c)) (fun c1 =>
  opt_bind (envvar_scan true (prev c1) (suf c1)) (fun c2 =>
  (* name = buff[start : pos of '='] *)
  Some (firstn (length (suf c1) - length (suf c2) - 1) (suf c1), c2))).

(* ---------------------------------------------------------------- here-documents *)
(* state of the backwards test "only blanks between here and the previous newline" *)
Definition bol_step (st : bool) (x : N) : bool :=
  if x =? cNL then true else if isblank x then st else false.
Definition here_term (c : N) : bool := mem c [cSEMI; cNL; cCR; cRB; cRP].

(* the search loop of walk_here_statement for the word [w] (length [wl]); [skip] = characters
   still to be passed before str.find may match again; result: position after the accepted
   occurrence, or the end.  (Before the repair "max(here_len, 1)" an empty word whose first test
   failed made the code spin on one position for ever.) *)
Fixpoint here_search (w : str) (wl : nat) (skip : nat) (st : bool) (p : option N) (s : str) : res cur :=
  match s with
  | [] => match w, skip with
          | [], O => EIndex                  (* find("", len) = len, then buff[len] raises *)
          | _, _ => Ok (mkcur p [])
          end
  | x :: r =>
      match skip with
      | S k => here_search w wl k (bol_step st x) (Some x) r
      | O =>
          if starts_with w s then
            let after := adv wl (mkcur p s) in
            match hd_ after with
            | None => EIndex
            | Some y =>
                if here_term y && st then Ok after
                else here_search w wl (Nat.pred (Nat.max wl 1)) (bol_step st x) (Some x) r
                     (* buff.find(here_word, end_here + max(here_len, 1)) *)
            end
          else here_search w wl O (bol_step st x) (Some x) r
      end
  end.

Definition COMMAND := true.   (* interpret_level: COMMAND_PARSING = true, SPACE_PARSING = false *)
Definition SPACE := false.

Definition eqo (x : N) (e : option N) : bool := match e with Some y => x =? y | None => false end.

(* ---------------------------------------------------------------- the mutually recursive scanner *)
Section Scanner.
Variable g : str.      (* the whole buffer *)

Definition prefix_of (s : str) : str := firstn (length g - length s) g.

Fixpoint process_scope (n : nat) (c : cur) (endc : N)
    (vm fm : option (str -> bool)) (ws : str) (we : option str) (out : str) {struct n}
    : res (cur * str) :=
  match n with O => EFuel | S n' =>
  match suf c with
  | [] => Ok (c, out ++ slice ws (match we with Some e => e | None => suf c end))
  | ch :: rest =>
    if ch =? endc then Ok (c, out ++ slice ws (match we with Some e => e | None => suf c end))
    else
      let out1 := match we with Some e => out ++ slice ws e | None => out end in
      let ws1 := match we with Some _ => suf c | None => ws end in
      let com_start := suf c in
      if isspace ch then process_scope n' (adv1 c) endc vm fm ws1 None out1
      else if ch =? cHASH then process_scope n' (walk_pound g c (Some endc)) endc vm fm ws1 None out1
      else
        match is_function c with
        | Some (name, c1) =>
            do r <- process_scope n' c1 cRB None None (suf c1) None [];
            let c2 := fst r in
            let we1 := match fm with
                       | Some f => if f name then Some com_start else None
                       | None => None end in
            process_scope n' (adv1 c2) endc vm fm ws1 we1 out1
        | None =>
            match is_envvar c with
            | None =>
                do c1 <- walk_complex n' c endc COMMAND true;
                let c2 := match hd_ c1 with
                          | Some x => if x =? endc then c1 else adv1 c1
                          | None => c1 end in
                process_scope n' c2 endc vm fm ws1 None out1
            | Some (name, c1) =>
                let we1 := match vm with
                           | Some f => if f name then Some com_start else None
                           | None => None end in
                match suf c1 with
                | [] => Ok (c1, out1)              (* "if pos >= end: return pos": no final write *)
                | _ :: _ =>
                    do c2 <- env_value n' c1 endc;
                    process_scope n' c2 endc vm fm ws1 we1 out1
                end
            end
        end
  end end

(* the inner "while" of process_scope that walks the value of an assignment *)
with env_value (n : nat) (c : cur) (endc : N) {struct n} : res cur :=
  match n with O => EFuel | S n' =>
  match suf c with
  | [] => Ok c
  | ch :: rest =>
      if isspace ch || (ch =? cSEMI) then Ok c
      else if ch =? cSQ then env_value n' (adv1 (walk_no_parsing g (adv1 c) cSQ)) endc
      else if (ch =? cDQ) || (ch =? cBQ) then
        do c1 <- walk_escaped n' (adv1 c) ch; env_value n' (adv1 c1) endc
      else if ch =? cLP then
        do c1 <- walk_escaped n' (adv1 c) cRP; env_value n' (adv1 c1) endc
      else if ch =? cDOL then
        match rest with
        | [] => Ok (adv1 c)
        | _ :: _ => do c1 <- walk_dollar n' (adv1 c) endc false; env_value n' c1 endc
        end
      else do c1 <- walk_complex n' c cSP SPACE true; env_value n' c1 endc
  end end

with walk_complex (n : nat) (c : cur) (endc : N) (level first : bool) {struct n} : res cur :=
  match n with O => EFuel | S n' =>
  match suf c with
  | [] => Ok c
  | ch :: rest =>
      if ch =? endc then
        if negb (endc =? cRB) then Ok c
        else if first then Ok c
        else if (match prev c with Some x => (x =? cSEMI) || (x =? cNL) | None => false end) then Ok c
        else walk_complex n' (adv1 c) endc level false
      else if (level && ((ch =? cSEMI) || (ch =? cNL))) || (negb level && isspace ch) then Ok c
      else if ch =? cBS then walk_complex n' (adv1 (adv1 c)) endc level false
      else if ch =? cLT then
        if level && (match rest with x :: _ => x =? cLT | [] => false end) then
          (* "pos < end - 1" holds iff rest is non-empty; buff[pos+1] = hd rest *)
          do c1 <- walk_here n' (adv1 c); walk_complex n' c1 endc level false
        else walk_complex n' (adv1 c) endc level false
      else if ch =? cHASH then
        if first || (match prev c with Some x => isspace x || (x =? cSEMI) | None => false end)
        then walk_complex n' (walk_pound g c None) endc level false
        else walk_complex n' (adv1 c) endc level false
      else if ch =? cDOL then
        do c1 <- walk_dollar n' (adv1 c) endc false; walk_complex n' c1 endc level false
      else if ch =? cLB then
        do c1 <- walk_escaped n' (adv1 c) cRB; walk_complex n' (adv1 c1) endc level false
      else if (ch =? cLP) && level then
        do c1 <- walk_escaped n' (adv1 c) cRP; walk_complex n' (adv1 c1) endc level false
      else if (ch =? cBQ) || (ch =? cDQ) then
        do c1 <- walk_escaped n' (adv1 c) ch; walk_complex n' (adv1 c1) endc level false
      else if (ch =? cSQ) && negb (endc =? cDQ) then
        walk_complex n' (adv1 (walk_no_parsing g (adv1 c) cSQ)) endc level false
      else walk_complex n' (adv1 c) endc level false
  end end

(* raw_walk_command_escaped_parsing *)
with walk_escaped (n : nat) (c : cur) (endc : N) {struct n} : res cur :=
  match n with O => EFuel | S n' =>
  match suf c with
  | [] => Ok c
  | ch :: rest =>
      if ch =? endc then Ok c
      else if ch =? cBS then walk_escaped n' (adv1 (adv1 c)) endc
      else if ch =? cLB then
        if negb (endc =? cDQ) then do c1 <- walk_escaped n' (adv1 c) cRB; walk_escaped n' (adv1 c1) endc
        else walk_escaped n' (adv1 c) endc
      else if ch =? cLP then
        if negb (endc =? cDQ) then do c1 <- walk_escaped n' (adv1 c) cRP; walk_escaped n' (adv1 c1) endc
        else walk_escaped n' (adv1 c) endc
      else if (ch =? cBQ) || (ch =? cDQ) then
        do c1 <- walk_escaped n' (adv1 c) ch; walk_escaped n' (adv1 c1) endc
      else if (ch =? cSQ) && negb (endc =? cDQ) then
        walk_escaped n' (adv1 (walk_no_parsing g (adv1 c) cSQ)) endc
      else if ch =? cDOL then
        do c1 <- walk_dollar n' (adv1 c) endc (endc =? cDQ); walk_escaped n' c1 endc
      else if (ch =? cHASH) && negb (endc =? cDQ) then
        walk_escaped n' (walk_pound g c (Some endc)) endc
      else walk_escaped n' (adv1 c) endc
  end end

(* walk_dollar_expansion; [c] is the position after the dollar sign *)
with walk_dollar (n : nat) (c : cur) (endc : N) (disable_quote : bool) {struct n} : res cur :=
  match n with O => EFuel | S n' =>
  match suf c with
  | [] => EIndex
  | ch :: rest =>
      if ch =? cLP then
        do r <- process_scope n' (adv1 c) cRP None None (suf (adv1 c)) None []; Ok (adv1 (fst r))
      else if (ch =? cSQ) && negb disable_quote then Ok (adv1 (walk_dollared (adv1 c) cSQ))
      else if negb (ch =? cLB) then
        if ch =? cDOL then Ok (adv1 c) else dollar_name n' c endc
      else dollar_brace n' (adv1 c) endc
  end end

(* the "$name" loop of walk_dollar_expansion *)
with dollar_name (n : nat) (c : cur) (endc : N) {struct n} : res cur :=
  match n with O => EFuel | S n' =>
  match suf c with
  | [] => Ok c
  | ch :: rest =>
      if ch =? endc then Ok c
      else if isspace ch then Ok c
      else if ch =? cDOL then walk_dollar n' (adv1 c) endc false
      else if negb (isalnum ch) && negb (ch =? cUS) then Ok c
      else dollar_name n' (adv1 c) endc
  end end

(* the "${...}" loop of walk_dollar_expansion; returns pos + 1 *)
with dollar_brace (n : nat) (c : cur) (endc : N) {struct n} : res cur :=
  match n with O => EFuel | S n' =>
  match suf c with
  | [] => Ok c
  | ch :: rest =>
      if ch =? cRB then Ok (adv1 c)
      else if ch =? cDOL then do c1 <- walk_dollar n' (adv1 c) endc false; dollar_brace n' c1 endc
      else dollar_brace n' (adv1 c) endc
  end end

(* walk_here_statement; [c] is the position of the second '<' *)
with walk_here (n : nat) (c : cur) {struct n} : res cur :=
  match n with O => EFuel | S n' =>
  let c0 := adv1 c in
  match suf c0 with
  | [] => EIndex
  | ch :: _ =>
    if ch =? cLT then Ok (adv1 c0)
    else
      let c1 := match skip_while (fun x => isspace x || (x =? cMINUS)) (prev c0) (suf c0) with
                | Some c' => c' | None => mkcur None [] end in
      match suf c1 with
      | [] => EIndex
      | q :: _ =>
          do we <- (if (q =? cSQ) || (q =? cDQ)
                    then Ok (adv1 c1, walk_no_parsing g (adv1 c1) q)
                    else do e <- walk_complex n' c1 cSP SPACE true; Ok (c1, e));
          let wstart := fst we in
          let e := snd we in
          let word := slice (suf wstart) (suf e) in
          let e1 := adv1 e in
          match suf e1 with
          | [] => Ok e1
          | _ :: _ =>
              let st0 := fold_left bol_step (prefix_of (suf e1)) false in
              here_search word (length word) O st0 (prev e1) (suf e1)
          end
      end
  end end.

End Scanner.

(* ---------------------------------------------------------------- run / main_run *)
Definition fuel_of (buf : str) : nat := 3 * length buf + 8.

(* filter_env.run on a buffer (main_run appends the NUL) *)
Definition run_buf (buf : str) (vm fm : option (str -> bool)) : res str :=
  do r <- process_scope buf (fuel_of buf) (mkcur None buf) cNUL vm fm buf None []; Ok (snd r).

Definition str_mem (x : str) (l : list str) : bool := existsb (str_eqb x) l.
Definition nonempty (s : str) : bool := match s with [] => false | _ => true end.

(* build_regex_string(tokens, invert).match for literal names:
   None = "no filter" (tokens empty), Some None = build_regex_string returned None and
   .match raised AttributeError, Some (Some f) = the predicate "re.match succeeds" *)
Definition build_match (tokens : list str) (invert : bool) : option (option (str -> bool)) :=
  match tokens with
  | [] => None
  | _ =>
      let toks := filter nonempty tokens in
      match toks with
      | [] => Some None
      | _ => Some (Some (fun name => xorb invert (str_mem name toks)))
      end
  end.

Inductive mres := MOut (s : str) | MIndex | MFuel | MAttr.

Definition main_run (data : str) (vars funcs : list str) (vwl fwl : bool) : mres :=
  match build_match vars vwl with
  | Some None => MAttr
  | v =>
    match build_match funcs fwl with
    | Some None => MAttr
    | f =>
        let vm := match v with Some (Some p) => Some p | _ => None end in
        let fm := match f with Some (Some p) => Some p | _ => None end in
        match run_buf (data ++ [cNUL]) vm fm with
        | Ok s => MOut s | EIndex => MIndex | EFuel => MFuel
        end
    end
  end.

(* ---------------------------------------------------------------- encoders for the harness *)
Definition e_index : str := [73;110;100;101;120;69;114;114;111;114].            (* "IndexError" *)
Definition e_attr : str := [65;116;116;114;105;98;117;116;101;69;114;114;111;114]. (* "AttributeError" *)
Definition e_fuel : str := [104;97;110;103].                                     (* "hang" *)
Definition enc (r : mres) : val :=
  match r with MOut s => VS s | MIndex => VErr e_index | MAttr => VErr e_attr | MFuel => VErr e_fuel end.

(* Outputs are compared through (length, polynomial hash mod 2^31-1): embedding every output
   string in the generated cases file doubles Coq's parsing time.  The harness computes the
   same digest of the implementation's output. *)
Definition hash (s : str) : N := fold_left (fun h c => (h * 257 + c + 1) mod 2147483647) s 7.
Definition digest (s : str) : val := VL [VZ (Z.of_nat (length s)); VZ (Z.of_N (hash s))].
Definition enc_d (r : mres) : val :=
  match r with MOut s => digest s | _ => enc r end.

(* stream input: ((data, vars, funcs), (vars_is_whitelist, funcs_is_whitelist)) *)
Definition run_filter (i : (str * list str * list str) * (bool * bool)) : val :=
  let '((d, v, f), (vw, fw)) := i in enc_d (main_run d v f vw fw).
