import time, random, tempfile, shutil, logging, os
logging.disable(logging.CRITICAL)
from harness import c13
rng=random.Random(5)
ws=[c13.gen_world(rng) for _ in range(12)]
root=tempfile.mkdtemp()
for k,w in enumerate(ws):
    t=time.time()
    d=os.path.join(root,"w%d"%k); c13.run_impl(w,d); t1=time.time()-t; shutil.rmtree(d)
    print("%.3f %.3f"%(t1, time.time()-t))
