(* Model_C08.v — executable model of repository queries
   (src/pkgcore/repository/prototype.py: tree.itermatch, _internal_gen_candidates, _internal_match,
   _candidate_restrictions, _identify_candidates, _fast_identify_candidates, _cat_filter,
   _package_filter; repository/multiplex.py: tree.itermatch; repository/util.py: SimpleTree).
   No proofs here.

   The model is of the REPAIRED candidate search (fixes/C08-candidate-pruning-polarity.patch):
   category/package restrictions are collected by `_candidate_restrictions`, which only walks
   un-negated AND/OR groupings and skips wrapper-negated leaves below the root.  On the pinned tree
   `collect_package_restrictions` flattened the whole tree ignoring negation and grouping kind, so
   `And(PackageRestriction(category==a, negate=True), package==x)` pruned every candidate.

   Restrictions are C06.Restr trees; a leaf id names a PackageRestriction through the world's
   [info] table: attr category / package with a string value restriction, or any other attribute
   (opaque truth supplied per object).  The leaf's own `negate` is the [Leaf neg id] flag.
   The normal form is C06.Model_C06.dnf (iter_dnf_solutions(True)). *)
From Coq Require Import List NArith ZArith Bool.
Import ListNotations.
From Verif Require Import Base.Val C06.Restr C06.Model_C06 C08.Ord_C08.

(* ------------------------------------------------------------------ repository (SimpleTree) *)
Definition repo := list (str * list (str * list ver)).    (* cpv_dict: cat -> pkg -> versions *)

Fixpoint assoc {B} (k : str) (l : list (str * B)) : option B :=
  match l with
  | [] => None
  | (k', v) :: r => if str_eqb k k' then Some v else assoc k r
  end.
Definition categories (R : repo) : list str := map fst R.
Definition packages_get (R : repo) (c : str) : list str :=        (* self.packages.get(c, ()) *)
  match assoc c R with Some ps => map fst ps | None => [] end.
Definition versions_get (R : repo) (k : cp) : list ver :=         (* self.versions.get(cp, ()) *)
  match assoc (fst k) R with
  | Some ps => match assoc (snd k) ps with Some vs => vs | None => [] end
  | None => []
  end.
Definition has_cp (R : repo) (k : cp) : bool :=                   (* cp in self.versions *)
  match assoc (fst k) R with
  | Some ps => match assoc (snd k) ps with Some _ => true | None => false end
  | None => false
  end.
(* ((c, p) for c in cats for p in self.packages.get(c, ())) *)
Definition cps_of (R : repo) (cats : list str) : list cp :=
  flat_map (fun c => map (pair c) (packages_get R c)) cats.
Definition all_cp (R : repo) : list cp := cps_of R (categories R).   (* iter(self.versions) *)

(* ------------------------------------------------------------------ leaves *)
Inductive vmatch : Type :=
| MExact (s : str) (neg : bool)             (* values.StrExactMatch(s, negate=neg) *)
| MGlob (s : str) (prefix neg : bool)       (* values.StrGlobMatch(s, prefix=, negate=) *)
| MPred (id : N) (neg : bool)               (* values.StrRegex(...) etc.: opaque predicate id *)
| MContain (vals : list str).               (* values.ContainmentMatch(frozenset(vals)) on a str: substring test *)

Inductive leafdesc : Type :=
| LCat (m : vmatch)                         (* PackageRestriction("category", m) *)
| LPkg (m : vmatch)                         (* PackageRestriction("package", m) *)
| LOther (id : N).                          (* PackageRestriction(<other attr>, ...): opaque *)

Record world := { info : N -> leafdesc; pred : N -> str -> bool; opq : N -> pobj -> bool }.

Definition vm (w : world) (m : vmatch) (s : str) : bool :=
  match m with
  | MExact e n => xorb (str_eqb e s) n
  | MGlob g true n => xorb (prefixb g s) n
  | MGlob g false n => xorb (suffixb g s) n
  | MPred i n => xorb (pred w i s) n
  | MContain vs => existsb (fun f => substrb f s) vs
  end.

(* restriction.match(attr) of leaf i on object o; a missing attribute (every attribute of a bare
   tuple) makes PackageRestriction.match return its own negate, i.e. the base truth is false *)
Definition base (w : world) (o : pobj) (i : N) : bool :=
  match o with
  | PT _ _ => false
  | PV c p _ | PU c p =>
      match info w i with
      | LCat m => vm w m c
      | LPkg m => vm w m p
      | LOther k => opq w k o
      end
  end.
Definition matches (w : world) (r : restr) (o : pobj) : bool := eval (base w o) r.

(* ------------------------------------------------------------------ candidate search *)
(* _candidate_restrictions(restrict, attrs, nested) *)
Fixpoint pl (nested : bool) (r : restr) : list (bool * N) :=
  match r with
  | Leaf n i => if nested && n then [] else [(n, i)]
  | Node (KAnd | KOr | KAtom) false cs => flat_map (pl true) cs
  | _ => []
  end.
Definition cat_ms (w : world) (l : list (bool * N)) : list vmatch :=
  flat_map (fun x => match info w (snd x) with LCat m => [m] | _ => [] end) l.
Definition pkg_ms (w : world) (l : list (bool * N)) : list vmatch :=
  flat_map (fun x => match info w (snd x) with LPkg m => [m] | _ => [] end) l.

Definition is_exact (m : vmatch) : bool := match m with MExact _ false => true | _ => false end.
Definition exacts (ms : list vmatch) : list str :=
  dedup (flat_map (fun m => match m with MExact s false => [s] | _ => [] end) ms).
Definition rest (ms : list vmatch) : list vmatch := filter (fun m => negb (is_exact m)) ms.

(* the loops of _cat_filter / _package_filter: some restriction's match == sentinel *)
Definition any_match (w : world) (ms : list vmatch) (sentinel : bool) (s : str) : bool :=
  existsb (fun m => Bool.eqb (vm w m s) sentinel) ms.
Definition cat_filter (w : world) (R : repo) (ms : list vmatch) (negate : bool) : list str :=
  filter (any_match w ms (negb negate)) (categories R).
Definition package_filter (w : world) (R : repo) (cats : list str) (ms : list vmatch) (negate : bool) : list cp :=
  flat_map (fun c => map (pair c) (filter (any_match w ms (negb negate)) (packages_get R c))) cats.

Definition rneg (r : restr) : bool :=          (* getattr(restrict, "negate", False) *)
  match r with Leaf n _ => n | Always b => b | Neg _ => false | Node _ n _ => n end.

Definition fast_pkgs (w : world) (R : repo) (negate : bool) (cats_iter : list str)
           (pkg_exact : list str) (pkg_rest : list vmatch) : list cp :=
  match pkg_exact with
  | _ :: _ =>
      match pkg_rest with
      | [] => flat_map (fun c => map (pair c) pkg_exact) cats_iter
      | _ => package_filter w R cats_iter (pkg_rest ++ [MContain pkg_exact]) negate
      end
  | [] =>
      match pkg_rest with
      | _ :: _ => package_filter w R cats_iter pkg_rest negate
      | [] => cps_of R cats_iter
      end
  end.

(* the decision ladder of _fast_identify_candidates on the extracted exact names / other value
   restrictions, as a set of (category, package) keys *)
Definition fast_body (w : world) (R : repo) (negate : bool)
           (cat_exact : list str) (cat_rest : list vmatch)
           (pkg_exact : list str) (pkg_rest : list vmatch) : list cp :=
  match cat_exact with
  | _ :: _ =>
      match cat_rest, cat_exact with
      | [], [c] =>
          match pkg_rest, pkg_exact with
          | [], [p] => if has_cp R (c, p) then [(c, p)] else []
          | _, _ => fast_pkgs w R negate [c] pkg_exact pkg_rest
          end
      | _, _ => fast_pkgs w R negate (cat_filter w R (cat_rest ++ [MContain cat_exact]) false)
                          pkg_exact pkg_rest
      end
  | [] =>
      match cat_rest with
      | _ :: _ => fast_pkgs w R negate (cat_filter w R cat_rest negate) pkg_exact pkg_rest
      | [] => fast_pkgs w R negate (categories R) pkg_exact pkg_rest
      end
  end.

(* _fast_identify_candidates(restrict, sorter) *)
Definition fast (w : world) (R : repo) (r : restr) : list cp :=
  let coll := pl false r in
  let cms := cat_ms w coll in
  let pms := pkg_ms w coll in
  let negate := rneg r in
  fast_body w R negate (if negate then [] else exacts cms) (rest cms)
            (if negate then [] else exacts pms) (rest pms).

Definition nonempty {A} (l : list A) : bool := match l with [] => false | _ => true end.
(* one entry of dsolutions *)
Definition clause_cp (w : world) (cl : clause) : list vmatch * list vmatch :=
  let c := flat_map (pl true) cl in (cat_ms w c, pkg_ms w c).

(* _identify_candidates for a boolean grouping: the analysis of the normal form; None = an exception *)
Definition identify_dnf (w : world) (R : repo) (r : restr) : option (list cp) :=
  match dnf true r with
  | inr _ => None
  | inl s =>
      let ds := map (clause_cp w) s in
      if existsb (fun x => negb (nonempty (fst x)) && negb (nonempty (snd x))) ds
      then Some (all_cp R)
      else
        match ds with
        | [] => None                                     (* dsolutions[0] *)
        | d0 :: tl =>
            let cspec := nonempty (fst d0) in
            let pspec := nonempty (snd d0) in
            if existsb (fun x => negb (Bool.eqb (nonempty (fst x)) cspec)) tl then
              if existsb (fun x => negb (Bool.eqb (nonempty (snd x)) pspec)) tl
              then Some (all_cp R)
              else Some (package_filter w R (categories R) (flat_map snd ds) false)
            else if existsb (fun x => negb (Bool.eqb (nonempty (snd x)) pspec)) tl
            then Some (cps_of R (cat_filter w R (flat_map fst ds) false))
            else Some (fast w R r)
        end
  end.

(* _identify_candidates(restrict, sorter) *)
Definition identify (w : world) (R : repo) (r : restr) : option (list cp) :=
  match r with
  | Node KAtom _ _ => Some (fast w R r)
  | Node _ _ _ => identify_dnf w R r
  | _ => Some (fast w R r)
  end.

(* isinstance(restrict, atom): candidates = [(restrict.category, restrict.package)] — the atom's
   own category/package restrictions are exact, un-negated leaves among its children *)
Definition leaf_exact (w : world) (cat : bool) (r : restr) : option str :=
  match r with
  | Leaf false i =>
      match info w i, cat with
      | LCat (MExact s false), true => Some s
      | LPkg (MExact s false), false => Some s
      | _, _ => None
      end
  | _ => None
  end.
Fixpoint first_some {A B} (f : A -> option B) (l : list A) : option B :=
  match l with
  | [] => None
  | x :: r => match f x with Some y => Some y | None => first_some f r end
  end.
Definition atom_key (w : world) (r : restr) : option cp :=
  match r with
  | Node KAtom false cs =>
      match first_some (leaf_exact w true) cs, first_some (leaf_exact w false) cs with
      | Some c, Some p => Some (c, p)
      | _, _ => None
      end
  | _ => None
  end.

Definition candidates (w : world) (R : repo) (r : restr) : option (list cp) :=
  match atom_key w r with
  | Some k => Some [k]
  | None => identify w R r
  end.

(* ------------------------------------------------------------------ itermatch *)
Inductive mode : Type := MVersioned | MUnvCPV | MUnvTuple.

(* _internal_gen_candidates for one candidate key *)
Definition expand (R : repo) (m : mode) (k : cp) : list pobj :=
  match m with
  | MVersioned => map (PV (fst k) (snd k)) (versions_get R k)
  | MUnvCPV => if nonempty (versions_get R k) then [PU (fst k) (snd k)] else []
  | MUnvTuple => if nonempty (versions_get R k) then [PT (fst k) (snd k)] else []
  end.

Definition itermatch (w : world) (R : repo) (m : mode) (r : restr) : option (list pobj) :=
  match candidates w R r with
  | Some cs => Some (filter (matches w r) (flat_map (expand R m) cs))
  | None => None
  end.

(* for cp in sorter(candidates): ... yield from sorter(pkgs)   (the inner sorter calls of
   _identify_candidates order the same keys and are subsumed by this outer one) *)
Definition expand_sorted (R : repo) (m : mode) (k : cp) : list pobj :=
  match m with
  | MVersioned => map (PV (fst k) (snd k)) (VerSort.sort (versions_get R k))
  | _ => expand R m k
  end.
Definition itermatch_sorted (w : world) (R : repo) (m : mode) (r : restr) : option (list pobj) :=
  match candidates w R r with
  | Some cs => Some (filter (matches w r) (flat_map (expand_sorted R m) (CpSort.sort cs)))
  | None => None
  end.

(* ------------------------------------------------------------------ multiplex.tree.itermatch *)
Fixpoint all_some {A} (l : list (option A)) : option (list A) :=
  match l with
  | [] => Some []
  | None :: _ => None
  | Some x :: r => match all_some r with Some xs => Some (x :: xs) | None => None end
  end.
(* sorter is iter: chain of the per-repository answers *)
Definition multiplex (w : world) (Rs : list repo) (m : mode) (r : restr) : option (list pobj) :=
  option_map (@concat pobj) (all_some (map (fun R => itermatch w R m r) Rs)).
(* otherwise iter_sort: merge of the per-repository sorted answers (as package keys the k-way
   merge by repeated re-sorting of the heads and the fold of two-way merges give the same list) *)
Definition multiplex_sorted (w : world) (Rs : list repo) (m : mode) (r : restr) : option (list pobj) :=
  option_map (fold_right ObjSort.merge []) (all_some (map (fun R => itermatch_sorted w R m r) Rs)).

(* ------------------------------------------------------------------ harness encoding *)
Definition pobj_eqb (a b : pobj) : bool :=
  match a, b with
  | PV c p v, PV c' p' v' => str_eqb c c' && str_eqb p p' && N.eqb v v'
  | PU c p, PU c' p' | PT c p, PT c' p' => str_eqb c c' && str_eqb p p'
  | _, _ => false
  end.
Fixpoint nassoc {B} (k : N) (l : list (N * B)) : option B :=
  match l with
  | [] => None
  | (k', v) :: r => if N.eqb k k' then Some v else nassoc k r
  end.
(* infos: leaf id -> description (by position); preds: opaque string predicate id -> the strings it
   is true on; opqs: opaque leaf id -> the objects its restriction matches *)
Definition wtable : Type := (list leafdesc * list (N * list str) * list (N * list pobj))%type.
Definition mkworld (t : wtable) : world :=
  let '(infos, preds, opqs) := t in
  {| info := fun i => nth (N.to_nat i) infos (LOther 0%N);
     pred := fun i s => match nassoc i preds with Some l => mem_str s l | None => false end;
     opq := fun i o => match nassoc i opqs with Some l => existsb (pobj_eqb o) l | None => false end |}.

Definition enc_cp (k : cp) : val := VL [VS (fst k); VS (snd k)].
Definition enc_obj (o : pobj) : val :=
  match o with
  | PV c p v => VL [VS c; VS p; VZ (Z.of_N v)]
  | PU c p => VL [VS c; VS p; VNone]
  | PT c p => VL [VS c; VS p]
  end.
Definition e_raised : val := VErr [114;97;105;115;101;100]%N.   (* "raised" *)
Definition enc_set (x : option (list pobj)) : val :=           (* compared as a sorted multiset *)
  match x with Some l => VL (map enc_obj (ObjSort.sort l)) | None => e_raised end.
Definition enc_seq (x : option (list pobj)) : val :=
  match x with Some l => VL (map enc_obj l) | None => e_raised end.

(* one case: world table, the stacked repositories, the restriction; answers:
   [candidates of the first repository (sorted set); plain query; sorted query;
    unversioned with UnversionedCPV; unversioned with bare tuples; sorted unversioned] *)
Definition qinput : Type := (wtable * list repo * restr)%type.
Definition run_query (i : qinput) : val :=
  let '(t, Rs, r) := i in
  let w := mkworld t in
  VL [ match Rs with
       | R :: _ => match candidates w R r with
                   | Some cs => VL (map enc_cp (CpSort.sort cs))
                   | None => e_raised
                   end
       | [] => VNone
       end;
       enc_set (multiplex w Rs MVersioned r);
       enc_seq (multiplex_sorted w Rs MVersioned r);
       enc_set (multiplex w Rs MUnvCPV r);
       enc_set (multiplex w Rs MUnvTuple r);
       enc_seq (multiplex_sorted w Rs MUnvCPV r) ].

(* malformed stream: itermatch(x) / match(x) with x not a restriction.base instance -> TypeError *)
Definition run_bad (i : N * N) : val := VErr [84;121;112;101;69;114;114;111;114]%N.
