(* GENERATED from merge/triggers.py, merge/engine.py, merge/const.py, os_data.py by harness/tables.py on every run — do not edit. *)
From Coq Require Import List ZArith NArith Bool.
Import ListNotations.
From Verif Require Import Base.Val.

(* fix_set_bits: an entry is selected when (mode & sel_setid) and (mode & sel_ww); then mode & ~wipe *)
Definition sb_sel_setid : N := 3072%N.  (* 0o6000 *)
Definition sb_sel_ww : N := 2%N.  (* 0o2 *)
Definition sb_wipe : N := 3074%N.  (* 0o6002 *)
(* detect_world_writable: selected when mode & sel; with fix_perms: mode & ~wipe *)
Definition ww_sel : N := 2%N.
Definition ww_wipe : N := 2%N.

Definition root_uid : N := 0%N.
Definition root_gid : N := 0%N.

(* merge/const.py *)
Definition REPLACE_MODE : N := 0%N.
Definition INSTALL_MODE : N := 1%N.
Definition UNINSTALL_MODE : N := 2%N.

(* default_plugins_triggers(): (class name, priority, _hooks, _engine_types) in source order *)
Definition default_triggers : list (str * Z * list str * option (list N)) :=
  [([108;100;99;111;110;102;105;103]%N, 10%Z, [[112;114;101;95;109;101;114;103;101]%N; [112;111;115;116;95;109;101;114;103;101]%N; [112;114;101;95;117;110;109;101;114;103;101]%N; [112;111;115;116;95;117;110;109;101;114;103;101]%N], (@None (list N))); ([109;101;114;103;101]%N, 50%Z, [[109;101;114;103;101]%N], (Some [0%N; 1%N])); ([117;110;109;101;114;103;101]%N, 50%Z, [[117;110;109;101;114;103;101]%N], (Some [0%N; 2%N])); ([102;105;120;95;117;105;100;95;112;101;114;109;115]%N, 50%Z, [[112;114;101;95;109;101;114;103;101]%N], (Some [0%N; 1%N])); ([102;105;120;95;103;105;100;95;112;101;114;109;115]%N, 50%Z, [[112;114;101;95;109;101;114;103;101]%N], (Some [0%N; 1%N])); ([102;105;120;95;115;101;116;95;98;105;116;115]%N, 50%Z, [[112;114;101;95;109;101;114;103;101]%N], (Some [0%N; 1%N])); ([100;101;116;101;99;116;95;119;111;114;108;100;95;119;114;105;116;97;98;108;101]%N, 50%Z, [[112;114;101;95;109;101;114;103;101]%N], (Some [0%N; 1%N])); ([73;110;102;111;82;101;103;101;110]%N, 50%Z, [[112;114;101;95;109;101;114;103;101]%N; [112;111;115;116;95;109;101;114;103;101]%N; [112;114;101;95;117;110;109;101;114;103;101]%N; [112;111;115;116;95;117;110;109;101;114;103;101]%N], (@None (list N))); ([67;111;109;109;111;110;68;105;114;101;99;116;111;114;121;77;111;100;101;115]%N, 50%Z, [[112;114;101;95;109;101;114;103;101]%N], (Some [0%N; 1%N])); ([66;97;115;101;83;121;115;116;101;109;85;110;109;101;114;103;101;80;114;111;116;101;99;116;105;111;110]%N, (-100)%Z, [[117;110;109;101;114;103;101]%N], (Some [0%N; 2%N]))].

(* MergeEngine.install_hooks / uninstall_hooks (replace_hooks is their union) *)
Definition install_hooks : list str := [[115;97;110;105;116;121;95;99;104;101;99;107]%N; [112;114;101;95;109;101;114;103;101]%N; [109;101;114;103;101]%N; [112;111;115;116;95;109;101;114;103;101]%N; [102;105;110;97;108]%N].
Definition uninstall_hooks : list str := [[115;97;110;105;116;121;95;99;104;101;99;107]%N; [112;114;101;95;117;110;109;101;114;103;101]%N; [117;110;109;101;114;103;101]%N; [112;111;115;116;95;117;110;109;101;114;103;101]%N; [102;105;110;97;108]%N].

(* names used by the model *)
Definition name_pre_merge : str := [112;114;101;95;109;101;114;103;101]%N.
Definition name_fix_uid_perms : str := [102;105;120;95;117;105;100;95;112;101;114;109;115]%N.
Definition name_fix_gid_perms : str := [102;105;120;95;103;105;100;95;112;101;114;109;115]%N.
Definition name_fix_set_bits : str := [102;105;120;95;115;101;116;95;98;105;116;115]%N.
Definition name_detect_world_writable : str := [100;101;116;101;99;116;95;119;111;114;108;100;95;119;114;105;116;97;98;108;101]%N.
