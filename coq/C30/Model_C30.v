(* Model_C30.v — executable model of pkgcore.pkgsets.filelist.WorldFile
   (src/pkgcore/pkgsets/filelist.py: FileList._parse, WorldFile.add/remove/_modify, FileList.flush)
   and of pmerge.update_worldset (src/pkgcore/scripts/pmerge.py).  No proofs here.

   [_modify] is modelled in its REPAIRED form (fixes/C30-world-slot.patch): the slot of the atom is
   one value (a string or None); the recorded entry is  category/package  when the slot is absent,
   empty or "0", and  category/package:slot  otherwise.  The pinned code iterated over the
   CHARACTERS of the slot string ([world_add_pinned] keeps that behaviour for the refutation).

   A world entry is an unversioned atom  cat/pkg[:slot] ; the set is a Python set of atoms, modelled
   as a duplicate-free list; flush() writes "\n".join(str(a) for a in sorted(atoms)) (atom.__cmp__:
   category, package, ..., slot with None as "") through snakeoil's AtomicWriteFile
   (C24/Model_C24.atomic_ops).  Reading: readlines_ascii(path, True): every line stripped; empty
   lines and '#' lines skipped; '@set' lines dropped (WorldFile: error_on_subsets = False, no
   config); every other line is atom(line).

   The atom requested by the caller enters the model as (category, package, slot) — the attributes
   _modify reads (atom.key, atom.slot) — extracted by the harness from the real atom object; atom
   syntax itself is C03's subject.  Not modelled: world files holding versioned / blocker /
   use-dep atoms (their order and equality are C02's subject), nested sets with a config,
   non-ASCII bytes in the file (UnicodeDecodeError). *)
From Coq Require Import List NArith ZArith Bool Arith.
Import ListNotations.
From Verif Require Import Base.Val C22.Model_C22 C18.Fs C24.Model_C24.

Record went := { wcat : str; wpkg : str; wslot : option str }.

Definition opt_str_eqb (a b : option str) : bool :=
  match a, b with
  | Some x, Some y => str_eqb x y
  | None, None => true
  | _, _ => false
  end.
Definition went_eqb (a b : went) : bool :=
  str_eqb (wcat a) (wcat b) && str_eqb (wpkg a) (wpkg b) && opt_str_eqb (wslot a) (wslot b).

Definition SLASH : N := 47%N.
Definition COLON : N := 58%N.
(* str(atom) *)
Definition went_text (e : went) : str :=
  wcat e ++ SLASH :: wpkg e ++ match wslot e with Some s => COLON :: s | None => [] end.

(* ------------------------------------------------------------------ WorldFile._modify (repaired) *)
Definition zero : str := [48%N].
Definition is_nil {A} (l : list A) : bool := match l with [] => true | _ => false end.
(* the entry recorded for an atom of this category/package/slot *)
Definition target (c p : str) (s : option str) : went :=
  {| wcat := c; wpkg := p;
     wslot := match s with
              | Some s' => if is_nil s' || str_eqb s' zero then None else Some s'
              | None => None
              end |}.

Definition wmem (e : went) (W : list went) : bool := existsb (went_eqb e) W.
Definition set_add (e : went) (W : list went) : list went := if wmem e W then W else W ++ [e].
Definition set_remove (e : went) (W : list went) : option (list went) :=      (* None = KeyError *)
  if wmem e W then Some (filter (fun x => negb (went_eqb e x)) W) else None.

Definition world_add (c p : str) (s : option str) (W : list went) : list went :=
  set_add (target c p s) W.
Definition world_remove (c p : str) (s : option str) (W : list went) : option (list went) :=
  set_remove (target c p s) W.

(* the pinned code: for slot in atom_inst.slot — one add per CHARACTER *)
Definition target_char (c p : str) (ch : N) : went :=
  {| wcat := c; wpkg := p; wslot := if N.eqb ch 48 then None else Some [ch] |}.
Definition world_add_pinned (c p : str) (s : option str) (W : list went) : list went :=
  match s with
  | Some (ch :: r) => fold_left (fun W ch => set_add (target_char c p ch) W) (ch :: r) W
  | _ => set_add (target c p None) W
  end.

(* ------------------------------------------------------------------ flush *)
Definition slot_key (e : went) : str := match wslot e with Some s => s | None => [] end.
Definition went_ltb (a b : went) : bool :=
  if str_ltb (wcat a) (wcat b) then true else if str_ltb (wcat b) (wcat a) then false
  else if str_ltb (wpkg a) (wpkg b) then true else if str_ltb (wpkg b) (wpkg a) then false
  else str_ltb (slot_key a) (slot_key b).
Fixpoint wins (e : went) (l : list went) : list went :=
  match l with
  | [] => [e]
  | x :: r => if went_ltb e x then e :: l else x :: wins e r
  end.
Definition wsort (l : list went) : list went := fold_right wins [] l.

Fixpoint join_nl (l : list str) : str :=
  match l with
  | [] => []
  | a :: r => match r with [] => a | _ => a ++ NL :: join_nl r end
  end.
Definition flush_text (W : list went) : str := join_nl (map went_text (wsort W)).

Definition P_WORLD : path := [[119;111;114;108;100]%N].
Definition P_WTMP : path := [[46;117;112;100;97;116;101;46;119;111;114;108;100]%N].
(* FileList.flush: AtomicWriteFile(path, gid=gid, perms=mode); ONE write call with the whole text *)
Definition wflush_ops (s : fs) (mode gid : N) (c : nat) (W : list went) : list op :=
  atomic_ops s P_WTMP P_WORLD mode None (Some gid) (chunked c (utf8 (flush_text W))).

(* ------------------------------------------------------------------ reading *)
Fixpoint cut_at (sep : N) (s : str) : str * option str :=
  match s with
  | [] => ([], None)
  | c :: r => if N.eqb c sep then ([], Some r)
              else let '(a, b) := cut_at sep r in (c :: a, b)
  end.
Definition has_space (s : str) : bool := existsb py_space s.
(* atom(x) for the shapes cat/pkg and cat/pkg:slot over plain names; None = MalformedAtom *)
Definition parse_went (x : str) : option went :=
  let '(k, sl) := cut_at COLON x in
  let '(c, p) := cut_at SLASH k in
  match p with
  | None => None
  | Some p' =>
      if is_nil c || is_nil p' || has_space x || match sl with Some [] => true | _ => false end
      then None
      else Some {| wcat := c; wpkg := p'; wslot := sl |}
  end.

Definition starts_with_c (c : N) (s : str) : bool := match s with x :: _ => N.eqb x c | [] => false end.
Fixpoint parse_lines (ls : list str) (W : list went) : option (list went) :=   (* None = ParsingError *)
  match ls with
  | [] => Some W
  | x :: r =>
      if starts_with_c 35 x then parse_lines r W            (* '#' *)
      else if starts_with_c 64 x then parse_lines r W       (* '@': unknown set, dropped *)
      else match parse_went x with
           | Some e => parse_lines r (set_add e W)
           | None => None
           end
  end.
Definition parse_world (text : str) : option (list went) := parse_lines (content_lines text) [].

(* ------------------------------------------------------------------ encoders for the harness *)
Inductive wop := WAdd (c p : bstr) (s : option bstr) | WRemove (c p : bstr) (s : option bstr) | WFlush
               | UAdd (c p : bstr) (s : option bstr) | URemove (c p : bstr) (s : option bstr).
Definition os2l (o : option bstr) : option str := option_map s2l o.
Definition KEYERR : val := VErr [75;101;121;69;114;114;111;114]%N.
Definition PARSEERR : val := VErr [80;97;114;115;105;110;103;69;114;114;111;114]%N.

(* state: the in-memory set and the text of the file on disk; outcome: [status; file text] *)
Definition step (st : list went * str) (o : wop) : val * (list went * str) :=
  let '(W, f) := st in
  match o with
  | WAdd c p s => let W' := world_add (s2l c) (s2l p) (os2l s) W in (VL [VNone; VS f], (W', f))
  | WRemove c p s =>
      match world_remove (s2l c) (s2l p) (os2l s) W with
      | Some W' => (VL [VNone; VS f], (W', f))
      | None => (VL [KEYERR; VS f], (W, f))
      end
  | WFlush => let f' := flush_text W in (VL [VNone; VS f'], (W, f'))
  (* pmerge.update_worldset *)
  | UAdd c p s => let W' := world_add (s2l c) (s2l p) (os2l s) W in
                  let f' := flush_text W' in (VL [VNone; VS f'], (W', f'))
  | URemove c p s =>
      match world_remove (s2l c) (s2l p) (os2l s) W with
      | Some W' => let f' := flush_text W' in (VL [VNone; VS f'], (W', f'))
      | None => (VL [VNone; VS f], (W, f))
      end
  end.
Fixpoint steps (st : list went * str) (ops : list wop) : list val :=
  match ops with
  | [] => [VL (map (fun e => VS (went_text e)) (wsort (fst st)))]
  | o :: r => let '(v, st') := step st o in v :: steps st' r
  end.
(* stream "seq": initial file text, then operations; the last element is the final set *)
Definition run_seq (i : bstr * list wop) : val :=
  let text := s2l (fst i) in
  match parse_world text with
  | None => PARSEERR
  | Some W => VL (steps (W, text) (snd i))
  end.

(* stream "parse": the set read from a world file text *)
Definition run_wparse (t : bstr) : val :=
  match parse_world (s2l t) with
  | None => PARSEERR
  | Some W => VL (map (fun e => VS (went_text e)) (wsort W))
  end.

(* stream "fault": directory with [old] as world, [stale] as .update.world and a bystander; the set
   read from [old] (empty when absent) changed by the operations, then flush() with a crash / EIO
   at attempted call k *)
Record wfault_in := { w_old : option bstr; w_stale : option bstr; w_ops : list wop;
                      w_mode : N; w_gid : N; w_chunk : nat; w_k : nat; w_eio : bool }.
Definition winit_fs (i : wfault_in) : fs :=
  (match w_old i with Some b => [(P_WORLD, mkfile 1 384 b)] | None => [] end)
  ++ (match w_stale i with Some b => [(P_WTMP, mkfile 2 416 b)] | None => [] end)
  ++ [(P_OTHER, mkfile 3 420 (BS []))].
Definition apply_quiet (W : list went) (o : wop) : list went :=
  match o with
  | WAdd c p s | UAdd c p s => world_add (s2l c) (s2l p) (os2l s) W
  | WRemove c p s | URemove c p s =>
      match world_remove (s2l c) (s2l p) (os2l s) W with Some W' => W' | None => W end
  | WFlush => W
  end.
Definition wfault_set (i : wfault_in) : list went :=
  let W0 := match w_old i with
            | Some b => match parse_world (s2l b) with Some W => W | None => [] end
            | None => [] end in
  fold_left apply_quiet (w_ops i) W0.
Definition enc_wfs (s : fs) : val :=
  VL [enc_node (lookup s P_WORLD); enc_node (lookup s P_WTMP); enc_node (lookup s P_OTHER)].
Definition run_wfault (i : wfault_in) : val :=
  let s := winit_fs i in
  let ops := wflush_ops s (w_mode i) (w_gid i) (w_chunk i) (wfault_set i) in
  VL [VZ (Z.of_nat (length ops)); enc_wfs (fault_state s P_WTMP ops (w_k i) (w_eio i))].
