import os, tempfile, shutil
from pkgcore.ebuild import repository
d = tempfile.mkdtemp(prefix="c49_")
for x in ("profiles","metadata","eclass","cat/p1","cat/p2"): os.makedirs(f"{d}/{x}")
open(f"{d}/profiles/repo_name","w").write("c49\n")
open(f"{d}/metadata/layout.conf","w").write("masters =\ncache-formats =\n")
open(f"{d}/cat/p1/p1-1.ebuild","w").write('EAPI=7\nIUSE="-n foo"\nSLOT=0\nKEYWORDS="~amd64"\nDESCRIPTION="unset"\n')
open(f"{d}/cat/p2/p2-1.ebuild","w").write('EAPI=7\nIUSE="-e foo"\nSLOT=0\nKEYWORDS="~amd64"\nDESCRIPTION="d"\n')
repo = repository.UnconfiguredTree(d)
for n in ("p1","p2"):
    pkg = repo.package_class("cat", n, "1")
    try:
        print(n, {k:v for k,v in dict(pkg.data).items() if not k.startswith("_")})
    except Exception as e:
        print(n, "EXC", type(e).__name__, e)
shutil.rmtree(d)
