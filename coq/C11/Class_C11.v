(* Class_C11.v — the decidable finding classes of C11 (predicates on the history-with-grouping)
   and the staleness analysis behind class (b).  Definitions only. *)
From Coq Require Import List NArith ZArith Bool.
Import ListNotations.
From Verif Require Import Base.Val C11.Model_C11 C11.Spec_C11.
Open Scope N_scope.

Definition atomkey (c : chunk) : option N :=
  match sc c with KSimple k | KVer k _ => Some k | _ => None end.
Definition globalish (c : chunk) : bool :=
  match sc c with KAll | KGlob _ => true | _ => false end.
Definition has_wild (c : chunk) : bool := existsb (fun t => t <? 10) (neg c).

(* (a), as used by the theorem: an entry applicable to the package carries a wildcard negation *)
Definition class_a (pr : prog) (p : pkg) : bool :=
  existsb (fun c => applies (sc c) p && has_wild c) (entries_of pr).

(* (a), tight form used by the harness classifier: the wildcard has to clear a flag added by an
   earlier applicable entry, or it sits in a specific entry and a later lockable entry adds a flag
   it matches (collapsing moves that addition in front of it) *)
Definition wclears (w f : N) : bool := (w =? 0) || ((0 <? w) && (w <? 10) && (f / 100 =? w)).
Fixpoint class_a_tight_l (before : list chunk) (l : list chunk) (p : pkg) : bool :=
  match l with
  | [] => false
  | c :: r =>
      (applies (sc c) p &&
       existsb (fun w => (w <? 10) &&
                  (existsb (fun e => applies (sc e) p && existsb (wclears w) (pos e)) before
                   || (negb (lockable c) &&
                       existsb (fun e => applies (sc e) p && lockable e && existsb (wclears w) (pos e)) r)))
               (neg c))
      || class_a_tight_l (before ++ [c]) r p
  end.
Definition class_a_tight (pr : prog) (p : pkg) : bool := class_a_tight_l [] (entries_of pr) p.

(* (c): two specific (version / glob) entries applicable to the package give one flag opposite signs *)
Definition sneg (H : list chunk) (p : pkg) (x : N) : bool :=
  existsb (fun e => negb (lockable e) && applies (sc e) p && mem x (neg e)) H.
Definition spos (H : list chunk) (p : pkg) (x : N) : bool :=
  existsb (fun e => negb (lockable e) && applies (sc e) p && mem x (pos e)) H.
Definition class_c (pr : prog) (p : pkg) : bool :=
  existsb (fun e => negb (lockable e) && applies (sc e) p && existsb (spos (entries_of pr) p) (neg e))
          (entries_of pr).

(* (b): staleness analysis.  A key is stale when a non-empty global entry, a merge bringing
   globals or an optimize happened after its list was created; the seed of a clone is stale when
   that happened after the clone.  Hazard: an atom-keyed entry added to a stale key, or a new key
   created (by an entry or by a merge) while the seed is stale. *)
Record st := mkst { s_keys : list N; s_stale : list N; s_cl : bool; s_ss : bool; s_hz : list N; s_fr : bool }.
Definition has_globals (H : list chunk) : bool := existsb (fun c => globalish c && negb (empty_chunk c)) H.
Fixpoint stale (pr : prog) : st :=
  match pr with
  | PNew => mkst [] [] false false [] false
  | PAdd p c =>
      let s := stale p in
      match atomkey c with
      | None => if empty_chunk c then s
                else mkst (s_keys s) (s_keys s) (s_cl s) (s_cl s) (s_hz s) (s_fr s)
      | Some k =>
          mkst (k :: s_keys s) (s_stale s) (s_cl s) (s_ss s)
               (if mem k (s_stale s) || (negb (mem k (s_keys s)) && s_ss s) then k :: s_hz s else s_hz s)
               (s_fr s)
      end
  | PMerge p q =>
      let s := stale p in
      let t := stale q in
      let nk := s_keys s ++ s_keys t in
      let hz := s_hz s ++ s_hz t ++ (if s_ss s then filter (fun k => negb (mem k (s_keys s))) (s_keys t) else []) in
      if has_globals (entries_of q) then mkst nk nk (s_cl s) (s_cl s) hz (s_fr s)
      else mkst nk (s_stale s ++ (if s_ss s then s_keys t else [])) (s_cl s) (s_ss s) hz (s_fr s)
  | PFreeze p => let s := stale p in mkst (s_keys s) (s_stale s) (s_cl s) (s_ss s) (s_hz s) true
  | PClone p u =>
      let s := stale p in
      if s_fr s && negb u then s else mkst (s_keys s) (s_stale s) true false (s_hz s) false
  | POpt p => let s := stale p in mkst (s_keys s) (s_keys s) (s_cl s) (s_cl s) (s_hz s) (s_fr s)
  end.
Definition class_b (pr : prog) (p : pkg) : bool := mem (fst p) (s_hz (stale pr)).

(* (e), package.use lines: the (correct) token list of the line adds a flag that a later token of the
   same line negates or clears; turning the line into one (neg, pos) chunk then keeps the flag *)
Definition tcl (t f : N) : bool := (t =? 0) || pre_clears t f || (t =? f).
Definition otok_clears (t : otok) (f : N) : bool :=
  match t with
  | OPos _ => false
  | ONeg g => tcl g f
  | OStar => true
  | ONegPre p => tcl p f
  end.
Fixpoint npc (o : list otok) : bool :=      (* no positive later cleared *)
  match o with
  | [] => true
  | t :: r => match t with OPos g => negb (existsb (fun u => otok_clears u g) r) | _ => true end && npc r
  end.
Definition class_e (ts : list tok) : bool :=
  match split_line ts with Some o => negb (npc o) | None => false end.

Definition known_class (pr : prog) (p : pkg) : bool := class_a pr p || class_b pr p || class_c pr p.
