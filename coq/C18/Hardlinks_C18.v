(* Hardlinks_C18.v — on the NoAlias domain, entries that shared an inode in the source and are
   linkable end on one inode (invariant HL over the non-directory pass). *)
From Coq Require Import List NArith ZArith Bool Lia.
Import ListNotations.
From Verif Require Import Base.Val C18.Fs C18.FsLemmas C18.Model_C18 C18.Spec_C18 C18.Proofs_C18 C18.Exact_C18.
From Verif Require Import C18.Shapes_C18.


Local Opaque walk FUEL.

(* ------------------------------------------------------------------ can_hl is a partial equivalence *)
Lemma opt_N_eqb_refl a : opt_N_eqb a a = true.
Proof. destruct a; cbn; [apply N.eqb_refl|reflexivity]. Qed.
Lemma opt_Z_eqb_refl a : opt_Z_eqb a a = true.
Proof. destruct a; cbn; [apply Z.eqb_refl|reflexivity]. Qed.

Lemma can_hl_spec c x : can_hl c x = true <->
  exists d d' i, e_kind c = KFile d (Some i) /\ e_kind x = KFile d' (Some i) /\
    e_uid c = e_uid x /\ e_gid c = e_gid x /\ e_mode c = e_mode x /\ eff_mtime c = eff_mtime x.
Proof.
  unfold can_hl. split.
  - destruct (e_kind c) as [|d [i|]|?| |?] eqn:Ec; try discriminate.
    destruct (e_kind x) as [|d' [j|]|?| |?] eqn:Ex; try discriminate.
    intro H. apply andb_true_iff in H as [H Ht]. apply andb_true_iff in H as [H Hm].
    apply andb_true_iff in H as [H Hg]. apply andb_true_iff in H as [Hi Hu].
    apply N.eqb_eq in Hi. subst j. apply opt_N_eqb_eq in Hu, Hg, Hm. apply opt_Z_eqb_eq in Ht.
    exists d, d', i. auto 10.
  - intros (d & d' & i & -> & -> & -> & -> & -> & ->).
    now rewrite N.eqb_refl, !opt_N_eqb_refl, opt_Z_eqb_refl.
Qed.
Lemma can_hl_sym c x : can_hl c x = true -> can_hl x c = true.
Proof.
  intro H. apply can_hl_spec in H as (d & d' & i & A & B & E1 & E2 & E3 & E4).
  apply can_hl_spec. exists d', d, i. auto 10.
Qed.
Lemma can_hl_trans a b c : can_hl a b = true -> can_hl b c = true -> can_hl a c = true.
Proof.
  intros H1 H2. apply can_hl_spec in H1 as (d & d' & i & A & B & E1 & E2 & E3 & E4).
  apply can_hl_spec in H2 as (d2 & d3 & j & A' & B' & F1 & F2 & F3 & F4).
  rewrite B in A'. injection A' as <- <-.
  apply can_hl_spec. exists d, d3, i. repeat split; auto; congruence.
Qed.
Lemma can_hl_refl_r c x : can_hl c x = true -> can_hl x x = true.
Proof. intro H. eapply can_hl_trans; [apply can_hl_sym|]; eauto. Qed.
Lemma can_hl_refl_l c x : can_hl c x = true -> can_hl c c = true.
Proof. intro H. eapply can_hl_trans; [|apply can_hl_sym]; eauto. Qed.


Section Hardlinks.
Variable um : N.
Variable C : list entry.
Variable s0 : fs.
Hypothesis HD : Dom C s0.

(* the candidates are pairwise unlinkable, and every processed linkable file sits on the inode of
   one of them *)
Record HL (merged P : list entry) (s : fs) : Prop := {
  hl_sep : forall r1 r2, In r1 merged -> In r2 merged -> can_hl r1 r2 = true -> e_loc r1 = e_loc r2;
  hl_rep : forall y, In y P -> can_hl y y = true ->
           exists r i, In r merged /\ can_hl r y = true /\ ino_at s (e_loc y) = Some i /\ ino_at s (e_loc r) = Some i
}.

Lemma nondir_step_hl P s merged x ops merged' s1 :
  incl P C -> Inv C s0 P s -> In x C -> is_kdir x = false -> (forall y, In y P -> e_loc y <> e_loc x) ->
  (forall d, In d C -> is_kdir d = true -> In d P) -> files_in merged P -> HL merged P s ->
  nondir_step um s merged x = (ops, None, merged') -> run_opt ops s = Some s1 ->
  HL merged' (x :: P) s1.
Proof.
  intros HP HI Hx Hk Hfr Hdirs Hm HH Hst Hrun.
  destruct (nondir_step_inv um C s0 HD P s merged x ops merged' s1 HP HI Hx Hk Hfr Hdirs Hm Hst Hrun) as [HI1 Hm1].
  pose proof (nondir_step_crash um C s0 HD P s merged x ops merged' s1 HP HI Hx Hk Hfr Hdirs Hm Hst Hrun) as BC.
  assert (Hstep : forall y, In y P -> ino_at s1 (e_loc y) = ino_at s (e_loc y)).
  { intros y Hy. unfold ino_at. destruct (inv_good _ _ _ _ HI y Hy) as (n & L & _).
    destruct (BC (length ops) (e_loc y)) as [A _]; [congruence|].
    rewrite firstn_all, (run_opt_run _ _ _ Hrun) in A. rewrite A; auto. }
  assert (Hold : forall m', incl merged m' -> forall y, In y P -> can_hl y y = true ->
            exists r i, In r m' /\ can_hl r y = true /\ ino_at s1 (e_loc y) = Some i /\ ino_at s1 (e_loc r) = Some i).
  { intros m' Hinc y Hy Hyy. destruct (hl_rep _ _ _ HH y Hy Hyy) as (r & i & Hr & Hc & E1 & E2).
    exists r, i. split; [now apply Hinc|]. split; [exact Hc|].
    destruct (Hm r Hr) as [HrP _]. now rewrite !Hstep. }
  revert Hrun.
  apply (nondir_step_elim um C s0 HD (fun ops0 m' => run_opt ops0 s = Some s1 -> HL m' (x :: P) s1)
           P s merged x ops merged' HP HI Hx Hk Hfr Hm); [| |exact Hst].
  - (* linked to the candidate c *)
    intros c nc Hc Hhl Hlc Hfile _ Hlx Hrun.
    cbn [run_opt] in Hrun. destruct (apply_op s (Link (e_loc c) (e_loc x))) as [s1'|] eqn:Hap; [|discriminate].
    injection Hrun as ->. cbn in Hap. rewrite Hlc in Hap.
    destruct (is_file_node nc && can_create s (e_loc x)); [|discriminate]. injection Hap as <-.
    destruct (Hm c Hc) as [HcP _]. constructor.
    + apply (hl_sep _ _ _ HH).
    + intros y [<-|Hy] Hyy; [|now apply (Hold merged (incl_refl _))].
      destruct nc; try discriminate. exists c, ino. split; [exact Hc|]. split; [exact Hhl|]. unfold ino_at.
      rewrite lookup_set_same. rewrite lookup_set_other by (apply Hfr; exact HcP). now rewrite Hlc.
  - intros ops0 m' Hcf [[-> Hxx]|(-> & Hnone & d & hl & Ek)] Hrun.
    + constructor; [apply (hl_sep _ _ _ HH)|].
      intros y [<-|Hy] Hyy; [congruence|now apply (Hold merged (incl_refl _))].
    + constructor.
      * intros r1 r2 H1 H2 Hc. apply in_app_or in H1 as [H1|[<-|[]]]; apply in_app_or in H2 as [H2|[<-|[]]].
        -- now apply (hl_sep _ _ _ HH).
        -- rewrite (Hnone r1 H1) in Hc. discriminate.
        -- apply can_hl_sym in Hc. rewrite (Hnone r2 H2) in Hc. discriminate.
        -- reflexivity.
      * intros y [<-|Hy] Hyy; [|apply (Hold (merged ++ [x])); auto; intros z Hz; apply in_or_app; now left].
        destruct (inv_good _ _ _ _ HI1 x (or_introl eq_refl)) as (n & L & G).
        assert (R : realises x n).
        { destruct G as [R|(K & _)]; [exact R|]. rewrite Hk in K. discriminate. }
        pose proof (realises_file_node _ _ _ _ Ek R) as Hf. destruct n; try discriminate.
        exists x, ino. split; [apply in_or_app; right; now left|]. split; [exact Hyy|].
        unfold ino_at. rewrite L. auto.
Qed.

Lemma nondirs_phase_hl : forall xs P s merged ops sf,
  incl P C -> Inv C s0 P s -> (forall x, In x xs -> In x C /\ is_kdir x = false) ->
  NoDup (map e_loc xs) -> (forall x y, In x xs -> In y P -> e_loc y <> e_loc x) ->
  (forall d, In d C -> is_kdir d = true -> In d P) -> files_in merged P -> HL merged P s ->
  nondirs_phase um s merged xs = (ops, sf, None) -> forall s', run_opt ops s = Some s' ->
  exists mf, HL mf (rev xs ++ P) s'.
Proof.
  induction xs as [|x r IH]; intros P s merged ops sf HP HI Hxs Hnd Hfr Hdirs Hm HH Hph s' Hrun.
  - cbn in Hph. injection Hph as <- <-. cbn in Hrun. injection Hrun as <-. exists merged. exact HH.
  - cbn [nondirs_phase] in Hph.
    destruct (nondir_step um s merged x) as [[ops1 err] merged'] eqn:Hst.
    destruct err as [e|]; [discriminate|].
    destruct (nondirs_phase um (run ops1 s) merged' r) as [[ops2 s2] err2] eqn:Hph2.
    injection Hph as <- <- ->. rewrite run_opt_app in Hrun.
    destruct (run_opt ops1 s) as [s1|] eqn:Hr1; [|discriminate].
    rewrite (run_opt_run _ _ _ Hr1) in Hph2.
    destruct (Hxs x (or_introl eq_refl)) as [HxC Hxk].
    assert (Hfrx : forall y, In y P -> e_loc y <> e_loc x) by (intros y Hy; apply Hfr; [now left|exact Hy]).
    destruct (nondir_step_inv um C s0 HD P s merged x ops1 merged' s1 HP HI HxC Hxk Hfrx Hdirs Hm Hst Hr1) as [HI1 Hm1].
    pose proof (nondir_step_hl P s merged x ops1 merged' s1 HP HI HxC Hxk Hfrx Hdirs Hm HH Hst Hr1) as HH1.
    inversion Hnd as [|? ? Hnin Hnd']; subst.
    cbn [rev]. rewrite <- app_assoc. cbn [app].
    eapply (IH (x :: P) s1 merged'); eauto.
    + intros y [<-|Hy]; auto.
    + intros y Hy. apply Hxs. now right.
    + intros y z Hy [<-|Hz].
      * intro E. apply Hnin. rewrite E. now apply in_map.
      * apply Hfr; [now right|exact Hz].
    + intros d Hd Hkd. right. auto.
Qed.

End Hardlinks.

(* files that shared an inode in the source end up hard-linked *)
Definition merged_hardlinks_share_inode_stmt : Prop := forall i sf c x,
  noalias i = true -> merge_err i = None -> run_opt (merge_ops i) (i_fs i) = Some sf ->
  In c (cset_of i) -> In x (cset_of i) -> can_hl c x = true ->
  exists j, ino_at sf (e_loc c) = Some j /\ ino_at sf (e_loc x) = Some j.
Theorem merged_hardlinks_share_inode_proof : merged_hardlinks_share_inode_stmt.
Proof.
  intros i sf c x Hna Herr Hrun Hc Hx Hhl.
  destruct (noalias_dom i Hna) as (HD & Hnd & Hoff).
  set (C := cset_of i) in *. set (s0 := i_fs i) in *. set (um := i_umask i) in *.
  unfold merge_err, merge_ops, merge in *. fold um s0 in Herr, Hrun. rewrite Hoff in Herr, Hrun.
  change (run [] s0) with s0 in Herr, Hrun. fold (cset_of i) in Herr, Hrun. fold C in Herr, Hrun.
  destruct (dirs_phase um s0 (sort_entries (filter is_kdir C))) as [[ops1 s2] err1] eqn:E1.
  destruct err1 as [e|]; [cbn in Herr; discriminate|].
  destruct (nondirs_phase um s2 [] (filter (fun x => negb (is_kdir x)) C)) as [[ops2 s3] err2] eqn:E2.
  cbn [fst snd] in Herr, Hrun. subst err2. cbn [app] in Hrun.
  rewrite run_opt_app in Hrun. destruct (run_opt ops1 s0) as [s2'|] eqn:Hr1; [|discriminate].
  set (ds := sort_entries (filter is_kdir C)) in *. set (ns := filter (fun x => negb (is_kdir x)) C) in *.
  assert (HI0 : Inv C s0 [] s0).
  { constructor; [reflexivity| |intros y []]. intros q (H & _). now left. }
  assert (Hds : forall x, In x ds -> In x C /\ is_kdir x = true).
  { intros y Hy. apply (proj1 (In_sort_entries_iff _ _)) in Hy. apply filter_In in Hy. exact Hy. }
  assert (Hnds : NoDup (map e_loc ds)) by (apply NoDup_sort_entries; now apply NoDup_map_filter).
  assert (Hfr0 : forall x y : entry, In x ds -> In y [] -> e_loc y <> e_loc x) by (intros ? ? _ []).
  destruct (dirs_phase_inv um C s0 HD ds [] s0 ops1 s2 (incl_nil_l C) HI0 Hds Hnds Hfr0 E1 s2' Hr1) as [HI1 ->].
  assert (HP1 : incl (rev ds ++ []) C).
  { intros y Hy. rewrite app_nil_r in Hy. apply in_rev in Hy. now apply Hds. }
  assert (A1 : forall x, In x ns -> In x C /\ is_kdir x = false).
  { intros y Hy. apply filter_In in Hy as [Hy Hk]. split; [exact Hy|]. now destruct (is_kdir y). }
  assert (A2 : NoDup (map e_loc ns)) by now apply NoDup_map_filter.
  assert (A3 : forall x y, In x ns -> In y (rev ds ++ []) -> e_loc y <> e_loc x).
  { intros a b Ha Hb E. destruct (A1 a Ha) as [HaC Hk]. rewrite app_nil_r in Hb.
    apply in_rev in Hb. destruct (Hds b Hb) as [HbC Hkb].
    assert (b = a) by exact (NoDup_map_inj C b a Hnd HbC HaC E). subst b. rewrite Hkb in Hk. discriminate. }
  assert (A4 : forall d, In d C -> is_kdir d = true -> In d (rev ds ++ [])).
  { intros d Hd Hk. rewrite app_nil_r. apply -> in_rev. apply (proj2 (In_sort_entries_iff _ _)). apply filter_In. auto. }
  assert (A5 : files_in [] (rev ds ++ [])) by (intros ? []).
  assert (HH0 : HL [] (rev ds ++ []) s2').
  { constructor; [intros ? ? []|]. intros y Hy Hyy. exfalso. rewrite app_nil_r in Hy. apply in_rev in Hy.
    destruct (Hds y Hy) as [_ Hk]. apply can_hl_spec in Hyy as (d & _ & j & Ek & _). unfold is_kdir in Hk.
    rewrite Ek in Hk. discriminate. }
  destruct (nondirs_phase_hl um C s0 HD ns (rev ds ++ []) s2' [] ops2 s3 HP1 HI1 A1 A2 A3 A4 A5 HH0 E2 sf Hrun) as [mf HH].
  assert (Hin : forall y, In y C -> can_hl y y = true -> In y (rev ns ++ rev ds ++ [])).
  { intros y Hy Hyy. apply in_or_app. left. apply -> in_rev. apply filter_In. split; [exact Hy|].
    apply can_hl_spec in Hyy as (d & _ & j & Ek & _). unfold is_kdir. now rewrite Ek. }
  pose proof (can_hl_refl_l _ _ Hhl) as Hcc. pose proof (can_hl_refl_r _ _ Hhl) as Hxx.
  destruct (hl_rep _ _ _ HH c (Hin c Hc Hcc) Hcc) as (rc & jc & Hrc & Hcrc & Ec1 & Ec2).
  destruct (hl_rep _ _ _ HH x (Hin x Hx Hxx) Hxx) as (rx & jx & Hrx & Hcrx & Ex1 & Ex2).
  assert (Hrr : can_hl rc rx = true).
  { eapply can_hl_trans; [exact Hcrc|]. eapply can_hl_trans; [exact Hhl|]. now apply can_hl_sym. }
  pose proof (hl_sep _ _ _ HH rc rx Hrc Hrx Hrr) as Eloc.
  exists jc. split; [exact Ec1|]. rewrite Ex1. rewrite <- Ex2, <- Eloc. exact Ec2.
Qed.
