import os, sys, time
from pkgcore.ebuild import processor as P
t=time.time()
dn=open(os.devnull,"w")
ebp = P.EbuildProcessor(False, False, fd_pipes={1:dn.fileno(),2:dn.fileno()})
print("started", round(time.time()-t,2), "load", os.getloadavg())
for j in range(4):
    T=[time.time()]
    def lap(n):
        now=time.time(); print("  ",n, round(now-T[0],3)); T[0]=now
    ebp.write("process_ebuild verif_c31"); 
    r = ebp.send_env({"A":"x y","B":"1"}); lap("send_env")
    code="{ printf '%s\\0' \"$A\"; } > /verif/chk.scratch/c31/dump"
    ebp.write(f"start_receiving_env bytes {len(code)}\n{code}", append_newline=False); ebp.expect("env_received", flush=True); lap("dump")
    ebp.write("alive"); ebp.expect("yep!", flush=True); lap("alive")
    ebp.write("shutdown_daemon"); ebp.read(); lap("end")
    ebp.is_responsive; lap("responsive")
ebp.shutdown_processor()
