(* Prop_C47.v — the property theorems of C47 and nothing else. *)
From Coq Require Import List NArith ZArith Bool.
Import ListNotations.
From Verif Require Import Base.Val C18.Fs C47.Model_C47 C47.Spec_C47 C47.Proofs_C47.

Theorem fresh_idem : forall s, fresh (fresh s) = fresh s.
Proof. exact fresh_idem_proof. Qed.
Print Assumptions fresh_idem.
