(* C24/Roundtrip.v — lemmas for the line and file round trip of Model_C24. *)
From Coq Require Import List NArith ZArith Bool Arith Lia Permutation.
From Coq Require Decimal Hexadecimal.
From Coq Require Import DecimalN DecimalZ HexadecimalN DecimalPos HexadecimalPos.
Import ListNotations.
From Verif Require Import Base.Val C22.Model_C22 C22.Proofs_C22 C18.Fs.
From Verif Require Import C24.Model_C24 C24.Spec_C24.

(* ------------------------------------------------------------------ split / join on " " *)
Lemma split_sp_cons_ex s : exists h t, split_sp s = h :: t.
Proof.
  induction s as [|c r IH]; cbn; [eauto|].
  destruct (is_sp c); [eauto|]. destruct IH as (h & t & ->). eauto.
Qed.

Lemma split_sp_app a b : split_sp (a ++ SP :: b) = split_sp a ++ split_sp b.
Proof.
  induction a as [|c r IH]; cbn [app split_sp].
  - reflexivity.
  - destruct (is_sp c); [now rewrite IH|].
    rewrite IH. destruct (split_sp_cons_ex r) as (h & t & ->). reflexivity.
Qed.

Lemma join_split s : join_sp (split_sp s) = s.
Proof.
  induction s as [|c r IH]; [reflexivity|]. cbn [split_sp].
  destruct (is_sp c) eqn:E.
  - apply N.eqb_eq in E. subst c. cbn [join_sp].
    destruct (split_sp_cons_ex r) as (h & t & Hr). rewrite Hr in *. cbn [app]. now rewrite IH.
  - destruct (split_sp_cons_ex r) as (h & t & Hr). rewrite Hr in *.
    cbn [join_sp] in *. destruct t; cbn [app]; now rewrite <- IH.
Qed.

Definition plain (s : str) : Prop := Forall (fun c => py_space c = false) s.

Lemma plain_not_sp c : py_space c = false -> is_sp c = false.
Proof.
  intro H. unfold is_sp. destruct (N.eqb_spec c 32) as [->|]; [|reflexivity].
  vm_compute in H. discriminate.
Qed.
Lemma plain_not_eol c : py_space c = false -> is_eol c = false.
Proof.
  intro H. unfold is_eol.
  destruct (N.eqb_spec c 10) as [->|]; [vm_compute in H; discriminate|].
  destruct (N.eqb_spec c 13) as [->|]; [vm_compute in H; discriminate|reflexivity].
Qed.

Lemma split_nosp s : Forall (fun c => is_sp c = false) s -> split_sp s = [s].
Proof.
  induction 1 as [|c r Hc _ IH]; [reflexivity|]. cbn [split_sp]. now rewrite Hc, IH.
Qed.
Lemma split_plain s : plain s -> split_sp s = [s].
Proof. intro H. apply split_nosp. eapply Forall_impl; [|exact H]. apply plain_not_sp. Qed.

(* ------------------------------------------------------------------ numerals *)
Lemma uint_roundtrip u : uint_of_chars (chars_of_uint u) = Some u.
Proof. induction u; cbn [chars_of_uint uint_of_chars]; rewrite ?IHu; reflexivity. Qed.
Lemma hex_roundtrip u : hex_of_chars (chars_of_hex u) = Some u.
Proof. induction u; cbn [chars_of_hex hex_of_chars]; rewrite ?IHu; reflexivity. Qed.

Lemma plain_chars_of_uint u : plain (chars_of_uint u).
Proof. induction u; cbn [chars_of_uint]; constructor; (reflexivity || assumption). Qed.
Lemma plain_chars_of_hex u : plain (chars_of_hex u).
Proof. induction u; cbn [chars_of_hex]; constructor; (reflexivity || assumption). Qed.

Lemma chars_of_uint_nonnil u : u <> Decimal.Nil -> chars_of_uint u <> [].
Proof. destruct u; cbn; congruence. Qed.
Lemma chars_of_hex_nonnil u : u <> Hexadecimal.Nil -> chars_of_hex u <> [].
Proof. destruct u; cbn; congruence. Qed.

Lemma to_int_nonnil z : match Z.to_int z with Decimal.Pos u | Decimal.Neg u => u <> Decimal.Nil end.
Proof.
  destruct z; cbn; [discriminate| |]; apply DecimalPos.Unsigned.to_uint_nonnil.
Qed.

Lemma parse_nat_chars u : u <> Decimal.Nil -> parse_nat (chars_of_uint u) = Some (Z.of_uint u).
Proof.
  intro H. unfold parse_nat. rewrite uint_roundtrip.
  destruct (chars_of_uint u) eqn:E; [now apply chars_of_uint_nonnil in E|reflexivity].
Qed.

Lemma parse_int_digits u : u <> Decimal.Nil ->
  parse_int (chars_of_uint u) = parse_nat (chars_of_uint u).
Proof. intros _. destruct u; reflexivity. Qed.

Lemma print_parse_int z : parse_int (print_int z) = Some z.
Proof.
  unfold print_int. pose proof (to_int_nonnil z) as Hn. pose proof (DecimalZ.of_to z) as Hz.
  destruct (Z.to_int z) as [u|u].
  - rewrite parse_int_digits, parse_nat_chars by exact Hn. cbn in Hz. now rewrite Hz.
  - cbn [parse_int]. rewrite parse_nat_chars by exact Hn. cbn [option_map]. cbn in Hz. now rewrite Hz.
Qed.

Lemma plain_print_int z : plain (print_int z).
Proof.
  unfold print_int. destruct (Z.to_int z); [apply plain_chars_of_uint|].
  constructor; [reflexivity|apply plain_chars_of_uint].
Qed.
Lemma print_int_nonempty z : print_int z <> [].
Proof.
  unfold print_int. pose proof (to_int_nonnil z) as Hn.
  destruct (Z.to_int z); [now apply chars_of_uint_nonnil|discriminate].
Qed.

Lemma to_hex_nonnil n : N.to_hex_uint n <> Hexadecimal.Nil.
Proof. destruct n; cbn; [discriminate|apply HexadecimalPos.Unsigned.to_uint_nonnil]. Qed.

Fixpoint pad0 (k : nat) (u : Hexadecimal.uint) : Hexadecimal.uint :=
  match k with O => u | S k' => Hexadecimal.D0 (pad0 k' u) end.
Lemma hex_of_chars_pad k u :
  hex_of_chars (repeat 48%N k ++ chars_of_hex u) = Some (pad0 k u).
Proof.
  induction k as [|k IH]; cbn [repeat app pad0]; [apply hex_roundtrip|].
  cbn [hex_of_chars]. rewrite IH. reflexivity.
Qed.
Lemma of_hex_pad k u : N.of_hex_uint (pad0 k u) = N.of_hex_uint u.
Proof. induction k as [|k IH]; [reflexivity|]. cbn [pad0]. exact IH. Qed.

Lemma print_parse_md5 n : parse_hex (print_md5 n) = Some n.
Proof.
  unfold print_md5, parse_hex. rewrite hex_of_chars_pad. cbn [option_map].
  rewrite of_hex_pad, HexadecimalN.Unsigned.of_to.
  destruct (repeat 48%N (32 - length (chars_of_hex (N.to_hex_uint n))) ++ chars_of_hex (N.to_hex_uint n)) eqn:E;
    [|reflexivity].
  apply app_eq_nil in E. destruct E as [_ E]. apply chars_of_hex_nonnil in E; [easy|apply to_hex_nonnil].
Qed.
Lemma plain_print_md5 n : plain (print_md5 n).
Proof.
  unfold print_md5, plain. apply Forall_app. split; [|apply plain_chars_of_hex].
  apply Forall_forall. intros c Hc. apply repeat_spec in Hc. now subst.
Qed.

(* ------------------------------------------------------------------ token-level parsing *)
Lemma last_app2 {A} (l : list A) x y d : last (l ++ [x; y]) d = y.
Proof. induction l as [|a l IH]; [reflexivity|]. cbn [app]. rewrite <- IH at 2.
  destruct (l ++ [x; y]) eqn:E; [now destruct l|reflexivity]. Qed.
Lemma last_snoc {A} (l : list A) y d : last (l ++ [y]) d = y.
Proof. apply last_last. Qed.

Lemma second_last_app2 h (l : list str) x y : second_last (h :: l ++ [x; y]) = Some x.
Proof. unfold second_last. cbn [List.rev]. rewrite rev_app_distr. reflexivity. Qed.

Lemma firstn_exact {A} (l r : list A) : firstn (length l) (l ++ r) = l.
Proof. rewrite firstn_app, Nat.sub_diag, firstn_all. cbn. apply app_nil_r. Qed.

Lemma parse_obj_tokens toks hx d m t :
  parse_hex hx = Some m -> parse_int d = Some t ->
  parse_tokens (t_obj :: toks ++ [hx; d]) = Ok (EObj (normpath (join_sp toks)) m t).
Proof.
  intros Hh Hd. unfold parse_tokens.
  change (str_eqb t_obj t_dir) with false. change (str_eqb t_obj t_dev) with false.
  change (str_eqb t_obj t_fif) with false. change (str_eqb t_obj t_obj) with true. cbv iota.
  rewrite second_last_app2, Hh.
  change (t_obj :: toks ++ [hx; d]) with ((t_obj :: toks) ++ [hx; d]) at 1. rewrite last_app2, Hd.
  replace (length (t_obj :: toks ++ [hx; d]) - 3) with (length toks)
    by (cbn [length]; rewrite app_length; cbn [length]; lia).
  now rewrite firstn_exact.
Qed.

Lemma index_of_first (a : list str) y b :
  Forall (fun x => str_eqb x y = false) a -> index_of y (a ++ y :: b) = Some (length a).
Proof.
  induction 1 as [|x a Hx _ IH]; cbn [app index_of length].
  - now rewrite str_eqb_refl.
  - now rewrite Hx, IH.
Qed.

Lemma skipn_exact {A} (l r : list A) : skipn (length l) (l ++ r) = r.
Proof. rewrite skipn_app, Nat.sub_diag, skipn_all. reflexivity. Qed.

Lemma parse_sym_tokens tl tg d t :
  Forall (fun x => str_eqb x arrow = false) tl -> parse_int d = Some t ->
  parse_tokens (t_sym :: tl ++ arrow :: tg ++ [d]) =
  Ok (ESym (normpath (join_sp tl)) (join_sp tg) t).
Proof.
  intros Hl Hd. unfold parse_tokens.
  change (str_eqb t_sym t_dir) with false. change (str_eqb t_sym t_dev) with false.
  change (str_eqb t_sym t_fif) with false. change (str_eqb t_sym t_obj) with false.
  change (str_eqb t_sym t_sym) with true. cbv iota.
  assert (Hi : index_of arrow (t_sym :: tl ++ arrow :: tg ++ [d]) = Some (S (length tl))).
  { change (t_sym :: tl ++ arrow :: tg ++ [d]) with ((t_sym :: tl) ++ arrow :: tg ++ [d]).
    rewrite index_of_first; [reflexivity|]. constructor; [reflexivity|exact Hl]. }
  rewrite Hi.
  assert (Hlast : last (t_sym :: tl ++ arrow :: tg ++ [d]) [] = d).
  { change (t_sym :: tl ++ arrow :: tg ++ [d]) with ((t_sym :: tl) ++ (arrow :: tg) ++ [d]).
    rewrite app_assoc. apply last_last. }
  rewrite Hlast, Hd.
  replace (S (length tl) - 1) with (length tl) by lia. rewrite firstn_exact.
  rewrite skipn_cons.
  replace (tl ++ arrow :: tg ++ [d]) with ((tl ++ [arrow]) ++ tg ++ [d]) by (now rewrite <- app_assoc).
  replace (S (length tl)) with (length (tl ++ [arrow])) by (rewrite app_length; cbn; lia).
  rewrite skipn_exact. now rewrite removelast_last.
Qed.

Lemma no_arrow_tokens l :
  has_arrow_token l = false -> Forall (fun x => str_eqb x arrow = false) (split_sp l).
Proof.
  unfold has_arrow_token. intro H. apply Forall_forall. intros x Hx.
  destruct (str_eqb x arrow) eqn:E; [|reflexivity].
  apply str_eqb_eq in E. subst x.
  assert (existsb (str_eqb arrow) (split_sp l) = true)
    by (apply existsb_exists; exists arrow; split; [exact Hx|apply str_eqb_refl]).
  congruence.
Qed.

(* ------------------------------------------------------------------ one line *)
Lemma plain_t_obj : plain t_obj. Proof. repeat constructor. Qed.
Lemma plain_t_sym : plain t_sym. Proof. repeat constructor. Qed.
Lemma plain_t_dir : plain t_dir. Proof. repeat constructor. Qed.
Lemma plain_t_dev : plain t_dev. Proof. repeat constructor. Qed.
Lemma plain_t_fif : plain t_fif. Proof. repeat constructor. Qed.
Lemma plain_arrow : plain arrow. Proof. repeat constructor. Qed.

Lemma norm_eq l : str_eqb (normpath l) l = true -> normpath l = l.
Proof. apply str_eqb_eq. Qed.

Lemma parse_write_obj l m t : normpath l = l ->
  parse_line (write_line (EObj l m t)) = Ok (EObj l m t).
Proof.
  intro Hn. unfold parse_line, write_line. cbn [join_sp].
  rewrite split_sp_app, (split_plain _ plain_t_obj).
  rewrite split_sp_app, split_sp_app.
  rewrite (split_plain _ (plain_print_md5 m)), (split_plain _ (plain_print_int t)).
  cbn [app]. change (split_sp l ++ print_md5 m :: [print_int t]) with (split_sp l ++ [print_md5 m; print_int t]).
  rewrite (parse_obj_tokens _ _ _ m t (print_parse_md5 m) (print_parse_int t)).
  now rewrite join_split, Hn.
Qed.

Lemma parse_write_sym l g t : normpath l = l -> has_arrow_token l = false ->
  parse_line (write_line (ESym l g t)) = Ok (ESym l g t).
Proof.
  intros Hn Ha. unfold parse_line, write_line. cbn [join_sp].
  rewrite split_sp_app, (split_plain _ plain_t_sym).
  rewrite split_sp_app, split_sp_app, (split_plain _ plain_arrow), split_sp_app.
  rewrite (split_plain _ (plain_print_int t)).
  cbn [app].
  rewrite (parse_sym_tokens _ _ _ t (no_arrow_tokens _ Ha) (print_parse_int t)).
  now rewrite !join_split, Hn.
Qed.

Lemma parse_tokens_dir toks : parse_tokens (t_dir :: toks) = Ok (EDir (normpath (join_sp toks))).
Proof. reflexivity. Qed.
Lemma parse_tokens_dev toks : parse_tokens (t_dev :: toks) = Ok (EDev (normpath (join_sp toks))).
Proof. reflexivity. Qed.
Lemma parse_tokens_fif toks : parse_tokens (t_fif :: toks) = Ok (EFif (normpath (join_sp toks))).
Proof. reflexivity. Qed.

Lemma parse_write_dir l : normpath l = l -> parse_line (write_line (EDir l)) = Ok (EDir l).
Proof.
  intro Hn. unfold parse_line, write_line.
  rewrite split_sp_app, (split_plain _ plain_t_dir). cbn [app].
  now rewrite parse_tokens_dir, join_split, Hn.
Qed.
Lemma parse_write_dev l : normpath l = l -> parse_line (write_line (EDev l)) = Ok (EDev l).
Proof.
  intro Hn. unfold parse_line, write_line.
  rewrite split_sp_app, (split_plain _ plain_t_dev). cbn [app].
  now rewrite parse_tokens_dev, join_split, Hn.
Qed.
Lemma parse_write_fif l : normpath l = l -> parse_line (write_line (EFif l)) = Ok (EFif l).
Proof.
  intro Hn. unfold parse_line, write_line.
  rewrite split_sp_app, (split_plain _ plain_t_fif). cbn [app].
  now rewrite parse_tokens_fif, join_split, Hn.
Qed.

(* ------------------------------------------------------------------ strip *)
Lemma ends_plain_app a b : b <> [] -> ends_plain (a ++ b) = ends_plain b.
Proof.
  intro Hb. unfold ends_plain. rewrite rev_app_distr.
  destruct (List.rev b) eqn:E; [|reflexivity].
  apply (f_equal (@List.rev N)) in E. rewrite rev_involutive in E. now subst.
Qed.
Lemma ends_plain_plain s : s <> [] -> plain s -> ends_plain s = true.
Proof.
  intros Hs Hp. unfold ends_plain. destruct (List.rev s) as [|c r] eqn:E.
  - apply (f_equal (@List.rev N)) in E. rewrite rev_involutive in E. now subst.
  - assert (In c s) by (apply in_rev; rewrite E; now left).
    unfold plain in Hp. rewrite Forall_forall in Hp. now rewrite (Hp c H).
Qed.

Lemma strip_id a r : py_space a = false -> ends_plain (a :: r) = true -> strip (a :: r) = a :: r.
Proof.
  intros Ha He. unfold strip, lstrip. cbn [drop_while]. rewrite Ha.
  unfold ends_plain in He. destruct (List.rev (a :: r)) as [|c x] eqn:E; [discriminate|].
  cbn [drop_while]. apply negb_true_iff in He. rewrite He.
  rewrite <- E. apply rev_involutive.
Qed.

Lemma ends_plain_cons_app c a b : b <> [] -> ends_plain (c :: a ++ b) = ends_plain b.
Proof. intro H. change (c :: a ++ b) with ((c :: a) ++ b). now apply ends_plain_app. Qed.

Lemma ends_plain_digits z : ends_plain (SP :: print_int z) = true.
Proof.
  change (SP :: print_int z) with ([SP] ++ print_int z).
  rewrite ends_plain_app by apply print_int_nonempty.
  apply ends_plain_plain; [apply print_int_nonempty|apply plain_print_int].
Qed.

Lemma strip_write_line e : wf_base e = true -> strip (write_line e) = write_line e.
Proof.
  intro Hw. destruct e as [l m t|l g t|l|l|l]; unfold write_line; cbn [join_sp].
  - assert (He : ends_plain (t_obj ++ SP :: l ++ SP :: print_md5 m ++ SP :: print_int t) = true).
    { rewrite ends_plain_app by discriminate.
      rewrite ends_plain_cons_app by discriminate.
      rewrite ends_plain_cons_app by discriminate.
      apply ends_plain_digits. }
    revert He. unfold t_obj. cbn [List.app]. intro He. now apply strip_id.
  - assert (He : ends_plain (t_sym ++ SP :: l ++ SP :: arrow ++ SP :: g ++ SP :: print_int t) = true).
    { rewrite ends_plain_app by discriminate.
      rewrite ends_plain_cons_app by discriminate.
      rewrite ends_plain_cons_app by discriminate.
      rewrite ends_plain_cons_app by discriminate.
      apply ends_plain_digits. }
    revert He. unfold t_sym. cbn [List.app]. intro He. now apply strip_id.
  - unfold wf_base in Hw. cbn [eloc] in Hw. apply andb_true_iff in Hw as [_ He].
    assert (He2 : ends_plain (t_dir ++ SP :: l) = true).
    { destruct l as [|c l]; [discriminate|].
      change (t_dir ++ SP :: c :: l) with ((t_dir ++ [SP]) ++ c :: l). now rewrite ends_plain_app by discriminate. }
    revert He2. unfold t_dir. cbn [List.app]. intro He2. now apply strip_id.
  - unfold wf_base in Hw. cbn [eloc] in Hw. apply andb_true_iff in Hw as [_ He].
    assert (He2 : ends_plain (t_dev ++ SP :: l) = true).
    { destruct l as [|c l]; [discriminate|].
      change (t_dev ++ SP :: c :: l) with ((t_dev ++ [SP]) ++ c :: l). now rewrite ends_plain_app by discriminate. }
    revert He2. unfold t_dev. cbn [List.app]. intro He2. now apply strip_id.
  - unfold wf_base in Hw. cbn [eloc] in Hw. apply andb_true_iff in Hw as [_ He].
    assert (He2 : ends_plain (t_fif ++ SP :: l) = true).
    { destruct l as [|c l]; [discriminate|].
      change (t_fif ++ SP :: c :: l) with ((t_fif ++ [SP]) ++ c :: l). now rewrite ends_plain_app by discriminate. }
    revert He2. unfold t_fif. cbn [List.app]. intro He2. now apply strip_id.
Qed.

Lemma wf_base_norm e : wf_base e = true -> normpath (eloc e) = eloc e.
Proof.
  unfold wf_base. intro H. apply andb_true_iff in H as [H _]. apply andb_true_iff in H as [H _].
  now apply str_eqb_eq.
Qed.

Theorem line_roundtrip_lemma e : WFpath e -> parse_line (strip (write_line e)) = Ok e.
Proof.
  intros [Hw Hk]. rewrite strip_write_line by exact Hw.
  pose proof (wf_base_norm e Hw) as Hn.
  destruct e as [l m t|l g t|l|l|l]; cbn [eloc] in Hn.
  - now apply parse_write_obj.
  - now apply parse_write_sym.
  - now apply parse_write_dir.
  - now apply parse_write_dev.
  - now apply parse_write_fif.
Qed.

(* ------------------------------------------------------------------ the whole file *)
Definition eol_free (s : str) : Prop := Forall (fun c => is_eol c = false) s.

Lemma no_eol_free s : no_eol s = true -> eol_free s.
Proof.
  unfold no_eol, eol_free. intro H. rewrite forallb_forall in H. apply Forall_forall.
  intros c Hc. apply H in Hc. now apply negb_true_iff in Hc.
Qed.
Lemma plain_eol_free s : plain s -> eol_free s.
Proof. intro H. eapply Forall_impl; [|exact H]. apply plain_not_eol. Qed.
Lemma eol_free_app a b : eol_free a -> eol_free b -> eol_free (a ++ b).
Proof. intros. apply Forall_app. now split. Qed.
Lemma eol_free_cons c s : is_eol c = false -> eol_free s -> eol_free (c :: s).
Proof. intros. now constructor. Qed.

Lemma write_line_eol_free e : wf_base e = true -> eol_free (write_line e).
Proof.
  intro Hw. unfold wf_base in Hw. apply andb_true_iff in Hw as [Hw Hk].
  apply andb_true_iff in Hw as [_ Hl]. apply no_eol_free in Hl.
  destruct e as [l m t|l g t|l|l|l]; cbn [eloc] in Hl; unfold write_line; cbn [join_sp].
  - apply eol_free_app; [apply plain_eol_free, plain_t_obj|].
    apply eol_free_cons; [reflexivity|]. apply eol_free_app; [exact Hl|].
    apply eol_free_cons; [reflexivity|]. apply eol_free_app; [apply plain_eol_free, plain_print_md5|].
    apply eol_free_cons; [reflexivity|]. apply plain_eol_free, plain_print_int.
  - apply no_eol_free in Hk.
    apply eol_free_app; [apply plain_eol_free, plain_t_sym|].
    apply eol_free_cons; [reflexivity|]. apply eol_free_app; [exact Hl|].
    apply eol_free_cons; [reflexivity|]. apply eol_free_app; [apply plain_eol_free, plain_arrow|].
    apply eol_free_cons; [reflexivity|]. apply eol_free_app; [exact Hk|].
    apply eol_free_cons; [reflexivity|]. apply plain_eol_free, plain_print_int.
  - apply eol_free_app; [apply plain_eol_free, plain_t_dir|now apply eol_free_cons].
  - apply eol_free_app; [apply plain_eol_free, plain_t_dev|now apply eol_free_cons].
  - apply eol_free_app; [apply plain_eol_free, plain_t_fif|now apply eol_free_cons].
Qed.

Lemma split_lines_app a b : eol_free a -> split_lines (a ++ NL :: b) = a :: split_lines b.
Proof.
  induction 1 as [|c r Hc _ IH]; cbn [List.app split_lines]; [reflexivity|].
  now rewrite Hc, IH.
Qed.

Lemma split_lines_concat ls : Forall eol_free ls ->
  split_lines (concat (map (fun l => l ++ [NL]) ls)) = ls ++ [[]].
Proof.
  induction 1 as [|l ls Hl _ IH]; [reflexivity|]. cbn [map concat].
  rewrite <- app_assoc. cbn [List.app]. now rewrite split_lines_app, IH.
Qed.

Lemma write_line_nonempty e : nonempty (write_line e) = true.
Proof. destruct e; reflexivity. Qed.

Lemma content_lines_write d : Forall (fun e => wf_base e = true) (sort_entries d) ->
  content_lines (write_contents d) = map write_line (sort_entries d).
Proof.
  intro H. unfold content_lines, write_contents.
  rewrite <- (map_map write_line (fun l => l ++ [NL])).
  rewrite split_lines_concat.
  2:{ apply Forall_map. eapply Forall_impl; [|exact H]. intros e He. now apply write_line_eol_free. }
  rewrite map_app, filter_app. cbn [map filter]. change (nonempty (strip [])) with false. cbv iota.
  rewrite app_nil_r. induction H as [|e l He _ IH]; [reflexivity|].
  cbn [map filter]. rewrite strip_write_line by exact He. rewrite write_line_nonempty. now rewrite IH.
Qed.

Lemma read_lines_write es : forall d0, Forall WFpath es ->
  read_lines (map write_line es) d0 = Ok (fold_left (fun d e => dset e d) es d0).
Proof.
  induction es as [|e es IH]; intros d0 H; [reflexivity|]. inversion H as [|? ? He Hes]; subst.
  cbn [map read_lines fold_left].
  pose proof (line_roundtrip_lemma e He) as Hr. destruct He as [Hw _].
  rewrite strip_write_line in Hr by exact Hw. rewrite Hr. now apply IH.
Qed.

Lemma dset_fresh e d : Forall (fun x => str_eqb (eloc x) (eloc e) = false) d -> dset e d = d ++ [e].
Proof. induction 1 as [|x d Hx _ IH]; [reflexivity|]. cbn [dset List.app]. now rewrite Hx, IH. Qed.

Lemma fold_dset_uniq es : forall acc, NoDup (map eloc (acc ++ es)) ->
  fold_left (fun d e => dset e d) es acc = acc ++ es.
Proof.
  induction es as [|e es IH]; intros acc H; [now rewrite app_nil_r|].
  cbn [fold_left]. rewrite dset_fresh.
  - rewrite IH; rewrite <- app_assoc; [reflexivity|exact H].
  - rewrite map_app in H. cbn [map] in H. apply NoDup_remove_2 in H.
    apply Forall_forall. intros x Hx. apply str_eqb_false. intro E. apply H.
    apply in_or_app. left. rewrite <- E. now apply in_map.
Qed.

Lemma ins_sorted_perm e l : Permutation (ins_sorted e l) (e :: l).
Proof.
  induction l as [|x l IH]; [reflexivity|]. cbn [ins_sorted].
  destruct (str_ltb (eloc e) (eloc x)); [reflexivity|].
  rewrite IH. apply perm_swap.
Qed.
Lemma sort_perm l : Permutation (sort_entries l) l.
Proof.
  induction l as [|x l IH]; [reflexivity|]. cbn [sort_entries fold_right].
  fold (sort_entries l). rewrite ins_sorted_perm. now constructor.
Qed.

Theorem contents_roundtrip_exact d : uniq_locs d -> Forall WFpath d ->
  read_contents (write_contents d) = Ok (sort_entries d).
Proof.
  intros Hu Hw.
  assert (Hw' : Forall WFpath (sort_entries d))
    by (eapply Permutation_Forall; [apply Permutation_sym, sort_perm|exact Hw]).
  assert (Hu' : NoDup (map eloc (sort_entries d)))
    by (eapply Permutation_NoDup; [apply Permutation_map, Permutation_sym, sort_perm|exact Hu]).
  unfold read_contents. rewrite content_lines_write.
  2:{ eapply Forall_impl; [|exact Hw']. now intros e [He _]. }
  rewrite read_lines_write by exact Hw'. now rewrite fold_dset_uniq.
Qed.

(* ------------------------------------------------------------------ sets built by add() *)
Lemma map_eloc_dset e d :
  map eloc (dset e d) = if existsb (fun x => str_eqb (eloc x) (eloc e)) d then map eloc d
                        else map eloc d ++ [eloc e].
Proof.
  induction d as [|x d IH]; [reflexivity|]. cbn [dset existsb map].
  destruct (str_eqb (eloc x) (eloc e)) eqn:E; cbn [orb map].
  - apply str_eqb_eq in E. now rewrite E.
  - rewrite IH. destruct (existsb _ d); reflexivity.
Qed.

Lemma dset_uniq e d : uniq_locs d -> uniq_locs (dset e d).
Proof.
  unfold uniq_locs. intro H. rewrite map_eloc_dset.
  destruct (existsb (fun x => str_eqb (eloc x) (eloc e)) d) eqn:E; [exact H|].
  apply (Permutation_NoDup (Permutation_cons_append _ _)). constructor; [|exact H].
  intro Hin. apply in_map_iff in Hin as (x & Hx & Hin).
  assert (existsb (fun x => str_eqb (eloc x) (eloc e)) d = true).
  { apply existsb_exists. exists x. split; [exact Hin|]. rewrite Hx. apply str_eqb_refl. }
  congruence.
Qed.

Lemma cset_uniq_from l : forall acc, uniq_locs acc -> uniq_locs (fold_left (fun d e => dset e d) l acc).
Proof. induction l as [|e l IH]; intros acc H; [exact H|]. cbn [fold_left]. apply IH. now apply dset_uniq. Qed.
Lemma cset_uniq l : uniq_locs (cset_of l).
Proof. apply cset_uniq_from. constructor. Qed.

Lemma dset_In x e d : In x (dset e d) -> x = e \/ In x d.
Proof.
  induction d as [|y d IH]; cbn [dset]; [intros [<-|[]]; now left|].
  destruct (str_eqb (eloc y) (eloc e)).
  - intros [<-|H]; [now left|right; now right].
  - intros [<-|H]; [right; now left|]. destruct (IH H) as [->|H']; [now left|right; now right].
Qed.
Lemma cset_In_from x l : forall acc, In x (fold_left (fun d e => dset e d) l acc) -> In x l \/ In x acc.
Proof.
  induction l as [|e l IH]; intros acc H; [now right|]. cbn [fold_left] in H.
  destruct (IH _ H) as [H1|H1]; [left; now right|].
  destruct (dset_In _ _ _ H1) as [->|H2]; [left; now left|now right].
Qed.

(* every set built by add() from fs objects has unique, normalised locations *)
Theorem the_set_invariant raw :
  uniq_locs (the_set raw) /\ Forall (fun e => normpath (eloc e) = eloc e) (the_set raw).
Proof.
  split; [apply cset_uniq|]. apply Forall_forall. intros x Hx. unfold the_set, cset_of in Hx.
  destruct (cset_In_from _ _ _ Hx) as [H|[]]. apply in_map_iff in H as (r & <- & _).
  unfold mk_entry. destruct r; cbn; apply normpath_idempotent_proof.
Qed.
