import time, subprocess, os
from harness.common import Check
from harness import c35, c35_tables
orig = subprocess.run
def run(cmd, **kw):
    t=time.time(); r=orig(cmd, **kw); print(round(time.time()-t,1), cmd[3][:0], r.returncode); open("/verif/chk.scratch/c35/last_bash.sh","w").write(cmd[4]); return r
subprocess.run = run
chk = Check("C35")
b = c35_tables.scan_bash()
_, pw, _ = c35_tables.scan_python(c35_tables.SRC / "ebuild" / "processor.py")
_, ew, _ = c35_tables.scan_python(c35_tables.SRC / "ebuild" / "ebd.py", "ebd.")
pw.update(ew)
t=time.time()
print(c35.bash_side(chk, b["fn_reads"], b["fn_writes"], pw), time.time()-t)
import shutil; pass
