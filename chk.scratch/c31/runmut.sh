#!/bin/sh
# usage: runmut.sh NAME SEED
NAME=$1; SEED=$2
WT=/tmp/wt_C31_$NAME
git -C /repo worktree add --detach $WT HEAD >/dev/null 2>&1
cd $WT && git apply /verif/fixes/C31-env-quoting.patch || exit 9
sed "s#WT='/tmp/wt_C31m'#WT='$WT'#" /verif/chk.scratch/c31/mut.py > /verif/chk.scratch/c31/mut_$NAME.py
/venv/bin/python /verif/chk.scratch/c31/mut_$NAME.py $NAME > /verif/chk.scratch/c31/mut_$NAME.log 2>&1 || exit 8
cd /verif && VERIF_C31_NO_ESCALATE=1 VERIF_SEED=$SEED VERIF_REPO=$WT ./check C31 >> /verif/chk.scratch/c31/mut_$NAME.log 2>&1
echo "exit=$?" >> /verif/chk.scratch/c31/mut_$NAME.log
git -C /repo worktree remove --force $WT
rm -f /verif/chk.scratch/c31/mut_$NAME.py
