(* Proofs_C13.v — lemmas and proofs for C13. *)
From Coq Require Import List NArith ZArith Bool Lia.
Import ListNotations.
From Verif Require Import Base.Val C12.Model_C12 C12.Spec_C12 C12.Proofs_C12 C13.Model_C13 C13.Spec_C13.

(* ================================================================ (1) masks *)
Lemma nmem_In x l : nmem x l = true <-> In x l.
Proof.
  unfold nmem. rewrite existsb_exists. split.
  - intros [y [Hy He]]. apply N.eqb_eq in He. now subst.
  - intro H. exists x. split; [assumption | apply N.eqb_refl].
Qed.
Lemma nmem_app x a b : nmem x (a ++ b) = nmem x a || nmem x b.
Proof. unfold nmem. apply existsb_app. Qed.
Lemma nmem_filter x f l : nmem x (filter f l) = nmem x l && f x.
Proof.
  apply eq_true_iff_eq. rewrite andb_true_iff, !nmem_In, filter_In. tauto.
Qed.

(* in_force with a default for atoms no layer mentions *)
Fixpoint in_force_d (rl : list (list N * list N)) (a : N) (d : bool) : bool :=
  match rl with
  | [] => d
  | (neg, pos) :: r => if nmem a pos then true else if nmem a neg then false else in_force_d r a d
  end.
Lemma in_force_d_false rl a : in_force_d rl a false = in_force rl a.
Proof. induction rl as [|[neg pos] r IH]; cbn; [reflexivity | now rewrite IH]. Qed.
Lemma in_force_d_app l1 l2 a d : in_force_d (l1 ++ l2) a d = in_force_d l1 a (in_force_d l2 a d).
Proof. induction l1 as [|[neg pos] r IH]; cbn; [reflexivity | now rewrite IH]. Qed.

Lemma mask_fold ls : forall s a,
  nmem a (fold_left mask_step ls s) = in_force_d (rev ls) a (nmem a s).
Proof.
  induction ls as [|[neg pos] ls IH]; intros s a; cbn [fold_left rev]; [reflexivity|].
  rewrite IH, in_force_d_app. cbn [in_force_d]. f_equal.
  unfold mask_step; cbn [fst snd]. rewrite nmem_app, nmem_filter.
  destruct (nmem a pos), (nmem a neg), (nmem a s); reflexivity.
Qed.

Lemma hits_swap p s : hits p s = existsb (fun a => nmem a s) (p_match p).
Proof.
  unfold hits. apply eq_true_iff_eq. rewrite !existsb_exists. split.
  - intros [a [Ha Hm]]. apply nmem_In in Hm. exists a. split; [assumption | now apply nmem_In].
  - intros [a [Ha Hm]]. apply nmem_In in Hm. exists a. split; [assumption | now apply nmem_In].
Qed.

Lemma existsb_ext {A} (f g : A -> bool) l : (forall x, f x = g x) -> existsb f l = existsb g l.
Proof. intro H. induction l as [|x l IH]; cbn; [reflexivity | now rewrite H, IH]. Qed.
Lemma forallb_ext {A} (f g : A -> bool) l : (forall x, f x = g x) -> forallb f l = forallb g l.
Proof. intro H. induction l as [|x l IH]; cbn; [reflexivity | now rewrite H, IH]. Qed.

Lemma layered_set ls user p :
  hits p (fold_left mask_step ls [] ++ user)
  = existsb (in_force (rev (ls ++ [([], user)]))) (p_match p).
Proof.
  rewrite hits_swap. apply existsb_ext. intro a.
  rewrite rev_app_distr. cbn [rev app in_force]. rewrite nmem_app, mask_fold.
  cbn [nmem existsb]. rewrite in_force_d_false.
  destruct (nmem a user); [now rewrite orb_true_r | now rewrite orb_false_r].
Qed.

Lemma mask_conjunct_proof : forall c p, mask_ok c p = mask_spec c p.
Proof.
  intros c p. unfold mask_ok, mask_spec, masked_spec, unmasked_spec, mask_set, unmask_set,
    mask_layers, unmask_layers.
  rewrite (layered_set (([], repo_masks c) :: prof_masks c)), (layered_set (prof_unmasks c)).
  reflexivity.
Qed.

(* an atom in force, declaratively: some layer adds it and no later layer withdraws it *)

(* ================================================================ (3) licenses *)
(* ---- generic list facts *)
Lemma forallb_flat_map {A B} (f : B -> bool) (g : A -> list B) l :
  forallb f (flat_map g l) = forallb (fun a => forallb f (g a)) l.
Proof. induction l as [|a l IH]; cbn; [reflexivity|]. now rewrite forallb_app, IH. Qed.
Lemma existsb_flat_map {A B} (f : B -> bool) (g : A -> list B) l :
  existsb f (flat_map g l) = existsb (fun a => existsb f (g a)) l.
Proof. induction l as [|a l IH]; cbn; [reflexivity|]. now rewrite existsb_app, IH. Qed.
Lemma flat_map_nil {A B} (g : A -> list B) l :
  flat_map g l = [] <-> forall a, In a l -> g a = [].
Proof.
  induction l as [|a l IH]; cbn; [tauto|]. split.
  - intros H. apply app_eq_nil in H as [H1 H2]. intros b [<- | Hb]; [assumption | now apply IH].
  - intros H. rewrite (H a (or_introl eq_refl)). cbn. apply IH. intros b Hb. apply H. now right.
Qed.
Lemma forallb_ext_in {A} (f g : A -> bool) l : (forall x, In x l -> f x = g x) -> forallb f l = forallb g l.
Proof.
  induction l as [|x l IH]; cbn; intro H; [reflexivity|].
  rewrite (H x (or_introl eq_refl)), IH; [reflexivity|]. intros y Hy. apply H. now right.
Qed.
Lemma existsb_ext_in {A} (f g : A -> bool) l : (forall x, In x l -> f x = g x) -> existsb f l = existsb g l.
Proof.
  induction l as [|x l IH]; cbn; intro H; [reflexivity|].
  rewrite (H x (or_introl eq_refl)), IH; [reflexivity|]. intros y Hy. apply H. now right.
Qed.

Lemma forallb_map' {A B} (f : B -> bool) (g : A -> B) l : forallb f (map g l) = forallb (fun a => f (g a)) l.
Proof. induction l as [|a l IH]; cbn; [reflexivity | now rewrite IH]. Qed.
Lemma existsb_map' {A B} (f : B -> bool) (g : A -> B) l : existsb f (map g l) = existsb (fun a => f (g a)) l.
Proof. induction l as [|a l IH]; cbn; [reflexivity | now rewrite IH]. Qed.

(* ---- induction principles for the two rose trees *)
Section EtreeInd.
  Variable P : etree -> Prop.
  Hypothesis HL : forall l, P (ELic l).
  Hypothesis HA : forall cs, Forall P cs -> P (EAll cs).
  Hypothesis HO : forall cs, Forall P cs -> P (EAny cs).
  Fixpoint etree_ind' (t : etree) : P t :=
    match t with
    | ELic l => HL l
    | EAll cs => HA cs ((fix go (l : list etree) : Forall P l :=
                           match l with [] => Forall_nil P | x :: r => Forall_cons x (etree_ind' x) (go r) end) cs)
    | EAny cs => HO cs ((fix go (l : list etree) : Forall P l :=
                           match l with [] => Forall_nil P | x :: r => Forall_cons x (etree_ind' x) (go r) end) cs)
    end.
End EtreeInd.
Section LtreeInd.
  Variable P : ltree -> Prop.
  Hypothesis HL : forall l, P (LLic l).
  Hypothesis HA : forall cs, Forall P cs -> P (LAll cs).
  Hypothesis HO : forall cs, Forall P cs -> P (LAny cs).
  Hypothesis HU : forall n f cs, Forall P cs -> P (LUse n f cs).
  Fixpoint ltree_ind' (t : ltree) : P t :=
    match t with
    | LLic l => HL l
    | LAll cs => HA cs ((fix go (l : list ltree) : Forall P l :=
                           match l with [] => Forall_nil P | x :: r => Forall_cons x (ltree_ind' x) (go r) end) cs)
    | LAny cs => HO cs ((fix go (l : list ltree) : Forall P l :=
                           match l with [] => Forall_nil P | x :: r => Forall_cons x (ltree_ind' x) (go r) end) cs)
    | LUse n f cs => HU n f cs ((fix go (l : list ltree) : Forall P l :=
                           match l with [] => Forall_nil P | x :: r => Forall_cons x (ltree_ind' x) (go r) end) cs)
    end.
End LtreeInd.

(* ---- the formula an evaluated LICENSE denotes *)
Fixpoint esat (acc : str -> bool) (t : etree) : bool :=
  match t with
  | ELic l => acc l
  | EAll cs => forallb (esat acc) cs
  | EAny cs => match cs with [] => true | _ => existsb (esat acc) cs end
  end.

Section Dnf.
  Variable acc : str -> bool.
  Let sat (s : list lclause) : bool := existsb (forallb acc) s.

  Lemma cross_sem a b : sat (cross a b) = sat a && sat b.
  Proof.
    unfold sat, cross. induction a as [|n a IH]; cbn; [reflexivity|].
    rewrite existsb_app, IH. clear IH.
    assert (E : existsb (forallb acc) (map (fun n2 => n ++ n2) b) = forallb acc n && existsb (forallb acc) b).
    { induction b as [|m b IHb]; cbn; [now rewrite andb_false_r|].
      rewrite forallb_app, IHb. destruct (forallb acc n); reflexivity. }
    rewrite E. destruct (forallb acc n); cbn; [|reflexivity].
    destruct (existsb (forallb acc) b); [reflexivity | now rewrite andb_false_r].
  Qed.
  Lemma product_sem others : forall a, sat (product a others) = sat a && forallb sat others.
  Proof.
    induction others as [|o os IH]; intro a; cbn; [now rewrite andb_true_r|].
    rewrite cross_sem, IH. reflexivity.
  Qed.
  Definition child_sat (ch : option str * list lclause) : bool :=
    match fst ch with Some s => acc s | None => sat (snd ch) end.
  Lemma and_loop_sem l : forall hard opts,
    sat (and_loop hard opts l) = forallb acc hard && forallb sat opts && forallb child_sat l.
  Proof.
    induction l as [|[lf d] l IH]; intros hard opts.
    - cbn [and_loop forallb]. rewrite product_sem. cbn. now rewrite orb_false_r, andb_true_r.
    - cbn [forallb]. destruct lf as [s|].
      + cbn [and_loop]. rewrite IH, forallb_app. cbn [forallb].
        change (child_sat (Some s, d)) with (acc s).
        destruct (forallb acc hard), (acc s), (forallb sat opts), (forallb child_sat l); reflexivity.
      + change (child_sat (None, d)) with (sat d).
        assert (Hopt : sat (and_loop hard (opts ++ [d]) l)
                       = forallb acc hard && forallb sat opts && (sat d && forallb child_sat l)).
        { rewrite IH, forallb_app. cbn [forallb].
          destruct (forallb acc hard), (forallb sat opts), (sat d), (forallb child_sat l); reflexivity. }
        destruct d as [|cl [|cl2 d']]; try exact Hopt.
        cbn [and_loop]. rewrite IH, forallb_app. unfold sat at 3. cbn [existsb].
        rewrite orb_false_r.
        destruct (forallb acc hard), (forallb acc cl), (forallb sat opts), (forallb child_sat l); reflexivity.
  Qed.

  Lemma ldnf_sem : forall t, sat (ldnf t) = esat acc t.
  Proof.
    induction t as [l | cs IH | cs IH] using etree_ind'.
    - cbn. now rewrite andb_true_r, orb_false_r.
    - destruct cs as [|c0 cs']; [reflexivity|].
      change (ldnf (EAll (c0 :: cs'))) with (and_loop [] [] (map (fun ch => (leaf_of ch, ldnf ch)) (c0 :: cs'))).
      rewrite and_loop_sem. cbn [forallb andb]. cbn [esat].
      generalize dependent (c0 :: cs'). clear. intros cs IH.
      induction IH as [|c cs Hc _ IHcs]; cbn; [reflexivity|].
      rewrite IHcs. f_equal. unfold child_sat; cbn.
      destruct c; cbn; [reflexivity | exact Hc | exact Hc].
    - destruct cs as [|c0 cs']; [reflexivity|].
      change (ldnf (EAny (c0 :: cs'))) with (flat_map ldnf (c0 :: cs')).
      unfold sat. rewrite existsb_flat_map. cbn [esat].
      generalize dependent (c0 :: cs'). clear. intros cs IH.
      induction IH as [|c cs Hc _ IHcs]; cbn; [reflexivity|].
      unfold sat in Hc. rewrite Hc, IHcs. reflexivity.
  Qed.
End Dnf.

(* ---- USE evaluation (evaluate_depset) denotes the formula [lsat] *)
Section Eval.
  Variable u : list N.
  Variable acc : str -> bool.
  Let h := lsat u acc.
  Definition vtrue (o : option bool) : bool := match o with Some b => b | None => true end.
  Definition vfalse (o : option bool) : bool := match o with Some b => b | None => false end.

  Lemma present_nil {A} (g : A -> option bool) l :
    present (map g l) = [] <-> forall a, In a l -> g a = None.
  Proof.
    unfold present. rewrite flat_map_nil. split.
    - intros H a Ha. specialize (H (g a) (in_map g l a Ha)). destruct (g a); [discriminate | reflexivity].
    - intros H o Ho. apply in_map_iff in Ho as [a [<- Ha]]. now rewrite (H a Ha).
  Qed.
  Lemma present_forallb {A} (g : A -> option bool) l :
    forallb (fun b => b) (present (map g l)) = forallb (fun a => vtrue (g a)) l.
  Proof.
    induction l as [|a l IH]; cbn; [reflexivity|]. unfold present in *. cbn.
    rewrite forallb_app, IH. destruct (g a); cbn; [now rewrite andb_true_r | reflexivity].
  Qed.
  Lemma present_existsb {A} (g : A -> option bool) l :
    existsb (fun b => b) (present (map g l)) = existsb (fun a => vfalse (g a)) l.
  Proof.
    induction l as [|a l IH]; cbn; [reflexivity|]. unfold present in *. cbn.
    rewrite existsb_app, IH. destruct (g a); cbn; [now rewrite orb_false_r | reflexivity].
  Qed.
  Lemma all_present_none l : all_present l = None <-> present l = [].
  Proof. unfold all_present. destruct (present l); split; intro H; try reflexivity; discriminate. Qed.
  Lemma any_present_none l : any_present l = None <-> present l = [].
  Proof. unfold any_present. destruct (present l); split; intro H; try reflexivity; discriminate. Qed.
  Lemma all_present_vtrue l : vtrue (all_present l) = forallb (fun b => b) (present l).
  Proof. unfold all_present. destruct (present l); reflexivity. Qed.
  Lemma any_present_vfalse l : vfalse (any_present l) = existsb (fun b => b) (present l).
  Proof. unfold any_present. destruct (present l); reflexivity. Qed.
  Lemma all_present_some l : present l <> [] -> all_present l = Some (forallb (fun b => b) (present l)).
  Proof. unfold all_present. destruct (present l); [congruence | reflexivity]. Qed.
  Lemma any_present_some l : present l <> [] -> any_present l = Some (existsb (fun b => b) (present l)).
  Proof. unfold any_present. destruct (present l); [congruence | reflexivity]. Qed.

  Lemma present_somes {A} (g : A -> bool) l : present (map (fun t => Some (g t)) l) = map g l.
  Proof. induction l as [|a l IHl]; cbn; [reflexivity | now rewrite <- IHl]. Qed.
  Lemma all_present_somes {A} (g : A -> bool) l : l <> [] ->
    all_present (map (fun t => Some (g t)) l) = Some (forallb g l).
  Proof.
    intro H. unfold all_present. rewrite present_somes. destruct l as [|a l]; [congruence|].
    rewrite <- (forallb_map' (fun b : bool => b) g). reflexivity.
  Qed.
  Lemma any_present_somes {A} (g : A -> bool) l : l <> [] ->
    any_present (map (fun t => Some (g t)) l) = Some (existsb g l).
  Proof.
    intro H. unfold any_present. rewrite present_somes. destruct l as [|a l]; [congruence|].
    rewrite <- (existsb_map' (fun b : bool => b) g). reflexivity.
  Qed.

  (* what a node contributes to an all-of parent / to an any-of parent *)
  Definition ev_ok (t : ltree) : Prop :=
    forall pa, (ev u pa t = [] <-> h t = None)
               /\ forallb (esat acc) (ev u false t) = vtrue (h t)
               /\ existsb (esat acc) (ev u true t) = vfalse (h t).

  Lemma one_or_less_sem (l : list etree) :
    one_or_less l = true -> l <> [] -> forallb (esat acc) l = existsb (esat acc) l.
  Proof.
    destruct l as [|a [|b l]]; cbn; try discriminate; [congruence|].
    intros _ _. now rewrite andb_true_r, orb_false_r.
  Qed.

  Lemma place_all_sem l :
    (forall pa, place_all pa l = [] <-> l = [])
    /\ forallb (esat acc) (place_all false l) = forallb (esat acc) l
    /\ (l <> [] -> existsb (esat acc) (place_all true l) = forallb (esat acc) l).
  Proof.
    unfold place_all. destruct l as [|a l]; cbn [is_nil].
    - split; [intro pa; tauto | split; [reflexivity | intro H; congruence]].
    - split; [intro pa; split; [|discriminate] | split; [reflexivity|]].
      + destruct pa; [destruct (one_or_less (a :: l))|]; discriminate.
      + intros _. destruct (one_or_less (a :: l)) eqn:E.
        * symmetry. apply one_or_less_sem; [exact E | discriminate].
        * cbn. now rewrite orb_false_r.
  Qed.
  Lemma place_any_sem l :
    (forall pa, place_any pa l = [] <-> l = [])
    /\ existsb (esat acc) (place_any true l) = existsb (esat acc) l
    /\ (l <> [] -> forallb (esat acc) (place_any false l) = existsb (esat acc) l).
  Proof.
    unfold place_any. destruct l as [|a l]; cbn [is_nil].
    - split; [intro pa; tauto | split; [reflexivity | intro H; congruence]].
    - split; [intro pa; split; [|discriminate] | split; [reflexivity|]].
      + destruct pa; [|destruct (one_or_less (a :: l))]; discriminate.
      + intros _. destruct (one_or_less (a :: l)) eqn:E.
        * apply one_or_less_sem; [exact E | discriminate].
        * cbn [forallb esat]. now rewrite andb_true_r.
  Qed.

  Lemma all_node cs : Forall ev_ok cs ->
    let l := flat_map (ev u false) cs in
    (l = [] <-> present (map h cs) = [])
    /\ forallb (esat acc) l = forallb (fun b => b) (present (map h cs)).
  Proof.
    intros IH l. split.
    - unfold l. rewrite flat_map_nil, present_nil. rewrite Forall_forall in IH.
      split; intros H a Ha; apply (proj1 (IH a Ha false)); now apply H.
    - unfold l. rewrite forallb_flat_map, present_forallb. apply forallb_ext_in.
      intros a Ha. rewrite Forall_forall in IH. apply (proj2 (IH a Ha false)).
  Qed.
  Lemma any_node cs : Forall ev_ok cs ->
    let l := flat_map (ev u true) cs in
    (l = [] <-> present (map h cs) = [])
    /\ existsb (esat acc) l = existsb (fun b => b) (present (map h cs)).
  Proof.
    intros IH l. split.
    - unfold l. rewrite flat_map_nil, present_nil. rewrite Forall_forall in IH.
      split; intros H a Ha; apply (proj1 (IH a Ha true)); now apply H.
    - unfold l. rewrite existsb_flat_map, present_existsb. apply existsb_ext_in.
      intros a Ha. rewrite Forall_forall in IH. apply (proj2 (IH a Ha true)).
  Qed.

  Lemma all_like cs : Forall ev_ok cs ->
    forall pa, (place_all pa (flat_map (ev u false) cs) = [] <-> all_present (map h cs) = None)
      /\ forallb (esat acc) (place_all false (flat_map (ev u false) cs)) = vtrue (all_present (map h cs))
      /\ existsb (esat acc) (place_all true (flat_map (ev u false) cs)) = vfalse (all_present (map h cs)).
  Proof.
    intros IH pa. destruct (all_node cs IH) as [Hn Hs].
    destruct (place_all_sem (flat_map (ev u false) cs)) as [P1 [P2 P3]].
    split; [|split].
    - rewrite P1, all_present_none. exact Hn.
    - rewrite P2, all_present_vtrue. exact Hs.
    - destruct (flat_map (ev u false) cs) eqn:E.
      + assert (Hp : present (map h cs) = []) by (apply Hn; reflexivity).
        unfold all_present. rewrite Hp. reflexivity.
      + rewrite P3 by discriminate. rewrite Hs.
        assert (Hp : present (map h cs) <> []) by (intro Hp; apply Hn in Hp; discriminate).
        rewrite (all_present_some _ Hp). reflexivity.
  Qed.

  Lemma ev_sem : forall t, ev_ok t.
  Proof.
    induction t as [l | cs IH | cs IH | n f cs IH] using ltree_ind'.
    - intro pa. cbn. repeat split; try discriminate; now rewrite ?andb_true_r, ?orb_false_r.
    - intro pa. change (h (LAll cs)) with (all_present (map h cs)). cbn [ev]. apply all_like; exact IH.
    - intro pa. change (h (LAny cs)) with (any_present (map h cs)). cbn [ev].
      destruct (any_node cs IH) as [Hn Hs].
      destruct (place_any_sem (flat_map (ev u true) cs)) as [P1 [P2 P3]].
      split; [|split].
      + rewrite P1, any_present_none. exact Hn.
      + destruct (flat_map (ev u true) cs) eqn:E.
        * assert (Hp : present (map h cs) = []) by (apply Hn; reflexivity).
          unfold any_present. rewrite Hp. reflexivity.
        * rewrite P3 by discriminate. rewrite Hs.
          assert (Hp : present (map h cs) <> []) by (intro Hp; apply Hn in Hp; discriminate).
          rewrite (any_present_some _ Hp). reflexivity.
      + rewrite P2, any_present_vfalse. exact Hs.
    - intro pa. unfold h. cbn [ev lsat]. destruct (xorb (nmem f u) n).
      + fold h. destruct cs as [|c0 cs'].
        * cbn. repeat split; reflexivity.
        * cbn [is_nil]. apply all_like; exact IH.
      + cbn. repeat split; reflexivity.
  Qed.

  (* a LICENSE without conditionals is taken as it is *)
  Lemma plain_sem : forall t, wf_ltree t = true -> has_cond t = false ->
    h t = Some (esat acc (plain t)).
  Proof.
    induction t as [l | cs IH | cs IH | n f cs IH] using ltree_ind'; intros Hwf Hc.
    - reflexivity.
    - cbn in Hwf, Hc. apply andb_true_iff in Hwf as [Hne Hwf].
      assert (E : map h cs = map (fun t => Some (esat acc (plain t))) cs).
      { apply map_ext_in. intros a Ha. rewrite Forall_forall in IH. apply IH; [exact Ha | |].
        - rewrite forallb_forall in Hwf. now apply Hwf.
        - destruct (has_cond a) eqn:E; [|reflexivity].
          assert (existsb has_cond cs = true) by (apply existsb_exists; eauto). congruence. }
      change (h (LAll cs)) with (all_present (map h cs)). rewrite E.
      rewrite all_present_somes by (destruct cs; [discriminate | discriminate]).
      cbn [plain esat]. now rewrite forallb_map'.
    - cbn in Hwf, Hc. apply andb_true_iff in Hwf as [Hne Hwf].
      assert (E : map h cs = map (fun t => Some (esat acc (plain t))) cs).
      { apply map_ext_in. intros a Ha. rewrite Forall_forall in IH. apply IH; [exact Ha | |].
        - rewrite forallb_forall in Hwf. now apply Hwf.
        - destruct (has_cond a) eqn:E; [|reflexivity].
          assert (existsb has_cond cs = true) by (apply existsb_exists; eauto). congruence. }
      change (h (LAny cs)) with (any_present (map h cs)). rewrite E.
      rewrite any_present_somes by (destruct cs; [discriminate | discriminate]).
      cbn [plain esat]. destruct cs as [|c0 cs']; [discriminate|].
      cbn [map]. change (plain c0 :: map plain cs') with (map plain (c0 :: cs')).
      now rewrite existsb_map'.
    - discriminate.
  Qed.

  Lemma evaluate_sem ts : forallb wf_ltree ts = true ->
    esat acc (evaluate u ts) = forallb (fun b => b) (present (map h ts)).
  Proof.
    intro Hwf. unfold evaluate. destruct (existsb has_cond ts) eqn:Hc.
    - cbn [esat]. rewrite forallb_flat_map, present_forallb. apply forallb_ext. intro a.
      apply (proj2 (ev_sem a false)).
    - cbn [esat]. rewrite forallb_map', present_forallb. apply forallb_ext_in. intros a Ha.
      rewrite plain_sem; [reflexivity | |].
      + rewrite forallb_forall in Hwf. now apply Hwf.
      + destruct (has_cond a) eqn:E; [|reflexivity].
        assert (existsb has_cond ts = true) by (apply existsb_exists; eauto). congruence.
  Qed.
End Eval.

(* ---- acceptance of one alternative = every member accepted (the "*" token adds the members) *)
Lemma lw_ext (A A' D D' : str -> str -> bool) rs x b :
  (forall t, A t x = A' t x) -> (forall t, D t x = D' t x) ->
  last_writer A D rs x b = last_writer A' D' rs x b.
Proof. intros HA HD. induction rs as [|t r IH]; cbn; [reflexivity|]. now rewrite HA, HD, IH. Qed.

Lemma lic_adds_member cl g t l : In l cl -> lic_adds cl g t l = lic_adds [l] g t l.
Proof.
  intro H. unfold lic_adds. destruct t as [|ch i]; [reflexivity|].
  destruct (N.eqb ch DASH); [reflexivity|]. destruct (N.eqb ch AT); [reflexivity|].
  destruct (str_eqb (ch :: i) [STAR]); [|reflexivity].
  apply mem_In in H. rewrite H. cbn. now rewrite str_eqb_refl.
Qed.

Lemma first_bad_none k ts : first_bad k ts = None <-> forall t, In t ts -> k t = None.
Proof.
  induction ts as [|t r IH]; cbn; [tauto|]. destruct (k t) eqn:E.
  - split; [discriminate|]. intro H. rewrite <- E. apply H. now left.
  - rewrite IH. split; [intros H u [<- | Hu]; auto | intros H u Hu; apply H; now right].
Qed.
Lemma wf_license_ok t : wf_license t = true -> bad_license t = None.
Proof.
  unfold wf_license, wf, bad_license. intro H.
  apply andb_true_iff in H as [H H3]. apply andb_true_iff in H as [H H2]. apply andb_true_iff in H as [H0 H1].
  apply negb_true_iff in H0, H1, H2, H3. now rewrite H0, H1, H2, H3.
Qed.
Lemma wf_ok t : wf t = true -> bad_inc t = None.
Proof.
  unfold wf, bad_inc. intro H. apply andb_true_iff in H as [H0 H1].
  apply negb_true_iff in H0, H1. now rewrite H0, H1.
Qed.
Lemma In_dedup t l : In t (sunion [] l) -> In t l.
Proof. intro H. apply mem_In in H. rewrite mem_sunion_nil in H. now apply mem_In. Qed.

Lemma lic_tokens_wf c p : wf_lic_tokens c = true -> first_bad bad_license (lic_tokens c p) = None.
Proof.
  unfold wf_lic_tokens. intro H. apply andb_true_iff in H as [H1 H2].
  rewrite forallb_forall in H1, H2. apply first_bad_none. intros t Ht. apply wf_license_ok.
  unfold lic_tokens in Ht. apply in_app_or in Ht as [Ht | Ht]; [now apply H1|].
  apply in_concat in Ht as [l [Hl Ht]]. apply in_map_iff in Hl as [e [<- He]].
  apply filter_In in He as [He _]. apply In_dedup in Ht.
  specialize (H2 e He). rewrite forallb_forall in H2. now apply H2.
Qed.

Definition lic_lw (c : config) (toks : list str) (x : str) : bool :=
  last_writer (lic_adds [x] (groups c)) (lic_dels [x] (groups c)) (rev toks) x false.

Lemma lic_scan_sem c toks : first_bad bad_license toks = None ->
  forall cls, lic_scan c toks cls = inr (existsb (forallb (lic_lw c toks)) cls).
Proof.
  intros Hwf cls. induction cls as [|cl r IH]; [reflexivity|].
  cbn [lic_scan existsb].
  pose proof (license_rejects_proof cl (groups c) toks) as R. rewrite Hwf in R. destruct R as [s Hs].
  rewrite Hs.
  assert (E : forallb (fun l => mem l s) cl = forallb (lic_lw c toks) cl).
  { apply forallb_ext_in. intros l Hl.
    destruct (license_last_writer_proof cl (groups c) toks s Hs l) as [H1 _].
    assert (E1 : mem l s = sem_fold (lic_adds cl (groups c)) (lic_dels cl (groups c)) toks (fun _ => false) l).
    { apply eq_true_iff_eq. rewrite mem_In. exact H1. }
    rewrite E1, sem_fold_last_writer. unfold lic_lw. apply lw_ext.
    - intro t. now apply lic_adds_member.
    - intro t. reflexivity. }
  rewrite E. destruct (forallb (lic_lw c toks) cl); [reflexivity | exact IH].
Qed.

Lemma license_conjunct_proof : forall c p,
  wf_lic_tokens c = true -> wf_pkg p = true -> lic_ok c p = inr (license_spec c p).
Proof.
  intros c p Hc Hp. unfold lic_ok, lic_active, license_spec.
  destruct (is_nil (accept_lic c) && is_nil (lic_entries c)); [reflexivity|]. cbn [negb].
  rewrite (lic_scan_sem c _ (lic_tokens_wf c p Hc)). f_equal.
  change (existsb (forallb (lic_lw c (lic_tokens c p))) (ldnf (evaluate (use c) (p_lic p))))
    with ((fun s => existsb (forallb (lic_lw c (lic_tokens c p))) s) (ldnf (evaluate (use c) (p_lic p)))).
  cbv beta. rewrite ldnf_sem. rewrite (evaluate_sem (use c) _ (p_lic p) Hp). reflexivity.
Qed.

(* ================================================================ (2) keywords *)
Lemma positive_ok t : positive t = true -> bad_inc t = None.
Proof.
  destruct t as [|ch i]; [discriminate|]. unfold positive, bad_inc. cbn [is_nil].
  destruct (N.eqb ch DASH) eqn:E; [discriminate|]. intros _. cbn. now rewrite E.
Qed.

Lemma expand_mem ts orig : first_bad bad_inc ts = None ->
  exists s, expand true ts orig = Ok s /\ forall x, mem x s = lw ts x (mem x orig).
Proof.
  intro H. pose proof (expand_rejects_proof true ts orig) as R. rewrite H in R. destruct R as [s Hs].
  exists s. split; [exact Hs|]. intro x.
  destruct (expand_last_writer_proof _ _ _ _ Hs x) as [H1 _].
  apply eq_true_iff_eq. rewrite mem_In, H1. unfold lw. now rewrite sem_fold_last_writer.
Qed.

Lemma accept_mem c e : accept_set c = Ok e -> forall x, mem x e = ak_accepts c x.
Proof.
  intros Hs x. unfold accept_set in Hs.
  destruct (expand_last_writer_proof _ _ _ _ Hs x) as [H1 _].
  apply eq_true_iff_eq. rewrite mem_In, H1. unfold ak_accepts, lw. now rewrite sem_fold_last_writer.
Qed.

Lemma lw_true_in ts y : lw ts y false = true -> In y ts /\ positive y = true.
Proof.
  unfold lw. rewrite last_writer_positions. intros [[r1 [t [r2 [E [At _]]]]] | [H _]]; [|discriminate].
  unfold adds in At. apply andb_true_iff in At as [E1 P]. apply str_eqb_eq in E1. subst t.
  rewrite orb_false_r in P. split; [|exact P].
  apply in_rev. rewrite E. apply in_or_app. right. now left.
Qed.

Lemma mem_map_exists x (f : str -> str) l :
  mem x (map f l) = existsb (fun y => str_eqb (f y) x) l.
Proof.
  induction l as [|a l IH]; cbn; [reflexivity|]. rewrite <- IH. unfold mem. cbn.
  now rewrite (str_eqb_sym x (f a)).
Qed.

Lemma dk_mem c e : accept_set c = Ok e ->
  forall x, mem x (default_keys_of c e) = base_accepts c x.
Proof.
  intros Hs x. unfold default_keys_of, base_accepts. rewrite !mem_sunion.
  rewrite (accept_mem c e Hs). cbn [mem existsb]. rewrite orb_false_r. f_equal.
  rewrite mem_map_exists. apply eq_true_iff_eq. rewrite !existsb_exists. split.
  - intros [y [Hy E]]. apply filter_In in Hy as [Hy St]. apply mem_In in Hy.
    rewrite (accept_mem c e Hs) in Hy. exists y. split.
    + apply (lw_true_in _ _ Hy).
    + unfold ak_accepts in *. now rewrite Hy, St, E.
  - intros [y [Hy E]]. apply andb_true_iff in E as [E E3]. apply andb_true_iff in E as [E1 E2].
    exists y. split; [|exact E3]. apply filter_In. split; [|exact E2].
    apply mem_In. now rewrite (accept_mem c e Hs).
Qed.

Lemma dk_positive c e : wf_kw_tokens c = true -> accept_set c = Ok e ->
  forall t, In t (default_keys_of c e) -> positive t = true.
Proof.
  intros Hwf Hs t Ht. unfold wf_kw_tokens in Hwf.
  apply andb_true_iff in Hwf as [Hwf _]. apply andb_true_iff in Hwf as [Ha Hk].
  rewrite forallb_forall in Hk.
  apply mem_In in Ht. unfold default_keys_of in Ht. rewrite !mem_sunion in Ht.
  apply orb_true_iff in Ht as [Ht | Ht]; [apply orb_true_iff in Ht as [Ht | Ht]|].
  - cbn in Ht. rewrite orb_false_r in Ht. apply str_eqb_eq in Ht. now subst t.
  - rewrite (accept_mem c e Hs) in Ht. apply (lw_true_in _ _ Ht).
  - rewrite mem_map_exists in Ht. apply existsb_exists in Ht as [y [Hy E]].
    apply str_eqb_eq in E. subst t. apply filter_In in Hy as [Hy _]. apply mem_In in Hy.
    rewrite (accept_mem c e Hs) in Hy. destruct (lw_true_in _ _ Hy) as [Hin Hp].
    specialize (Hk y Hin). apply andb_true_iff in Hk as [_ Hk]. rewrite Hp in Hk. exact Hk.
Qed.

(* ---- the buckets of collapsed_restrict_to_data, entry by entry *)
Lemma matched_snoc l m d : matched (l ++ [(m, d)]) = matched l ++ (if m then d else []).
Proof.
  unfold matched. rewrite filter_app, map_app, concat_app. cbn. destruct m; cbn; now rewrite ?app_nil_r.
Qed.

Section Collapse.
  Variable c : config.
  Variable p : pkg.
  Variable T : entry -> list str.          (* the payload of an entry *)
  Let src (e : entry) : source := (bucket_of p e, nmem (e_id e) (p_match p), T e).

  Definition kind_toks (k : ekind) (es : list entry) : list str :=
    concat (map T (filter (fun e => kind_eqb (e_kind e) k && nmem (e_id e) (p_match p)) es)).
  Definition glob_toks (es : list entry) : list str :=
    concat (map T (filter (fun e => kind_eqb (e_kind e) EAlways) es)).
  Fixpoint atom_toks (seen : bool) (es : list entry) : list str :=
    match es with
    | [] => []
    | e :: r =>
        match e_kind e with
        | EAtom =>
            if nmem (e_id e) (p_key p) && negb (is_nil (T e))
            then (if nmem (e_id e) (p_match p) then T e else []) ++ atom_toks true r
            else atom_toks seen r
        | EAlways =>
            (if seen && negb (is_nil (T e)) then filter is_neg (T e) else []) ++ atom_toks seen r
        | _ => atom_toks seen r
        end
    end.

  Definition inv (a col : collapsed) (es : list entry) : Prop :=
    c_always col = c_always a ++ glob_toks es
    /\ matched (c_repo col) = matched (c_repo a) ++ kind_toks ERepo es
    /\ matched (c_cat col) = matched (c_cat a) ++ kind_toks ECat es
    /\ matched (c_pkg col) = matched (c_pkg a) ++ kind_toks EPkg es
    /\ matched (c_multi col) = matched (c_multi a) ++ kind_toks EMulti es
    /\ matched (c_atoms col) = matched (c_atoms a) ++ atom_toks (negb (is_nil (c_atoms a))) es.

  Lemma kind_toks_cons k e r :
    kind_toks k (e :: r)
    = (if kind_eqb (e_kind e) k && nmem (e_id e) (p_match p) then T e else []) ++ kind_toks k r.
  Proof.
    unfold kind_toks. cbn [filter]. destruct (kind_eqb (e_kind e) k && nmem (e_id e) (p_match p)); reflexivity.
  Qed.
  Lemma glob_toks_cons e r :
    glob_toks (e :: r) = (if kind_eqb (e_kind e) EAlways then T e else []) ++ glob_toks r.
  Proof. unfold glob_toks. cbn [filter]. destruct (kind_eqb (e_kind e) EAlways); reflexivity. Qed.

  Lemma is_nil_snoc {A} (l : list A) x : is_nil (l ++ [x]) = false.
  Proof. destruct l; reflexivity. Qed.

  Lemma collapse_inv es : forall a, inv a (fold_left collapse_one (map src es) a) es.
  Proof.
    induction es as [|e r IH]; intro a.
    - unfold inv, kind_toks, glob_toks. cbn. now rewrite !app_nil_r.
    - cbn [map fold_left]. specialize (IH (collapse_one a (src e))).
      destruct IH as [I1 [I2 [I3 [I4 [I5 I6]]]]].
      unfold inv. rewrite I1, I2, I3, I4, I5, I6. clear I1 I2 I3 I4 I5 I6.
      rewrite glob_toks_cons, !kind_toks_cons. cbn [atom_toks].
      destruct e as [[k id] toks]. unfold src, bucket_of, e_kind, e_id. cbn [fst snd].
      set (d := T (k, id, toks)). set (m := nmem id (p_match p)).
      unfold collapse_one.
      destruct (is_nil d) eqn:Hd.
      + (* empty payload: the source is skipped *)
        assert (d = []) as -> by (destruct d; [reflexivity | discriminate]).
        destruct k; cbn [kind_eqb andb negb is_nil filter]; rewrite ?andb_false_r;
          cbn [app]; rewrite ?app_nil_r;
          repeat split; try reflexivity;
          try (destruct m; reflexivity);
          try (destruct (negb (is_nil (c_atoms a))); reflexivity).
      + destruct k; cbn [kind_eqb andb negb c_always c_repo c_cat c_pkg c_multi c_atoms];
          rewrite ?andb_true_r, ?andb_false_r; cbn [negb app]; rewrite ?app_nil_r.
        * (* match-all entry *)
          repeat split; try reflexivity; try (now rewrite app_assoc).
          destruct (c_atoms a) as [|x0 l0] eqn:Ha; cbn [is_nil negb andb].
          -- reflexivity.
          -- rewrite matched_snoc, is_nil_snoc. cbn [negb]. now rewrite app_assoc.
        * repeat split; try reflexivity. rewrite matched_snoc. now rewrite app_assoc.
        * repeat split; try reflexivity. rewrite matched_snoc. now rewrite app_assoc.
        * repeat split; try reflexivity. rewrite matched_snoc. now rewrite app_assoc.
        * repeat split; try reflexivity. rewrite matched_snoc. now rewrite app_assoc.
        * destruct (nmem id (p_key p)); cbn [andb c_always c_repo c_cat c_pkg c_multi c_atoms].
          -- repeat split; try reflexivity. rewrite matched_snoc, is_nil_snoc. cbn [negb]. now rewrite app_assoc.
          -- repeat split; reflexivity.
  Qed.
End Collapse.

Lemma payload_tokens c e : payload true (stable_system c) c e = e_tokens c e.
Proof. destruct e as [[k a] toks]. unfold payload, e_tokens. cbn [snd]. destruct k; reflexivity. Qed.

Lemma atom_tokens_toks c p es : forall seen, atom_tokens c p seen es = atom_toks p (e_tokens c) seen es.
Proof.
  induction es as [|e r IH]; intro seen; [reflexivity|]. cbn [atom_tokens atom_toks].
  destruct (e_kind e); rewrite ?IH; reflexivity.
Qed.

Lemma last_writer_app A D r1 r2 x b :
  last_writer A D (r1 ++ r2) x b = last_writer A D r1 x (last_writer A D r2 x b).
Proof. induction r1 as [|t r IH]; cbn; [reflexivity | now rewrite IH]. Qed.
Lemma lw_app a b x d : lw (a ++ b) x d = lw b x (lw a x d).
Proof. unfold lw. rewrite rev_app_distr. apply last_writer_app. Qed.
Lemma lw_positive ts x : (forall t, In t ts -> positive t = true) -> lw ts x false = mem x ts.
Proof.
  intro P. unfold lw. rewrite lw_all_positive.
  - apply mem_same_set. intro z. symmetry. apply in_rev.
  - intros t Ht. apply P. now apply in_rev.
Qed.
Lemma positive_not_neg' x : positive x = true -> is_neg x = false.
Proof. destruct x as [|ch i]; [reflexivity|]. unfold positive, is_neg. now destruct (N.eqb ch DASH). Qed.

Lemma first_bad_app k a b : first_bad k (a ++ b) = None <-> first_bad k a = None /\ first_bad k b = None.
Proof.
  rewrite !first_bad_none. split.
  - intro H. split; intros t Ht; apply H; apply in_or_app; tauto.
  - intros [H1 H2] t Ht. apply in_app_or in Ht as [Ht | Ht]; auto.
Qed.

Section KwTokens.
  Variable c : config.
  Variable p : pkg.
  Hypothesis Hwf : wf_kw_tokens c = true.

  Lemma e_tokens_ok e t : In e (kw_entries c) -> In t (e_tokens c e) -> bad_inc t = None.
  Proof.
    intros He Ht. unfold wf_kw_tokens in Hwf. apply andb_true_iff in Hwf as [_ H].
    rewrite forallb_forall in H. specialize (H e He). rewrite forallb_forall in H.
    unfold e_tokens in Ht. destruct (stable_system c && is_nil (sunion [] (snd e))).
    - destruct Ht as [<- | []]. apply positive_ok. reflexivity.
    - apply wf_ok. apply H. now apply In_dedup.
  Qed.
  Lemma glob_ok t : In t (glob_toks (e_tokens c) (kw_entries c)) -> bad_inc t = None.
  Proof.
    unfold glob_toks. intro Ht. apply in_concat in Ht as [l [Hl Ht]].
    apply in_map_iff in Hl as [e [<- He]]. apply filter_In in He as [He _]. eapply e_tokens_ok; eauto.
  Qed.
  Lemma kind_ok k t : In t (kind_toks p (e_tokens c) k (kw_entries c)) -> bad_inc t = None.
  Proof.
    unfold kind_toks. intro Ht. apply in_concat in Ht as [l [Hl Ht]].
    apply in_map_iff in Hl as [e [<- He]]. apply filter_In in He as [He _]. eapply e_tokens_ok; eauto.
  Qed.
  Lemma atoms_ok es : (forall e, In e es -> In e (kw_entries c)) ->
    forall seen t, In t (atom_toks p (e_tokens c) seen es) -> bad_inc t = None.
  Proof.
    induction es as [|e r IH]; intros Hs seen t Ht; [destruct Ht|].
    assert (Hr : forall e', In e' r -> In e' (kw_entries c)) by (intros; apply Hs; now right).
    assert (He : In e (kw_entries c)) by (apply Hs; now left).
    cbn [atom_toks] in Ht. destruct (e_kind e); try (eapply IH; eauto; fail).
    - apply in_app_or in Ht as [Ht | Ht]; [|eapply IH; eauto].
      destruct (seen && negb (is_nil (e_tokens c e))); [|destruct Ht].
      apply filter_In in Ht as [Ht _]. eapply e_tokens_ok; eauto.
    - destruct (nmem (e_id e) (p_key p) && negb (is_nil (e_tokens c e))); [|eapply IH; eauto].
      apply in_app_or in Ht as [Ht | Ht]; [|eapply IH; eauto].
      destruct (nmem (e_id e) (p_match p)); [|destruct Ht]. eapply e_tokens_ok; eauto.
  Qed.
  Lemma specific_ok : first_bad bad_inc (specific_stream c p) = None.
  Proof.
    apply first_bad_none. intros t Ht. unfold specific_stream in Ht.
    repeat (apply in_app_or in Ht as [Ht | Ht]; [eapply kind_ok; exact Ht|]).
    rewrite atom_tokens_toks in Ht. eapply atoms_ok; [|exact Ht]. auto.
  Qed.
End KwTokens.

Lemma kw_allowed_sem c e p : wf_kw_tokens c = true -> accept_set c = Ok e ->
  let dk := default_keys_of c e in
  (exists d, defaults true (collapse (kw_sources true c dk p)) = Ok d)
  /\ exists s, kw_allowed true c dk p = Ok s /\ forall x, mem x s = kw_accepts c p x.
Proof.
  intros Hwf Hs dk.
  assert (Hst : mem (unstable_arch c) dk = negb (stable_system c)).
  { unfold dk. rewrite (dk_mem c e Hs). unfold stable_system. now rewrite negb_involutive. }
  assert (Hpos : forall t, In t dk -> positive t = true) by (apply (dk_positive c e Hwf Hs)).
  assert (Hne : is_nil dk = false).
  { assert (H : mem (arch c) dk = true).
    { unfold dk. rewrite (dk_mem c e Hs). unfold base_accepts. now rewrite str_eqb_refl. }
    destruct dk; [discriminate | reflexivity]. }
  (* the collapsed buckets *)
  set (a0 := {| c_always := [] ++ dk; c_repo := []; c_cat := []; c_pkg := []; c_multi := []; c_atoms := [] |}).
  pose proof (collapse_inv p (e_tokens c) (kw_entries c) a0) as I. cbv zeta in I.
  match type of I with inv _ _ _ ?col _ =>
    assert (Hcol : collapse (kw_sources true c dk p) = col) end.
  { unfold collapse, kw_sources. cbn [fold_left]. f_equal.
    - apply map_ext. intro e0. unfold to_source. rewrite Hst, negb_involutive, payload_tokens. reflexivity.
    - unfold collapse_one. rewrite Hne. reflexivity. }
  rewrite <- Hcol in I. destruct I as [I1 [I2 [I3 [I4 [I5 I6]]]]].
  cbn [a0 c_always c_repo c_cat c_pkg c_multi c_atoms matched
    filter map concat app is_nil negb] in I1, I2, I3, I4, I5, I6.
  change (matched []) with (@nil str) in *. cbn [app] in *.
  assert (Hspec : specific_tokens (collapse (kw_sources true c dk p)) = specific_stream c p).
  { unfold specific_tokens, specific_stream. rewrite I2, I3, I4, I5, I6, atom_tokens_toks. reflexivity. }
  assert (Halw : c_always (collapse (kw_sources true c dk p)) = dk ++ global_tokens c) by exact I1.
  assert (Hbad : first_bad bad_inc (dk ++ global_tokens c) = None).
  { apply first_bad_app. split; apply first_bad_none.
    - intros t Ht. apply positive_ok. now apply Hpos.
    - intros t Ht. eapply glob_ok; eauto. }
  destruct (expand_mem (dk ++ global_tokens c) [] Hbad) as [d [Hd Md]].
  assert (Hdef : defaults true (collapse (kw_sources true c dk p)) = Ok d).
  { unfold defaults. rewrite Halw. destruct (dk ++ global_tokens c) eqn:E.
    - destruct dk; discriminate.
    - exact Hd. }
  assert (Md' : forall x, mem x d = lw (global_tokens c) x (base_accepts c x)).
  { intro x. rewrite Md, lw_app. cbn [mem existsb]. rewrite (lw_positive dk x Hpos).
    unfold dk. now rewrite (dk_mem c e Hs). }
  split; [exists d; exact Hdef|].
  unfold kw_allowed, kw_accepts. fold dk. rewrite Hst.
  destruct (stable_system c) eqn:St; cbn [negb].
  - (* stable: incremental *)
    unfold pull_data. rewrite Hdef. cbn [res_bind is_nil]. rewrite Hspec.
    destruct (expand_mem (specific_stream c p) (filter (fun x => negb (is_neg x)) d) (specific_ok c p Hwf))
      as [s [Hs' Ms]].
    exists s. split; [exact Hs'|]. intro x. rewrite Ms, lw_app, <- Md'. f_equal.
    rewrite mem_filter. destruct (mem x d) eqn:Mx; [|reflexivity]. cbn [andb].
    apply mem_In in Mx. rewrite (positive_not_neg' x); [reflexivity|].
    eapply expand_true_positive; eauto.
  - (* unstable: plain union *)
    unfold non_incremental_pull. rewrite Hdef. cbn [res_bind]. rewrite Hspec.
    eexists. split; [reflexivity|]. intro x. rewrite mem_sunion, Md'. reflexivity.
Qed.

Lemma kw_apply_sem s ks (acc : str -> bool) : (forall x, mem x s = acc x) ->
  kw_apply s ks
  = (acc W_ANY || (acc W_STABLE && existsb kw_stable ks) || (acc W_TESTING && existsb kw_testing ks)
     || existsb acc ks).
Proof.
  intro H. unfold kw_apply. rewrite !H. f_equal. apply existsb_ext. intro k. apply H.
Qed.

Lemma kw_conjunct_proof : forall c p e,
  wf_kw_tokens c = true -> accept_set c = Ok e ->
  build_fails true true c (default_keys_of c e) p = false
  /\ kw_ok true true c (default_keys_of c e) p = inr (kw_spec c p).
Proof.
  intros c p e Hwf Hs. set (dk := default_keys_of c e).
  destruct (kw_allowed_sem c e p Hwf Hs) as [[d Hd] [s [Ha Ms]]]. fold dk in Hd, Ha.
  unfold build_fails, kw_ok. cbn [andb].
  destruct (is_nil (kw_entries c) && is_nil (prof_kw c) && negb (has_wild dk)) eqn:X.
  - split; [reflexivity|]. f_equal.
    apply andb_true_iff in X as [X Hw]. apply andb_true_iff in X as [X1 X2].
    assert (E1 : kw_entries c = []) by (destruct (kw_entries c); [reflexivity | discriminate]).
    assert (E2 : prof_kw c = []) by (destruct (prof_kw c); [reflexivity | discriminate]).
    assert (Hacc : forall x, kw_accepts c p x = mem x dk).
    { intro x. unfold kw_accepts, global_tokens, specific_stream, of_kind. rewrite E1. cbn.
      unfold dk. rewrite (dk_mem c e Hs). unfold lw. cbn. destruct (stable_system c); [reflexivity | now rewrite orb_false_r]. }
    unfold kw_spec, keywords_spec. rewrite E2. cbn [filter map concat]. rewrite app_nil_r.
    apply negb_true_iff in Hw. unfold has_wild in Hw.
    apply orb_false_iff in Hw as [Hw W3]. apply orb_false_iff in Hw as [W1 W2].
    rewrite !Hacc, W1, W2, W3. cbn [orb andb]. apply existsb_ext. intro k. now rewrite Hacc.
  - rewrite Hd, Ha. split; [reflexivity|]. f_equal. apply kw_apply_sem. exact Ms.
Qed.

(* ================================================================ the statement *)
Lemma wf_accept c : wf_kw_tokens c = true -> exists e, accept_set c = Ok e.
Proof.
  intro H. unfold wf_kw_tokens in H. apply andb_true_iff in H as [H _]. apply andb_true_iff in H as [_ H].
  rewrite forallb_forall in H.
  pose proof (expand_rejects_proof true (accept_kw c) []) as R.
  assert (E : first_bad bad_inc (accept_kw c) = None).
  { apply first_bad_none. intros t Ht. apply wf_ok. specialize (H t Ht). now apply andb_true_iff in H as [H _]. }
  rewrite E in R. exact R.
Qed.

Lemma visible_is_spec_proof : forall c p,
  wf_config c = true -> wf_pkg p = true -> visible c p = Visible (visible_spec c p).
Proof.
  intros c p Hc Hp. unfold wf_config in Hc. apply andb_true_iff in Hc as [Hk Hl].
  destruct (wf_accept c Hk) as [e He].
  destruct (kw_conjunct_proof c p e Hk He) as [Hb Hkw].
  unfold visible, visible_with, visible_spec. rewrite He, Hb, Hkw, mask_conjunct_proof.
  rewrite (license_conjunct_proof c p Hl Hp).
  destruct (mask_spec c p); cbn [negb andb]; [|reflexivity].
  destruct (kw_spec c p); reflexivity.
Qed.

(* error mapping: the filter raises only for a configuration with an incomplete token *)
Lemma visible_raises_proof : forall c p, wf_pkg p = true -> visible c p = Raises -> wf_config c = false.
Proof.
  intros c p Hp H. destruct (wf_config c) eqn:Hc; [|reflexivity].
  rewrite (visible_is_spec_proof c p Hc Hp) in H. discriminate.
Qed.

(* ================================================================ non-vacuity and the pinned tree *)
Definition s_a1 : str := [97;49]%N.           (* a1 *)
Definition s_ta1 : str := [126;97;49]%N.      (* ~a1 *)
Definition s_tb2 : str := [126;98;50]%N.      (* ~b2 *)
Definition s_L1 : str := [76;49]%N.
Definition s_L2 : str := [76;50]%N.
Definition s_G1 : str := [71;49]%N.
Definition cfg0 : config :=
  {| repo_masks := [0%N]; prof_masks := [([0%N], [1%N])]; user_masks := []; prof_unmasks := []; user_unmasks := [2%N];
     arch := s_a1; accept_kw := [s_a1]; prof_kw := [];
     kw_entries := [(EAtom, 3%N, []); (EAlways, 4%N, [[DASH; 126; 97; 49]%N])];
     accept_lic := [[DASH; STAR]; AT :: s_G1]; lic_entries := [(3%N, [s_L2])];
     groups := [(s_G1, [s_L1])]; use := [7%N] |}.
Definition mk (m k : list N) (kw : list str) (l : list ltree) : pkg :=
  {| p_match := m; p_key := k; p_kw := kw; p_lic := l |}.

(* a configuration with masks withdrawn by a profile node, an unmask, an empty entry on a stable
   system followed by a global negation, a license group and a package.license entry: *)
Example visible_example :
  wf_config cfg0 = true
  /\ visible cfg0 (mk [] [] [s_a1] [LLic s_L1]) = Visible true                      (* plain *)
  /\ visible cfg0 (mk [0%N] [] [s_a1] [LLic s_L1]) = Visible true                   (* mask withdrawn by the profile *)
  /\ visible cfg0 (mk [1%N] [] [s_a1] [LLic s_L1]) = Visible false                  (* masked *)
  /\ visible cfg0 (mk [1%N; 2%N] [] [s_a1] [LLic s_L1]) = Visible true              (* unmasked *)
  /\ visible cfg0 (mk [] [] [s_ta1] [LLic s_L1]) = Visible false                    (* keyword not accepted *)
  /\ visible cfg0 (mk [3%N] [3%N] [s_ta1] [LAny [LLic s_L2; LLic s_L1]]) = Visible false
       (* the empty entry gives ~a1, but the later global -~a1 is re-applied after it *)
  /\ visible cfg0 (mk [] [] [s_a1] [LLic s_L2]) = Visible false                     (* license not accepted *)
  /\ visible cfg0 (mk [3%N] [3%N] [s_a1] [LLic s_L2]) = Visible true                (* package.license *)
  /\ visible cfg0 (mk [] [] [s_a1] [LAny [LLic s_L2; LUse false 7%N [LLic s_L1]]]) = Visible true
  /\ visible cfg0 (mk [] [] [s_a1] [LAny [LLic s_L2; LUse true 7%N [LLic s_L1]]]) = Visible false.
Proof. vm_compute. repeat split; reflexivity. Qed.

Example raises_example :
  visible {| repo_masks := []; prof_masks := []; user_masks := []; prof_unmasks := []; user_unmasks := [];
             arch := s_a1; accept_kw := [s_a1]; prof_kw := []; kw_entries := [(EAtom, 0%N, [[DASH]])];
             accept_lic := []; lic_entries := []; groups := []; use := [] |}
          (mk [0%N] [0%N] [s_a1] []) = Raises.
Proof. vm_compute. reflexivity. Qed.

(* the pinned tree (before fixes/C13-*.patch) violates the statement: *)
Definition visible_is_spec_pinned : Prop := forall c p,
  wf_config c = true -> wf_pkg p = true -> visible_pinned c p = Visible (visible_spec c p).
Definition cfg_plain (ak : list str) (es : list entry) : config :=
  {| repo_masks := []; prof_masks := []; user_masks := []; prof_unmasks := []; user_unmasks := [];
     arch := s_a1; accept_kw := ak; prof_kw := []; kw_entries := es;
     accept_lic := []; lic_entries := []; groups := []; use := [] |}.
Lemma pinned_refuted_proof : ~ visible_is_spec_pinned.
Proof.
  intro H. specialize (H (cfg_plain [s_a1] [(EAlways, 0%N, [])]) (mk [] [] [s_ta1] []) eq_refl eq_refl).
  vm_compute in H. discriminate.
Qed.
Lemma pinned_refuted_wildcard_proof :
  visible_pinned (cfg_plain [s_a1; W_ANY] []) (mk [] [] [s_tb2] []) = Visible false
  /\ visible_spec (cfg_plain [s_a1; W_ANY] []) (mk [] [] [s_tb2] []) = true.
Proof. vm_compute. split; reflexivity. Qed.
