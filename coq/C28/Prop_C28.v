(* Prop_C28.v — the property theorems of C28 and nothing else. *)
From Coq Require Import List NArith ZArith Bool Permutation.
Import ListNotations.
From Verif Require Import Base.Val C18.Fs C28.Model_C28 C28.Spec_C28 C28.Proofs_C28.

Theorem up_to_date_no_ops : forall i s old t,
  update_text (u_thin i) (u_scan i) (u_fetch i) = Ok (Some t) ->
  file_data s P = Some old -> read_nl old = t ->
  update_ops i s = Ok (false, []).
Proof. exact up_to_date_no_ops_proof. Qed.
Print Assumptions up_to_date_no_ops.
