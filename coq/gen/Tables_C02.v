(* GENERATED from ebuild/atom.py (atom.__attr_comparison__, the key chain of atom.__cmp__) by harness/tables.py on every run — do not edit. *)
From Coq Require Import List ZArith NArith Bool.
Import ListNotations.
From Verif Require Import Base.Val.

(* atom.__attr_comparison__ as attribute ids: 0 cpvstr 1 op 2 blocks 3 negate_vers 4 use 5 slot
   6 subslot 7 slot_operator 8 repo_id 9 blocks_strongly *)
Definition attr_comparison : list N :=
  [0%N; 1%N; 2%N; 3%N; 4%N; 5%N; 6%N; 7%N; 8%N].

(* the ordered key chain of atom.__cmp__: 0 category 1 package 2 op 3 ver_cmp 4 blocks (inverted)
   5 blocks_strongly 6 negate_vers 7 slot (None as "") 8 use 9 repo_id 10 blocks (not inverted) *)
Definition cmp_chain : list N :=
  [0%N; 1%N; 2%N; 3%N; 4%N; 5%N; 6%N; 7%N; 8%N; 9%N].
