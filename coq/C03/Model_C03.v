(* Model_C03.v — executable model of pkgcore.ebuild.atom.atom.__init__ / __str__
   (src/pkgcore/ebuild/atom.py:86, :399) and of the CPV parser it calls
   (src/pkgcore/ebuild/cpv.py:264 CPV.__init__, :31 isvalid_pkg_name, :52 isvalid_rev, the
   regexes isvalid_version_re / isvalid_cat_re / _pkg_re, eapi.py _valid_use_flag).

   Bug-compatible transcription.  No proofs here.

   Strings are lists of code points.  DOMAIN: code points for which Python's [\d] and
   [str.isdigit] coincide with ASCII [0-9] (in particular every string of code points < 128);
   non-ASCII Unicode digits are outside the model (the harness probes them separately).

   Python idioms and how they are transcribed
     s.find(c)               [split_first c s]   = Some (before, after)      (first occurrence)
     s.find(c, 0, -1)        [split_first] on [removelast s], the last character re-attached
     s.rsplit("/", 1)        [split_last]
     s.split(c)              [split_on c s]      (never the empty list)
     re.match("^X$", s)      X must match all of s, or all of s minus ONE trailing "\n"
                             (Python's [$] also matches just before a final newline): [strip_nl]
     MalformedAtom           result [Malformed]; since /repo 3aa9a5c an empty package part is a
                             MalformedAtom too (it used to escape as an uncaught IndexError). *)
From Coq Require Import List NArith ZArith Bool Arith.
Import ListNotations.
From Verif Require Import Base.Val gen.Tables_eapi gen.Tables_C03.
Local Open Scope N_scope.

(* ---------------------------------------------------------------- characters *)
Definition c_nl := 10.      Definition c_bang := 33.   Definition c_lpar := 40.
Definition c_rpar := 41.    Definition c_star := 42.   Definition c_plus := 43.
Definition c_comma := 44.   Definition c_dash := 45.   Definition c_dot := 46.
Definition c_slash := 47.   Definition c_colon := 58.  Definition c_lt := 60.
Definition c_eq := 61.      Definition c_gt := 62.     Definition c_qm := 63.
Definition c_lbr := 91.     Definition c_rbr := 93.    Definition c_us := 95.
Definition c_r := 114.      Definition c_tilde := 126.

Definition is_digit (c : N) : bool := (48 <=? c) && (c <=? 57).
Definition in_ranges (rs : list (N * N)) (c : N) : bool :=
  existsb (fun r => (fst r <=? c) && (c <=? snd r)) rs.
Definition all_in (rs : list (N * N)) (s : str) : bool := forallb (in_ranges rs) s.
Definition is_nil {A} (l : list A) : bool := match l with [] => true | _ => false end.

(* ---------------------------------------------------------------- string primitives *)
Fixpoint split_first (c : N) (s : str) : option (str * str) :=
  match s with
  | [] => None
  | x :: t => if x =? c then Some ([], t)
              else match split_first c t with
                   | Some (p, q) => Some (x :: p, q)
                   | None => None
                   end
  end.

Fixpoint split_last (c : N) (s : str) : option (str * str) :=
  match s with
  | [] => None
  | x :: t => match split_last c t with
              | Some (p, q) => Some (x :: p, q)
              | None => if x =? c then Some ([], t) else None
              end
  end.

Fixpoint split_on (c : N) (s : str) : list str :=
  match s with
  | [] => [[]]
  | x :: t => if x =? c then [] :: split_on c t
              else match split_on c t with
                   | h :: r => (x :: h) :: r
                   | [] => [[x]]
                   end
  end.

Fixpoint join (c : N) (l : list str) : str :=
  match l with
  | [] => []
  | [a] => a
  | a :: r => a ++ c :: join c r
  end.

(* s.find("::") : text before the first "::" and text after it *)
Fixpoint split_dcolon (s : str) : option (str * str) :=
  match s with
  | [] => None
  | x :: t =>
      match t with
      | y :: t' => if (x =? c_colon) && (y =? c_colon) then Some ([], t')
                   else match split_dcolon t with
                        | Some (p, q) => Some (x :: p, q)
                        | None => None
                        end
      | [] => None
      end
  end.

Fixpoint strip_prefix (p s : str) : option str :=
  match p, s with
  | [], _ => Some s
  | a :: p', b :: s' => if a =? b then strip_prefix p' s' else None
  | _ :: _, [] => None
  end.

Fixpoint strip_any (names : list str) (s : str) : option str :=
  match names with
  | [] => None
  | n :: r => match strip_prefix n s with Some t => Some t | None => strip_any r s end
  end.

Fixpoint drop_while (p : N -> bool) (s : str) : str :=
  match s with
  | [] => []
  | x :: t => if p x then drop_while p t else s
  end.

Definition lastc (s : str) : option N :=
  match s with [] => None | _ => Some (last s 0) end.

(* Python's [$]: one trailing newline is invisible to an anchored regex *)
Fixpoint strip_nl (s : str) : str :=
  match s with
  | [] => []
  | x :: t => match t with
              | [] => if x =? c_nl then [] else [x]
              | _ :: _ => x :: strip_nl t
              end
  end.

(* Python str order: lexicographic on code points, a proper prefix first *)
Fixpoint str_leb (a b : str) : bool :=
  match a, b with
  | [], _ => true
  | _ :: _, [] => false
  | x :: a', y :: b' => if x <? y then true else if y <? x then false else str_leb a' b'
  end.
Fixpoint insert_sorted (x : str) (l : list str) : list str :=
  match l with
  | [] => [x]
  | y :: r => if str_leb x y then x :: l else y :: insert_sorted x r
  end.
Definition sort_strs (l : list str) : list str := fold_right insert_sorted [] l.

(* ---------------------------------------------------------------- the regexes *)
(* ^[first][rest]*$ *)
Definition re_first_rest (first rest : list (N * N)) (s : str) : bool :=
  match strip_nl s with
  | [] => false
  | x :: t => in_ranges first x && all_in rest t
  end.
(* ^[cls]+$ *)
Definition re_plus (cls : list (N * N)) (s : str) : bool :=
  match strip_nl s with
  | [] => false
  | t => all_in cls t
  end.

Definition m_category (s : str) : bool := re_first_rest cat_first_class cat_rest_class s.
Definition m_use_flag (s : str) : bool := re_first_rest use_first_class use_rest_class s.
Definition m_pkg_chunk_re (s : str) : bool := re_plus pkg_class s.

(* isvalid_version_re (cpv.py:19): one or more digit runs separated by ".", an optional single
   letter of [ver_letter_class], then any number of "_" + suffix name + optional digits.
   The scanner is greedy and never needs to backtrack: whatever a greedy choice leaves behind
   can only be consumed by the very construct that was tried.  Fuel = length of the string. *)
Fixpoint ver_nums (fuel : nat) (s : str) : option str :=
  match fuel with
  | O => None
  | S f =>
      match s with
      | [] => None
      | x :: _ =>
          if is_digit x then
            match drop_while is_digit s with
            | d :: r => if d =? c_dot then ver_nums f r else Some (d :: r)
            | [] => Some []
            end
          else None
      end
  end.

Fixpoint ver_sufs (fuel : nat) (s : str) : bool :=
  match s with
  | [] => true
  | c :: t =>
      match fuel with
      | O => false
      | S f =>
          if c =? c_us then
            match strip_any suffix_names t with
            | Some r => ver_sufs f (drop_while is_digit r)
            | None => false
            end
          else false
      end
  end.

Definition ver_letter (s : str) : str :=
  match s with
  | c :: t => if in_ranges ver_letter_class c then t else s
  | [] => []
  end.

Definition ver_full (s : str) : bool :=
  match ver_nums (S (length s)) s with
  | Some r => ver_sufs (length s) (ver_letter r)
  | None => false
  end.

Definition m_version (s : str) : bool := ver_full (strip_nl s).

(* cpv.py:52  isvalid_rev *)
Definition isvalid_rev (s : str) : bool :=
  match s with
  | c :: t => (c =? c_r) && negb (is_nil t) && forallb is_digit t
  | [] => false
  end.

(* cpv.py:31  isvalid_pkg_name(chunks) *)
Definition pkg_chunk_ok (s : str) : bool := is_nil s || m_pkg_chunk_re s.

Definition valid_pkg_name (chunks : list str) : bool :=
  match chunks with
  | [] => false
  | c0 :: rest =>
      match c0 with
      | [] => false
      | x :: _ =>
          if x =? c_plus then false
          else if negb (forallb pkg_chunk_ok chunks) then false
          else match rest with
               | [] => true
               | _ =>
                   let l := last chunks [] in
                   if m_version l then false
                   else if (3 <=? length chunks)%nat && isvalid_rev l
                        then negb (m_version (last (removelast chunks) []))
                        else true
               end
      end
  end.

(* cpv.py:264  CPV.__init__(cpvstr, versioned=...) ; None = InvalidCPV.
   c_rev: None (unversioned), Some "" (no -rN chunk), Some digits (the text after "r") *)
Record cpv_rec := { c_cat : str; c_pkg : str; c_ver : option str; c_rev : option str }.

Definition parse_cpv (versioned : bool) (s : str) : option cpv_rec :=
  match split_last c_slash s with
  | None => None
  | Some (cat, pkgver) =>
      if negb (m_category cat) then None
      else
        let chunks := split_on c_dash pkgver in
        if versioned then
          match chunks with
          | [] | [_] => None
          | _ =>
              let l := last chunks [] in
              if isvalid_rev l then
                if (length chunks <? 3)%nat then None
                else
                  let chunks1 := removelast chunks in
                  let v := last chunks1 [] in
                  if negb (m_version v) then None
                  else
                    let pk := removelast chunks1 in
                    if valid_pkg_name pk
                    then Some {| c_cat := cat; c_pkg := join c_dash pk; c_ver := Some v; c_rev := Some (tl l) |}
                    else None
              else
                if negb (m_version l) then None
                else
                  let pk := removelast chunks in
                  if valid_pkg_name pk
                  then Some {| c_cat := cat; c_pkg := join c_dash pk; c_ver := Some l; c_rev := Some [] |}
                  else None
          end
        else
          if valid_pkg_name chunks
          then Some {| c_cat := cat; c_pkg := join c_dash chunks; c_ver := None; c_rev := None |}
          else None
  end.

(* ---------------------------------------------------------------- EAPI gates (generated table) *)
Record gates := { g_slot_deps : bool; g_use_deps : bool; g_use_defaults : bool;
                  g_strong_blockers : bool; g_sub_slotting : bool }.

Fixpoint lookup_opt (name : str) (l : list (str * bool)) : option bool :=
  match l with
  | [] => None
  | (k, v) :: r => if str_eqb k name then Some v else lookup_opt name r
  end.
Fixpoint lookup_eapi (e : N) (l : list (N * list (str * bool))) : option (list (str * bool)) :=
  match l with
  | [] => None
  | (k, v) :: r => if k =? e then Some v else lookup_eapi e r
  end.

Definition gates_of_num (e : N) : option gates :=
  match lookup_eapi e eapi_options with
  | None => None
  | Some o =>
      match lookup_opt opt_has_slot_deps o, lookup_opt opt_has_use_deps o,
            lookup_opt opt_has_use_dep_defaults o, lookup_opt opt_strong_blockers o,
            lookup_opt opt_sub_slotting o with
      | Some a, Some b, Some c, Some d, Some e' =>
          Some {| g_slot_deps := a; g_use_deps := b; g_use_defaults := c;
                  g_strong_blockers := d; g_sub_slotting := e' |}
      | _, _, _, _, _ => None
      end
  end.
(* eapi="-1" (None here) uses the options of LATEST_PMS_EAPI_VER *)
Definition gates_of (eapi : option N) : option gates :=
  match eapi with Some e => gates_of_num e | None => gates_of_num latest_pms_eapi end.

(* ---------------------------------------------------------------- USE dependency tokens *)
Definition ends_default (s : str) : bool :=
  match rev s with
  | a :: b :: c :: _ => (a =? c_rpar) && ((b =? c_plus) || (b =? c_dash)) && (c =? c_lpar)
  | _ => false
  end.
Definition drop_last3 (s : str) : str := removelast (removelast (removelast s)).

(* the body of the [for x in self.use] loop; false = MalformedAtom (IndexError is caught there) *)
Definition valid_use_dep (defaults_ok : bool) (x : str) : bool :=
  match lastc x with
  | None => false
  | Some l =>
      let x1 : option str :=
        if (l =? c_eq) || (l =? c_qm) then
          match removelast x with
          | [] => None
          | c :: t =>
              let z := if c =? c_bang then t else c :: t in
              match z with
              | [] => None
              | d :: _ => if d =? c_dash then None else Some z
              end
          end
        else
          match x with
          | c :: t => if c =? c_dash then Some t else Some x
          | [] => None
          end in
      match x1 with
      | None => false
      | Some y =>
          match lastc y with
          | None => false
          | Some l2 =>
              if (l2 =? c_rpar) && negb defaults_ok then false
              else
                let z := if (l2 =? c_rpar) && ends_default y then drop_last3 y else y in
                negb (is_nil z) && m_use_flag z
          end
      end
  end.

Definition is_transitive_dep (x : str) : bool :=
  match lastc x with Some l => (l =? c_eq) || (l =? c_qm) | None => false end.

(* ---------------------------------------------------------------- the atom *)
Record atom_rec := {
  a_cpvstr : str; a_cat : str; a_pkg : str; a_ver : option str; a_rev : option str;
  a_op : str; a_blocks : bool; a_strong : bool;
  a_slot : option str; a_subslot : option str; a_slotop : option str;
  a_use : option (list str); a_repo : option str; a_negate : bool; a_transitive : bool }.

Inductive res : Type :=
| Ok (a : atom_rec)
| Malformed            (* errors.MalformedAtom *)
| Unsupported.         (* EAPI not in the generated table: outside the model *)

(* stage 1: the USE block.  Result: text with the block removed, the sorted deps, and the
   position of the first ":" left of the block as (text before it, text after it). *)
Definition stage_use (g : gates) (s : str)
  : option (str * option (list str) * option (str * str)) :=
  match split_first c_lbr s with
  | Some (pre, post) =>
      match split_first c_rbr post with
      | None => None                                  (* use restriction isn't completed *)
      | Some (u, tail) =>
          if negb (is_nil tail) then None             (* trailing garbage after use dep *)
          else
            let use := sort_strs (split_on c_comma u) in
            if forallb (valid_use_dep (g_use_defaults g)) use
            then Some (pre, Some use, split_first c_colon pre)
            else None
      end
  | None =>
      (* atom.find(":", 0, -1): the last character is not searched *)
      Some (s, None,
            match split_first c_colon (removelast s) with
            | Some (p, q) => Some (p, q ++ [last s 0])
            | None => None
            end)
  end.

Definition slot_chunk_ok (c : str) : bool :=
  match c with
  | [] => false
  | x :: _ => negb ((x =? c_dash) || (x =? c_dot)) && all_in slot_class c
  end.

Record slot_part := { sp_slot : option str; sp_sub : option str; sp_op : option str; sp_repo : option str }.

(* slot.endswith("=") : (slot operator, slot text without it) *)
Definition slot_op_split (slot : str) : option str * str :=
  match lastc slot with
  | Some l => if l =? c_eq then (Some [c_eq], removelast slot) else (None, slot)
  | None => (None, slot)
  end.

(* the non-empty slot text between ":" and "::"/end *)
Definition slot_body (g : gates) (slot : str) (repo : option str) : option slot_part :=
  match slot with
  | [] => None
  | c :: t =>
      if g_sub_slotting g then
        if (c =? c_star) || (c =? c_eq) then
          if negb (is_nil t) then None     (* Slot operators '*' and '=' do not take slot targets *)
          else Some {| sp_slot := None; sp_sub := None; sp_op := Some slot; sp_repo := repo |}
        else
          let so := slot_op_split slot in
          match split_first c_slash (snd so) with
          | Some (a, b) =>
              if slot_chunk_ok a && slot_chunk_ok b
              then Some {| sp_slot := Some a; sp_sub := Some b; sp_op := fst so; sp_repo := repo |}
              else None
          | None =>
              if slot_chunk_ok (snd so)
              then Some {| sp_slot := Some (snd so); sp_sub := None; sp_op := fst so; sp_repo := repo |}
              else None
          end
      else if negb (g_slot_deps g) then None
      else if slot_chunk_ok slot
           then Some {| sp_slot := Some slot; sp_sub := None; sp_op := None; sp_repo := repo |}
           else None
  end.

Definition repo_ok (r : option str) : bool :=
  match r with
  | None => true
  | Some [] => false                                  (* repo_id must not be empty *)
  | Some (c :: t) => negb (c =? c_dash) && all_in repo_class (c :: t)
  end.

(* stage 2: everything right of the first ":" ([rgt] is the text after that colon) *)
Definition stage_slot (g : gates) (rgt : str) : option slot_part :=
  let ar := match split_dcolon (c_colon :: rgt) with
            | Some (a, r) => (a, Some r)
            | None => (c_colon :: rgt, None)
            end in
  if negb (repo_ok (snd ar)) then None
  else
    match tl (fst ar) with
    | [] => match snd ar with
            | None => None                            (* Empty slot targets aren't allowed *)
            | Some r => Some {| sp_slot := None; sp_sub := None; sp_op := None; sp_repo := Some r |}
            end
    | slot => slot_body g slot (snd ar)
    end.

Inductive r3 : Type := R3 (blocks strong : bool) (op cpv : str) | R3Malformed.

(* stage 3b: the operator prefix of the text after the blocker marks *)
Definition stage_op (blocks strong : bool) (a2 : str) : r3 :=
  match a2 with
  | [] => R3Malformed                                 (* "package name is missing" *)
  | d :: t2 =>
      if (d =? c_lt) || (d =? c_gt) then
        match t2 with
        | [] => R3 blocks strong [d] []               (* atom[1:2] == "" : bare operator, empty cpv *)
        | e :: t3 => if e =? c_eq then R3 blocks strong [d; e] t3 else R3 blocks strong [d] t2
        end
      else if d =? c_eq then
        match lastc a2 with
        | Some l => if l =? c_star then R3 blocks strong [c_eq; c_star] (removelast t2)
                    else R3 blocks strong [c_eq] t2
        | None => R3 blocks strong [c_eq] t2
        end
      else if d =? c_tilde then R3 blocks strong [c_tilde] t2
      else R3 blocks strong [] a2
  end.

(* stage 3: blocker and operator prefixes of the text left of the first ":" *)
Definition stage_prefix (g : gates) (atom : str) : r3 :=
  match atom with
  | [] => R3Malformed                                 (* "package name is missing" *)
  | c :: t =>
      let blocks := c =? c_bang in
      let a1 := if blocks then t else atom in
      let strong := blocks && match a1 with d :: _ => d =? c_bang | [] => false end in
      if strong && negb (g_strong_blockers g) then R3Malformed
      else stage_op blocks strong (if strong then tl a1 else a1)
  end.

Definition is_some {A} (o : option A) : bool := match o with Some _ => true | None => false end.
Definition nonempty_opt (o : option str) : bool := match o with Some (_ :: _) => true | _ => false end.

Definition no_slot : slot_part := {| sp_slot := None; sp_sub := None; sp_op := None; sp_repo := None |}.

(* everything after the USE block has been split off *)
Definition parse_rest (eapi : option N) (negate : bool) (g : gates)
           (st : str * option (list str) * option (str * str)) : res :=
  let '(body, use, colon) := st in
  let sp : option (str * slot_part) :=
    match colon with
    | Some (lft, rgt) =>
        match stage_slot g rgt with
        | Some p => Some (lft, p)
        | None => None
        end
    | None => Some (body, no_slot)
    end in
  match sp with
  | None => Malformed
  | Some (lft, p) =>
      match stage_prefix g lft with
      | R3Malformed => Malformed
      | R3 blocks strong op cpvstr =>
          if is_some (sp_slot p) && negb (g_slot_deps g) then Malformed
          else if is_some use && negb (g_use_deps g) then Malformed
          else if is_some eapi && is_some (sp_repo p) then Malformed
          else
            match parse_cpv (negb (is_nil op)) cpvstr with
            | None => Malformed
            | Some c =>
                if str_eqb op [c_tilde] && nonempty_opt (c_rev c) then Malformed
                else Ok {| a_cpvstr := cpvstr; a_cat := c_cat c; a_pkg := c_pkg c;
                           a_ver := c_ver c; a_rev := c_rev c; a_op := op;
                           a_blocks := blocks; a_strong := strong;
                           a_slot := sp_slot p; a_subslot := sp_sub p; a_slotop := sp_op p;
                           a_use := use; a_repo := sp_repo p; a_negate := negate;
                           a_transitive := match use with
                                           | Some u => existsb is_transitive_dep u
                                           | None => false
                                           end |}
            end
      end
  end.

Definition parse_atom (eapi : option N) (negate : bool) (s : str) : res :=
  match s with
  | [] => Malformed
  | _ =>
      match gates_of eapi with
      | None => Unsupported
      | Some g =>
          match stage_use g s with
          | None => Malformed
          | Some st => parse_rest eapi negate g st
          end
      end
  end.

(* atom.py:399  __str__ : the text is built left to right by [s += ...] *)
Definition opt_str (o : option str) : str := match o with Some x => x | None => [] end.

Definition p_head (blocks strong : bool) (op cpvstr : str) : str :=
  (if blocks then (if strong then [c_bang; c_bang] else [c_bang]) else [])
  ++ (if str_eqb op [c_eq; c_star] then c_eq :: cpvstr ++ [c_star] else op ++ cpvstr).

Definition p_slot (slot subslot slotop : option str) : str :=
  if nonempty_opt slot then
    c_colon :: opt_str slot
    ++ (if nonempty_opt subslot then c_slash :: opt_str subslot else [])
    ++ (match slotop with Some o => if str_eqb o [c_eq] then o else [] | None => [] end)
  else if nonempty_opt slotop then c_colon :: opt_str slotop
  else [].

Definition p_repo (repo : option str) : str :=
  if nonempty_opt repo then c_colon :: c_colon :: opt_str repo else [].

Definition p_use (use : option (list str)) : str :=
  match use with
  | Some (u :: us) => c_lbr :: join c_comma (u :: us) ++ [c_rbr]
  | _ => []
  end.

Definition print_atom (a : atom_rec) : str :=
  p_head (a_blocks a) (a_strong a) (a_op a) (a_cpvstr a)
  ++ p_slot (a_slot a) (a_subslot a) (a_slotop a)
  ++ p_repo (a_repo a)
  ++ p_use (a_use a).

(* ---------------------------------------------------------------- encoders for the harness *)
Definition vopt (o : option str) : val := match o with Some s => VS s | None => VNone end.
Definition fullver_of (a : atom_rec) : option str :=
  match a_ver a with
  | None => None
  | Some v => match a_rev a with
              | Some (x :: r) => Some (v ++ c_dash :: c_r :: x :: r)
              | _ => Some v
              end
  end.

Definition encode_atom (a : atom_rec) : val :=
  VL [ VS (a_cat a); VS (a_pkg a); vopt (a_ver a); vopt (a_rev a); vopt (fullver_of a);
       VS (a_op a); VB (a_blocks a); VB (a_strong a);
       vopt (a_slot a); vopt (a_subslot a); vopt (a_slotop a);
       match a_use a with Some u => VL (map VS u) | None => VNone end;
       vopt (a_repo a); VB (a_negate a); VS (a_cpvstr a);
       VS (a_cat a ++ c_slash :: a_pkg a);          (* key *)
       VB (a_transitive a);
       VS (print_atom a) ].

Definition e_malformed : str := [77;97;108;102;111;114;109;101;100;65;116;111;109].   (* "MalformedAtom" *)
Definition e_unsupported : str := [85;110;115;117;112;112;111;114;116;101;100].      (* "Unsupported" *)

Definition encode_res (r : res) : val :=
  match r with
  | Ok a => encode_atom a
  | Malformed => VErr e_malformed
  | Unsupported => VErr e_unsupported
  end.

Definition run_parse (i : option N * bool * str) : val :=
  let '(e, n, s) := i in encode_res (parse_atom e n s).

Definition is_ok (r : res) : bool := match r with Ok _ => true | _ => false end.

(* ---------------------------------------------------------------- compact transport of the
   implementation's record.  Almost every string attribute is a substring of the input text, so
   the harness writes it as (offset, length) into the input; [impl_val] rebuilds the full
   [val] inside Coq before it is compared with [run_parse].  (Elaborating long list literals is
   what dominates the cost of a cases file.) *)
Inductive cfs : Type := CS (off len : nat) | CL (s : str).
Inductive cf : Type := CStr (x : cfs) | CNone | CB (b : bool) | CU (l : list cfs).
Definition case : Type := (option N * bool * str * list cf)%type.

Definition expand_s (s : str) (x : cfs) : str :=
  match x with CS off len => firstn len (skipn off s) | CL l => l end.
Definition expand (s : str) (x : cf) : val :=
  match x with
  | CStr y => VS (expand_s s y)
  | CNone => VNone
  | CB b => VB b
  | CU l => VL (map (fun y => VS (expand_s s y)) l)
  end.
Definition case_input (c : case) : option N * bool * str :=
  let '(e, n, s, _) := c in (e, n, s).
(* recorded result: [VErr kind] for a rejection, anything else = accepted with the record in the case *)
Definition impl_val (c : case) (r : val) : val :=
  match r with
  | VErr _ => r
  | _ => let '(_, _, s, fs) := c in VL (map (expand s) fs)
  end.
Definition case_mismatch (c : case) (r : val) : bool :=
  negb (val_eqb (run_parse (case_input c)) (impl_val c r)).
