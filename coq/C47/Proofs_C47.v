(* Proofs_C47.v — lemmas and proofs for C47 (see Prop_C47.v for the statements). *)
From Coq Require Import List NArith ZArith Bool Lia.
Import ListNotations.
From Verif Require Import Base.Val C18.Fs C18.FsLemmas C47.Model_C47 C47.Spec_C47.

Lemma fresh_idem_proof : forall s, fresh (fresh s) = fresh s.
Proof. intros [b u o t d]; reflexivity. Qed.
