(* Prop_C04.v — the property theorems of C04 and nothing else. *)
From Coq Require Import List NArith ZArith Bool.
Import ListNotations.
From Verif Require Import Base.Val C01.Model_C01 C04.Model_C04 C04.Spec_C04 C04.Proofs_C04 C04.Negate_C04.

(* atom.match is PMS matching for EVERY sign-valued version comparison, every well-formed atom
   record and every package, outside the two known classes (K1: `=*` text ending inside a version
   component; K2: a group of several negative USE deps with some flags on and some off) *)
Theorem match_is_pms_partial : forall vc a p,
  sign_valued vc -> wf_atom a = true -> a_negate_vers a = false ->
  known_glob a p = false -> known_use_nand a p = false ->
  atom_match vc a p = pms_match vc a p.
Proof. exact match_is_pms_partial_proof. Qed.
Print Assumptions match_is_pms_partial.

(* the same for atoms built with negate_vers=True: the version clause of <,<=,=,>=,>,~ is inverted,
   `=*` and unversioned atoms ignore the flag (no premise on negate_vers) *)
Theorem match_is_pms_negate_partial : forall vc a p,
  sign_valued vc -> wf_atom a = true ->
  known_glob a p = false -> known_use_nand a p = false ->
  atom_match vc a p = pms_match_nv vc a p.
Proof. exact match_is_pms_negate_partial_proof. Qed.
Print Assumptions match_is_pms_negate_partial.

(* the full statement is false of the faithful model: =a/b-1* matches a/b-10 *)
Theorem match_is_pms_refuted :
  atom_match ver_cmp glob_witness_atom glob_witness_pkg = true
  /\ pms_match ver_cmp glob_witness_atom glob_witness_pkg = false
  /\ known_glob glob_witness_atom glob_witness_pkg = true
  /\ ~ C04_full_statement.
Proof. exact match_is_pms_refuted_proof. Qed.
Print Assumptions match_is_pms_refuted.

(* second refutation: a/b[-x,-y] matches a package with x enabled *)
Theorem use_nand_refuted :
  atom_match ver_cmp nand_witness_atom nand_witness_pkg = true
  /\ pms_match ver_cmp nand_witness_atom nand_witness_pkg = false
  /\ known_use_nand nand_witness_atom nand_witness_pkg = true.
Proof. exact use_nand_refuted_proof. Qed.
Print Assumptions use_nand_refuted.

(* a blocker matches the same packages as its non-blocking form *)
Theorem blocker_same_matches : forall vc a p b s,
  atom_match vc (with_blocks a b s) p = atom_match vc a p.
Proof. exact blocker_same_matches_proof. Qed.
Print Assumptions blocker_same_matches.

(* one USE dependency: the truth table over (written default, sign, flag in IUSE, flag enabled),
   for arbitrary IUSE and USE sets *)
Theorem usedep_default_table : forall vc p tok d s f,
  parse_use_token tok = (d, s, f) ->
  forallb (eval_restr vc p) (use_restrictions [tok])
  = use_table d s (smem f (p_iuse p)) (smem f (p_use p)).
Proof. exact usedep_default_table_proof. Qed.
Print Assumptions usedep_default_table.

(* the text [-]flag[(+)|(-)] is read back as (default, sign, flag) *)
Theorem parse_render_use : forall d s c f,
  c <> 45%N -> last (c :: f) 0%N <> 41%N ->
  parse_use_token (render_use d s (c :: f)) = (d, s, c :: f).
Proof. exact parse_render_use_proof. Qed.
Print Assumptions parse_render_use.

(* a component prefix is in particular a string prefix: the implementation never misses a
   package PMS matches with =*; it only matches too many *)
Theorem glob_only_over_matches : forall g s, comp_prefix g s = true -> startswith s g = true.
Proof. exact comp_prefix_startswith. Qed.
Print Assumptions glob_only_over_matches.

(* the operator -> accepted-results table of the model is the one regenerated from restricts.py *)
Theorem opv_is_source_table : forall op, (op < 6)%N ->
  Model_C01.op_vals op = Some (op_droprev op, opv op).
Proof. exact Proofs_C04.opv_is_source_table. Qed.
Print Assumptions opv_is_source_table.
