"""C24 — installed-package CONTENTS files round-trip (DESIGN §6 C24).

Streams
  file    random contents sets (paths with embedded / doubled spaces, "->" fragments in location and
          target, unicode, unnormalised spellings, md5 with leading zeros, negative / float / huge
          mtimes, duplicate locations) added to a real ContentsFile, flush(), reopened:
            (A) [file bytes, entries read back] vs Model_C24.run_file
            (B) read-back == written set for every set inside the format's domain
                (Spec_C24.spec_file_ok in Coq + the same oracle in Python on the objects)
  edge    the same through entries OUTSIDE the domain (dir/dev/fif path ending in each kind of
          whitespace, line terminators inside a path/target): (A) only
  parse   foreign / damaged CONTENTS texts (missing fields, missing "->", unknown type, bad hex, bad
          mtime, upper-case hex, signed mtimes, CRLF / CR line ends, blank lines, tabs, repeated
          locations, unnormalised paths) opened with the real class: entries or exception kind
          vs Model_C24.run_parse
  fault   flush() of a small set into a directory holding an old CONTENTS, possibly a stale
          .update.CONTENTS, and a bystander; EVERY attempted mutating call (open/truncate, chmod,
          chown, each write chunk, rename) is a crash point and an EIO point (harness/fsx.py):
            (A) the three nodes found afterwards vs Model_C24.run_fault (prefix run of the model's op
                list + discard() after an EIO), and the number of calls vs the length of the op list
            (B) CONTENTS is the old or the complete new file, bystander untouched, no temporary
                left after an EIO (Spec_C24.spec_fault_ok + Python oracle)
"""

from __future__ import annotations

import gc
import json
import time
import os
import posixpath
import re
import shutil
import sys

from . import fsx
from .common import VERIF, Check, Err, Raw, cN, cZ, cbool, clist, cnat, copt, cval, impl_call

IMPORTS = ("From Coq Require Import List NArith ZArith Bool.\n"
           "From Verif Require Import Base.Val C18.Fs C24.Model_C24 C24.Spec_C24.")
ANCHORS = ["vdb/contents.py::ContentsFile._write", "vdb/contents.py::ContentsFile._iter_contents",
           "vdb/contents.py::ContentsFile._get_fd", "vdb/contents.py::ContentsFile.flush",
           "vdb/contents.py::LookupFsDev", "fs/fs.py::fsBase.__init__"]
KINDS = {"ValueError": "ValueError", "IndexError": "IndexError"}
PY_SPACE = [9, 10, 11, 12, 13, 28, 29, 30, 31, 32, 133, 160, 5760] + list(range(8192, 8203)) + \
           [8232, 8233, 8239, 8287, 12288]


# --------------------------------------------------------------------------- Coq rendering
def esc(s) -> str:
    """str (code points) or bytes -> compact literal of type Model_C24.bstr"""
    cps = list(s) if isinstance(s, (bytes, bytearray)) else [ord(c) for c in s]
    out = "".join(chr(c) if 32 <= c < 127 and c not in (34, 92) else "\\%x;" % c for c in cps)
    return '"' + out + '"%s'


def c_entry(e) -> str:
    k = e[0]
    if k == "obj":
        return f"O_ {esc(e[1])} {cN(e[2])} {cZ(int(e[3]))}"
    if k == "sym":
        return f"L_ {esc(e[1])} {esc(e[2])} {cZ(int(e[3]))}"
    return {"dir": "D_", "dev": "V_", "fif": "F_"}[k] + " " + esc(e[1])


def c_set(es) -> str:
    return clist([c_entry(e) for e in es], "entry")


def cres(x) -> str:
    """recorded result -> val term, strings as VT literals"""
    if isinstance(x, (str, bytes)):
        return "(VT " + esc(x) + ")"
    if isinstance(x, (list, tuple)):
        return "(VL " + clist([cres(i) for i in x], "val") + ")"
    return cval(x)


# --------------------------------------------------------------------------- implementation driver
class Impl:
    def __init__(self, chk):
        from pkgcore.fs import fs
        from pkgcore.vdb.contents import ContentsFile
        self.fs, self.CF = fs, ContentsFile
        self.dir = str(chk.scratch / "impl")
        os.makedirs(self.dir, exist_ok=True)
        self.path = os.path.join(self.dir, "CONTENTS")

    def obj(self, e):
        fs = self.fs
        k = e[0]
        if k == "obj":
            return fs.fsFile(e[1], chksums={"md5": e[2]}, mtime=e[3], strict=False)
        if k == "sym":
            return fs.fsLink(e[1], e[2], mtime=e[3], strict=False)
        if k == "dir":
            return fs.fsDir(e[1], strict=False)
        if k == "dev":
            return fs.fsDev(e[1], strict=False)
        return fs.fsFifo(e[1], strict=False)

    def make(self, es, path=None):
        c = self.CF(path or self.path, mutable=True, create=True)
        for e in es:
            c.add(self.obj(e))
        return c

    @staticmethod
    def canon_obj(o):
        if o.is_reg:
            return [0, o.location, o.chksums["md5"], o.mtime]
        if o.is_sym:
            return [1, o.location, o.target, o.mtime]
        return [2 if o.is_dir else 3 if o.is_dev else 4, o.location]

    def read(self, path=None):
        c = self.CF(path or self.path)
        return sorted((self.canon_obj(o) for o in c), key=lambda r: r[1])

    def clean(self):
        for n in os.listdir(self.dir):
            os.unlink(os.path.join(self.dir, n))

    def run_file(self, es):
        self.clean()
        self.make(es).flush()
        gc.collect()
        try:
            with open(self.path, "rb") as f:
                data = f.read()
        except FileNotFoundError:
            data = None                       # flush() did not install the file
        back = impl_call(self.read, kinds=None)
        stray = sorted(set(os.listdir(self.dir)) - {"CONTENTS"})
        return data, back, stray

    def run_parse(self, text: str):
        self.clean()
        with open(self.path, "wb") as f:
            f.write(text.encode("utf-8"))
        return impl_call(self.read, kinds=None)


def written_canon(es):
    """what the set holds after the adds: later entry of a location replaces the earlier in place"""
    d = {}
    for e in es:
        loc = posixpath.normpath(e[1])
        if e[0] == "obj":
            d[loc] = [0, loc, e[2], int(e[3])]
        elif e[0] == "sym":
            d[loc] = [1, loc, e[2], int(e[3])]
        else:
            d[loc] = [{"dir": 2, "dev": 3, "fif": 4}[e[0]], loc]
    return sorted(d.values(), key=lambda r: r[1])


def k_sym_arrow(es) -> bool:
    """known class 'sym-location-arrow' (= Spec_C24.known_class): a symlink whose normalised
    LOCATION has a stand-alone "->" among its space-separated tokens"""
    return any(r[0] == 1 and "->" in r[1].split(" ") for r in written_canon(es))


def in_base_domain(es) -> bool:
    """= Spec_C24.wf_base on every entry of the set"""
    for r in written_canon(es):
        if "\n" in r[1] or "\r" in r[1]:
            return False
        if r[0] == 1 and ("\n" in r[2] or "\r" in r[2]):
            return False
        if r[0] >= 2 and r[1][-1].isspace():
            return False
    return True


# --------------------------------------------------------------------------- generators
COMPS = ["a", "b", "usr", "lib64", "x y", "my  doc", " lead", "é", "日本語", "a->b", "->", "-> ", "->x", "x->",
         "q -> r", "tab\there", "c.d", "..x", "A", "~", "​", "0"]
TARGETS = ["t", "../lib/x", "/abs/path", "a b", "c -> d", "->", " ->", "-> ", "", "é", "x  y", "t ", " t",
           "5", "sym x -> y 3"]


def gen_loc(rng, allow_arrow=True):
    n = rng.choice([1, 1, 2, 2, 3, 4])
    comps = [rng.choice(COMPS) for _ in range(n)]
    if not allow_arrow:
        comps = [c for c in comps if "->" not in c.split(" ")] or ["a"]
    p = "/" + "/".join(comps)
    r = rng.random()
    if r < 0.08:
        p = "/" + p                      # two leading slashes are kept by normpath
    elif r < 0.14:
        p = p + "/"
    elif r < 0.20:
        p = p.replace("/", "//", 1) + "/./z/.."
    elif r < 0.24:
        p = p[1:]                        # relative
    return p


def gen_md5(rng):
    r = rng.random()
    if r < 0.15:
        return rng.randrange(0, 1 << 20)            # many leading zeros
    if r < 0.2:
        return rng.choice([0, 1, (1 << 128) - 1, 1 << 127, 0xabcdef])
    if r < 0.3:
        return rng.getrandbits(124)                 # one leading zero digit
    return rng.getrandbits(128)


def gen_mtime(rng):
    r = rng.random()
    if r < 0.7:
        return rng.randrange(0, 1 << 31)
    if r < 0.8:
        return rng.choice([0, 1, -1, -86400, 1 << 40, 10 ** 18, (1 << 53) + 1, -(1 << 62) - 1])
    if r < 0.9:
        return rng.randrange(0, 1 << 31) + 0.5      # written as str(int(mtime))
    return -rng.randrange(1, 100000) - 0.25


def gen_entry(rng, arrow_ok=True):
    k = rng.choice(["obj", "obj", "obj", "sym", "sym", "dir", "dir", "dev", "fif"])
    loc = gen_loc(rng, allow_arrow=(arrow_ok or k != "sym"))
    if k == "obj":
        return ("obj", loc, gen_md5(rng), gen_mtime(rng))
    if k == "sym":
        return ("sym", loc, rng.choice(TARGETS), gen_mtime(rng))
    if loc.rstrip("/") and posixpath.normpath(loc)[-1].isspace():
        loc = loc.rstrip("/").rstrip() + "z"
    return (k, loc)


def gen_set(rng, lo=1, hi=6, arrow_p=0.06):
    es = []
    for _ in range(rng.randint(lo, hi)):
        es.append(gen_entry(rng, arrow_ok=rng.random() < arrow_p))
    if es and rng.random() < 0.15:                    # the same location twice (replaced in place)
        e = rng.choice(es)
        n = gen_entry(rng, arrow_ok=False)
        es.append((n[0], e[1]) + n[2:])
    return [fix_tail(e, rng) for e in es]


def fix_tail(e, rng):
    """make the tuple well-shaped for its kind"""
    k = e[0]
    if k == "obj" and len(e) != 4:
        return ("obj", e[1], gen_md5(rng), gen_mtime(rng))
    if k == "sym" and len(e) != 4:
        return ("sym", e[1], rng.choice(TARGETS), gen_mtime(rng))
    if k in ("dir", "dev", "fif"):
        loc = e[1]
        if posixpath.normpath(loc)[-1].isspace():
            loc = loc.rstrip("/").rstrip() + "z"
        return (k, loc)
    return e


def gen_edge(rng):
    """entries outside the domain of the round trip (format limits)"""
    r = rng.random()
    if r < 0.5:
        ws = chr(rng.choice(PY_SPACE + [0x200b, 0xfeff, 0x2060]))      # the last three are NOT whitespace
        if ws in "\n\r":
            ws = " "
        e = (rng.choice(["dir", "dev", "fif"]), "/d" + rng.choice(["", "/e f"]) + ws * rng.choice([1, 2]))
    elif r < 0.75:
        nl = rng.choice(["\n", "\r", "\r\n", "\n\n"])
        e = rng.choice([("dir", "/a" + nl + "dir /b"), ("obj", "/a" + nl + "b", 5, 6),
                        ("sym", "/a" + nl + "x", "t", 3), ("sym", "/s", "t" + nl + "dir /zz", 3),
                        ("fif", "/p" + nl)])
    else:
        e = ("sym", rng.choice(["/a -> b", "/->", "-> /x", "/x/ -> /y", "/a -> b -> c"]), rng.choice(TARGETS), 9)
    rest = [fix_tail(x, rng) for x in (gen_entry(rng, False) for _ in range(rng.randint(0, 2)))]
    out = rest + [e]
    rng.shuffle(out)
    return out


STRICT_DEC = re.compile(r"[+-]?[0-9]+\Z")
STRICT_HEX = re.compile(r"[0-9a-fA-F]+\Z")


def int_modelled(text: str) -> bool:
    """False when some numeric field of the text is accepted by Python's int() through syntax the
    model does not cover (underscores, inner whitespace, non-ASCII digits, sign / 0x in the md5)"""
    for line in re.split(r"\r\n|\r|\n", text):
        line = line.strip()
        if not line:
            continue
        s = line.split(" ")
        cands = []
        if s[0] == "obj":
            cands.append((s[-1], 10))
            if len(s) >= 2:
                cands.append((s[-2], 16))
        elif s[0] == "sym":
            cands.append((s[-1], 10))
        for tok, base in cands:
            strict = (STRICT_DEC if base == 10 else STRICT_HEX).match(tok) is not None
            try:
                int(tok, base)
                ok = True
            except ValueError:
                ok = False
            if ok != strict:
                return False
    return True


def gen_text(rng, impl):
    """a CONTENTS text: lines of a real flush, then damaged"""
    es = gen_set(rng, 1, 5, arrow_p=0.2)
    lines = []
    for r in written_canon(es):
        if r[0] == 0:
            lines.append("obj %s %032x %d" % (r[1], r[2], r[3]))
        elif r[0] == 1:
            lines.append("sym %s -> %s %d" % (r[1], r[2], r[3]))
        else:
            lines.append("%s %s" % ({2: "dir", 3: "dev", 4: "fif"}[r[0]], r[1]))
    out = []
    for ln in lines:
        r = rng.random()
        toks = ln.split(" ")
        if r < 0.35:
            pass
        elif r < 0.45 and len(toks) > 1:
            del toks[rng.randrange(len(toks))]                  # a field / token lost
        elif r < 0.50:
            toks = toks[:rng.randint(1, len(toks))]             # truncated line
        elif r < 0.56:
            toks[0] = rng.choice(["Obj", "lnk", "", "objx", "dirs", "symlink"])
        elif r < 0.62 and toks[0] == "sym":
            toks = [t for t in toks if t != "->"] if rng.random() < 0.5 else toks[:-1]
        elif r < 0.68 and toks[0] == "obj":
            toks[-2] = rng.choice([toks[-2].upper(), "xyz", "", "12g4", "00ff", "F" * 40])
        elif r < 0.76 and toks[0] in ("obj", "sym"):
            toks[-1] = rng.choice(["+5", "-7", "", "1.5", "12a", "-", "+", "--3", "007", "-0"])
        elif r < 0.82:
            toks.insert(rng.randrange(1, len(toks) + 1), rng.choice(["", "->", "x"]))
        elif r < 0.88:
            ln2 = " ".join(toks)
            out.append(rng.choice(["  ", "\t", "　", "\x1c"]) + ln2 + rng.choice([" ", "\t ", "\x0b", " "]))
            continue
        elif r < 0.94:
            toks[1:2] = [rng.choice(["//x/../y", "./rel", "/a/./b/", "", "///t"])]
        else:
            out.append(ln)                                      # the same location again
            toks = ["dir"] + toks[1:2]
        out.append(" ".join(toks))
    if rng.random() < 0.3:
        out.insert(rng.randrange(len(out) + 1), rng.choice(["", "   ", "\t"]))
    eol = rng.choice(["\n", "\n", "\n", "\r\n", "\r"])
    text = eol.join(out) + (eol if rng.random() < 0.8 else "")
    return text


# --------------------------------------------------------------------------- fault stream
class FaultRunner:
    NAMES = ("CONTENTS", ".update.CONTENTS", "other")

    def __init__(self, chk, impl):
        self.impl = impl
        self.root = str(chk.scratch / "fault")

    def build(self, old, stale):
        shutil.rmtree(self.root, ignore_errors=True)
        os.makedirs(self.root)
        for name, data, mode in (("CONTENTS", old, 0o600), (".update.CONTENTS", stale, 0o640), ("other", b"", 0o644)):
            if data is None:
                continue
            p = os.path.join(self.root, name)
            with open(p, "wb") as f:
                f.write(data)
            os.chmod(p, mode)
            os.utime(p, (0, 0))

    def snap(self):
        out = []
        for name in self.NAMES:
            p = os.path.join(self.root, name)
            try:
                st = os.lstat(p)
            except FileNotFoundError:
                out.append(None)
                continue
            if not os.path.isfile(p) or os.path.islink(p):
                out.append(Err("notfile"))
                continue
            with open(p, "rb") as f:
                out.append([f.read(), st.st_mode & 0o7777, st.st_uid, st.st_gid])
        stray = sorted(set(os.listdir(self.root)) - set(self.NAMES))
        return out, stray

    def flush_fn(self, es):
        c = self.impl.make(es, os.path.join(self.root, "CONTENTS"))
        return c.flush

    def run(self, old, stale, es, chunk, k=None, mode="crash"):
        """-> (trace, exception kind, snapshot, stray names).  After a simulated crash the tree is
        looked at BEFORE the interpreter releases the half-built AtomicWriteFile (nothing runs after
        a power cut); after an I/O error it is looked at once the exception has been dropped, which
        is when AtomicWriteFile.__del__ -> discard() runs in production too."""
        self.build(old, stale)
        fn = self.flush_fn(es)
        ch = chunk or None
        if k is None:
            r = fsx.record(fn, self.root, chunk=ch)
        else:
            r = fsx.run_with_fault(fn, self.root, k, mode, chunk=ch)
        del fn
        trace, exc = r.trace, (type(r.exc).__name__ if r.exc is not None else None)
        if r.crashed:
            snap, stray = self.snap()
        r.exc = None
        del r
        gc.collect()
        if not (k is not None and mode == "crash"):
            snap, stray = self.snap()
        return trace, exc, snap, stray


def c_fault(old, stale, es, chunk, k, eio):
    return ("{| f_old := %s; f_stale := %s; f_set := %s; f_chunk := %s; f_k := %s; f_eio := %s |}"
            % (copt(old, esc, "bstr"), copt(stale, esc, "bstr"), c_set(es), cnat(chunk), cnat(k), cbool(eio)))


def new_bytes(es):
    out = []
    for r in written_canon(es):
        if r[0] == 0:
            out.append("obj %s %s %d" % (r[1], ("%x" % r[2]).rjust(32, "0"), r[3]))
        elif r[0] == 1:
            out.append("sym %s -> %s %d" % (r[1], r[2], r[3]))
        else:
            out.append("%s %s" % ({2: "dir", 3: "dev", 4: "fif"}[r[0]], r[1]))
    return "".join(l + "\n" for l in out).encode("utf-8")


# --------------------------------------------------------------------------- corpus
def corpus(chk):
    out = []
    d = VERIF / "corpus" / "C24"
    if d.is_dir():
        for p in sorted(d.glob("*.json")):
            for c in json.loads(p.read_text()):
                out.append(c)
    return out


def tup(e):
    return tuple(e)


# --------------------------------------------------------------------------- main
def main(chk: Check):
    chk.rule("file: random sets of 1-6 entries (obj/sym/dir/dev/fif; path components with embedded and doubled "
             "spaces, '->' fragments glued and stand-alone, unicode, unnormalised spellings; md5 with leading "
             "zeros; negative/float/huge mtimes; repeated locations) through the real ContentsFile add/flush/"
             "reopen; non-trivial = a set with a path or target holding a space or a '->' fragment or a "
             "non-ASCII character.  fault: every attempted mutating call of flush() is a crash and an EIO point "
             "(write chunks of 1-7 bytes); non-trivial = fault between the first data byte and the rename")
    ok = chk.build(["C24/Prop_C24.vo"])
    if ok:
        chk.check_assumptions("C24/Prop_C24.v")
    chk.lint(["C24"])
    chk.check_fingerprint(ANCHORS)
    chk.note("partial (atomicity): a completed call is assumed durable (no page-cache loss / reordering of a real "
             "power cut); AtomicWriteFile is modelled as its os-level call sequence, checked per run by tracing")
    rng = chk.rng
    impl = Impl(chk)
    old_hook = sys.unraisablehook
    sys.unraisablehook = lambda *a: None         # a simulated crash inside AtomicWriteFile.__del__
    try:
        _run(chk, rng, impl, ok)
    finally:
        sys.unraisablehook = old_hook


def _run(chk, rng, impl, ok):
    prop_bad = []           # (what, input)
    tm = {"setup": round(time.time() - chk.t0, 1)}
    t1 = time.time()
    # ---------------------------------------------------------------- file + edge
    file_cases, file_meta = [], []
    sets = [("corpus", [tup(e) for e in c["entries"]]) for c in corpus(chk) if c.get("stream") == "file"]
    sets += [("file", gen_set(rng)) for _ in range(chk.n(220, 4000))]
    sets += [("edge", gen_edge(rng)) for _ in range(chk.n(70, 1200))]
    for stream, es in sets:
        data, back, stray = impl.run_file(es)
        file_cases.append((c_set(es), Raw(cres([data, back]))))
        file_meta.append((stream, es))
        chk.count(stream if stream != "corpus" else "file")
        wc = written_canon(es)
        if any((" " in r[1] or "->" in r[1] or not r[1].isascii()
                or (r[0] == 1 and (" " in r[2] or "->" in r[2]))) for r in wc):
            chk.nontrivial(("file", repr(wc)))
        if stray:
            prop_bad.append(("flush left other files in the directory", {"entries": es, "stray": stray}))
        if in_base_domain(es) and back != wc:                   # (B) directly on the implementation
            clean = [e for e in es if not k_sym_arrow([e])]
            if k_sym_arrow(es) and impl.run_file(clean)[1] == written_canon(clean):
                bad = [e for e in es if k_sym_arrow([e])][0]
                chk.known_finding("sym-location-arrow",
                                  {"entry": bad, "read_back": [r for r in (back if isinstance(back, list) else [])
                                                               if r[0] == 1][:2]}) \
                    or prop_bad.append(("round trip fails (class sym-location-arrow not listed)", {"entries": es}))
            else:
                small = shrink_set(impl, es)
                prop_bad.append(("a contents set written and read back differs",
                                 {"entries": small, "written": written_canon(small),
                                  "read_back": impl.run_file(small)[1]}))
    for s in file_cases[:: max(1, len(file_cases) // 3)][:3]:
        chk.sample({"stream": "file", "input": s[0][:300], "impl": s[1].term[:300]})

    tm["file"] = round(time.time() - t1, 1)
    t1 = time.time()
    # ---------------------------------------------------------------- parse
    parse_cases = []
    skipped = 0
    texts = [c["text"] for c in corpus(chk) if c.get("stream") == "parse"]
    texts += [gen_text(rng, impl) for _ in range(chk.n(240, 4000))]
    for t in texts:
        if not int_modelled(t) or "\x00" in t:
            skipped += 1
            continue
        res = impl.run_parse(t)
        parse_cases.append((esc(t), Raw(cres(res))))
        chk.count("parse")
        if isinstance(res, Err):
            chk.nontrivial(("parse-err", res.kind, t[:40]))
    chk.note(f"parse: {skipped} generated texts skipped (int() syntax outside the model)")
    if parse_cases:
        chk.sample({"stream": "parse", "input": parse_cases[0][0][:200], "impl": parse_cases[0][1].term[:200]})

    tm["parse"] = round(time.time() - t1, 1)
    t1 = time.time()
    # ---------------------------------------------------------------- fault
    fr = FaultRunner(chk, impl)
    fault_cases, fault_meta = [], []
    nf = chk.n(6, 40)
    max_pts = chk.n(26, 80)
    specs = [c for c in corpus(chk) if c.get("stream") == "fault"]
    for i in range(nf + len(specs)):
        if i < len(specs):
            c = specs[i]
            es = [tup(e) for e in c["entries"]]
            old = c["old"].encode() if c["old"] is not None else None
            stale = c["stale"].encode() if c["stale"] is not None else None
            chunk = c["chunk"]
        else:
            es = [fix_tail(e, rng) for e in (gen_entry(rng, False) for _ in range(rng.randint(1, 3)))]
            es = [(e[:1] + (("/" + rng.choice(["a", "b c", "é", "d->e"])),) + e[2:]) for e in es]
            old = rng.choice([None, b"old\n", new_bytes(es), b"dir /x\nobj /y 00000000000000000000000000000001 2\n"])
            stale = rng.choice([None, None, b"junk", b""])
            chunk = rng.choice([0, 1, 3, 7])
        trace0, exc0, snap0, stray0 = fr.run(old, stale, es, chunk)
        n = len(trace0)
        if exc0 is not None:
            prop_bad.append(("flush raised without any fault", {"entries": es, "exc": exc0}))
            continue
        first_write = next((j for j, c in enumerate(trace0) if c.kind == "write"), n)
        pts = list(range(n + 1))
        if len(pts) > max_pts:
            keep = {0, 1, 2, 3, n - 2, n - 1, n}
            pts = sorted(keep | set(rng.sample(pts, max_pts - len(keep))))
        nb = new_bytes(es)
        for k in pts:
            for mode in (("crash", "eio") if k < n else ("crash",)):
                if k == n:
                    snap, stray = snap0, stray0
                else:
                    _, _, snap, stray = fr.run(old, stale, es, chunk, k, mode)
                eio = mode == "eio"
                fault_cases.append((c_fault(old, stale, es, chunk, k, eio), Raw(cres([n, snap]))))
                fault_meta.append({"entries": es, "old": old, "stale": stale, "chunk": chunk, "k": k, "mode": mode,
                                   "call": repr(trace0[k]) if k < n else "(none: complete run)"})
                chk.count("fault")
                if first_write < k < n:
                    chk.nontrivial(("fault", i, k, mode))
                # (B) Python oracle on the real tree
                c_node, t_node, o_node = snap
                want_old = None if old is None else [old, 0o600, 0, 0]
                want_new = [nb, 0o644, 0, 0]
                why = None
                if c_node != want_old and c_node != want_new:
                    why = "CONTENTS is neither the old nor the complete new file"
                elif o_node != [b"", 0o644, 0, 0]:
                    why = "a file that is not part of the update changed"
                elif stray:
                    why = "unexpected file left in the directory"
                elif eio and k >= 1 and t_node is not None:
                    why = "temporary left behind after an I/O error"
                elif k == n and (c_node != want_new or t_node is not None):
                    why = "a complete flush did not install the new file"
                if why:
                    prop_bad.append((why, {**fault_meta[-1], "found": snap, "stray": stray}))
    if fault_cases:
        chk.sample({"stream": "fault", "input": fault_cases[len(fault_cases) // 2][0][:300],
                    "impl": fault_cases[len(fault_cases) // 2][1].term[:200]})

    tm["fault"] = round(time.time() - t1, 1)
    t1 = time.time()
    # ---------------------------------------------------------------- Coq: model (A) and spec (B)
    spec_bad = []
    corr_bad = []
    if ok:
        r = chk.coq_eval("file", IMPORTS, "list entry", file_cases,
                         ["mismatches run_file cases", "where_ (fun i r => negb (spec_file_ok i r)) cases"], shard=400)
        if r is not None:
            corr_bad += [("file", file_cases[i], file_meta[i][1]) for i in r[0]]
            for i in r[1]:
                es = file_meta[i][1]
                clean = [e for e in es if not k_sym_arrow([e])]
                if k_sym_arrow(es) and impl.run_file(clean)[1] == written_canon(clean):
                    if chk.known_finding("sym-location-arrow", {"entries": es}):
                        continue
                spec_bad.append(("Spec_C24.spec_file_ok rejects the implementation's read-back", {"entries": es}))
        r = chk.coq_eval("parse", IMPORTS, "bstr", parse_cases, ["mismatches run_parse cases"], shard=400)
        if r is not None:
            corr_bad += [("parse", parse_cases[i], None) for i in r[0]]
        r = chk.coq_eval("fault", IMPORTS, "fault_in", fault_cases,
                         ["mismatches run_fault cases", "where_ (fun i r => negb (spec_fault_ok i r)) cases"], shard=400)
        if r is not None:
            corr_bad += [("fault", fault_cases[i], fault_meta[i]) for i in r[0]]
            for i in r[1]:
                spec_bad.append(("Spec_C24.spec_fault_ok rejects the tree found after the fault", fault_meta[i]))

    tm["coq"] = round(time.time() - t1, 1)
    chk.note("phase seconds: " + json.dumps(tm))
    # ---------------------------------------------------------------- report
    seen = {}
    for what, inp in prop_bad + (spec_bad if not prop_bad else []):
        seen[what] = seen.get(what, 0) + 1
        if seen[what] > 2 or sum(min(v, 2) for v in seen.values()) > 6:
            continue
        chk.violation("property", {"what": what, "input": inp})
    for name, case, meta in corr_bad[:4]:
        chk.violation("correspondence",
                      {"what": f"implementation and Model_C24 disagree on stream '{name}' "
                               "(theorems of Prop_C24 no longer speak about this code)",
                       "input": case[0][:2000], "implementation": case[1].term[:2000], "meta": meta},
                      no_input=not (prop_bad or spec_bad))


def shrink_set(impl, es):
    from .common import shrink_list

    def fails(xs):
        if not xs or not in_base_domain(xs) or k_sym_arrow(xs):
            return False
        return impl.run_file(xs)[1] != written_canon(xs)
    if not fails(es):
        return es
    return shrink_list(es, fails, 1)


def replay(chk, data):
    det = data.get("detail", {})
    inp = det.get("input", {})
    if not isinstance(inp, dict) or "entries" not in inp:
        print("nothing to re-run for this record (see 'what')")
        return
    impl = Impl(chk)
    es = [tup(e) for e in inp["entries"]]
    dat, back, stray = impl.run_file(es)
    print("implementation: file bytes", dat)
    print("implementation: read back ", back)
    print("statement:      written   ", written_canon(es))
    if chk.build(["C24/Prop_C24.vo"]):
        r = chk.coq_eval("replay", IMPORTS, "list entry", [(c_set(es), Raw(cres([dat, back])))],
                         ["mismatches run_file cases", "where_ (fun i r => negb (spec_file_ok i r)) cases"])
        print("model disagrees:", bool(r and r[0]), " spec rejects:", bool(r and r[1]))
