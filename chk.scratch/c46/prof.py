import cProfile, pstats, sys, os
sys.argv=["x"]
from harness import common
from harness.common import Check
import harness.c46 as m
chk=Check("C46","quick")
chk.build=lambda *a,**k: False
chk.check_assumptions=lambda *a,**k: True
chk.lint=lambda *a,**k: True
cProfile.run("m.main(chk)","/verif/chk.scratch/c46/prof.out")
pstats.Stats("/verif/chk.scratch/c46/prof.out").sort_stats("cumulative").print_stats(35)
