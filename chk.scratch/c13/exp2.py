import sys; sys.path.insert(0, "/verif/chk.scratch/c13")
import logging; logging.disable(logging.WARNING)
from w import *
P=[("ca","p1","1","a1","L1","0"),("ca","p1","2","~a1","L1","0"),("cb","p2","1","~b2","L1","0"),("cb","p3","1","","L1","0")]
base={"repo/profiles/base/make.defaults":'ARCH="a1"\nACCEPT_KEYWORDS="a1"\n'}
print("plain", vis(base,P))
print("stable */* empty", vis({**base,"conf/package.accept_keywords":"*/*\n"},P))
print("stable ca/p1 empty", vis({**base,"conf/package.accept_keywords":"ca/p1\n"},P))
print("stable ca/* empty", vis({**base,"conf/package.accept_keywords":"ca/*\n"},P))
print("stable */* ~a1", vis({**base,"conf/package.accept_keywords":"*/* ~a1\n"},P))
print("AK=** no entries", vis(base,P,ACCEPT_KEYWORDS="**"))
print("AK=** unrelated entry", vis({**base,"conf/package.accept_keywords":"cb/zz foo\n"},P,ACCEPT_KEYWORDS="**"))
print("AK=~* no entries", vis(base,P,ACCEPT_KEYWORDS="~*"))
print("AK=~* unrelated entry", vis({**base,"conf/package.accept_keywords":"cb/zz foo\n"},P,ACCEPT_KEYWORDS="~*"))
print("AK=* unrelated entry", vis({**base,"conf/package.accept_keywords":"cb/zz foo\n"},P,ACCEPT_KEYWORDS="*"))
d,repo,dom=build(base,P,ACCEPT_KEYWORDS="~a1 -a1"); print(dom.settings["ACCEPT_KEYWORDS"], dom.profile.default_env); shutil.rmtree(d)
from pkgcore.ebuild.profiles import INCREMENTALS; print(INCREMENTALS)
base2={"repo/profiles/base/make.defaults":'ARCH="x-y"\nACCEPT_KEYWORDS="x-y"\n'}
try: print("dash arch", vis({**base2,"conf/package.accept_keywords":"*/*\n"},P))
except Exception as e: print("dash arch raised", type(e), e)
