#!/bin/sh
# usage: run_mut.sh NAME  (expects /verif/chk.scratch/mut/NAME.py : a python script editing the worktree file)
WT=/tmp/wt_C38
F=$WT/src/pkgcore/bugzilla/pkglist.py
git -C $WT checkout -q . 
/venv/bin/python /verif/chk.scratch/mut/$1.py $F || { echo "$1: edit failed"; exit 2; }
git -C $WT diff --stat | tail -1
cd /verif
mv fingerprints/C38.json /verif/chk.scratch/mut/fp.json 2>/dev/null
VERIF_REPO=$WT ./check C38 > /verif/chk.scratch/mut/$1.out 2>&1
echo "$1: exit=$? $(grep -c '^VIOLATION' /verif/chk.scratch/mut/$1.out) violation lines; $(tail -1 /verif/chk.scratch/mut/$1.out)"
mv /verif/chk.scratch/mut/fp.json fingerprints/C38.json 2>/dev/null
git -C $WT checkout -q .
