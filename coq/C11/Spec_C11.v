(* Spec_C11.v — the statement of C11: the flag set of a package is the LEFT FOLD of the applicable
   entries in the order given, where `-flag` removes, `flag` adds, `-*` clears everything earlier
   and `-PREFIX_*` clears the earlier flags with that prefix.  Nothing here looks at how
   ChunkedDataDict stores or collapses chunks. *)
From Coq Require Import List NArith ZArith Bool.
Import ListNotations.
From Verif Require Import Base.Val C11.Model_C11.
Open Scope N_scope.

(* the history of a dict: its entries in the order given; a merged dict's entries come after *)
Fixpoint entries_of (p : prog) : list chunk :=
  match p with
  | PNew => []
  | PAdd p c => entries_of p ++ [c]
  | PMerge p q => entries_of p ++ entries_of q
  | PFreeze p | PClone p _ | POpt p => entries_of p
  end.

(* the four rules, one token at a time *)
Definition rule_neg (t : N) (s : list N) : list N :=
  if t =? 0 then []                                                  (* -*        *)
  else if t <? 10 then filter (fun f => negb (f / 100 =? t) && negb (f =? t)) s
                                                                     (* -PREFIX_* (ids < 10 are not flags) *)
  else filter (fun f => negb (f =? t)) s.                            (* -flag     *)
Definition rule_pos (t : N) (s : list N) : list N := s ++ [t].       (* flag      *)

(* one entry = one configuration line / layer: its negations, then its additions *)
Definition apply_entry (e : chunk) (s : list N) : list N :=
  fold_left (fun s t => rule_pos t s) (pos e) (fold_left (fun s t => rule_neg t s) (neg e) s).

Definition apply_history (ents : list chunk) (p : pkg) (pre : list N) : list N :=
  fold_left (fun s e => if applies (sc e) p then apply_entry e s else s) ents pre.

Definition same_set (a b : list N) : Prop := forall x, In x a <-> In x b.

(* well-formed entries: flags are flags, and no flag is both negated and added by one entry *)
Definition wf_chunk (c : chunk) : bool :=
  forallb (fun f => 10 <=? f) (pos c) && forallb (fun f => negb (mem f (neg c))) (pos c).
Definition wf_prog (p : prog) : bool := forallb wf_chunk (entries_of p).

(* ---- comparison (B) inside Coq, on the IMPLEMENTATION's recorded result *)
Definition spec_hist_val (i : prog * list (list N)) : val :=
  vz (flat_map (fun pre => map (fun p => bits (apply_history (entries_of (fst i)) p pre)) pkgs) (snd i)).
Definition spec_hist_ok (i : prog * list (list N)) (res : val) : bool :=
  match res with
  | VErr _ => true     (* refused (frozen / optimize-then-mutate): classified by the harness *)
  | _ => val_eqb res (spec_hist_val i)
  end.

(* ---- the package.use line: meaning of the INPUT tokens, one at a time, with the USE_EXPAND
   section state (None = plain part) *)
Fixpoint line_fold (sec : option N) (ts : list tok) (s : list N) : list N :=
  match ts with
  | [] => s
  | THdr p :: r => line_fold (Some p) r s
  | TStar :: r => line_fold sec r (rule_neg (match sec with None => 0 | Some p => p end) s)
  | TPos b :: r => line_fold sec r (rule_pos (match sec with None => b | Some p => expand p b end) s)
  | TNeg b :: r => line_fold sec r (rule_neg (match sec with None => b | Some p => expand p b end) s)
  | TBad :: r => line_fold sec r s
  end.
(* meaning of the OUTPUT tokens of the splitter *)
Definition otok_apply (t : otok) (s : list N) : list N :=
  match t with
  | OPos f => rule_pos f s
  | ONeg f => rule_neg f s
  | OStar => rule_neg 0 s
  | ONegPre p => rule_neg p s
  end.
Definition out_fold (o : list otok) (s : list N) : list N := fold_left (fun s t => otok_apply t s) o s.

Definition wf_tok (t : tok) : bool :=
  match t with
  | TPos f | TNeg f => (10 <=? f) && (f <? 100)
  | THdr p => (0 <? p) && (p <? 10)
  | _ => true
  end.

Definition dec_otoks (v : val) : option (list otok) :=
  match v with
  | VL l =>
      fold_right (fun e acc =>
        match acc, e with
        | Some a, VZ z =>
            let n := Z.to_N z in
            Some ((if n <? 1000 then OPos n else if n <? 2000 then ONeg (n - 1000)
                   else if n =? 2000 then OStar else ONegPre (n - 3000)) :: a)
        | _, _ => None
        end) (Some []) l
  | _ => None
  end.
Definition probe_sets : list (list N) := [[]; [10; 11; 100; 101; 105; 200; 305]; [12; 100; 305]].
Definition same_setb (a b : list N) : bool :=
  forallb (fun x => mem x b) a && forallb (fun x => mem x a) b.
Definition dec_nl (v : val) : option (list N) :=
  match v with
  | VL l => Some (map (fun e => match e with VZ z => Z.to_N z | _ => 0 end) l)
  | _ => None
  end.
(* true = the recorded results for one package.use line mean what the line says, token by token, on
   the probe sets: (1) the splitter's token tuple, (2) the (neg, pos) chunk domain.pkg_use makes of it *)
Definition spec_split_ok (ts : list tok) (res : val) : bool :=
  match res with
  | VNone => existsb (fun t => match t with TBad => true | _ => false end) ts
  | VL [toks; _; _] =>
      match dec_otoks toks with
      | Some o => forallb (fun s => same_setb (out_fold o s) (line_fold None ts s)) probe_sets
      | None => false
      end
  | _ => false
  end.
Definition spec_line_ok (ts : list tok) (res : val) : bool :=
  match res with
  | VNone => existsb (fun t => match t with TBad => true | _ => false end) ts
  | VL [_; ng; ps] =>
      match dec_nl ng, dec_nl ps with
      | Some n, Some p =>
          forallb (fun s => same_setb (apply_chunk (mkc KAll n p) s) (line_fold None ts s)) probe_sets
      | _, _ => false
      end
  | _ => false
  end.
