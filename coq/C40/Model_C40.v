(* Model_C40.v — executable model of pkgcore.ebuild.keywording
   (src/pkgcore/ebuild/keywording.py): select_best_version, filter_prefix_keywords,
   suggested_keywords, match_packages (sentinels, `previous`, cc / only_new / filter /
   allarches narrowing, trailing error classification).  No proofs here.

   A repository is, per package key, the list of its versions; a version carries its RANK in
   the version order (supplied by the harness as data: the index of the version in the pool
   sorted by pkgcore's own comparison — ver_cmp is not re-modelled), its slot id, the `live`
   property and its KEYWORDS as written (strings).  A request line is a spec (key, operator,
   version rank, optional slot) and the keywords written for it. *)
From Coq Require Import List NArith ZArith Bool.
Import ListNotations.
From Verif Require Import Base.Val.

(* ------------------------------------------------------------------ strings *)
Definition tilde : N := 126%N.
Definition minus : N := 45%N.
Definition s_star : str := [42%N].     (* ALL_KEYWORDS  "*" *)
Definition s_caret : str := [94%N].    (* SAME_KEYWORDS "^" *)
Definition s_minus : str := [45%N].    (* NO_KEYWORDS   "-" *)

Definition memc (c : N) (cs : list N) : bool := existsb (N.eqb c) cs.
Definition mem_str (x : str) (l : list str) : bool := existsb (str_eqb x) l.
Definition is_nil {A} (l : list A) : bool := match l with [] => true | _ => false end.

(* str.lstrip(chars) / str.strip() (whitespace of Latin-1) *)
Fixpoint lstrip (cs : list N) (s : str) : str :=
  match s with
  | [] => []
  | c :: r => if memc c cs then lstrip cs r else s
  end.
Definition ws : list N := [9;10;11;12;13;28;29;30;31;32;133;160]%N.
Definition strip (s : str) : str := rev (lstrip ws (rev (lstrip ws s))).

(* x[0] in chars *)
Definition head_in (cs : list N) (x : str) : bool :=
  match x with c :: _ => memc c cs | [] => false end.

(* Python's order on str: lexicographic on code points *)
Fixpoint str_leb (a b : str) : bool :=
  match a, b with
  | [], _ => true
  | _ :: _, [] => false
  | x :: a', y :: b' => if N.ltb x y then true else if N.eqb x y then str_leb a' b' else false
  end.

(* sort_keywords applied to a frozenset of keywords without "-" and without leading "~":
   the sort key (tail-after-dash, head) is then ("", kw), i.e. plain string order; the set has
   no duplicates.  Insertion into a sorted duplicate-free list. *)
Fixpoint insert_u (x : str) (l : list str) : list str :=
  match l with
  | [] => [x]
  | y :: r => if str_eqb x y then l
              else if str_leb x y then x :: l else y :: insert_u x r
  end.
Definition sort_set (l : list str) : list str := fold_right insert_u [] l.

(* ------------------------------------------------------------------ repository *)
Record pkg := P { p_ver : N; p_slot : N; p_live : bool; p_kws : list str }.
Definition repo := list (N * list pkg).

Fixpoint versions (R : repo) (key : N) : list pkg :=
  match R with
  | [] => []
  | (k, vs) :: R' => if N.eqb k key then vs else versions R' key
  end.

(* a spec: operator 0 none, 1 "=", 2 ">=", 3 "<=", 4 ">", 5 "<", other = "~" / "=*" (only
   generated for stabilizations, where they are rejected before matching) *)
Record req := Rq { d_key : N; d_op : N; d_ver : N; d_slot : option N; r_written : list str }.

Definition dep_match (r : req) (p : pkg) : bool :=
  (match d_op r with
   | 0 => true
   | 1 => N.eqb (p_ver p) (d_ver r)
   | 2 => N.leb (d_ver r) (p_ver p)
   | 3 => N.leb (p_ver p) (d_ver r)
   | 4 => N.ltb (d_ver r) (p_ver p)
   | 5 => N.ltb (p_ver p) (d_ver r)
   | _ => false
   end)%N
  && match d_slot r with Some s => N.eqb (p_slot p) s | None => true end.

(* select_best_version: first suitable element of sorted(matches, reverse=True) (stable sort:
   among equal ranks the earliest wins), for the three suitability tests in turn *)
Fixpoint best (suit : pkg -> bool) (l : list pkg) : option pkg :=
  match l with
  | [] => None
  | p :: r =>
      match best suit r with
      | None => if suit p then Some p else None
      | Some q => if suit p && N.leb (p_ver q) (p_ver p) then Some p else Some q
      end
  end.
Definition select_best (l : list pkg) : option pkg :=
  match best (fun p => negb (is_nil (p_kws p))) l with
  | Some p => Some p
  | None => match best (fun p => negb (p_live p)) l with
            | Some p => Some p
            | None => best (fun _ => true) l
            end
  end.

(* filter_prefix_keywords *)
Definition no_dash (x : str) : bool := negb (memc minus x).
Definition filter_prefix (l : list str) : list str := filter no_dash l.

(* suggested_keywords(repo, pkg, stable): vs = repo.match(pkg.unversioned_atom) *)
Definition suggested (stable : bool) (vs : list pkg) (p : pkg) : list str :=
  let disallowed := if stable then [minus; tilde] else [minus] in
  let cands := map (lstrip [tilde])
                   (filter (fun x => negb (head_in disallowed x)) (flat_map p_kws vs)) in
  let cands :=
    if stable
    then filter (fun c => mem_str c (map (lstrip [tilde]) (filter (head_in [tilde]) (p_kws p)))) cands
    else filter (fun c => negb (mem_str c (map (lstrip [tilde; minus]) (p_kws p)))) cands in
  sort_set (filter_prefix cands).

(* ------------------------------------------------------------------ match_packages *)
Record opts := Op { o_stable : bool; o_cc : list str; o_only_new : bool;
                   o_filt : list str; o_allarches : bool }.

Inductive err := EInvalid | ENoMatch | EKwNoMatch | ENotSpecified | ENoneLeft | EListEmpty | EDoneAlready.

Inductive line_res :=
| LErr (e : err)
| LSkip                                   (* `continue` before `previous` is assigned *)
| LEmpty (p : pkg) (has_sugg : bool)      (* yielded with no keywords; reported at the end *)
| LDone (prev : list str)                 (* only_new left nothing *)
| LFilt (prev : list str)                 (* filter_arch left nothing *)
| LReq (p : pkg) (prev : list str) (ks : list str).

(* stage 1: spec validity, repo.match, version choice *)
Definition spec_bad (r : req) : bool :=
  negb (N.eqb (d_op r) 1) || match d_slot r with Some _ => true | None => false end.

Definition pick (o : opts) (R : repo) (r : req) : err + pkg :=
  if o_stable o && spec_bad r then inl EInvalid
  else
    let matched := filter (dep_match r) (versions R (d_key r)) in
    match (if o_stable o
           then match matched with p :: _ => Some p | [] => select_best matched end
           else select_best matched) with
    | None => inl ENoMatch
    | Some p => inr p
    end.

(* stage 2: sentinels and validation; None = the line is skipped (NO_KEYWORDS) *)
Definition expand (o : opts) (known : list str) (vs : list pkg) (p : pkg)
           (prev : option (list str)) (written : list str) : option (err + list str) :=
  let kws := map (fun x => lstrip [tilde] (strip x)) written in
  if mem_str s_minus kws then None
  else
    let kws := if mem_str s_star kws
               then suggested (o_stable o) vs p ++ filter (fun x => negb (str_eqb x s_star)) kws
               else kws in
    match (if mem_str s_caret kws
           then match prev with
                | None => None
                | Some pv => Some (pv ++ filter (fun x => negb (str_eqb x s_caret)) kws)
                end
           else Some kws) with
    | None => Some (inl EKwNoMatch)
    | Some kws =>
        if existsb (fun k => negb (mem_str k known)) kws then Some (inl EKwNoMatch)
        else Some (inr kws)
    end.

(* stage 3: cc / only_new / filter / allarches *)
Definition allarches_active (o : opts) : bool :=
  o_allarches o && o_stable o && negb (is_nil (o_filt o)).
Definition allarches_kw (o : opts) (vs : list pkg) (p : pkg) : list str :=
  if allarches_active o then suggested true vs p else [].
Definition is_new (o : opts) (p : pkg) (k : str) : bool :=
  negb (mem_str k (p_kws p)) && (o_stable o || negb (mem_str (tilde :: k) (p_kws p))).

Definition cc_narrow (cc kws : list str) : list str :=
  match kws with
  | [] => cc                                        (* a line without keywords inherits cc *)
  | _ => match cc with [] => kws | _ => filter (fun x => mem_str x cc) kws end
  end.
Definition new_narrow (o : opts) (p : pkg) (k2 : list str) : list str :=
  if o_only_new o then filter (is_new o p) k2 else k2.
Definition filt_narrow (o : opts) (vs : list pkg) (p : pkg) (k3 : list str) : list str :=
  let k4 := filter (fun k => mem_str k (o_filt o)) k3 in
  k4 ++ filter (fun k => negb (mem_str k k4)) (allarches_kw o vs p).

Definition narrow (o : opts) (vs : list pkg) (p : pkg) (kws : list str) : line_res :=
  let k2 := cc_narrow (o_cc o) kws in
  if is_nil k2 then
    (if is_nil kws then LEmpty p (negb (is_nil (suggested (o_stable o) vs p)))
     else LSkip)                                    (* the line is no longer addressed to anyone *)
  else if o_only_new o && is_nil (new_narrow o p k2) then LDone k2
  else
    let k3 := new_narrow o p k2 in
    if is_nil (o_filt o) then LReq p k2 k3
    else
      let k5 := filt_narrow o vs p k3 in
      if is_nil k5 then LFilt k2 else LReq p k2 k5.

Definition line (o : opts) (known : list str) (R : repo) (prev : option (list str)) (r : req)
  : line_res :=
  match pick o R r with
  | inl e => LErr e
  | inr p =>
      let vs := versions R (d_key r) in
      match expand o known vs p prev (r_written r) with
      | None => LSkip
      | Some (inl e) => LErr e
      | Some (inr kws) => narrow o vs p kws
      end
  end.

Record st := St { s_prev : option (list str); s_done : bool; s_filt : bool; s_yielded : bool;
                  s_nokw : nat; s_nopot : nat }.
Definition st0 : st := St None false false false 0 0.

Definition yield : Type := N * pkg * list str.    (* key, version, arches *)

Fixpoint loop (o : opts) (known : list str) (R : repo) (s : st) (rs : list req)
  : list yield * st * option err :=
  match rs with
  | [] => ([], s, None)
  | r :: rs' =>
      match line o known R (s_prev s) r with
      | LErr e => ([], s, Some e)
      | LSkip => loop o known R s rs'
      | LEmpty p has =>
          let s1 := if has
                    then St (s_prev s) (s_done s) (s_filt s) (s_yielded s) (S (s_nokw s)) (s_nopot s)
                    else St (s_prev s) (s_done s) (s_filt s) (s_yielded s) (s_nokw s) (S (s_nopot s)) in
          let '(ys, s', e) := loop o known R s1 rs' in ((d_key r, p, []) :: ys, s', e)
      | LDone pv => loop o known R (St (Some pv) true (s_filt s) (s_yielded s) (s_nokw s) (s_nopot s)) rs'
      | LFilt pv => loop o known R (St (Some pv) (s_done s) true (s_yielded s) (s_nokw s) (s_nopot s)) rs'
      | LReq p pv ks =>
          let '(ys, s', e) :=
            loop o known R (St (Some pv) (s_done s) (s_filt s) true (s_nokw s) (s_nopot s)) rs' in
          ((d_key r, p, ks) :: ys, s', e)
      end
  end.

(* the classification after the loop; the nat is len(exc.packages) of KeywordNotSpecified *)
Definition terminal (s : st) : option err * nat :=
  match s_nokw s with
  | S _ => (Some ENotSpecified, s_nokw s)
  | O =>
      match s_nopot s with
      | S _ => if s_yielded s then (Some ENotSpecified, s_nopot s) else (Some ENoneLeft, O)
      | O =>
          if s_yielded s then (None, O)
          else if s_filt s then (Some EListEmpty, O)
          else if s_done s then (Some EDoneAlready, O)
          else (Some EListEmpty, O)
      end
  end.

Record case := C { c_known : list str; c_repo : repo; c_opts : opts; c_reqs : list req }.

Definition run (c : case) : list yield * (option err * nat) :=
  let '(ys, s, e) := loop (c_opts c) (c_known c) (c_repo c) st0 (c_reqs c) in
  (ys, match e with Some e' => (Some e', O) | None => terminal s end).

(* ------------------------------------------------------------------ encoders for the harness *)
Definition err_name (e : err) : str :=
  match e with
  | EInvalid => [80;97;99;107;97;103;101;73;110;118;97;108;105;100]                       (* PackageInvalid *)
  | ENoMatch => [80;97;99;107;97;103;101;78;111;77;97;116;99;104]                        (* PackageNoMatch *)
  | EKwNoMatch => [75;101;121;119;111;114;100;78;111;77;97;116;99;104]                   (* KeywordNoMatch *)
  | ENotSpecified => [75;101;121;119;111;114;100;78;111;116;83;112;101;99;105;102;105;101;100] (* KeywordNotSpecified *)
  | ENoneLeft => [75;101;121;119;111;114;100;78;111;110;101;76;101;102;116]              (* KeywordNoneLeft *)
  | EListEmpty => [80;97;99;107;97;103;101;76;105;115;116;69;109;112;116;121]            (* PackageListEmpty *)
  | EDoneAlready => [80;97;99;107;97;103;101;76;105;115;116;68;111;110;101;65;108;114;101;97;100;121] (* PackageListDoneAlready *)
  end%N.

Definition enc_strs (l : list str) : val := VL (map VS l).
Definition enc_yield (y : yield) : val :=
  let '(k, p, ks) := y in VL [VZ (Z.of_N k); VZ (Z.of_N (p_ver p)); enc_strs ks].

(* stream "match": [yielded requests; exception class or None; len(exc.packages)] *)
Definition run_match (c : case) : val :=
  let '(ys, (e, n)) := run c in
  VL [VL (map enc_yield ys);
      match e with Some e' => VErr (err_name e') | None => VNone end;
      VZ (Z.of_nat n)].

(* stream "sugg": suggested_keywords(repo, pkg, stable) for the i-th version of a key, sorted *)
Definition run_sugg (i : bool * list pkg * nat) : val :=
  let '(stable, vs, n) := i in
  match nth_error vs n with
  | Some p => enc_strs (suggested stable vs p)
  | None => VNone
  end.

(* stream "best": select_best_version(matches) -> rank of the chosen version *)
Definition run_best (l : list pkg) : val :=
  match select_best l with Some p => VZ (Z.of_N (p_ver p)) | None => VNone end.

(* stream "prefix": filter_prefix_keywords *)
Definition run_prefix (l : list str) : val := enc_strs (filter_prefix l).
