(* Model_C45.v — executable model of pkgcore.pkgsets.glsa
     GlsaDirSet.generate_restrict_from_range     src/pkgcore/pkgsets/glsa.py:167
     GlsaDirSet.generate_intersects_from_pkg_node :130
     the per-package part of iter_vulnerabilities / __iter__  (:93, :62)
   and of how the yielded restriction is evaluated on an installed package
   (boolean And/Or with negate, restricts.VersionMatch = C01/C04, values.StrGlobMatch = string
   prefix, SlotDep, ContainmentMatch(arch, match_all=False) on keywords, atom(name).match = C04).
   The operator table [op_translate] is regenerated from the source on every run (gen/Tables_C45.v).
   No proofs here.

   [fix = true] is the REPAIRED behaviour (fixes/C45-range-negate-and-slot.patch): a glob range honours
   negate (unaffected globs) and every kind of range keeps its slot attribute; [fix = false] is the
   pinned tree: an unaffected glob is a POSITIVE requirement, globs and rle/rge at -r0 drop the slot.
   In both, a glob is a string prefix of the full version (known finding, C04's class), and an
   exception while building any range of a package entry (unknown operator, missing or invalid
   version, glob with a non-eq operator, rlt at -r0) discards the whole entry. *)
From Coq Require Import List NArith ZArith Bool Arith.
Import ListNotations.
From Verif Require Import Base.Val C01.Model_C01 C04.Model_C04 C44.Model_C44 gen.Tables_C45.
From Verif Require C03.Model_C03.
Local Open Scope N_scope.

(* ------------------------------------------------------------------ advisory data (raw XML attributes) *)
Record range := { g_op : str; g_slot : option str; g_text : option str }.
Record entry := { n_name : str; n_arch : option str; n_vuln : list range; n_unaff : list range }.
Record ipkg := { i_pkg : package; i_keywords : list str }.

(* ------------------------------------------------------------------ restrictions *)
Inductive gr :=
| GVer (op : N) (v : str) (r : option N) (negate : bool)   (* restricts.VersionMatch *)
| GGlob (fv : str)                                         (* PackageRestriction("fullver", StrGlobMatch(fv)) *)
| GSlot (s : str)                                          (* restricts.SlotDep *)
| GKeywords (arch : list str)                              (* ContainmentMatch(arch, match_all=False) on keywords *)
| GAnd (l : list gr) (negate : bool)
| GOr (l : list gr).

Fixpoint geval (g : gr) (p : ipkg) : bool :=
  match g with
  | GVer op v r negate => vmatch ver_cmp op negate v r (p_ver (i_pkg p)) (p_rev (i_pkg p))
  | GGlob fv => startswith (p_fullver (i_pkg p)) fv
  | GSlot s => str_eqb s (p_slot (i_pkg p))
  | GKeywords arch => existsb (fun a => smem a (i_keywords p)) arch
  | GAnd l negate =>
      xorb ((fix all (l : list gr) : bool :=
               match l with [] => true | g' :: l' => geval g' p && all l' end) l) negate
  | GOr l =>
      (fix any (l : list gr) : bool :=
         match l with [] => false | g' :: l' => geval g' p || any l' end) l
  end.

(* ------------------------------------------------------------------ strings *)
Fixpoint lstrip_r (s : str) : str :=                 (* op.lstrip("r") *)
  match s with x :: t => if x =? 114 then lstrip_r t else s | [] => [] end.
Definition starts_r (s : str) : bool := match s with x :: _ => x =? 114 | [] => false end.
Definition ends_star (s : str) : bool := match List.rev s with x :: _ => x =? c_star | [] => false end.

(* str.split() : whitespace-separated words *)
Fixpoint words_aux (cur : str) (s : str) : list str :=
  match s with
  | [] => match cur with [] => [] | _ => [List.rev cur] end
  | x :: t => if is_space x
              then match cur with [] => words_aux [] t | _ => List.rev cur :: words_aux [] t end
              else words_aux (x :: cur) t
  end.
Definition words (s : str) : list str := words_aux [] s.

Fixpoint assoc (k : str) (l : list (str * str)) : option str :=
  match l with [] => None | (k', v) :: l' => if str_eqb k k' then Some v else assoc k l' end.
(* operator text -> C01's operator id *)
Definition op_of_text (t : str) : option N :=
  match t with
  | [60] => Some 0 | [60; 61] => Some 1 | [61] => Some 2 | [62; 61] => Some 3 | [62] => Some 4
  | _ => None
  end.

Definition cat_pkg_dash : str := [99; 97; 116; 47; 112; 107; 103; 45].      (* "cat/pkg-" *)
Definition s_eq : str := [101; 113].     Definition s_rlt : str := [114; 108; 116].
Definition s_rle : str := [114; 108; 101].  Definition s_rge : str := [114; 103; 101].

Definition opt_slot (o : option str) : str := match o with Some s => strip s | None => [] end.
Definition slot_restr (slot : str) : list gr := if is_nil slot then [] else [GSlot slot].

(* cpv.VersionedCPV("cat/pkg-" + base): version, revision text ("" when absent), fullver *)
Definition parse_base (base : str) : option (str * str * str) :=
  match Model_C03.parse_cpv true (cat_pkg_dash ++ base) with
  | Some c =>
      match Model_C03.c_ver c, Model_C03.c_rev c with
      | Some v, Some r => Some (v, r, if is_nil r then v else v ++ c_dash :: 114 :: r)
      | _, _ => None
      end
  | None => None
  end.
Definition rev_opt (r : str) : option N := if is_nil r then None else Some (int_of r).

(* generate_restrict_from_range(node, negate); None = an exception (the entry is discarded) *)
Definition restrict_from_range (fix_ : bool) (rg : range) (negate : bool) : option gr :=
  let op := strip (g_op rg) in
  let slot := opt_slot (g_slot rg) in
  match assoc (lstrip_r op) op_translate with
  | None => None                                          (* unknown operator *)
  | Some optxt =>
      match g_text rg with
      | None => None                                      (* node missing version *)
      | Some txt =>
          let base0 := strip txt in
          let glob := ends_star base0 in
          let base := if glob then removelast base0 else base0 in
          match parse_base base with
          | None => None                                  (* InvalidCPV *)
          | Some (v, r, fv) =>
              if glob then
                if negb (str_eqb op s_eq) then None       (* glob cannot be used with .. ops *)
                else if fix_ then Some (GAnd (GGlob fv :: slot_restr slot) negate)
                     else Some (GGlob fv)                 (* pinned: negate and slot ignored *)
              else
                match op_of_text optxt with
                | None => None                            (* InvalidVersion: not a VersionMatch operator *)
                | Some opid =>
                    if starts_r op && is_nil r && str_eqb op s_rlt then None   (* guaranteed empty set *)
                    else if starts_r op && is_nil r && str_eqb op s_rle then
                      if fix_ then Some (GAnd (GVer 2 v None false :: slot_restr slot) negate)
                      else Some (GVer 2 v None negate)
                    else if starts_r op && is_nil r && str_eqb op s_rge then
                      if fix_ then Some (GAnd (GVer 5 v None false :: slot_restr slot) negate)
                      else Some (GVer 5 v None negate)
                    else
                      Some (GAnd ((if starts_r op then [GVer 5 v None false] else [])
                                  ++ [GVer opid v (rev_opt r) false] ++ slot_restr slot) negate)
                end
          end
      end
  end.

Fixpoint all_some {A} (l : list (option A)) : option (list A) :=
  match l with
  | [] => Some []
  | Some x :: l' => match all_some l' with Some r => Some (x :: r) | None => None end
  | None :: _ => None
  end.

(* `x not in vuln_list`: restriction equality.  A negated AND / VersionMatch never equals a positive
   one; the only restrictions that can coincide are the pinned tree's glob restrictions *)
Definition in_vuln_list (x : gr) (vl : list gr) : bool :=
  match x with
  | GGlob fv => existsb (fun y => match y with GGlob fv' => str_eqb fv fv' | _ => false end) vl
  | _ => false
  end.

Definition arch_of (a : option str) : option (list str) :=
  match a with
  | None => None
  | Some s => let l := words (strip s) in
              if is_nil l || smem [c_star] l then None else Some l
  end.

(* generate_intersects_from_pkg_node; None = no restriction (no vulnerable node, or an exception) *)
Definition intersects (fix_ : bool) (e : entry) : option gr :=
  match n_vuln e with
  | [] => None
  | _ =>
      match all_some (map (fun r => restrict_from_range fix_ r false) (n_vuln e)) with
      | None => None
      | Some vl =>
          let vuln0 := match vl with [x] => x | _ => GOr vl end in
          let vuln := match arch_of (n_arch e) with
                      | Some a => GAnd [vuln0; GKeywords a] false
                      | None => vuln0
                      end in
          match all_some (map (fun r => restrict_from_range fix_ r true) (n_unaff e)) with
          | None => None
          | Some il => Some (GAnd (vuln :: filter (fun x => negb (in_vuln_list x vl)) il) false)
          end
      end
  end.

(* the restriction yielded for one <package> entry: atom(name) AND the above *)
Inductive yielded := YNone | Y (a : atom) (g : gr).
Definition advisory_entry (fix_ : bool) (e : entry) : yielded :=
  match intersects fix_ e with
  | None => YNone
  | Some g =>
      match Model_C03.parse_atom None false (strip (n_name e)) with
      | Model_C03.Ok a => if Model_C03.a_transitive a then YNone else Y (bridge a) g
      | _ => YNone
      end
  end.
Definition flagged (fix_ : bool) (e : entry) (p : ipkg) : bool :=
  match advisory_entry fix_ e with
  | YNone => false
  | Y a g => atom_match ver_cmp a (i_pkg p) && geval g p
  end.

(* ------------------------------------------------------------------ encoders for the harness *)
(* stream "entry": VNone when the entry yields no restriction, else who is flagged in the pool *)
Definition run_entry_gen (fix_ : bool) (pool : list ipkg) (e : entry) : val :=
  match advisory_entry fix_ e with
  | YNone => VNone
  | Y a g => VS (map (fun p => if atom_match ver_cmp a (i_pkg p) && geval g p then 49 else 48) pool)
  end.
Definition run_entry := run_entry_gen true.
Definition run_entry_orig := run_entry_gen false.

(* compact constructors for the cases files *)
Definition R (op : bstr) (slot : option bstr) (text : option bstr) : range :=
  {| g_op := s2l op;
     g_slot := match slot with Some s => Some (s2l s) | None => None end;
     g_text := match text with Some s => Some (s2l s) | None => None end |}.
Definition E (name : bstr) (arch : option bstr) (vuln unaff : list range) : entry :=
  {| n_name := s2l name;
     n_arch := match arch with Some s => Some (s2l s) | None => None end;
     n_vuln := vuln; n_unaff := unaff |}.
Definition P (c n v : bstr) (r : option N) (fv sl ss repo : bstr) (kw : list bstr) : ipkg :=
  {| i_pkg := {| p_cat := s2l c; p_pkg := s2l n; p_ver := s2l v; p_rev := r; p_fullver := s2l fv;
                 p_slot := s2l sl; p_subslot := s2l ss; p_repo := s2l repo; p_use := []; p_iuse := [] |};
     i_keywords := map s2l kw |}.
