import random, sys, collections
sys.path.insert(0, '/verif/chk.scratch/c11')
import pymodel as M, classes as C
from fuzz import gen_prog, run_real, PKGS
def main():
    rng = random.Random(int(sys.argv[1])); wild = float(sys.argv[2]); N = int(sys.argv[3])
    st = collections.Counter()
    for i in range(N):
        prog = gen_prog(rng, rng.randrange(1, 8), wild)
        try: mod = M.run(prog)
        except M.Frozen: st['err'] += 1; continue
        ents = M.entries(prog)
        for pk in PKGS:
            cls = (C.class_a(prog, pk), C.class_b(prog, pk), C.class_c(prog, pk))
            bad = False
            for pre in ((), ('a', 'foo_a', 'e')):
                if M.render(mod, pk, pre) != M.fold(ents, pk, pre): bad = True
            st[('fail' if bad else 'ok', cls)] += 1
            if bad and not any(cls):
                st['UNCLASSIFIED'] += 1
                if st['UNCLASSIFIED'] < 4: print(prog, pk)
    for k in sorted(st, key=str): print(k, st[k])
main()
