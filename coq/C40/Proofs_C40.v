(* Proofs_C40.v — lemmas and proofs; the property theorems are re-exported in Prop_C40.v. *)
From Coq Require Import List NArith ZArith Bool Lia.
Import ListNotations.
From Verif Require Import Base.Val C40.Model_C40 C40.Spec_C40.

(* ------------------------------------------------------------------ basic membership facts *)
Lemma mem_str_In x l : mem_str x l = true <-> In x l.
Proof.
  unfold mem_str. rewrite existsb_exists. split.
  - intros [y [Hy He]]. apply str_eqb_eq in He. subst. exact Hy.
  - intro H. exists x. split; [exact H | apply str_eqb_refl].
Qed.

Lemma mem_str_false x l : mem_str x l = false <-> ~ In x l.
Proof.
  rewrite <- mem_str_In. destruct (mem_str x l); split; intro H; try discriminate; try reflexivity.
  exfalso. apply H. reflexivity.
Qed.

Lemma memc_In c cs : memc c cs = true <-> In c cs.
Proof.
  unfold memc. rewrite existsb_exists. split.
  - intros [y [Hy He]]. apply N.eqb_eq in He. subst. exact Hy.
  - intro H. exists c. split; [exact H | apply N.eqb_refl].
Qed.

Lemma is_nil_true {A} (l : list A) : is_nil l = true <-> l = [].
Proof. destruct l; cbn; split; intro H; congruence. Qed.
Lemma is_nil_false {A} (l : list A) : is_nil l = false <-> l <> [].
Proof. destruct l; cbn; split; intro H; congruence. Qed.

(* ------------------------------------------------------------------ sort_set is the same set *)
Lemma insert_u_In x l y : In y (insert_u x l) <-> y = x \/ In y l.
Proof.
  induction l as [|z l IH]; cbn.
  - intuition.
  - destruct (str_eqb x z) eqn:E.
    + apply str_eqb_eq in E. subst. cbn. intuition.
    + destruct (str_leb x z); cbn; [intuition|]. rewrite IH. intuition.
Qed.

Lemma sort_set_In l y : In y (sort_set l) <-> In y l.
Proof.
  induction l as [|x l IH]; cbn; [reflexivity|].
  rewrite insert_u_In, IH. intuition.
Qed.

(* ------------------------------------------------------------------ lstrip of "~" *)
Lemma lstrip_tilde_shape x :
  exists n, x = repeat tilde n ++ lstrip [tilde] x /\ head_in [tilde] (lstrip [tilde] x) = false.
Proof.
  induction x as [|c r IH]; cbn.
  - exists 0%nat. split; reflexivity.
  - destruct (N.eqb c tilde) eqn:E; cbn.
    + apply N.eqb_eq in E. subst c. destruct IH as [n [H1 H2]].
      exists (S n). split; [cbn; f_equal; exact H1 | exact H2].
    + exists 0%nat. cbn. rewrite E. split; reflexivity.
Qed.

Lemma head_tilde_lstrip x :
  head_in [tilde] x = true ->
  exists n, x = repeat tilde (S n) ++ lstrip [tilde] x.
Proof.
  destruct x as [|c r]; cbn; [discriminate|].
  destruct (N.eqb c tilde) eqn:E; cbn; [|discriminate]. intros _.
  apply N.eqb_eq in E. subst c.
  destruct (lstrip_tilde_shape r) as [n [H1 _]]. exists n. cbn. f_equal. exact H1.
Qed.

Lemma lstrip_not_head x cs : head_in cs x = false -> lstrip cs x = x.
Proof. destruct x as [|c r]; cbn; [reflexivity|]. intros ->. reflexivity. Qed.

Lemma head_in_sub x : head_in [minus; tilde] x = false -> head_in [tilde] x = false.
Proof.
  destruct x as [|c r]; cbn; [reflexivity|].
  destruct (N.eqb c minus), (N.eqb c tilde); cbn; congruence.
Qed.

Lemma lstrip_repeat n k :
  head_in [tilde] k = false -> lstrip [tilde] (repeat tilde n ++ k) = k.
Proof.
  intro H. induction n as [|n IH]; cbn [repeat app].
  - apply lstrip_not_head. exact H.
  - cbn [lstrip]. assert (E : memc tilde [tilde] = true) by reflexivity. rewrite E. exact IH.
Qed.

(* ------------------------------------------------------------------ suggestions *)
Lemma no_dash_spec k : no_dash k = true <-> ~ has_dash k.
Proof.
  unfold no_dash, has_dash. rewrite negb_true_iff. rewrite <- memc_In.
  destruct (memc minus k); split; intro H; try discriminate; try reflexivity.
  exfalso. apply H. reflexivity.
Qed.

(* no prefix keyword among suggestions, stabilizing or keywording *)
Lemma suggested_no_prefix_proof stable vs p k :
  In k (suggested stable vs p) -> ~ has_dash k.
Proof.
  unfold suggested. rewrite sort_set_In. unfold filter_prefix. rewrite filter_In.
  intros [_ H]. apply no_dash_spec. exact H.
Qed.

(* filter_prefix_keywords keeps exactly the keywords without a dash, in order *)
Lemma filter_prefix_exact_proof l k : In k (filter_prefix l) <-> In k l /\ ~ has_dash k.
Proof. unfold filter_prefix. rewrite filter_In, no_dash_spec. reflexivity. Qed.

(* exact characterisation of stabilization suggestions *)
Lemma suggested_stable_iff_proof vs p k :
  In k (suggested true vs p) <-> candidate vs p k.
Proof.
  unfold suggested, candidate. rewrite sort_set_In. unfold filter_prefix.
  rewrite filter_In, no_dash_spec, filter_In, in_map_iff.
  split.
  - intros [[[x [Hx Hin]] Ht] Hd].
    apply filter_In in Hin as [Hin Hh]. apply negb_true_iff in Hh.
    apply in_flat_map in Hin as [other [Ho Hxo]].
    assert (Hxk : x = k). { rewrite <- Hx. symmetry. apply lstrip_not_head. apply head_in_sub. exact Hh. }
    subst x. split; [exact Hd|]. split.
    + apply mem_str_In in Ht. apply in_map_iff in Ht as [z [Hz Hzin]].
      apply filter_In in Hzin as [Hzin Hzh].
      destruct (head_tilde_lstrip z Hzh) as [n Hn]. rewrite Hz in Hn.
      split; [apply head_in_sub; exact Hh|]. exists n. rewrite <- Hn. exact Hzin.
    + exists other. split; [exact Ho|]. split; [exact Hh | exact Hxo].
  - intros [Hd [[Hk [n Hn]] [other [Ho [Hp Hin]]]]].
    split; [|exact Hd]. split.
    + exists k. split; [apply lstrip_not_head; apply head_in_sub; exact Hp|].
      apply filter_In. split; [|rewrite Hp; reflexivity].
      apply in_flat_map. exists other. split; assumption.
    + apply mem_str_In. apply in_map_iff. exists (repeat tilde (S n) ++ k). split.
      * apply lstrip_repeat. exact Hk.
      * apply filter_In. split; [exact Hn|]. reflexivity.
Qed.

(* "stable on ANOTHER version": holds whenever the version does not itself carry k as stable *)
Lemma suggested_stable_elsewhere_partial_proof vs p k :
  In k (suggested true vs p) -> ~ In k (p_kws p) ->
  testing_on p k /\ exists other, In other vs /\ other <> p /\ stable_on other k.
Proof.
  intros H Hn. apply suggested_stable_iff_proof in H as [_ [Ht [other [Ho Hs]]]].
  split; [exact Ht|]. exists other. split; [exact Ho|]. split; [|exact Hs].
  intro E. subst other. destruct Hs as [_ Hs]. exact (Hn Hs).
Qed.

(* the full statement is false when KEYWORDS carries both k and ~k on the only stable version *)
Definition C40_sugg_elsewhere_full : Prop :=
  forall vs p k, In p vs -> In k (suggested true vs p) ->
    testing_on p k /\ exists other, In other vs /\ other <> p /\ stable_on other k.

Definition self_stable_pkg : pkg := P 1 0 false [[97;109;100]%N; [126;97;109;100]%N].

Lemma C40_sugg_elsewhere_refuted_proof : ~ C40_sugg_elsewhere_full.
Proof.
  intro H.
  destruct (H [self_stable_pkg] self_stable_pkg [97;109;100]%N) as [_ [o [Ho [Hne _]]]].
  - left. reflexivity.
  - vm_compute. left. reflexivity.
  - destruct Ho as [Ho|[]]. congruence.
Qed.

(* keywording suggestions: keyworded on some version, not carried (k, ~k, -k) by this one *)
Lemma suggested_keywording_proof vs p k :
  In k (suggested false vs p) ->
  ~ has_dash k /\ ~ carried false p k /\
  exists other x, In other vs /\ In x (p_kws other) /\ head_in [minus] x = false /\ lstrip [tilde] x = k.
Proof.
  unfold suggested. rewrite sort_set_In. unfold filter_prefix.
  rewrite filter_In, no_dash_spec, filter_In, in_map_iff.
  intros [[[x [Hx Hin]] Ht] Hd].
  apply filter_In in Hin as [Hin Hh]. apply negb_true_iff in Hh.
  apply in_flat_map in Hin as [other [Ho Hxo]].
  split; [exact Hd|]. split.
  - apply negb_true_iff, mem_str_false in Ht.
    intros [Hc|[_ Hc]]; apply Ht; apply in_map_iff.
    + exists k. split; [|exact Hc].
      destruct k as [|c r]; [reflexivity|]. cbn.
      assert (Hc1 : N.eqb c tilde = false).
      { destruct (lstrip_tilde_shape x) as [n [_ H2]]. rewrite Hx in H2. cbn in H2.
        destruct (N.eqb c tilde); [discriminate|reflexivity]. }
      assert (Hc2 : N.eqb c minus = false).
      { destruct (N.eqb c minus) eqn:E; [|reflexivity]. exfalso. apply Hd.
        apply N.eqb_eq in E. subst c. left. reflexivity. }
      rewrite Hc1, Hc2. reflexivity.
    + exists (tilde :: k). split; [|exact Hc]. cbn.
      destruct k as [|c r]; [reflexivity|]. cbn.
      assert (Hc1 : N.eqb c tilde = false).
      { destruct (lstrip_tilde_shape x) as [n [_ H2]]. rewrite Hx in H2. cbn in H2.
        destruct (N.eqb c tilde); [discriminate|reflexivity]. }
      assert (Hc2 : N.eqb c minus = false).
      { destruct (N.eqb c minus) eqn:E; [|reflexivity]. exfalso. apply Hd.
        apply N.eqb_eq in E. subst c. left. reflexivity. }
      rewrite Hc1, Hc2. reflexivity.
  - exists other, x. repeat split; try assumption.
Qed.

(* ------------------------------------------------------------------ stage 1: pick *)
Lemma best_In suit l p : best suit l = Some p -> In p l.
Proof.
  revert p. induction l as [|a l IH]; cbn; intros p H; [discriminate|].
  destruct (best suit l) as [q|].
  - destruct (suit a && N.leb (p_ver q) (p_ver a)); injection H as <-; [left; reflexivity|].
    right. apply IH. reflexivity.
  - destruct (suit a); [|discriminate]. injection H as <-. left. reflexivity.
Qed.

Lemma select_best_In l p : select_best l = Some p -> In p l.
Proof.
  unfold select_best. intro H.
  destruct (best (fun p0 => negb (is_nil (p_kws p0))) l) eqn:E1.
  - injection H as <-. eapply best_In; eassumption.
  - destruct (best (fun p0 => negb (p_live p0)) l) eqn:E2.
    + injection H as <-. eapply best_In; eassumption.
    + eapply best_In; eassumption.
Qed.

Lemma best_true_nonempty l : l <> [] -> best (fun _ => true) l <> None.
Proof.
  destruct l as [|a l]; [congruence|]. intros _. cbn.
  destruct (best (fun _ => true) l); [destruct (N.leb _ _)|]; cbn; congruence.
Qed.

Lemma pick_inr o R r p :
  pick o R r = inr p ->
  In p (versions R (d_key r)) /\ dep_match r p = true /\ (o_stable o = true -> spec_bad r = false).
Proof.
  unfold pick. destruct (o_stable o && spec_bad r) eqn:Eb; [discriminate|].
  set (m := filter (dep_match r) (versions R (d_key r))).
  intro H.
  assert (Hin : In p m).
  { destruct (o_stable o).
    - destruct m as [|q m'] eqn:Em.
      + cbn in H. discriminate.
      + injection H as <-. left. reflexivity.
    - destruct (select_best m) eqn:Es; [|discriminate]. injection H as <-.
      apply select_best_In. exact Es. }
  unfold m in Hin. apply filter_In in Hin as [H1 H2].
  split; [exact H1|]. split; [exact H2|].
  intro Hs. rewrite Hs in Eb. exact Eb.
Qed.

(* a spec that cannot be acted on: not exact / slotted when stabilizing, or matching nothing *)
Definition unactionable (o : opts) (R : repo) (r : req) : bool :=
  (o_stable o && spec_bad r) || is_nil (filter (dep_match r) (versions R (d_key r))).

Lemma pick_unactionable o R r :
  unactionable o R r = true -> exists e, pick o R r = inl e.
Proof.
  unfold unactionable, pick. intro H.
  destruct (o_stable o && spec_bad r); [eexists; reflexivity|].
  cbn in H. apply is_nil_true in H. rewrite H. cbn.
  destruct (o_stable o); eexists; reflexivity.
Qed.

(* ------------------------------------------------------------------ stage 2: expand *)
Lemma expand_known o known vs p prev written kws :
  expand o known vs p prev written = Some (inr kws) -> forall k, In k kws -> In k known.
Proof.
  unfold expand.
  destruct (mem_str s_minus _); [discriminate|].
  match goal with |- context [if mem_str s_caret ?K then _ else _] => set (K1 := K) end.
  destruct (if mem_str s_caret K1
            then match prev with
                 | Some pv => Some (pv ++ filter (fun x => negb (str_eqb x s_caret)) K1)
                 | None => None end
            else Some K1) as [K2|]; [|discriminate].
  destruct (existsb (fun k => negb (mem_str k known)) K2) eqn:E; [discriminate|].
  intro H. injection H as <-. intros k Hk.
  destruct (mem_str k known) eqn:Em; [apply mem_str_In; exact Em|].
  exfalso. assert (X : existsb (fun k0 => negb (mem_str k0 known)) K2 = true).
  { apply existsb_exists. exists k. split; [exact Hk|]. rewrite Em. reflexivity. }
  congruence.
Qed.

(* ------------------------------------------------------------------ stage 3: narrow *)
Lemma is_new_spec o p k : is_new o p k = true <-> ~ carried (o_stable o) p k.
Proof.
  unfold is_new, carried. rewrite andb_true_iff, negb_true_iff, mem_str_false.
  rewrite orb_true_iff, negb_true_iff, mem_str_false.
  destruct (o_stable o); split.
  - intros [H _] [C|[C _]]; [exact (H C)|discriminate].
  - intro H. split; [intro C; apply H; left; exact C | left; reflexivity].
  - intros [H [X|H2]] [C|[_ C]]; try discriminate; [exact (H C)|exact (H2 C)].
  - intro H. split; [intro C; apply H; left; exact C|].
    right. intro C. apply H. right. split; [reflexivity|exact C].
Qed.

Lemma cc_narrow_In cc kws k :
  In k (cc_narrow cc kws) ->
  (In k kws \/ (kws = [] /\ In k cc)) /\ (cc <> [] -> In k cc).
Proof.
  unfold cc_narrow. destruct kws as [|a kws'].
  - intro H. split; [right; split; [reflexivity|exact H] | intros _; exact H].
  - destruct cc as [|c cc'].
    + intro H. split; [left; exact H | congruence].
    + intro H. apply filter_In in H as [H1 H2]. apply mem_str_In in H2.
      split; [left; exact H1 | intros _; exact H2].
Qed.

Lemma new_narrow_In o p k2 k :
  In k (new_narrow o p k2) -> In k k2 /\ (o_only_new o = true -> ~ carried (o_stable o) p k).
Proof.
  unfold new_narrow. destruct (o_only_new o).
  - intro H. apply filter_In in H as [H1 H2]. split; [exact H1|]. intros _. apply is_new_spec. exact H2.
  - intro H. split; [exact H | discriminate].
Qed.

Lemma filt_narrow_In o vs p k3 k :
  In k (filt_narrow o vs p k3) ->
  (In k k3 /\ In k (o_filt o)) \/ In k (allarches_kw o vs p).
Proof.
  unfold filt_narrow. rewrite in_app_iff. intros [H|H].
  - apply filter_In in H as [H1 H2]. apply mem_str_In in H2. left. split; assumption.
  - apply filter_In in H as [H1 _]. right. exact H1.
Qed.

Lemma allarches_kw_In o vs p k :
  In k (allarches_kw o vs p) ->
  allarches_active o = true /\ candidate vs p k.
Proof.
  unfold allarches_kw. destruct (allarches_active o); [|intros []].
  intro H. split; [reflexivity|]. apply suggested_stable_iff_proof. exact H.
Qed.

Lemma allarches_active_spec o :
  allarches_active o = true <-> o_allarches o = true /\ o_stable o = true /\ o_filt o <> [].
Proof.
  unfold allarches_active. rewrite !andb_true_iff, negb_true_iff, is_nil_false. tauto.
Qed.

(* what one yielded request looks like, in terms of the validated keywords of its line *)
Definition yield_ok (o : opts) (vs : list pkg) (p : pkg) (kws ks : list str) : Prop :=
  forall k, In k ks ->
    ( (In k kws \/ (kws = [] /\ In k (o_cc o)))
      /\ (o_cc o <> [] -> In k (o_cc o))
      /\ (o_only_new o = true -> ~ carried (o_stable o) p k)
      /\ (o_filt o <> [] -> In k (o_filt o)) )
    \/ (allarches_active o = true /\ candidate vs p k).

Lemma narrow_LReq o vs p kws p' pv ks :
  narrow o vs p kws = LReq p' pv ks -> p' = p /\ yield_ok o vs p kws ks.
Proof.
  unfold narrow.
  destruct (is_nil (cc_narrow (o_cc o) kws)); [destruct (is_nil kws); discriminate|].
  destruct (o_only_new o && is_nil (new_narrow o p (cc_narrow (o_cc o) kws))); [discriminate|].
  destruct (is_nil (o_filt o)) eqn:Ef.
  - intro H. injection H as <- <- <-. split; [reflexivity|].
    intros k Hk. left. apply new_narrow_In in Hk as [Hk Hn].
    apply cc_narrow_In in Hk as [H1 H2].
    repeat split; try assumption. apply is_nil_true in Ef. congruence.
  - destruct (is_nil (filt_narrow _ _ _ _)); [discriminate|].
    intro H. injection H as <- <- <-. split; [reflexivity|].
    intros k Hk. apply filt_narrow_In in Hk as [[Hk Hf]|Ha].
    + left. apply new_narrow_In in Hk as [Hk Hn]. apply cc_narrow_In in Hk as [H1 H2].
      repeat split; try assumption. intros _. exact Hf.
    + right. apply allarches_kw_In. exact Ha.
Qed.

Lemma narrow_LEmpty o vs p kws p' has :
  narrow o vs p kws = LEmpty p' has -> p' = p.
Proof.
  unfold narrow.
  destruct (is_nil (cc_narrow (o_cc o) kws)).
  - destruct (is_nil kws); [|discriminate]. intro H. injection H as <- _. reflexivity.
  - destruct (o_only_new o && _); [discriminate|].
    destruct (is_nil (o_filt o)); [discriminate|].
    destruct (is_nil (filt_narrow _ _ _ _)); discriminate.
Qed.

(* ------------------------------------------------------------------ one line *)
Definition line_yield (o : opts) (known : list str) (R : repo) (r : req) (p : pkg) (ks : list str) : Prop :=
  In p (versions R (d_key r)) /\ dep_match r p = true /\ (o_stable o = true -> spec_bad r = false) /\
  exists kws, (forall k, In k kws -> In k known) /\ yield_ok o (versions R (d_key r)) p kws ks.

Lemma line_LReq o known R prev r p pv ks :
  line o known R prev r = LReq p pv ks -> line_yield o known R r p ks.
Proof.
  unfold line. destruct (pick o R r) as [e|q] eqn:Ep; [discriminate|].
  destruct (expand o known (versions R (d_key r)) q prev (r_written r)) as [[e|kws]|] eqn:Ee; try discriminate.
  intro H. apply narrow_LReq in H as [-> Hy].
  apply pick_inr in Ep as [H1 [H2 H3]].
  repeat split; try assumption.
  exists kws. split; [|exact Hy]. eapply expand_known. exact Ee.
Qed.

Lemma line_LEmpty o known R prev r p has :
  line o known R prev r = LEmpty p has -> line_yield o known R r p [].
Proof.
  unfold line. destruct (pick o R r) as [e|q] eqn:Ep; [discriminate|].
  destruct (expand o known (versions R (d_key r)) q prev (r_written r)) as [[e|kws]|] eqn:Ee; try discriminate.
  intro H. apply narrow_LEmpty in H as ->.
  apply pick_inr in Ep as [H1 [H2 H3]].
  repeat split; try assumption.
  exists []. split; [intros k []|]. intros k [].
Qed.

Lemma line_unactionable o known R prev r :
  unactionable o R r = true -> exists e, line o known R prev r = LErr e.
Proof.
  intro H. apply pick_unactionable in H as [e He]. unfold line. rewrite He. exists e. reflexivity.
Qed.

(* ------------------------------------------------------------------ the loop *)
Lemma loop_yields o known R rs : forall s ys s' e,
  loop o known R s rs = (ys, s', e) ->
  forall key p ks, In (key, p, ks) ys ->
    exists r, In r rs /\ d_key r = key /\ line_yield o known R r p ks.
Proof.
  induction rs as [|r rs IH]; intros s ys s' e H key p ks Hin.
  - cbn in H. injection H as <- _ _. destruct Hin.
  - cbn in H. destruct (line o known R (s_prev s) r) as [e0| |p0 has|pv|pv|p0 pv ks0] eqn:El.
    + injection H as <- _ _. destruct Hin.
    + destruct (IH _ _ _ _ H key p ks Hin) as [r' [Hr Hy]]. exists r'. split; [right; exact Hr | exact Hy].
    + match type of H with context [loop o known R ?S rs] => destruct (loop o known R S rs) as [[ys1 s1] e1] eqn:EL end.
      injection H as <- _ _. destruct Hin as [Hin|Hin].
      * injection Hin as <- <- <-. exists r. split; [left; reflexivity|]. split; [reflexivity|].
        eapply line_LEmpty. exact El.
      * destruct (IH _ _ _ _ EL key p ks Hin) as [r' [Hr Hy]]. exists r'. split; [right; exact Hr | exact Hy].
    + destruct (IH _ _ _ _ H key p ks Hin) as [r' [Hr Hy]]. exists r'. split; [right; exact Hr | exact Hy].
    + destruct (IH _ _ _ _ H key p ks Hin) as [r' [Hr Hy]]. exists r'. split; [right; exact Hr | exact Hy].
    + match type of H with context [loop o known R ?S rs] => destruct (loop o known R S rs) as [[ys1 s1] e1] eqn:EL end.
      injection H as <- _ _. destruct Hin as [Hin|Hin].
      * injection Hin as <- <- <-. exists r. split; [left; reflexivity|]. split; [reflexivity|].
        eapply line_LReq. exact El.
      * destruct (IH _ _ _ _ EL key p ks Hin) as [r' [Hr Hy]]. exists r'. split; [right; exact Hr | exact Hy].
Qed.

Lemma run_yields c key p ks :
  In (key, p, ks) (fst (run c)) ->
  exists r, In r (c_reqs c) /\ d_key r = key /\ line_yield (c_opts c) (c_known c) (c_repo c) r p ks.
Proof.
  unfold run.
  destruct (loop (c_opts c) (c_known c) (c_repo c) st0 (c_reqs c)) as [[ys s] e] eqn:EL.
  cbn. intro H. eapply loop_yields; eassumption.
Qed.

(* ------------------------------------------------------------------ the clauses, for every case *)
(* each arch of a yielded request: validated-or-inherited and narrowed, or an allarches candidate *)
Lemma yield_general_proof c key p ks :
  In (key, p, ks) (fst (run c)) ->
  forall k, In k ks ->
    ( (In k (c_known c) \/ In k (o_cc (c_opts c)))
      /\ (o_cc (c_opts c) <> [] -> In k (o_cc (c_opts c)))
      /\ (o_only_new (c_opts c) = true -> ~ carried (o_stable (c_opts c)) p k)
      /\ (o_filt (c_opts c) <> [] -> In k (o_filt (c_opts c))) )
    \/ (allarches_active (c_opts c) = true /\ candidate (versions (c_repo c) key) p k).
Proof.
  intros H k Hk. apply run_yields in H as [r [_ [<- [_ [_ [_ [kws [Hkn Hy]]]]]]]].
  destruct (Hy k Hk) as [[H1 [H2 [H3 H4]]]|H5]; [left|right; exact H5].
  repeat split; try assumption.
  destruct H1 as [H1|[_ H1]]; [left; apply Hkn; exact H1 | right; exact H1].
Qed.

Lemma acts_proof c y : In y (fst (run c)) -> cl_acts c y.
Proof.
  destruct y as [[key p] ks]. intro H.
  apply run_yields in H as [r [Hr [<- [H1 [H2 [H3 _]]]]]].
  cbn. split; [exact H1|]. exists r. split; [exact Hr|]. split; [split; [reflexivity|exact H2]|].
  intro Hs. specialize (H3 Hs). unfold spec_bad in H3. apply orb_false_iff in H3 as [Ha Hb].
  apply negb_false_iff, N.eqb_eq in Ha. split; [exact Ha|].
  destruct (d_slot r); [discriminate|reflexivity].
Qed.

Lemma filter_clause_proof c y : In y (fst (run c)) -> cl_filter c y.
Proof.
  destruct y as [[key p] ks]. intro H. cbn. intros Hf k Hk.
  destruct (yield_general_proof c key p ks H k Hk) as [[_ [_ [_ H4]]]|[Ha Hc]].
  - left. apply H4. exact Hf.
  - right. apply allarches_active_spec in Ha as [A1 [A2 _]]. split; [exact A1|]. split; [exact A2|exact Hc].
Qed.

(* ---- decidable description of where allarches candidates escape a narrowing [f] *)
Definition all_cands (R : repo) (f : pkg -> str -> bool) : bool :=
  forallb (fun kv => forallb (fun p => forallb (f p) (suggested true (snd kv) p)) (snd kv)) R.

Lemma versions_In R key p : In p (versions R key) -> In (key, versions R key) R.
Proof.
  induction R as [|[k vs] R IH]; cbn; [intros []|].
  destruct (N.eqb k key) eqn:E.
  - apply N.eqb_eq in E. subst k. intros _. left. reflexivity.
  - intro H. right. apply IH. exact H.
Qed.

Lemma all_cands_spec R f key p k :
  all_cands R f = true -> In p (versions R key) -> candidate (versions R key) p k -> f p k = true.
Proof.
  unfold all_cands. intros H Hp Hc.
  rewrite forallb_forall in H. specialize (H _ (versions_In R key p Hp)). cbn in H.
  rewrite forallb_forall in H. specialize (H p Hp).
  rewrite forallb_forall in H. apply H. apply suggested_stable_iff_proof. exact Hc.
Qed.

Definition known_class (c : case) : bool :=
  negb (forallb (fun k => mem_str k (c_known c)) (o_cc (c_opts c)))
  || (allarches_active (c_opts c)
      && negb (all_cands (c_repo c) (fun _ k => mem_str k (c_known c)))).
Definition cc_class (c : case) : bool :=
  allarches_active (c_opts c)
  && negb (all_cands (c_repo c) (fun _ k => mem_str k (o_cc (c_opts c)))).
Definition new_class (c : case) : bool :=
  allarches_active (c_opts c)
  && negb (all_cands (c_repo c) (fun p k => negb (mem_str k (p_kws p)))).

Definition C40_known_full : Prop := forall c y, In y (fst (run c)) -> cl_known c y.
Definition C40_cc_full : Prop := forall c y, In y (fst (run c)) -> cl_cc c y.
Definition C40_new_full : Prop := forall c y, In y (fst (run c)) -> cl_new c y.

Lemma known_partial_proof c y : known_class c = false -> In y (fst (run c)) -> cl_known c y.
Proof.
  destruct y as [[key p] ks]. unfold known_class. intros Hc H. cbn. intros k Hk.
  apply orb_false_iff in Hc as [Hc1 Hc2]. apply negb_false_iff in Hc1.
  rewrite forallb_forall in Hc1.
  pose proof (run_yields c key p ks H) as [r [_ [Ek [Hp _]]]]. subst key.
  destruct (yield_general_proof c _ p ks H k Hk) as [[[H1|H1] _]|[Ha Hcand]].
  - exact H1.
  - apply mem_str_In. apply Hc1. exact H1.
  - rewrite Ha in Hc2. cbn in Hc2. apply negb_false_iff in Hc2.
    apply mem_str_In. exact (all_cands_spec _ _ _ p k Hc2 Hp Hcand).
Qed.

Lemma cc_partial_proof c y : cc_class c = false -> In y (fst (run c)) -> cl_cc c y.
Proof.
  destruct y as [[key p] ks]. unfold cc_class. intros Hc H. cbn. intros Hne k Hk.
  pose proof (run_yields c key p ks H) as [r [_ [Ek [Hp _]]]]. subst key.
  destruct (yield_general_proof c _ p ks H k Hk) as [[_ [H2 _]]|[Ha Hcand]].
  - apply H2. exact Hne.
  - rewrite Ha in Hc. cbn in Hc. apply negb_false_iff in Hc.
    apply mem_str_In. exact (all_cands_spec _ _ _ p k Hc Hp Hcand).
Qed.

Lemma new_partial_proof c y : new_class c = false -> In y (fst (run c)) -> cl_new c y.
Proof.
  destruct y as [[key p] ks]. unfold new_class. intros Hc H. cbn. intros Hn k Hk.
  pose proof (run_yields c key p ks H) as [r [_ [Ek [Hp _]]]]. subst key.
  destruct (yield_general_proof c _ p ks H k Hk) as [[_ [_ [H3 _]]]|[Ha Hcand]].
  - apply H3. exact Hn.
  - rewrite Ha in Hc. cbn in Hc. apply negb_false_iff in Hc.
    pose proof (all_cands_spec _ _ _ p k Hc Hp Hcand) as X. cbn in X.
    apply negb_true_iff, mem_str_false in X.
    apply allarches_active_spec in Ha as [_ [Hs _]]. rewrite Hs.
    intros [C|[C _]]; [exact (X C)|discriminate].
Qed.

(* ---- the full statements are false of the faithful model: witnesses *)
Definition s_a : str := [97]%N.    (* "a" *)
Definition s_x : str := [120]%N.   (* "x" *)
Definition s_ta : str := [126;97]%N.
Definition s_tx : str := [126;120]%N.

(* cc arch "a" is not a known arch; a line without keywords inherits it *)
Definition wit_known : case :=
  C [s_x] [(0%N, [P 1 0 false [s_tx]])] (Op true [s_a] false [] false) [Rq 0 1 1 None []].
(* allarches re-adds candidate "a" although the request is addressed to cc = [x] *)
Definition wit_cc : case :=
  C [s_a; s_x] [(0%N, [P 1 0 false [s_a; s_x]; P 2 0 false [s_ta; s_tx]])]
    (Op true [s_x] false [s_x] true) [Rq 0 1 2 None [s_x]].
(* only_new, yet allarches re-adds "a", which the version carries both as a and ~a *)
Definition wit_new : case :=
  C [s_a; s_x] [(0%N, [P 1 0 false [s_a; s_ta; s_tx]])]
    (Op true [] true [s_x] true) [Rq 0 1 1 None [s_x]].

Lemma C40_known_refuted_proof : ~ C40_known_full.
Proof.
  intro H.
  assert (Hin : In (0%N, P 1 0 false [s_tx], [s_a]) (fst (run wit_known))) by (vm_compute; left; reflexivity).
  specialize (H _ _ Hin). cbn in H. destruct (H s_a (or_introl eq_refl)) as [E|[]]. discriminate.
Qed.

Lemma C40_cc_refuted_proof : ~ C40_cc_full.
Proof.
  intro H.
  assert (Hin : In (0%N, P 2 0 false [s_ta; s_tx], [s_x; s_a]) (fst (run wit_cc))) by (vm_compute; left; reflexivity).
  specialize (H _ _ Hin). cbn in H.
  assert (Hne : [s_x] <> []) by discriminate.
  destruct (H Hne s_a (or_intror (or_introl eq_refl))) as [E|[]]. discriminate.
Qed.

Lemma C40_new_refuted_proof : ~ C40_new_full.
Proof.
  intro H.
  assert (Hin : In (0%N, P 1 0 false [s_a; s_ta; s_tx], [s_x; s_a]) (fst (run wit_new))) by (vm_compute; left; reflexivity).
  specialize (H _ _ Hin). cbn in H.
  apply (H eq_refl s_a (or_intror (or_introl eq_refl))). left. left. reflexivity.
Qed.

(* the witnesses lie in the classes (the classes are not empty, the partial theorems not vacuous) *)
Example wit_classes : known_class wit_known = true /\ cc_class wit_cc = true /\ new_class wit_new = true.
Proof. vm_compute. repeat split. Qed.

(* ------------------------------------------------------------------ rejection *)
Lemma loop_app o known R l1 : forall s l2,
  loop o known R s (l1 ++ l2) =
  match loop o known R s l1 with
  | (ys1, s1, Some e) => (ys1, s1, Some e)
  | (ys1, s1, None) => let '(ys2, s2, e2) := loop o known R s1 l2 in (ys1 ++ ys2, s2, e2)
  end.
Proof.
  induction l1 as [|r l1 IH]; intros s l2.
  - cbn. destruct (loop o known R s l2) as [[ys2 s2] e2]. reflexivity.
  - cbn. destruct (line o known R (s_prev s) r) as [e0| |p0 has|pv|pv|p0 pv ks0].
    + reflexivity.
    + apply IH.
    + rewrite IH.
      match goal with |- context [loop o known R ?S l1] => destruct (loop o known R S l1) as [[ys1 s1] [e1|]] end.
      * reflexivity.
      * destruct (loop o known R s1 l2) as [[ys2 s2] e2]. reflexivity.
    + apply IH.
    + apply IH.
    + rewrite IH.
      match goal with |- context [loop o known R ?S l1] => destruct (loop o known R S l1) as [[ys1 s1] [e1|]] end.
      * reflexivity.
      * destruct (loop o known R s1 l2) as [[ys2 s2] e2]. reflexivity.
Qed.

Lemma loop_length o known R rs : forall s ys s' e,
  loop o known R s rs = (ys, s', e) -> (length ys <= length rs)%nat.
Proof.
  induction rs as [|r rs IH]; intros s ys s' e H; cbn in H.
  - injection H as <- _ _. cbn. lia.
  - destruct (line o known R (s_prev s) r) as [e0| |p0 has|pv|pv|p0 pv ks0].
    + injection H as <- _ _. cbn. lia.
    + apply IH in H. cbn. lia.
    + match type of H with context [loop o known R ?S rs] => destruct (loop o known R S rs) as [[ys1 s1] e1] eqn:EL end.
      injection H as <- _ _. apply IH in EL. cbn. lia.
    + apply IH in H. cbn. lia.
    + apply IH in H. cbn. lia.
    + match type of H with context [loop o known R ?S rs] => destruct (loop o known R S rs) as [[ys1 s1] e1] eqn:EL end.
      injection H as <- _ _. apply IH in EL. cbn. lia.
Qed.

(* a spec that cannot be acted on makes the whole run end in an exception, and nothing is
   yielded for that line or any later one *)
Lemma unactionable_rejected_proof c l1 r l2 :
  c_reqs c = l1 ++ r :: l2 -> unactionable (c_opts c) (c_repo c) r = true ->
  (exists e, fst (snd (run c)) = Some e) /\ (length (fst (run c)) <= length l1)%nat.
Proof.
  intros Hr Hu. unfold run. rewrite Hr, loop_app.
  destruct (loop (c_opts c) (c_known c) (c_repo c) st0 l1) as [[ys1 s1] e1] eqn:E1.
  pose proof (loop_length _ _ _ _ _ _ _ _ E1) as HL.
  destruct e1 as [e1|].
  - cbn. split; [exists e1; reflexivity | exact HL].
  - cbn [loop]. destruct (line_unactionable (c_opts c) (c_known c) (c_repo c) (s_prev s1) r Hu) as [e He].
    rewrite He. cbn. split; [exists e; reflexivity|]. rewrite app_nil_r. exact HL.
Qed.

(* ------------------------------------------------------------------ non-vacuity *)
(* stabilizing, cc + filter + only_new + allarches, sentinels "*" and "^": requests come out *)
Definition ex_case : case :=
  C [s_a; s_x] [(0%N, [P 1 0 false [s_a; s_x]; P 2 0 false [s_ta; s_tx]])]
    (Op true [s_a; s_x] true [s_a] false) [Rq 0 1 2 None [s_star]; Rq 0 1 2 None [s_caret]].
Example ex_case_runs :
  run ex_case = ([(0%N, P 2 0 false [s_ta; s_tx], [s_a]); (0%N, P 2 0 false [s_ta; s_tx], [s_a])], (None, O))
  /\ known_class ex_case = false /\ cc_class ex_case = false /\ new_class ex_case = false.
Proof. vm_compute. repeat split. Qed.
Example ex_unactionable :
  unactionable (Op true [] false [] false) [(0%N, [P 1 0 false [s_x]])] (Rq 0 2 1 None [s_x]) = true
  /\ unactionable (Op false [] false [] false) [(0%N, [P 1 0 false [s_x]])] (Rq 0 1 7 None [s_x]) = true
  /\ unactionable (Op true [] false [] false) [(0%N, [P 1 0 false [s_x]])] (Rq 0 1 1 None [s_x]) = false.
Proof. vm_compute. repeat split. Qed.
