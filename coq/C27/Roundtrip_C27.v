(* Roundtrip_C27.v — parse (serialize e) returns the stored entry (eclass data, plain keys, validation value). *)
From Coq Require Import List NArith ZArith Bool Arith Lia Permutation.
From Coq Require String.
Import String.StringSyntax.
Import ListNotations.
From Verif Require Import Base.Val C18.Fs C18.FsLemmas C27.Model_C27 C27.Spec_C27 C27.Lemmas_C27.
Local Open Scope N_scope.


(* ------------------------------------------------------------------ eclass data *)
Lemma drop_nonslash_in c s : In c (drop_nonslash s) -> In c s.
Proof. induction s as [|x s IH]; cbn; [tauto|]. destruct (x =? c_sl); cbn; tauto. Qed.
Lemma drop_slash_in c s : In c (drop_slash s) -> In c s.
Proof. induction s as [|x s IH]; cbn; [tauto|]. destruct (x =? c_sl); cbn; tauto. Qed.
Lemma dirname_in c p : In c (dirname p) -> In c p.
Proof.
  unfold dirname. destruct (forallb _ _); intro H; apply in_rev in H.
  - apply drop_nonslash_in in H. now apply in_rev.
  - apply drop_slash_in, drop_nonslash_in in H. now apply in_rev.
Qed.
Lemma forallb_sub (f : N -> bool) a b : (forall c, In c a -> In c b) -> forallb f b = true -> forallb f a = true.
Proof. intros Hs H. apply forallb_forall. intros c Hc. rewrite forallb_forall in H. auto. Qed.

(* what makes an eclass entry serialisable: a name that is one non-blank-initial token free of
   tabs and line ends, a path free of tabs and line ends *)
Definition wf_name (n : str) : bool := starts_nonspace n && no_tab n && no_nl n.
Definition wf_path (p : str) : bool := no_tab p && no_nl p.
Definition wf_ecl (nd : str * edata) : bool := wf_name (fst nd) && wf_path (e_path (snd nd)).

Definition block_items (lay : layout) (nd : str * edata) : list str := fst nd :: eclass_fields lay (snd nd).

Lemma fields_ok lay d : wf_path (e_path d) = true ->
  Forall (fun s => no_tab s = true /\ no_nl s = true) (eclass_fields lay d).
Proof.
  intro H. unfold wf_path in H. apply andb_true_iff in H as [Ht Hn].
  destruct lay; cbn [eclass_fields]; repeat constructor.
  - eapply forallb_sub; [intros c; apply dirname_in|exact Ht].
  - eapply forallb_sub; [intros c; apply dirname_in|exact Hn].
  - apply no_space_no_tab, plain_no_space, dec_plain.
  - apply no_space_no_nl, plain_no_space, dec_plain.
  - apply no_space_no_tab, plain_no_space, hex32_plain.
  - apply no_space_no_nl, plain_no_space, hex32_plain.
Qed.

Lemma items_ok lay m : forallb wf_ecl m = true ->
  Forall (fun s => no_tab s = true /\ no_nl s = true) (flat_map (block_items lay) m).
Proof.
  induction m as [|nd m IH]; cbn [forallb flat_map]; intro H; [constructor|].
  apply andb_true_iff in H as [Hx Hm]. unfold wf_ecl in Hx. apply andb_true_iff in Hx as [Hn Hp].
  unfold wf_name in Hn. apply andb_true_iff in Hn as [Hn Hn3]. apply andb_true_iff in Hn as [Hn1 Hn2].
  apply Forall_app. split; [|auto]. unfold block_items. constructor; [split; assumption|].
  apply fields_ok. exact Hp.
Qed.

(* the last field of a block is a numeral *)
Lemma fields_last lay d : exists fs x, eclass_fields lay d = fs ++ [x] /\ no_space x = true /\ x <> [].
Proof.
  destruct lay; cbn [eclass_fields].
  - exists [dirname (e_path d)], (dec (e_mtime d)). repeat split.
    + apply plain_no_space, dec_plain.
    + apply dec_not_nil.
  - exists [], (hex32 (e_md5 d)). repeat split.
    + apply plain_no_space, hex32_plain.
    + apply hex32_not_nil.
Qed.

Lemma join_starts sep x r : starts_nonspace x = true -> starts_nonspace (join_on sep (x :: r)) = true.
Proof. destruct x as [|c x]; [discriminate|]. intro H. destruct r; cbn; exact H. Qed.

(* the serialised eclass string survives both strip() calls *)
Lemma deconstruct_strip lay m : forallb wf_ecl m = true ->
  strip (rstrip (deconstruct lay m)) = deconstruct lay m.
Proof.
  intro H. unfold deconstruct. fold (block_items lay).
  destruct m as [|nd0 m0] eqn:Em; [reflexivity|]. rewrite <- Em in *.
  assert (Hne : m <> []) by (rewrite Em; discriminate).
  destruct (exists_last Hne) as [m' [nd El]].
  destruct (fields_last lay (snd nd)) as [fs [x [Ef [Hx Hxn]]]].
  assert (Ei : flat_map (block_items lay) m = (flat_map (block_items lay) m' ++ fst nd :: fs) ++ [x]).
  { rewrite El, flat_map_app. cbn [flat_map]. rewrite app_nil_r. unfold block_items at 2. rewrite Ef.
    rewrite <- app_assoc. reflexivity. }
  assert (Hr : rstrip (join_on c_tab (flat_map (block_items lay) m)) = join_on c_tab (flat_map (block_items lay) m)).
  { rewrite Ei, join_on_snoc by (destruct (flat_map (block_items lay) m'); discriminate).
    assert (Hrx : rstrip (c_tab :: x) = c_tab :: x).
    { change (c_tab :: x) with ([c_tab] ++ x). rewrite rstrip_app; rewrite (rstrip_no_space x Hx); [reflexivity|exact Hxn]. }
    rewrite rstrip_app; rewrite Hrx; [reflexivity|discriminate]. }
  rewrite Hr. unfold strip. rewrite lstrip_starts; [exact Hr|].
  rewrite Em. cbn [flat_map]. unfold block_items at 1. cbn [app].
  rewrite Em in H. cbn [forallb] in H. apply andb_true_iff in H as [H0 _].
  unfold wf_ecl, wf_name in H0. apply andb_true_iff in H0 as [H0 _]. apply andb_true_iff in H0 as [H0 _].
  apply andb_true_iff in H0 as [H0 _]. apply join_starts. exact H0.
Qed.

Lemma fields_len lay d : length (eclass_fields lay d) = pred (tuple_len lay).
Proof. destruct lay; reflexivity. Qed.

Lemma items_len lay m : length (flat_map (block_items lay) m) = (length m * tuple_len lay)%nat.
Proof.
  induction m as [|nd m IH]; cbn [flat_map length]; [reflexivity|].
  rewrite app_length, IH. unfold block_items. cbn [length]. rewrite fields_len. destruct lay; cbn; lia.
Qed.

Lemma blocks_items lay m : forall fuel, (length m <= fuel)%nat ->
  blocks (tuple_len lay) fuel (flat_map (block_items lay) m) = map (block_items lay) m.
Proof.
  induction m as [|nd m IH]; intros fuel Hf.
  - destruct fuel; reflexivity.
  - destruct fuel as [|fuel]; [cbn in Hf; lia|]. cbn [flat_map map blocks].
    assert (Hl : length (block_items lay nd) = tuple_len lay)
      by (unfold block_items; cbn [length]; rewrite fields_len; destruct lay; reflexivity).
    destruct (block_items lay nd ++ flat_map (block_items lay) m) eqn:E.
    + apply app_eq_nil in E as [E _]. unfold block_items in E. discriminate.
    + rewrite <- E.
      assert (F1 : firstn (tuple_len lay) (block_items lay nd ++ flat_map (block_items lay) m) = block_items lay nd).
      { rewrite <- Hl. rewrite firstn_app, firstn_all, Nat.sub_diag, firstn_O, app_nil_r. reflexivity. }
      assert (F2 : skipn (tuple_len lay) (block_items lay nd ++ flat_map (block_items lay) m) = flat_map (block_items lay) m).
      { rewrite <- Hl. rewrite skipn_app, skipn_all, Nat.sub_diag. reflexivity. }
      rewrite F1, F2, IH by (cbn in Hf; lia). reflexivity.
Qed.

Lemma block_view lay nd : eclass_block lay (block_items lay nd) = Some (ecl_view lay nd).
Proof.
  destruct lay; unfold block_items, ecl_view; cbn [eclass_fields eclass_block].
  - rewrite parse_num_dec_proof. reflexivity.
  - rewrite parse_hex_hex32_proof. reflexivity.
Qed.

Lemma all_some_map {A B} (f : A -> option B) (g : A -> B) l :
  (forall x, f x = Some (g x)) -> all_some (map f l) = Some (map g l).
Proof. intro H. induction l as [|x l IH]; cbn; [reflexivity|]. rewrite H, IH. reflexivity. Qed.

Lemma reconstruct_deconstruct lay m : forallb wf_ecl m = true ->
  reconstruct lay (rstrip (deconstruct lay m)) = Some (map (ecl_view lay) m).
Proof.
  intro H. unfold reconstruct. rewrite deconstruct_strip by exact H.
  destruct m as [|nd0 m0] eqn:Em; [reflexivity|]. rewrite <- Em in *.
  unfold deconstruct. fold (block_items lay).
  assert (Hne : flat_map (block_items lay) m <> [])
    by (rewrite Em; cbn [flat_map]; unfold block_items at 1; discriminate).
  rewrite split_join; [|exact Hne|].
  2:{ eapply Forall_impl; [|apply items_ok; exact H]. intros s [Ht _]. exact Ht. }
  assert (Hnot : forall T (a b : T), match flat_map (block_items lay) m with [[]] => a | _ => b end = b).
  { intros T a b. rewrite Em. cbn [flat_map]. unfold block_items at 1. cbn [app].
    destruct (fst nd0); [|reflexivity].
    destruct (fields_last lay (snd nd0)) as [fs [x [Ef _]]]. rewrite Ef. destruct fs; reflexivity. }
  rewrite Hnot. rewrite items_len.
  rewrite Nat.mod_mul by (destruct lay; discriminate). cbn [Nat.eqb].
  rewrite blocks_items by (destruct lay; cbn; lia).
  rewrite map_map. apply all_some_map. intro nd. apply block_view.
Qed.


(* ------------------------------------------------------------------ the round trip *)
(* the entries the statement quantifies over: a mapping (distinct keys) whose keys are
   "="-free single-line tokens that do not start with a blank, whose values are single
   lines, with the eclass map under its own key *)
Definition wf_key (k : str) : bool := starts_nonspace k && no_eq k && no_nl k.
Definition wf_kv (kv : str * str) : bool :=
  wf_key (fst kv) && no_nl (snd kv) && negb (str_eqb (fst kv) k_eclasses).
Definition wf_entry (e : entry) : Prop :=
  NoDup (map fst (kvs e)) /\ forallb wf_kv (kvs e) = true /\
  match ecl e with Some m => forallb wf_ecl m = true | None => True end.

Lemma no_nl_join items : Forall (fun s => no_nl s = true) items -> no_nl (join_on c_tab items) = true.
Proof.
  induction 1 as [|x r Hx Hr IH]; [reflexivity|]. destruct r as [|y r]; [exact Hx|].
  change (join_on c_tab (x :: y :: r)) with (x ++ c_tab :: join_on c_tab (y :: r)).
  rewrite no_nl_app, Hx. cbn. exact IH.
Qed.

Lemma no_nl_deconstruct lay m : forallb wf_ecl m = true -> no_nl (deconstruct lay m) = true.
Proof.
  intro H. apply no_nl_join. eapply Forall_impl; [|apply (items_ok lay m H)]. intros s [_ Hs]. exact Hs.
Qed.

Lemma chf_key_wf lay : wf_key (chf_key lay) = true.
Proof. destruct lay; reflexivity. Qed.
Lemma chf_key_known lay : known lay (chf_key lay) = true.
Proof. destruct lay; reflexivity. Qed.
Lemma ecl_key_known lay : known lay k_eclasses = true.
Proof. destruct lay; reflexivity. Qed.
Lemma ecl_not_chf lay : str_eqb k_eclasses (chf_key lay) = false.
Proof. destruct lay; reflexivity. Qed.
Lemma chf_ser_plain lay c : no_space (chf_ser lay c) = true.
Proof. destruct lay; apply plain_no_space; [apply dec_plain|apply hex32_plain]. Qed.
Lemma chf_deser_ser lay c : chf_deser lay (chf_ser lay c) = Some (chf_num lay c).
Proof. destruct lay; [apply parse_num_dec_proof|apply parse_hex_hex32_proof]. Qed.

Definition good_kv (kv : str * str) : Prop := wf_key (fst kv) = true /\ no_nl (snd kv) = true.

Theorem cache_roundtrip_proof : forall lay e c,
  wf_entry e -> chf e = Some c ->
  exists content d,
    serialize lay e = Some content /\ parse lay content = inl d /\
    forall k, dget k d = expected_value lay e k.
Proof.
  intros lay e c [Hnd [Hkv Hecl]] Hc.
  unfold serialize, to_store. rewrite Hc.
  set (d1 := match ecl e with Some m => dset k_eclasses (deconstruct lay m) (kvs e) | None => kvs e end).
  set (d2 := dset (chf_key lay) (chf_ser lay c) d1).
  eexists. 
  (* facts about the stored mapping *)
  assert (Gk : Forall good_kv (kvs e)).
  { apply Forall_forall. intros kv Hin. rewrite forallb_forall in Hkv. specialize (Hkv kv Hin).
    unfold wf_kv in Hkv. apply andb_true_iff in Hkv as [Hkv _]. apply andb_true_iff in Hkv as [H1 H2]. split; assumption. }
  assert (Necl : dget k_eclasses (kvs e) = None).
  { apply dget_none. intro Hin. apply in_map_iff in Hin as [kv [Ek Hin]].
    rewrite forallb_forall in Hkv. specialize (Hkv kv Hin). unfold wf_kv in Hkv.
    apply andb_true_iff in Hkv as [_ Hkv]. rewrite Ek, str_eqb_refl in Hkv. discriminate. }
  assert (G1 : Forall good_kv d1 /\ NoDup (map fst d1)).
  { subst d1. destruct (ecl e) as [m|]; [|split; assumption]. split.
    - apply forall_dset; [|exact Gk]. split; [reflexivity|]. apply no_nl_deconstruct. exact Hecl.
    - apply nodup_dset. exact Hnd. }
  destruct G1 as [G1 N1].
  assert (G2 : Forall good_kv d2).
  { subst d2. apply forall_dset; [|exact G1]. split; [apply chf_key_wf|].
    apply no_space_no_nl, chf_ser_plain. }
  assert (N2 : NoDup (map fst d2)) by (subst d2; apply nodup_dset; exact N1).
  pose proof (sort_items_perm d2) as Hperm.
  set (sorted := sort_items d2) in *.
  assert (Gs : Forall good_kv sorted) by (eapply Permutation_Forall; [apply Permutation_sym; exact Hperm|exact G2]).
  assert (Ns : NoDup (map fst sorted))
    by (eapply Permutation_NoDup; [apply Permutation_map, Permutation_sym; exact Hperm|exact N2]).
  (* reading the text back *)
  assert (Hlines : map strip (split_lines (flat_map line sorted))
                   = map enc_line (map (fun kv => (fst kv, rstrip (snd kv))) sorted)).
  { rewrite split_lines_content.
    2:{ eapply Forall_impl; [|exact Gs]. intros kv [Hk Hv]. unfold wf_key in Hk.
        apply andb_true_iff in Hk as [_ Hk]. split; assumption. }
    rewrite !map_map. apply map_ext_in. intros kv Hin. rewrite Forall_forall in Gs.
    destruct (Gs kv Hin) as [Hk _]. unfold wf_key in Hk. apply andb_true_iff in Hk as [Hk _].
    apply andb_true_iff in Hk as [Hk _]. unfold enc_line. cbn [fst snd]. apply strip_line. exact Hk. }
  destruct (parse_lines_spec lay (map (fun kv => (fst kv, rstrip (snd kv))) sorted) []) as [acc [Hp Hg]].
  { apply Forall_map. eapply Forall_impl; [|exact Gs]. intros kv [Hk _]. cbn [fst]. unfold wf_key in Hk.
    apply andb_true_iff in Hk as [Hk _]. apply andb_true_iff in Hk as [_ Hk]. exact Hk. }
  { rewrite map_map. cbn [fst]. exact Ns. }
  assert (Hacc : forall k, dget k acc = if known lay k then option_map rstrip (dget k d2) else None).
  { intro k. rewrite Hg, dget_map_snd. rewrite (dget_perm k sorted d2 Ns Hperm).
    destruct (dget k d2); cbn; destruct (known lay k); reflexivity. }
  assert (Hchf : dget (chf_key lay) d2 = Some (chf_ser lay c))
    by (subst d2; rewrite dget_dset, str_eqb_refl; reflexivity).
  assert (Hother : forall k, str_eqb k (chf_key lay) = false -> dget k d2 = dget k d1)
    by (intros k E; subst d2; rewrite dget_dset, E; reflexivity).
  unfold parse. rewrite Hlines, Hp.
  rewrite (Hacc (chf_key lay)), chf_key_known, Hchf. cbn [option_map].
  rewrite (rstrip_no_space _ (chf_ser_plain lay c)), chf_deser_ser.
  rewrite (Hacc k_eclasses), ecl_key_known, (Hother _ (ecl_not_chf lay)).
  assert (Hlift : forall k, dget k (lift acc) = option_map PStr (dget k acc))
    by (intro k; unfold lift; apply dget_map_snd).
  assert (Hplain : forall k, str_eqb k (chf_key lay) = false -> str_eqb k k_eclasses = false ->
            option_map PStr (dget k acc) =
            if known lay k then option_map (fun v => PStr (rstrip v)) (dget k (kvs e)) else None).
  { intros k E1 E2. rewrite Hacc, (Hother k E1). destruct (known lay k); [|reflexivity].
    subst d1. destruct (ecl e); [rewrite dget_dset, E2|]; destruct (dget k (kvs e)); reflexivity. }
  subst d1. destruct (ecl e) as [m|] eqn:Em.
  - rewrite dget_dset, str_eqb_refl. cbn [option_map]. rewrite (reconstruct_deconstruct lay m Hecl).
    eexists. split; [reflexivity|]. split; [reflexivity|].
    intro k. unfold expected_value. rewrite Hc, Em. cbn [option_map]. rewrite !dget_dset.
    destruct (str_eqb k (chf_key lay)) eqn:E1.
    + apply str_eqb_eq in E1. subst k. rewrite str_eqb_sym, ecl_not_chf. reflexivity.
    + destruct (str_eqb k k_eclasses) eqn:E2; [reflexivity|]. rewrite Hlift. apply Hplain; assumption.
  - rewrite Necl. cbn [option_map].
    eexists. split; [reflexivity|]. split; [reflexivity|].
    intro k. unfold expected_value. rewrite Hc, Em. cbn [option_map]. rewrite dget_dset.
    destruct (str_eqb k (chf_key lay)) eqn:E1; [reflexivity|].
    destruct (str_eqb k k_eclasses) eqn:E2.
    + apply str_eqb_eq in E2. subst k. rewrite Hlift, Hacc, ecl_key_known, (Hother _ E1), Necl. reflexivity.
    + rewrite Hlift. apply Hplain; assumption.
Qed.

Lemma serialize_none_proof lay e : serialize lay e = None <-> chf e = None.
Proof. unfold serialize, to_store. destruct (chf e); split; intro H; congruence. Qed.

(* values without trailing blanks come back unchanged *)
Lemma rstrip_ends_nonspace a c : is_space c = false -> rstrip (a ++ [c]) = a ++ [c].
Proof. intro H. rewrite rstrip_app; cbn; rewrite H; [reflexivity|discriminate]. Qed.

(* dirname of dir/base: the recorded eclass location is the directory holding the eclass *)
Definition no_sl (s : str) : bool := forallb (fun c => negb (c =? c_sl)) s.
Lemma drop_nonslash_app b rest : no_sl b = true -> drop_nonslash (b ++ c_sl :: rest) = c_sl :: rest.
Proof.
  unfold no_sl. induction b as [|x b IH]; cbn [app drop_nonslash forallb]; intro H.
  - rewrite N.eqb_refl. reflexivity.
  - apply andb_true_iff in H as [Hx Hb]. apply negb_true_iff in Hx. rewrite Hx. auto.
Qed.
Lemma dirname_join_proof d c b : (c =? c_sl) = false -> no_sl b = true ->
  dirname ((d ++ [c]) ++ c_sl :: b) = d ++ [c].
Proof.
  intros Hc Hb. unfold dirname. rewrite rev_app_distr. cbn [rev]. rewrite <- app_assoc. cbn [app].
  rewrite drop_nonslash_app by (unfold no_sl in *; rewrite forallb_forall in *; intros x Hx; apply Hb, in_rev, Hx).
  rewrite rev_app_distr. cbn [rev app forallb drop_slash]. rewrite N.eqb_refl. cbn [andb].
  rewrite (N.eqb_sym c_sl c), Hc. cbn [andb rev]. rewrite rev_involutive. reflexivity.
Qed.
