(* Prop_C08.v — the property theorems of C08 and nothing else. *)
From Coq Require Import List NArith ZArith Bool Sorting.Sorted Sorting.Permutation.
Import ListNotations.
From Verif Require Import Base.Val C06.Restr C08.Ord_C08 C08.Model_C08 C08.Spec_C08 C08.Proofs_C08 C08.Sorted_C08.

(* the candidate search never drops the key of a package the restriction matches
   (any world, repository, restriction; any object with attributes of a key the repository lists) *)
Theorem candidates_complete : forall w R r o c p cs,
  flat_atom r = true -> has_attrs o = true -> okey o = (c, p) ->
  In c (categories R) -> In p (packages_get R c) ->
  matches w r o = true -> candidates w R r = Some cs -> In (c, p) cs.
Proof. exact candidates_complete_proof. Qed.
Print Assumptions candidates_complete.

(* ... and lists no key twice *)
Theorem candidates_nodup : forall w R r cs,
  repo_wf R -> candidates w R r = Some cs -> NoDup cs.
Proof. exact candidates_nodup_proof. Qed.
Print Assumptions candidates_nodup.

(* a query of any restriction answers (no exception path of the candidate search is reachable) *)
Theorem query_never_raises : forall w R m r, exists got, itermatch w R m r = Some got.
Proof. exact query_never_raises_proof. Qed.
Print Assumptions query_never_raises.

(* hence a versioned query, and an unversioned query over package objects, yields exactly the
   brute-force filter of the repository: every matching package, nothing else, each once *)
Theorem query_exact : forall w R m r got,
  repo_wf R -> flat_atom r = true -> m <> MUnvTuple ->
  itermatch w R m r = Some got -> exact_answer got (brute w R m r).
Proof. exact query_exact_proof. Qed.
Print Assumptions query_exact.

(* a sorted query yields the same packages as the plain one, in sorter order *)
Theorem sorted_query : forall w R m r l,
  repo_wf R -> itermatch_sorted w R m r = Some l ->
  StronglySorted obj_le l /\ exists got, itermatch w R m r = Some got /\ Permutation got l.
Proof. exact sorted_query_proof. Qed.
Print Assumptions sorted_query.

(* a query over a stack of repositories is the chain of the per-repository exact answers *)
Theorem multiplex_union : forall w Rs m r got,
  Forall repo_wf Rs -> flat_atom r = true -> m <> MUnvTuple ->
  multiplex w Rs m r = Some got ->
  exists parts, got = concat parts /\
    Forall2 (fun R part => exact_answer part (brute w R m r)) Rs parts.
Proof. exact multiplex_union_proof. Qed.
Print Assumptions multiplex_union.

(* ... and with a sorter it is that chain merged into sorter order *)
Theorem multiplex_sorted_union : forall w Rs m r l,
  Forall repo_wf Rs -> multiplex_sorted w Rs m r = Some l ->
  Sorted obj_le l /\ exists got, multiplex w Rs m r = Some got /\ Permutation got l.
Proof. exact multiplex_sorted_proof. Qed.
Print Assumptions multiplex_sorted_union.

(* known finding: the default unversioned call matches bare tuples, which have no attributes *)
Theorem unversioned_tuple_refuted : ~ unversioned_tuple_full.
Proof. exact unversioned_tuple_refuted_proof. Qed.
Print Assumptions unversioned_tuple_refuted.

Theorem tuple_matches_blind : forall w r c p, matches w r (PT c p) = eval (fun _ => false) r.
Proof. exact tuple_matches_blind_proof. Qed.
Print Assumptions tuple_matches_blind.

(* outside the known class (the restriction reads no package attribute) the bare-tuple query is exact *)
Theorem unversioned_tuple_partial : forall w R r got,
  repo_wf R -> tuple_class r = false -> itermatch w R MUnvTuple r = Some got ->
  forall o, In o got <-> In o (map as_tuple (brute w R MUnvCPV r)).
Proof. exact unversioned_tuple_partial_proof. Qed.
Print Assumptions unversioned_tuple_partial.
