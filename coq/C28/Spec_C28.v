(* Spec_C28.v — what C28 states, without looking at how the text is produced or written.

   covered            the files a Manifest covers (GLEP 44 classes of the scanned regular files)
   wf_update          the inputs for which a Manifest is meaningful: names without white space, distinct
                      per class, a size and only known, distinct checksum names per file
   expected_pm        what the Manifest must parse back to: per class the covered names with exactly
                      their size and checksums (sorted by name; size first, then sorted checksum names)
   atomic_at          the Manifest is the complete old file or the complete new one
   spec_text_ok / spec_update_ok   boolean acceptors evaluated on the IMPLEMENTATION's recorded results *)
From Coq Require Import List NArith ZArith Bool.
Import ListNotations.
From Verif Require Import Base.Val C18.Fs C28.Model_C28.
Open Scope N_scope.

(* ---------------------------------------------------------------- covered files *)
Definition covered (f : cls -> option str) (scan : list scanned) : list entry :=
  flat_map (fun o => match f (classify o) with Some n => [(n, s_cks o)] | None => [] end) scan.

Definition mem (x : str) (l : list str) : bool := existsb (str_eqb x) l.
Fixpoint nodupb (l : list str) : bool :=
  match l with
  | [] => true
  | x :: r => negb (mem x r) && nodupb r
  end.
Definition known (c : str) : bool := match chf_width c with Some _ => true | None => false end.
Definition name_ok (n : str) : bool :=
  match n with [] => false | _ => forallb (fun c => negb (is_space c)) n end.
Definition chks_ok (ck : chks) : bool :=
  has_key SIZE ck && forallb (fun e => str_eqb (fst e) SIZE || known (fst e)) ck && nodupb (map fst ck).
Definition entries_ok (l : list entry) : bool :=
  forallb (fun e => name_ok (fst e) && chks_ok (snd e)) l && nodupb (map fst l).
Definition no_slash (n : str) : bool := negb (existsb (N.eqb 47) n).

Definition wf_update (thin : bool) (scan : list scanned) (fetch : list entry) : bool :=
  entries_ok fetch && forallb (fun e => no_slash (fst e)) fetch &&
  (thin ||
   (negb (has_bad scan) && nodupb (map s_loc scan)
    && entries_ok (covered aux_of scan) && entries_ok (covered ebuild_of scan)
    && entries_ok (covered misc_of scan))).

(* ---------------------------------------------------------------- the parsed content *)
Definition size_of (ck : chks) : N := match assoc SIZE ck with Some s => s | None => 0 end.
Definition canon_chks (ck : chks) : list (str * Z) :=
  (SIZE, Z.of_N (size_of ck)) :: map (fun e => (fst e, Z.of_N (snd e))) (sort_by fst (filter not_size ck)).
Definition canon_sec (l : list entry) : list pentry :=
  map (fun e => (fst e, canon_chks (snd e))) (sort_by fst l).
Definition expected_pm (thin : bool) (scan : list scanned) (fetch : list entry) : pm :=
  if thin then Pm (canon_sec fetch) [] [] []
  else Pm (canon_sec fetch) (canon_sec (covered aux_of scan)) (canon_sec (covered ebuild_of scan))
          (canon_sec (covered misc_of scan)).

Definition pair_eqb (a b : str * Z) : bool := str_eqb (fst a) (fst b) && Z.eqb (snd a) (snd b).
Fixpoint list_eqb {A} (eq : A -> A -> bool) (a b : list A) : bool :=
  match a, b with
  | [], [] => true
  | x :: a', y :: b' => eq x y && list_eqb eq a' b'
  | _, _ => false
  end.
Definition pentry_eqb (a b : pentry) : bool := str_eqb (fst a) (fst b) && list_eqb pair_eqb (snd a) (snd b).
Definition pm_eqb (a b : pm) : bool :=
  list_eqb pentry_eqb (p_dist a) (p_dist b) && list_eqb pentry_eqb (p_aux a) (p_aux b)
  && list_eqb pentry_eqb (p_ebuild a) (p_ebuild b) && list_eqb pentry_eqb (p_misc a) (p_misc b).

(* ---------------------------------------------------------------- atomicity *)
(* the Manifest node in state [sk] is the old node, or a regular file holding the complete text *)
Definition atomic_at (s sk : fs) (text : str) : Prop :=
  lookup sk P = lookup s P \/ file_data sk P = Some text.

(* ---------------------------------------------------------------- acceptors (comparison B) *)
(* stream "text": the implementation's text for well-formed inputs parses (with the model of
   parse_manifest) to exactly the covered content; well-formed inputs never fail *)
Definition spec_text_ok (b : bstr) (r : val) : bool :=
  let '(i, _) := dec_update b in
  let wf := wf_update (u_thin i) (u_scan i) (u_fetch i) in
  match r with
  | VS t => if wf then match parse_text t with
                       | Some m => pm_eqb m (expected_pm (u_thin i) (u_scan i) (u_fetch i))
                       | None => false
                       end
            else true
  | VNone => u_thin i && match u_fetch i with [] => true | _ => false end
  | VErr _ => negb wf
  | _ => false
  end.

(* stream "update": in every recorded crash state the Manifest is the old or the final content, after
   an I/O error it is the old content, and "not written" comes with no calls at all *)
Definition spec_update_ok (b : bstr) (r : val) : bool :=
  let '(_, s) := dec_update b in
  (* the recorded states are coded: None = no file, 1 = the old content, 2 = the new text *)
  let old := match file_data s P with Some _ => VZ 1 | None => VNone end in
  match r with
  | VL [VB wr; VL ops; VL crash; VL eio] =>
      let new := match last crash VNone with VL [m; _] => m | _ => VNone end in
      forallb (fun st => match st with VL [m; _] => val_eqb m old || val_eqb m new | _ => false end) crash
      && forallb (fun st => match st with VL [m; _] => val_eqb m old | _ => false end) eio
      && (wr || match ops with [] => val_eqb new old | _ => false end)
      && (negb wr || val_eqb new (VZ 2) || val_eqb new old)
  | VErr _ => true
  | _ => false
  end.

Definition spec_any_ok (p : nat * bstr) (r : val) : bool :=
  match fst p with
  | 1%nat => spec_text_ok (snd p) r
  | 2%nat => spec_update_ok (snd p) r
  | _ => true
  end.
