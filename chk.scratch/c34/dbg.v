(* Proofs_C34.v — the top-level loop of the scanner and the theorems of C34. *)
From Coq Require Import List NArith ZArith Bool Lia.
Import ListNotations.
From Verif Require Import Base.Val C34.Model_C34 C34.Spec_C34 C34.Lemmas_C34.
Local Open Scope N_scope.

Definition dropf (vm fm : option (str -> bool)) (d : def) : bool :=
  match d with
  | Assign n _ => match vm with Some f => f n | None => false end
  | Func n _ _ => match fm with Some f => f n | None => false end
  end.
Definition expected (vm fm : option (str -> bool)) (ds : list def) : str :=
  flat_map (fun d => (if dropf vm fm d then [] else render_def d) ++ [cNL]) ds.

Section Top.
Variable g : str.

(* what one iteration of the top-level loop does with a whole definition *)
Definition STEP (d : def) : Prop :=
  forall n p T' ws we out vm fm, (n > length (render_def d) + 2)%nat ->
  process_scope g (S n) (mkcur p (render_def d ++ cNL :: T')) cNUL vm fm ws we out =
  process_scope g n (mkcur (lastp p (render_def d)) (cNL :: T')) cNUL vm fm
    (match we with Some _ => render_def d ++ cNL :: T' | None => ws end)
    (if dropf vm fm d then Some (render_def d ++ cNL :: T') else None)
    (match we with Some e => out ++ slice ws e | None => out end).

Lemma STEP_assign n v : var_name_ok n = true -> value_ok v = true ->
  (forall m p rest endc, (m > length (render_value v) + 2)%nat ->
     env_value g m (mkcur p (render_value v ++ cNL :: rest)) endc
     = Ok (mkcur (lastp p (render_value v)) (cNL :: rest))) ->
  STEP (Assign n v).
Proof.
  intros Hn Hv EVv m p T' ws we out vm fm Hm.
  cbn [render_def] in *. rewrite !app_length in Hm. cbn [length] in Hm.
  assert (Hn' := Hn). unfold var_name_ok in Hn'. apply andb_true_iff in Hn' as [Hn' _].
  apply andb_true_iff in Hn' as [Hne Hid].
  destruct n as [|c n]; [discriminate|]. cbn [forallb] in Hid. apply andb_true_iff in Hid as [Hc _].
  destruct (ident_facts c Hc) as (Hsp&_&_&_&_&Hh&Hz).
  replace (((c :: n) ++ [cEQ] ++ render_value v) ++ cNL :: T')
    with ((c :: n) ++ cEQ :: (render_value v ++ cNL :: T'))
    by (rewrite <- !app_assoc; reflexivity).
  rewrite process_scope_S. cbn [suf app]. rewrite Hz, Hsp, Hh.
  change (c :: n ++ cEQ :: render_value v ++ cNL :: T') with ((c :: n) ++ cEQ :: render_value v ++ cNL :: T').
  rewrite is_function_assign by assumption. rewrite is_envvar_assign by assumption.
  cbn [suf]. destruct (render_value v ++ cNL :: T') eqn:E; [destruct (render_value v); discriminate|].
  rewrite <- E. rewrite EVv by lia. cbn [bind dropf].
  match goal with
  | |- process_scope _ _ ?c1 _ _ _ _ ?w1 _ = process_scope _ _ ?c2 _ _ _ _ ?w2 _ =>
      assert (E1 : c1 = c2); [|assert (E2 : w1 = w2); [|rewrite E1, E2; reflexivity]]
  end.
  - f_equal. unfold lastp. cbn [app fold_left]. rewrite ?fold_left_app. cbn [fold_left]. reflexivity.
  - try (destruct vm as [fv|]; [destruct (fv _)|]; reflexivity);
    try (destruct fm as [ff|]; [destruct (ff _)|]; reflexivity).
Qed.

Lemma STEP_func n lead b : func_name_ok n = true -> forallb isspace lead = true -> body_ok b = true ->
  STEP (Func n lead b).
Proof.
  intros Hn Hl Hb m p T' ws we out vm fm Hm.
  cbn [render_def] in *. rewrite !app_length in Hm. cbn [length] in Hm.
  assert (Hn' := Hn). unfold func_name_ok in Hn'. apply andb_true_iff in Hn' as [Hn' _].
  apply andb_true_iff in Hn' as [Hne Hid].
  destruct n as [|c n]; [discriminate|]. cbn [forallb] in Hid. apply andb_true_iff in Hid as [Hc _].
  destruct (fname_facts c Hc) as (Hsp&_&_&Hh&Hz).
  replace ((func_head (c :: n) ++ lead ++ render_body b ++ [cRB]) ++ cNL :: T')
    with (func_head (c :: n) ++ (lead ++ render_body b ++ cRB :: cNL :: T'))
    by (rewrite <- !app_assoc; reflexivity).
  rewrite process_scope_S.
  assert (Ehd : suf (mkcur p (func_head (c :: n) ++ lead ++ render_body b ++ cRB :: cNL :: T'))
                = c :: (n ++ [cSP; cLP; cRP; cSP; cNL; cLB]) ++ lead ++ render_body b ++ cRB :: cNL :: T')
    by reflexivity.
  rewrite Ehd. rewrite Hz, Hsp, Hh. rewrite is_function_head by assumption.
  cbn [suf].
  replace m with (length lead + (m - length lead))%nat at 1 by (unfold func_head in Hm; rewrite app_length in Hm; lia).
  rewrite ps_ws by (assumption || reflexivity).
  destruct (PB g b (m - length lead)%nat (lastp (Some cLB) lead) (cNL :: T')
              (lead ++ render_body b ++ cRB :: cNL :: T') [] Hb
              ltac:(unfold func_head in Hm; rewrite app_length in Hm; lia)) as [o Ho].
  rewrite Ho. cbn [bind fst]. rewrite adv1_cons. cbn [dropf].
  match goal with
  | |- process_scope _ _ ?c1 _ _ _ _ ?w1 _ = process_scope _ _ ?c2 _ _ _ _ ?w2 _ =>
      assert (E1 : c1 = c2); [|assert (E2 : w1 = w2); [|rewrite E1, E2; reflexivity]]
  end.
  - f_equal. unfold lastp. cbn [app fold_left]. rewrite ?fold_left_app. cbn [fold_left]. reflexivity.
  - try (destruct vm as [fv|]; [destruct (fv _)|]; reflexivity);
    try (destruct fm as [ff|]; [destruct (ff _)|]; reflexivity).
Qed.

(* the newline after a definition *)
Lemma ps_newline n q T' vm fm ws we out :
  process_scope g (S n) (mkcur q (cNL :: T')) cNUL vm fm ws we out =
  process_scope g n (mkcur (Some cNL) T') cNUL vm fm
    (match we with Some _ => cNL :: T' | None => ws end) None
    (match we with Some e => out ++ slice ws e | None => out end).
Proof. rewrite process_scope_S. reflexivity. Qed.

Lemma render_cons d ds : render (d :: ds) = render_def d ++ cNL :: render ds.
Proof. unfold render. cbn [flat_map]. rewrite <- app_assoc. reflexivity. Qed.

Definition out_of (r : res (cur * str)) : option str :=
  match r with Ok (_, o) => Some o | _ => None end.

Lemma TL ds : Forall STEP ds ->
  forall n p ws we out A vm fm,
  ws = A ++ (match we with Some e => e | None => render ds ++ [cNUL] end) ->
  (n > 2 * length (render ds ++ [cNUL]))%nat ->
  out_of (process_scope g n (mkcur p (render ds ++ [cNUL])) cNUL vm fm ws we out)
  = Some (out ++ A ++ expected vm fm ds).
Proof.
  induction 1 as [|d ds Hd _ IH]; intros n p ws we out A vm fm Hws Hn.
  - destruct n as [|n]; [cbn in Hn; lia|]. rewrite process_scope_S. cbn [render flat_map app suf].
    change (cNUL =? cNUL) with true. cbn iota. cbn [out_of]. f_equal. f_equal.
    subst ws. destruct we; cbn [expected flat_map]; rewrite slice_app; now rewrite app_nil_r.
  - rewrite render_cons in *. rewrite <- app_assoc in *. cbn [app] in *.
    rewrite app_length in Hn. cbn [length] in Hn.
    assert (HL : (length (render ds ++ [cNUL]) >= 1)%nat) by (rewrite app_length; cbn; lia).
    destruct n as [|n]; [lia|]. rewrite Hd by lia.
    destruct n as [|n]; [lia|]. rewrite ps_newline.
    set (T' := render ds ++ [cNUL]) in *.
    set (X := render_def d) in *.
    cbn [expected flat_map]. fold (expected vm fm ds).
    destruct (dropf vm fm d); cbv iota.
    + (* dropped: the window is closed at the start of the definition *)
      erewrite (IH _ _ _ _ _ [cNL] _ _); [|reflexivity|lia].
      f_equal. subst ws. destruct we. Show. all: cbv iota. Show.
Abort.
End Top.
