(* Witness_C05.v — constructive witnesses for atom.intersects. *)
From Coq Require Import List NArith ZArith Bool Lia.
Import ListNotations.
From Verif Require Import Base.Val gen.Tables_C01 C01.Model_C01 C01.Spec_C01 C01.Proofs_C01 C01.Grammar_C01 C01.Prop_C01
  C04.Model_C04 C04.Spec_C04 C04.Proofs_C04 C05.Model_C05 C05.Spec_C05 C05.Proofs_C05 C05.Cells_C05.

(* ------------------------------------------------------------------ perturbations of a version *)
Definition s_alpha : str := [95; 97; 108; 112; 104; 97]%N.        (* "_alpha" *)

(* same text: the revisions decide *)
Lemma ver_cmp_same v r s : ver_cmp v r v s = rev_cmp r s.
Proof. unfold ver_cmp, ver_cmp_gen. rewrite str_eqb_refl. reflexivity. Qed.

Lemma split_app_gen c a b : split_on c (a ++ c :: b) = split_on c a ++ split_on c b.
Proof.
  induction a as [|x a IH]; cbn.
  - rewrite N.eqb_refl. reflexivity.
  - destruct (N.eqb x c); [rewrite IH; reflexivity|].
    rewrite IH. destruct (split_on c a) as [|h t] eqn:E; [|reflexivity].
    exfalso. exact (split_nonempty c a E).
Qed.

Lemma split_alpha v : split_on 95 (v ++ s_alpha) = split_on 95 v ++ [[97; 108; 112; 104; 97]%N].
Proof. unfold s_alpha. rewrite split_app_gen. reflexivity. Qed.

Lemma suf_loop_extra l x : suf_loop (l ++ [x]) l =
  let '(n, d) := parse_suffix x in
  let v := suffix_val n in
  if negb (Z.eqb v 0) then Some (cmpZ v 0) else Some (cmpN (suffix_num d) 0).
Proof.
  induction l as [|y l IH]; cbn; [reflexivity|]. rewrite str_eqb_refl. exact IH.
Qed.

Lemma str_eqb_app_ne v x c : str_eqb (v ++ c :: x) v = false.
Proof.
  destruct (str_eqb (v ++ c :: x) v) eqn:E; [|reflexivity]. apply str_eqb_eq in E.
  apply (f_equal (@length N)) in E. rewrite app_length in E. cbn in E. lia.
Qed.

(* v_alpha is strictly below v, whatever the revisions *)
Lemma ver_cmp_alpha_below v r s : ver_cmp (v ++ s_alpha) r v s = (-1)%Z.
Proof.
  unfold ver_cmp, ver_cmp_gen. unfold s_alpha at 1. rewrite str_eqb_app_ne.
  rewrite split_alpha.
  destruct (split_on 95 v) as [|h t] eqn:E; [exfalso; exact (split_nonempty 95 v E)|].
  cbn [hd tl app]. unfold num_cmp. rewrite str_eqb_refl. cbn [Z.eqb negb].
  rewrite suf_loop_extra. vm_compute. reflexivity.
Qed.

Lemma is_version_alpha v : is_version v -> is_version (v ++ s_alpha).
Proof.
  intro H. apply valid_version_iff in H. apply valid_version_iff.
  unfold valid_version_core in *. rewrite split_alpha.
  destruct (split_on 95 v) as [|h t] eqn:E; [discriminate|]. cbn [app].
  apply andb_true_iff in H as [H1 H2]. rewrite H1. cbn. rewrite forallb_app, H2. vm_compute. reflexivity.
Qed.

(* ------------------------------------------------------------------ candidate witnesses *)
(* decimal text of a revision number (only for the fullver text of a bumped revision; no operator
   but `=*` reads fullver, and a glob is always matched on an atom's own text) *)
Fixpoint dec_digits (fuel : nat) (n : N) (acc : str) : str :=
  match fuel with
  | O => acc
  | S f => let acc' := (48 + N.modulo n 10)%N :: acc in
           if N.eqb (N.div n 10) 0 then acc' else dec_digits f (N.div n 10) acc'
  end.
Definition dec_text (n : N) : str := dec_digits (S (N.to_nat (N.log2 n))) n [].

Definition vtriple := (str * option N * str)%type.        (* version, revision, fullver *)
Definition own (x : atom) : vtriple := (a_ver x, a_rev x, fullver_of x).
Definition above (x : atom) : vtriple :=
  let n := (rev_val (a_rev x) + 1)%N in (a_ver x, Some n, a_ver x ++ [45; 114]%N ++ dec_text n).
Definition below (x : atom) : vtriple := (a_ver x ++ s_alpha, None, a_ver x ++ s_alpha).
Definition candidates (a b : atom) : list vtriple := [own a; own b; above a; above b; below a; below b].

Definition MvT (a : atom) (w : vtriple) : bool := Mv ver_cmp a (fst (fst w)) (snd (fst w)) (snd w).

(* the witness: the first candidate both version restrictions accept *)
Definition version_witness (a b : atom) : vtriple :=
  match find (fun w => MvT a w && MvT b w) (candidates a b) with Some w => w | None => own a end.

Lemma version_witness_ok a b :
  (exists w, In w (candidates a b) /\ MvT a w = true /\ MvT b w = true) ->
  MvT a (version_witness a b) = true /\ MvT b (version_witness a b) = true.
Proof.
  intros [w [Hin [H1 H2]]]. unfold version_witness.
  destruct (find _ _) as [w'|] eqn:E.
  - apply find_some in E as [_ E]. apply andb_true_iff in E. exact E.
  - exfalso. pose proof (find_none _ _ E w Hin) as N. cbv beta in N. rewrite H1, H2 in N. discriminate.
Qed.

(* ---- what each candidate satisfies *)
Definition versioned_wf (x : atom) : Prop := a_fullver x = Some (fullver_of x).

Lemma wf_versioned x : wf_atom x = true -> a_op x <> 7%N -> versioned_wf x.
Proof.
  intros H N7. unfold wf_atom in H. apply andb_true_iff in H as [H _]. apply andb_true_iff in H as [_ H].
  unfold versioned_wf, fullver_of. destruct (a_fullver x); [reflexivity|]. cbn in H.
  destruct (N.eqb (a_op x) 7) eqn:E; [apply N.eqb_eq in E; contradiction|discriminate].
Qed.

Lemma MvT_unversioned x w : a_fullver x = None -> MvT x w = true.
Proof. intro H. unfold MvT, Mv. rewrite H. reflexivity. Qed.

Lemma MvT_nonglob x w : versioned_wf x -> a_op x <> 6%N ->
  MvT x w = vmatch ver_cmp (a_op x) false (a_ver x) (a_rev x) (fst (fst w)) (snd (fst w)).
Proof.
  intros H N6. unfold MvT, Mv. rewrite H. destruct (N.eqb (a_op x) 6) eqn:E; [apply N.eqb_eq in E; contradiction|reflexivity].
Qed.

Lemma MvT_glob x w : versioned_wf x -> a_op x = 6%N -> MvT x w = startswith (snd w) (fullver_of x).
Proof. intros H E. unfold MvT, Mv. rewrite H, E. reflexivity. Qed.

Lemma rev_cmp_refl r : rev_cmp r r = 0%Z.
Proof. unfold rev_cmp, cmpN. rewrite N.compare_refl. reflexivity. Qed.
Lemma rev_cmp_succ r : rev_cmp (Some (rev_val r + 1)%N) r = 1%Z.
Proof. unfold rev_cmp, cmpN. cbn [rev_val]. destruct (N.compare_spec (rev_val r + 1) (rev_val r)); try lia. reflexivity. Qed.

Lemma own_ok x : versioned_wf x ->
  (a_op x = 1 \/ a_op x = 2 \/ a_op x = 3 \/ a_op x = 5 \/ a_op x = 6)%N -> MvT x (own x) = true.
Proof.
  intros W [E|[E|[E|[E|E]]]]; try (rewrite MvT_nonglob by (try exact W; rewrite E; discriminate);
    unfold vmatch, own; rewrite E; cbn; rewrite ver_cmp_same, ?rev_cmp_refl; reflexivity).
  rewrite (MvT_glob _ _ W E). apply startswith_refl.
Qed.

Lemma above_ok x : versioned_wf x -> (a_op x = 3 \/ a_op x = 4 \/ a_op x = 5)%N -> MvT x (above x) = true.
Proof.
  intros W [E|[E|E]]; rewrite MvT_nonglob by (try exact W; rewrite E; discriminate);
    unfold vmatch, above; rewrite E; cbn; rewrite ver_cmp_same, ?rev_cmp_succ, ?rev_cmp_refl; reflexivity.
Qed.

Lemma below_ok x : versioned_wf x -> (a_op x = 0 \/ a_op x = 1)%N -> MvT x (below x) = true.
Proof.
  intros W [E|E]; rewrite MvT_nonglob by (try exact W; rewrite E; discriminate);
    unfold vmatch, below; rewrite E; cbn; rewrite ver_cmp_alpha_below; reflexivity.
Qed.

(* an atom alone: one of its own three candidates *)
Lemma solo_ok x : versioned_wf x -> (a_op x <= 6)%N ->
  exists w, In w [own x; above x; below x] /\ MvT x w = true.
Proof.
  intros W L.
  assert (C : (a_op x = 0 \/ a_op x = 1 \/ a_op x = 2 \/ a_op x = 3 \/ a_op x = 4 \/ a_op x = 5 \/ a_op x = 6)%N) by lia.
  destruct C as [E|[E|[E|[E|[E|[E|E]]]]]].
  - exists (below x). split; [cbn; auto|apply below_ok; auto].
  - exists (own x). split; [cbn; auto|apply own_ok; auto].
  - exists (own x). split; [cbn; auto|apply own_ok; auto].
  - exists (own x). split; [cbn; auto|apply own_ok; auto].
  - exists (above x). split; [cbn; auto|apply above_ok; auto].
  - exists (own x). split; [cbn; auto|apply own_ok; auto 6].
  - exists (own x). split; [cbn; auto|apply own_ok; auto 6].
Qed.

(* ------------------------------------------------------------------ the cells *)
Definition Wit (a b : atom) : Prop :=
  exists w, In w (candidates a b) /\ MvT a w = true /\ MvT b w = true.

Lemma Wit_sym a b : Wit b a -> Wit a b.
Proof.
  intros [w [Hin [H1 H2]]]. exists w. split; [|split; assumption].
  unfold candidates in *. cbn in *. intuition.
Qed.

Ltac vp_simpl Ea Eb :=
  unfold version_part, unversioned, has_lt, has_gt, is_ranged, has_lt, has_gt in *;
  rewrite ?Ea, ?Eb in *; cbn in *; rewrite ?Ea, ?Eb in *; cbn in *; rewrite ?Ea, ?Eb in *; cbn in *.

Ltac cand n := match n with
  | 1 => left | 2 => right; left | 3 => right; right; left | 4 => right; right; right; left
  | 5 => right; right; right; right; left | 6 => right; right; right; right; right; left end; reflexivity.

(* one of the atoms is unversioned *)
Lemma wit_unversioned a b :
  a_fullver a = None -> (a_fullver b = None \/ (versioned_wf b /\ (a_op b <= 6)%N)) -> Wit a b.
Proof.
  intros Ua [Ub|[Wb Lb]].
  - exists (own a). split; [cand 1|]. split; apply MvT_unversioned; assumption.
  - destruct (solo_ok b Wb Lb) as [w [Hin Hw]]. exists w. split; [|split; [apply MvT_unversioned; exact Ua|exact Hw]].
    unfold candidates. cbn in *. intuition.
Qed.

(* `=` against anything versioned: its own version *)
Lemma wit_eq a b :
  versioned_wf a -> versioned_wf b -> a_op a = 2%N -> (a_op b <= 6)%N ->
  version_part ver_cmp a b = true -> Wit a b.
Proof.
  intros Wa Wb Ea Lb H. exists (own a). split; [cand 1|]. split; [apply own_ok; auto|].
  destruct (N.eq_dec (a_op b) 6) as [Eb|Nb].
  - rewrite (MvT_glob _ _ Wb Eb). vp_simpl Ea Eb. exact H.
  - rewrite (MvT_nonglob _ _ Wb Nb).
    assert (C : (a_op b = 0 \/ a_op b = 1 \/ a_op b = 2 \/ a_op b = 3 \/ a_op b = 4 \/ a_op b = 5)%N) by lia.
    destruct C as [Eb|[Eb|[Eb|[Eb|[Eb|Eb]]]]]; vp_simpl Ea Eb; unfold vm in H; rewrite ?Eb in H; exact H.
Qed.

Lemma ord3 v1 v2 v3 r1 r2 r3 : is_version v1 -> is_version v2 -> is_version v3 ->
    (ver_cmp v1 r1 v2 r2 = (-1)%Z \/ ver_cmp v1 r1 v2 r2 = 0%Z \/ ver_cmp v1 r1 v2 r2 = 1%Z)
    /\ ver_cmp v1 r1 v1 r1 = 0%Z
    /\ ver_cmp v2 r2 v1 r1 = (- ver_cmp v1 r1 v2 r2)%Z
    /\ ((ver_cmp v1 r1 v2 r2 <= 0)%Z -> (ver_cmp v2 r2 v3 r3 <= 0)%Z -> (ver_cmp v1 r1 v3 r3 <= 0)%Z)
    /\ (ver_cmp v1 r1 v2 r2 = 0%Z -> ver_cmp v1 r1 v3 r3 = ver_cmp v2 r2 v3 r3).
Proof. apply ver_cmp_total_preorder. Qed.

(* w < m and m <= o  imply  w < o *)
Lemma lt_le_trans w rw m rm o ro : is_version w -> is_version m -> is_version o ->
  ver_cmp w rw m rm = (-1)%Z -> (ver_cmp m rm o ro <= 0)%Z -> ver_cmp w rw o ro = (-1)%Z.
Proof.
  intros Vw Vm Vo H1 H2.
  destruct (ord3 w m o rw rm ro Vw Vm Vo) as [_ [_ [A1 [T1 _]]]].
  destruct (ord3 w o m rw ro rm Vw Vo Vm) as [S2 [_ [A2 [_ C2]]]].
  destruct (ord3 m o w rm ro rw Vm Vo Vw) as [_ [_ [A3 _]]].
  lia.
Qed.
Lemma gt_ge_trans w rw m rm o ro : is_version w -> is_version m -> is_version o ->
  ver_cmp w rw m rm = 1%Z -> (0 <= ver_cmp m rm o ro)%Z -> ver_cmp w rw o ro = 1%Z.
Proof.
  intros Vw Vm Vo H1 H2.
  destruct (ord3 o m w ro rm rw Vo Vm Vw) as [_ [_ [A1 [T1 _]]]].
  destruct (ord3 w o m rw ro rm Vw Vo Vm) as [S2 [_ [A2 [_ C2]]]].
  destruct (ord3 m o w rm ro rw Vm Vo Vw) as [_ [_ [A3 _]]].
  destruct (ord3 w m o rw rm ro Vw Vm Vo) as [_ [_ [A4 _]]].
  lia.
Qed.

Lemma mem_lower op c : (op = 0 \/ op = 1)%N -> c = (-1)%Z -> memZ c (opv op) = true.
Proof. intros [->| ->] ->; reflexivity. Qed.
Lemma mem_upper op c : (op = 3 \/ op = 4)%N -> c = 1%Z -> memZ c (opv op) = true.
Proof. intros [->| ->] ->; reflexivity. Qed.

(* both bounded above: just below the smaller bound *)
Lemma wit_lower a b :
  versioned_wf a -> versioned_wf b -> is_version (a_ver a) -> is_version (a_ver b) ->
  (a_op a = 0 \/ a_op a = 1)%N -> (a_op b = 0 \/ a_op b = 1)%N -> Wit a b.
Proof.
  intros Wa Wb Va Vb Oa Ob.
  assert (Na : a_op a <> 6%N) by lia. assert (Nb : a_op b <> 6%N) by lia.
  destruct (ord3 (a_ver a) (a_ver b) (a_ver a) (a_rev a) (a_rev b) (a_rev a) Va Vb Va) as [S [_ [A _]]].
  destruct (Z_le_gt_dec (ver_cmp (a_ver a) (a_rev a) (a_ver b) (a_rev b)) 0) as [Le|Gt].
  - exists (below a). split; [cand 5|]. split; [apply below_ok; auto|].
    rewrite (MvT_nonglob _ _ Wb Nb). unfold vmatch, below. cbn [fst snd].
    replace (op_droprev (a_op b)) with false by (destruct Ob as [-> | ->]; reflexivity).
    rewrite xorb_false_r. apply mem_lower; [exact Ob|].
    apply (lt_le_trans _ _ (a_ver a) (a_rev a)); auto using is_version_alpha, ver_cmp_alpha_below.
  - exists (below b). split; [cand 6|]. split; [|apply below_ok; auto].
    rewrite (MvT_nonglob _ _ Wa Na). unfold vmatch, below. cbn [fst snd].
    replace (op_droprev (a_op a)) with false by (destruct Oa as [-> | ->]; reflexivity).
    rewrite xorb_false_r. apply mem_lower; [exact Oa|].
    apply (lt_le_trans _ _ (a_ver b) (a_rev b)); auto using is_version_alpha, ver_cmp_alpha_below. lia.
Qed.

(* both bounded below: the next revision of the larger bound *)
Lemma wit_upper a b :
  versioned_wf a -> versioned_wf b -> is_version (a_ver a) -> is_version (a_ver b) ->
  (a_op a = 3 \/ a_op a = 4)%N -> (a_op b = 3 \/ a_op b = 4)%N -> Wit a b.
Proof.
  intros Wa Wb Va Vb Oa Ob.
  assert (Na : a_op a <> 6%N) by lia. assert (Nb : a_op b <> 6%N) by lia.
  destruct (ord3 (a_ver a) (a_ver b) (a_ver a) (a_rev a) (a_rev b) (a_rev a) Va Vb Va) as [S [_ [A _]]].
  destruct (Z_le_gt_dec 0 (ver_cmp (a_ver a) (a_rev a) (a_ver b) (a_rev b))) as [Ge|Lt].
  - exists (above a). split; [cand 3|]. split; [apply above_ok; [assumption|lia]|].
    rewrite (MvT_nonglob _ _ Wb Nb). unfold vmatch, above. cbn [fst snd].
    replace (op_droprev (a_op b)) with false by (destruct Ob as [-> | ->]; reflexivity).
    rewrite xorb_false_r. apply mem_upper; [exact Ob|].
    apply (gt_ge_trans _ _ (a_ver a) (a_rev a)); auto. rewrite ver_cmp_same. apply rev_cmp_succ.
  - exists (above b). split; [cand 4|]. split; [|apply above_ok; [assumption|lia]].
    rewrite (MvT_nonglob _ _ Wa Na). unfold vmatch, above. cbn [fst snd].
    replace (op_droprev (a_op a)) with false by (destruct Oa as [-> | ->]; reflexivity).
    rewrite xorb_false_r. apply mem_upper; [exact Oa|].
    apply (gt_ge_trans _ _ (a_ver b) (a_rev b)); auto. rewrite ver_cmp_same. apply rev_cmp_succ. lia.
Qed.

(* opposite directions.  [lo] is >= or >, [hi] is <= or < *)
Definition nonadjacent (lo hi : atom) : Prop :=
  ver_cmp (a_ver lo) None (a_ver hi) None <> 0%Z
  \/ rev_val (a_rev hi) <> (rev_val (a_rev lo) + 1)%N.

Lemma wit_opposite lo hi :
  versioned_wf lo -> versioned_wf hi ->
  (a_op lo = 3 \/ a_op lo = 4)%N -> (a_op hi = 0 \/ a_op hi = 1)%N ->
  (a_op lo = 4%N -> a_op hi = 0%N -> nonadjacent lo hi) ->
  version_part ver_cmp lo hi = true -> Wit lo hi.
Proof.
  intros Wl Wh Ol Oh Hna H.
  assert (Nl : a_op lo <> 6%N) by lia. assert (Nh : a_op hi <> 6%N) by lia.
  assert (Hv : vm ver_cmp hi lo = true /\ vm ver_cmp lo hi = true).
  { destruct Ol as [El|El]; destruct Oh as [Eh|Eh]; vp_simpl El Eh; apply andb_true_iff in H; exact H. }
  destruct Hv as [H1 H2].
  destruct Ol as [El|El].
  - (* >= : lo's own version *)
    exists (own lo). split; [cand 1|]. split; [apply own_ok; auto|].
    rewrite (MvT_nonglob _ _ Wh Nh). exact H1.
  - destruct Oh as [Eh|Eh].
    + (* > against < : the next revision of lo *)
      exists (above lo). split; [cand 3|]. split; [apply above_ok; auto|].
      rewrite (MvT_nonglob _ _ Wh Nh). unfold vmatch, above. rewrite Eh. cbn.
      rewrite xorb_false_r, orb_false_r. apply Z.eqb_eq.
      unfold vm, vmatch in H1. rewrite Eh in H1. cbn in H1. rewrite xorb_false_r, orb_false_r in H1.
      apply Z.eqb_eq in H1.
      destruct (ver_cmp_shape (a_ver lo) (a_ver hi)) as [[c|] Hk]; rewrite Hk in *; [exact H1|].
      specialize (Hna El Eh). destruct Hna as [Hna|Hna]; [rewrite Hk in Hna; contradiction|].
      unfold rev_cmp, cmpN in *. cbn [rev_val].
      destruct (N.compare_spec (rev_val (a_rev lo)) (rev_val (a_rev hi))); cbn in H1; try discriminate.
      destruct (N.compare_spec (rev_val (a_rev lo) + 1) (rev_val (a_rev hi))); try reflexivity; lia.
    + (* <= : hi's own version *)
      exists (own hi). split; [cand 2|]. split; [|apply own_ok; auto].
      rewrite (MvT_nonglob _ _ Wl Nl). exact H2.
Qed.

Lemma wit_tilde_tilde a b :
  versioned_wf a -> versioned_wf b -> a_op a = 5%N -> a_op b = 5%N ->
  version_part ver_cmp a b = true -> Wit a b.
Proof.
  intros Wa Wb Ea Eb H. vp_simpl Ea Eb. apply andb_true_iff in H as [H _]. apply str_eqb_eq in H.
  exists (own a). split; [cand 1|]. split; [apply own_ok; auto|].
  rewrite (MvT_nonglob _ _ Wb) by (rewrite Eb; discriminate).
  unfold vmatch, own. rewrite Eb, H. cbn. rewrite ver_cmp_same. reflexivity.
Qed.

Lemma wit_glob_glob a b :
  versioned_wf a -> versioned_wf b -> a_op a = 6%N -> a_op b = 6%N ->
  version_part ver_cmp a b = true -> Wit a b.
Proof.
  intros Wa Wb Ea Eb H. vp_simpl Ea Eb. apply orb_true_iff in H as [H|H].
  - exists (own a). split; [cand 1|]. split; [apply own_ok; auto 6|]. rewrite (MvT_glob _ _ Wb Eb). exact H.
  - exists (own b). split; [cand 2|]. split; [|apply own_ok; auto 6]. rewrite (MvT_glob _ _ Wa Ea). exact H.
Qed.

(* a glob WITHOUT a revision against `~`: the `~` atom's own version *)
Lemma wit_glob_tilde g t :
  versioned_wf g -> versioned_wf t -> a_op g = 6%N -> a_op t = 5%N -> fullver_of g = a_ver g ->
  version_part ver_cmp g t = true -> Wit g t.
Proof.
  intros Wg Wt Eg Et Hf H. vp_simpl Eg Et.
  exists (own t). split; [cand 2|]. split; [|apply own_ok; auto 6].
  rewrite (MvT_glob _ _ Wg Eg), Hf. exact H.
Qed.

(* a ranged operator against `~` *)
Lemma wit_ranged_tilde r t :
  versioned_wf r -> versioned_wf t -> (a_op r = 0 \/ a_op r = 1 \/ a_op r = 3 \/ a_op r = 4)%N -> a_op t = 5%N ->
  version_part ver_cmp r t = true -> Wit r t.
Proof.
  intros Wr Wt Or Et H.
  assert (Nr : a_op r <> 6%N) by lia.
  assert (Hv : vm ver_cmp r t = true \/ ((a_op r = 3 \/ a_op r = 4)%N /\ vm ver_cmp t r = true)).
  { destruct Or as [Er|[Er|[Er|Er]]]; vp_simpl Er Et; rewrite ?orb_false_r in H; auto;
      apply orb_true_iff in H as [H|H]; auto. }
  destruct Hv as [H1|[Og H2]].
  - exists (own t). split; [cand 2|]. split; [|apply own_ok; auto 6].
    rewrite (MvT_nonglob _ _ Wr Nr). exact H1.
  - exists (above r). split; [cand 3|]. split; [apply above_ok; [assumption|lia]|].
    rewrite (MvT_nonglob _ _ Wt) by (rewrite Et; discriminate).
    unfold vm, vmatch in H2. unfold vmatch, above. rewrite Et in *. cbn in *. exact H2.
Qed.

(* a ranged operator against a glob whose own version is in the range *)
Lemma wit_ranged_glob r g :
  versioned_wf r -> versioned_wf g -> (a_op r = 0 \/ a_op r = 1 \/ a_op r = 3 \/ a_op r = 4)%N -> a_op g = 6%N ->
  vm ver_cmp r g = true -> Wit r g.
Proof.
  intros Wr Wg Or Eg H. assert (Nr : a_op r <> 6%N) by lia.
  exists (own g). split; [cand 2|]. split; [|apply own_ok; auto 6].
  rewrite (MvT_nonglob _ _ Wr Nr). exact H.
Qed.

(* ------------------------------------------------------------------ all cells together *)
(* the premises that exclude the recorded unwitnessed classes (adjacent revisions; a glob with a
   revision against `~`) and the part not proved (a ranged operator against a glob is covered only
   when the glob's own version lies in the range) *)
Definition wit_premise (a b : atom) : Prop :=
  (a_op a = 4%N -> a_op b = 0%N -> nonadjacent a b) /\ (a_op b = 4%N -> a_op a = 0%N -> nonadjacent b a)
  /\ (a_op a = 6%N -> a_op b = 5%N -> fullver_of a = a_ver a)
  /\ (a_op b = 6%N -> a_op a = 5%N -> fullver_of b = a_ver b)
  /\ (a_op a = 6%N -> is_ranged b = true -> vm ver_cmp b a = true)
  /\ (a_op b = 6%N -> is_ranged a = true -> vm ver_cmp a b = true).

Lemma wf_unversioned x : wf_atom x = true -> a_op x = 7%N -> a_fullver x = None.
Proof.
  intros H E. unfold wf_atom in H. apply andb_true_iff in H as [H _]. apply andb_true_iff in H as [_ H].
  rewrite E in H. cbn in H. destruct (a_fullver x); [discriminate|reflexivity].
Qed.
Lemma wf_op_le x : wf_atom x = true -> (a_op x <= 7)%N.
Proof.
  intros H. unfold wf_atom in H. apply andb_true_iff in H as [H _]. apply andb_true_iff in H as [H _].
  apply N.leb_le in H. exact H.
Qed.

Lemma vp_sym a b : wf_atom a = true -> wf_atom b = true -> a_op a <> 2%N ->
  version_part ver_cmp a b = version_part ver_cmp b a.
Proof.
  intros Wa Wb N2. apply version_part_sym; [intros E; contradiction|apply wf_op_le; assumption|apply wf_op_le; assumption].
Qed.

Lemma version_witnessed_cells : forall a b,
  wf_atom a = true -> wf_atom b = true ->
  (a_op a <> 7%N -> is_version (a_ver a)) -> (a_op b <> 7%N -> is_version (a_ver b)) ->
  wit_premise a b ->
  version_part ver_cmp a b = true -> Wit a b.
Proof.
  intros a b Wa Wb Va Vb [P1 [P2 [P3 [P4 [P5 P6]]]]] H.
  pose proof (wf_op_le a Wa) as La. pose proof (wf_op_le b Wb) as Lb.
  destruct (N.eq_dec (a_op a) 7) as [Ua|Na].
  { apply wit_unversioned; [apply wf_unversioned; assumption|].
    destruct (N.eq_dec (a_op b) 7) as [Ub|Nb]; [left; apply wf_unversioned; assumption|].
    right. split; [apply wf_versioned; assumption|lia]. }
  destruct (N.eq_dec (a_op b) 7) as [Ub|Nb].
  { apply Wit_sym. apply wit_unversioned; [apply wf_unversioned; assumption|].
    right. split; [apply wf_versioned; assumption|lia]. }
  pose proof (wf_versioned a Wa Na) as Fa. pose proof (wf_versioned b Wb Nb) as Fb.
  specialize (Va Na). specialize (Vb Nb).
  destruct (N.eq_dec (a_op a) 2) as [Ea|Ne].
  { apply wit_eq; try assumption. lia. }
  destruct (N.eq_dec (a_op b) 2) as [Eb|Neb].
  { apply Wit_sym. apply wit_eq; try assumption; [lia|]. rewrite <- (vp_sym a b); assumption. }
  assert (Ka : ((a_op a = 0 \/ a_op a = 1) \/ (a_op a = 3 \/ a_op a = 4) \/ a_op a = 5 \/ a_op a = 6)%N) by lia.
  assert (Kb : ((a_op b = 0 \/ a_op b = 1) \/ (a_op b = 3 \/ a_op b = 4) \/ a_op b = 5 \/ a_op b = 6)%N) by lia.
  assert (Hs : version_part ver_cmp b a = true) by (rewrite <- (vp_sym a b); assumption).
  destruct Ka as [Ka|[Ka|[Ka|Ka]]]; destruct Kb as [Kb|[Kb|[Kb|Kb]]].
  - apply wit_lower; assumption.
  - apply Wit_sym. apply wit_opposite; assumption.
  - apply wit_ranged_tilde; try assumption. lia.
  - apply wit_ranged_glob; try assumption; [lia|]. apply P6; [assumption|].
    unfold is_ranged, has_lt, has_gt. destruct Ka as [-> | ->]; reflexivity.
  - apply wit_opposite; assumption.
  - apply wit_upper; assumption.
  - apply wit_ranged_tilde; try assumption. lia.
  - apply wit_ranged_glob; try assumption; [lia|]. apply P6; [assumption|].
    unfold is_ranged, has_lt, has_gt. destruct Ka as [-> | ->]; reflexivity.
  - apply Wit_sym. apply wit_ranged_tilde; try assumption. lia.
  - apply Wit_sym. apply wit_ranged_tilde; try assumption. lia.
  - apply wit_tilde_tilde; assumption.
  - apply Wit_sym. apply wit_glob_tilde; try assumption. apply P4; assumption.
  - apply Wit_sym. apply wit_ranged_glob; try assumption; [lia|]. apply P5; [assumption|].
    unfold is_ranged, has_lt, has_gt. destruct Kb as [-> | ->]; reflexivity.
  - apply Wit_sym. apply wit_ranged_glob; try assumption; [lia|]. apply P5; [assumption|].
    unfold is_ranged, has_lt, has_gt. destruct Kb as [-> | ->]; reflexivity.
  - apply wit_glob_tilde; try assumption. apply P3; assumption.
  - apply wit_glob_glob; assumption.
Qed.

(* ------------------------------------------------------------------ the witness package *)
Definition pick (x y : option str) (d : str) : str :=
  match x with Some s => s | None => match y with Some s => s | None => d end end.
Definition toks_of (a : atom) : list str := match a_use a with Some t => t | None => [] end.
Definition pos_flags (toks : list str) : list str :=
  flat_map (fun t => let '(_, s, f) := parse_use_token t in if s then [f] else []) toks.
Definition neg_flags (toks : list str) : list str :=
  flat_map (fun t => let '(_, s, f) := parse_use_token t in if s then [] else [f]) toks.
Definition all_flags (toks : list str) : list str := map (fun t => snd (parse_use_token t)) toks.

(* category/name of the atoms, the perturbed version, the slot / sub-slot / repository either atom
   asks for, every flag either atom mentions in IUSE, the positively required ones enabled *)
Definition witness (a b : atom) : package :=
  let w := version_witness a b in
  let T := toks_of a ++ toks_of b in
  {| p_cat := a_cat a; p_pkg := a_pkg a;
     p_ver := fst (fst w); p_rev := snd (fst w); p_fullver := snd w;
     p_slot := pick (a_slot a) (a_slot b) [48]%N;
     p_subslot := pick (a_subslot a) (a_subslot b) [48]%N;
     p_repo := pick (a_repo a) (a_repo b) [103]%N;
     p_use := pos_flags T; p_iuse := all_flags T |}.

(* no flag is required both on and off (excludes the recorded class
   unwitnessed-use-default-hidden-conflict and self-contradictory atoms) *)
Definition use_consistent (a b : atom) : bool :=
  let T := toks_of a ++ toks_of b in
  forallb (fun f => negb (smem f (pos_flags T))) (neg_flags T).

Lemma In_smem x l : In x l -> smem x l = true.
Proof. intro H. unfold smem. apply existsb_exists. exists x. split; [exact H|apply str_eqb_refl]. Qed.
Lemma smem_false x l : ~ In x l -> smem x l = false.
Proof. intro H. destruct (smem x l) eqn:E; [|reflexivity]. apply smem_In in E. contradiction. Qed.

Lemma group_sign d s toks f : In f (group d s toks) ->
  In f (if s then pos_flags toks else neg_flags toks) /\ In f (all_flags toks).
Proof.
  unfold group, pos_flags, neg_flags, all_flags. intro H. apply in_map_iff in H as [t [Ef Ht]].
  apply filter_In in Ht as [Ht Hc]. destruct (parse_use_token t) as [[d' s'] f'] eqn:E. cbn in Ef. subst f'.
  apply andb_true_iff in Hc as [_ Hs]. apply Bool.eqb_prop in Hs. subst s'. split.
  - destruct s; apply in_flat_map; exists t; (split; [exact Ht|rewrite E; left; reflexivity]).
  - apply in_map_iff. exists t. split; [rewrite E; reflexivity|exact Ht].
Qed.

Lemma flat_incl {A B} (f : A -> list B) l1 l2 x : (forall t, In t l1 -> In t l2) -> In x (flat_map f l1) -> In x (flat_map f l2).
Proof. intros H Hx. apply in_flat_map in Hx as [t [Ht Hf]]. apply in_flat_map. exists t. split; [apply H; exact Ht|exact Hf]. Qed.

Section UseWitness.
Variables (T : list str).
Hypothesis Hcons : forallb (fun f => negb (smem f (pos_flags T))) (neg_flags T) = true.

Lemma pos_group_ok toks V d : (forall t, In t toks -> In t T) -> V = group d true toks ->
  subset V (pos_flags T) = true /\ subset V (all_flags T) = true.
Proof.
  intros Hin ->. split; apply forallb_forall; intros f Hf; apply In_smem;
    destruct (group_sign _ _ _ _ Hf) as [H1 H2].
  - exact (flat_incl _ _ _ _ Hin H1).
  - unfold all_flags in *. apply in_map_iff in H2 as [t [E Ht]]. apply in_map_iff. exists t. split; [exact E|apply Hin; exact Ht].
Qed.

Lemma neg_group_ok toks V d : (forall t, In t toks -> In t T) -> V = group d false toks -> V <> [] ->
  subset V (pos_flags T) = false /\ subset V (all_flags T) = true.
Proof.
  intros Hin -> Hne. split.
  - destruct (group d false toks) as [|f V'] eqn:E; [contradiction|]. cbn.
    assert (Hf : In f (group d false toks)) by (rewrite E; left; reflexivity).
    destruct (group_sign _ _ _ _ Hf) as [H1 _]. cbn in H1.
    pose proof (flat_incl _ _ _ _ Hin H1) as H1'.
    rewrite forallb_forall in Hcons. specialize (Hcons f H1'). apply negb_true_iff in Hcons. rewrite Hcons. reflexivity.
  - apply forallb_forall; intros f Hf; apply In_smem. destruct (group_sign _ _ _ _ Hf) as [_ H2].
    unfold all_flags in *. apply in_map_iff in H2 as [t [E Ht]]. apply in_map_iff. exists t. split; [exact E|apply Hin; exact Ht].
Qed.

Lemma use_witness_ok vc p toks :
  (forall t, In t toks -> In t T) -> p_use p = pos_flags T -> p_iuse p = all_flags T ->
  forallb (eval_restr vc p) (use_restrictions toks) = true.
Proof.
  intros Hin Eu Ei. rewrite use_restrictions_eval, Eu, Ei.
  unfold static_use_eval, default_use_eval, udc_match, cm_match.
  assert (P : forall d, (if is_nil (group d true toks) then true else xorb (subset (group d true toks) (pos_flags T)) false) = true).
  { intro d. destruct (pos_group_ok toks _ d Hin eq_refl) as [H _]. rewrite H. destruct (is_nil _); reflexivity. }
  assert (Q : forall d, (if is_nil (group d false toks) then true else xorb (subset (group d false toks) (pos_flags T)) true) = true).
  { intro d. destruct (is_nil (group d false toks)) eqn:E; [reflexivity|].
    destruct (neg_group_ok toks _ d Hin eq_refl (is_nil_false _ E)) as [H _]. rewrite H. reflexivity. }
  assert (Pi : forall d, subset (group d true toks) (all_flags T) = true).
  { intro d. destruct (pos_group_ok toks _ d Hin eq_refl) as [_ H]. exact H. }
  assert (Qi : forall d, is_nil (group d false toks) = false -> subset (group d false toks) (all_flags T) = true).
  { intros d E. destruct (neg_group_ok toks _ d Hin eq_refl (is_nil_false _ E)) as [_ H]. exact H. }
  rewrite (P None), (Q None). cbn [andb].
  rewrite !Pi.
  destruct (is_nil (group (Some false) false toks)) eqn:E1; destruct (is_nil (group (Some true) false toks)) eqn:E2;
    rewrite ?(Qi _ E1), ?(Qi _ E2);
    pose proof (P (Some false)) as P1; pose proof (P (Some true)) as P2;
    pose proof (Q (Some false)) as Q1; pose proof (Q (Some true)) as Q2;
    rewrite ?E1, ?E2 in *; rewrite ?P1, ?P2, ?Q1, ?Q2; reflexivity.
Qed.
End UseWitness.

(* ------------------------------------------------------------------ the theorem *)
Lemma atom_match_intro vc x p :
  a_negate_vers x = false ->
  str_eqb (a_cat x) (p_cat p) = true -> str_eqb (a_pkg x) (p_pkg p) = true ->
  opt_eq (a_slot x) (p_slot p) = true -> opt_eq (a_subslot x) (p_subslot p) = true ->
  opt_eq (a_repo x) (p_repo p) = true ->
  Mv vc x (p_ver p) (p_rev p) (p_fullver p) = true ->
  forallb (eval_restr vc p) (match a_use x with Some toks => use_restrictions toks | None => [] end) = true ->
  atom_match vc x p = true.
Proof.
  intros Hn Hc Hp Hs Hss Hr Hv Hu. unfold atom_match, atom_restrictions. rewrite !forallb_app, Hu.
  cbn [forallb eval_restr]. rewrite Hc, Hp. cbn [andb]. rewrite !andb_true_r.
  apply andb_true_iff; split; [destruct (a_repo x); cbn in *; [rewrite Hr|]; reflexivity|].
  apply andb_true_iff; split.
  - unfold Mv in Hv. destruct (a_fullver x); [|reflexivity].
    destruct (N.eqb (a_op x) 6); cbn; rewrite ?Hn, Hv; reflexivity.
  - destruct (a_slot x); [|reflexivity]. cbn in *. rewrite Hs. cbn.
    destruct (a_subslot x); cbn in *; [rewrite Hss|]; reflexivity.
Qed.

Lemma pick_left x y d : opt_eq x (pick x y d) = true.
Proof. destruct x; cbn; [apply str_eqb_refl|reflexivity]. Qed.
Lemma pick_right x y d : both_differ x y = false -> opt_eq y (pick x y d) = true.
Proof.
  destruct x, y; cbn; intros H; try reflexivity; try apply str_eqb_refl.
  apply negb_false_iff in H. rewrite str_eqb_sym. exact H.
Qed.

Lemma intersects_witnessed_partial_proof : forall a b,
  wf_atom a = true -> wf_atom b = true -> a_negate_vers a = false -> a_negate_vers b = false ->
  (a_op a <> 7%N -> is_version (a_ver a)) -> (a_op b <> 7%N -> is_version (a_ver b)) ->
  wit_premise a b -> use_consistent a b = true ->
  intersects ver_cmp a b = true ->
  atom_match ver_cmp a (witness a b) = true /\ atom_match ver_cmp b (witness a b) = true.
Proof.
  intros a b Wa Wb Na Nb Va Vb Hp Hu H.
  unfold intersects in H. destruct (attrs_compatible a b) eqn:Hat; [|discriminate].
  unfold attrs_compatible in Hat.
  apply andb_true_iff in Hat as [Hat _]. apply andb_true_iff in Hat as [Hat Hr].
  apply andb_true_iff in Hat as [Hat Hss]. apply andb_true_iff in Hat as [Hat Hs].
  apply andb_true_iff in Hat as [Hc Hk].
  apply negb_true_iff in Hr, Hss, Hs.
  destruct (version_witness_ok a b (version_witnessed_cells a b Wa Wb Va Vb Hp H)) as [M1 M2].
  unfold use_consistent in Hu.
  split; apply atom_match_intro; cbn [witness p_cat p_pkg p_ver p_rev p_fullver p_slot p_subslot p_repo p_use p_iuse];
    try assumption; try apply str_eqb_refl; try apply pick_left; try (apply pick_right; assumption);
    try (rewrite str_eqb_sym; assumption).
  - destruct (a_use a) as [toks|] eqn:E; [|reflexivity].
    apply (use_witness_ok _ Hu); try reflexivity. intros t Ht. apply in_or_app. left. unfold toks_of. rewrite E. exact Ht.
  - destruct (a_use b) as [toks|] eqn:E; [|reflexivity].
    apply (use_witness_ok _ Hu); try reflexivity. intros t Ht. apply in_or_app. right. unfold toks_of. rewrite E. exact Ht.
Qed.

(* ------------------------------------------------------------------ non-vacuity *)
(* >=a/b-1.0:0[x] and <a/b-2::g[-y] : the witness is a/b-1.0, slot 0, repo g, USE="x", IUSE="x y" *)
Example witness_example :
  let a := {| a_cat := [97]%N; a_pkg := [98]%N; a_op := 3; a_ver := [49; 46; 48]%N; a_rev := None;
              a_fullver := Some [49; 46; 48]%N; a_slot := Some [48]%N; a_subslot := None; a_slotop := None;
              a_repo := None; a_use := Some [[120]]%N; a_blocks := false; a_strong := false; a_negate_vers := false |} in
  let b := {| a_cat := [97]%N; a_pkg := [98]%N; a_op := 0; a_ver := [50]%N; a_rev := None;
              a_fullver := Some [50]%N; a_slot := None; a_subslot := None; a_slotop := None;
              a_repo := Some [103]%N; a_use := Some [[45; 121]]%N; a_blocks := false; a_strong := false;
              a_negate_vers := false |} in
  intersects ver_cmp a b = true /\ use_consistent a b = true
  /\ p_ver (witness a b) = [49; 46; 48]%N /\ p_use (witness a b) = [[120]]%N
  /\ atom_match ver_cmp a (witness a b) = true /\ atom_match ver_cmp b (witness a b) = true.
Proof. repeat split; vm_compute; reflexivity. Qed.

(* >a/b-1 and <a/b-1-r3 (not adjacent): the witness is a/b-1-r1;  <a/b-1 and <=a/b-2: a/b-1_alpha *)
Example witness_perturbed :
  p_fullver (witness (vatom 4 [49]%N None [49]%N) (vatom 0 [49]%N (Some 3%N) [49; 45; 114; 51]%N)) = [49; 45; 114; 49]%N
  /\ p_ver (witness (vatom 0 [49]%N None [49]%N) (vatom 1 [50]%N None [50]%N)) = [49; 95; 97; 108; 112; 104; 97]%N.
Proof. split; vm_compute; reflexivity. Qed.

Lemma version_perturbations_proof : forall v r s,
  ver_cmp (v ++ s_alpha) r v s = (-1)%Z /\ ver_cmp v (Some (rev_val s + 1)%N) v s = 1%Z
  /\ (is_version v -> is_version (v ++ s_alpha)).
Proof.
  intros v r s. split; [apply ver_cmp_alpha_below|]. split; [rewrite ver_cmp_same; apply rev_cmp_succ|apply is_version_alpha].
Qed.
