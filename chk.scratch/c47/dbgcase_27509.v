From Coq Require Import List NArith ZArith Bool.
From Verif Require Import Base.Val C18.Fs C47.Model_C47 C47.Spec_C47.
Import ListNotations.
Definition F (p : path) (d : list N) (m : N) : path * node := (p, File d m 0 0 NOW 0).
Definition D (p : path) (m : N) : path * node := (p, Dir m 0 0 NOW).
Definition L (p : path) (t : list N) : path * node := (p, Sym t 0 0 NOW).
Definition SD (t : tree) : option slot := Some (SDir t).
Definition SF : option slot := Some SFile.
Definition NS : option slot := None.

Definition c : case := (let t0 : tree := [F [[46;101;116;97;103]%N] [34;118;50;34]%N 420%N; D [[109;101;116;97;100;97;116;97]%N] 493%N; F [[116;111;112]%N] [79]%N 384%N] in
let t1 : tree := [F [[46;101;116;97;103]%N] [34;109;49;34]%N 420%N; D [[99;97;116]%N] 493%N; F [[99;97;116]%N; [120;46;101;98;117;105;108;100;49]%N] [77;110]%N 420%N; D [[109;101;116;97;100;97;116;97]%N] 493%N; F [[109;101;116;97;100;97;116;97]%N; [98;48]%N] [77;115;106;104]%N 420%N] in
let t2 : tree := [D [[109;101;116;97;100;97;116;97]%N] 493%N; F [[109;101;116;97;100;97;116;97]%N; [108;97;121;111;117;116;46;99;111;110;102;48]%N] [78;114;116;104]%N 420%N] in
let t3 : tree := (@nil (path * node)) in
let t4 : tree := [L [[108;110;107]%N] [110;111;119;104;101;114;101]%N; D [[109;101;116;97;100;97;116;97]%N] 493%N; F [[109;101;116;97;100;97;116;97]%N; [108;97;121;111;117;116;46;99;111;110;102;48]%N] [78;114;116;104]%N 420%N; F [[109;101;116;97;100;97;116;97]%N; [120;46;101;98;117;105;108;100;49]%N] [78;104;121;102]%N 420%N] in
let t5 : tree := [F [[46;101;116;97;103]%N] [34;110;50;34]%N 420%N; L [[108;110;107]%N] [110;111;119;104;101;114;101]%N; D [[109;101;116;97;100;97;116;97]%N] 493%N; F [[109;101;116;97;100;97;116;97]%N; [108;97;121;111;117;116;46;99;111;110;102;48]%N] [78;114;116;104]%N 420%N; F [[109;101;116;97;100;97;116;97]%N; [120;46;101;98;117;105;108;100;49]%N] [78;104;121;102]%N 420%N] in
let t6 : tree := [F [[46;101;116;97;103]%N] [34;118;50;34]%N 420%N] in
let t7 : tree := [D [[99;97;116]%N] 493%N; F [[99;97;116]%N; [120;46;101;98;117;105;108;100;49]%N] [77;110]%N 420%N; D [[109;101;116;97;100;97;116;97]%N] 493%N; F [[109;101;116;97;100;97;116;97]%N; [98;48]%N] [77;115;106;104]%N 420%N] in
mkcase true false (mksrv 200%N false true (Some [34;110;50;34]%N) (@None (str)) [40946%N] true) (t4, true) 0%nat (mkst (SD t0) NS NS (@None (list N)) (@None (list N))) true (mksrv 200%N false false (Some [34;109;49;34]%N) (@None (str)) [1%N] true) (t7, true) 0%N [1%N; 3%N; 4%N; 5%N; 6%N; 7%N; 8%N; 9%N; 10%N; 12%N; 13%N; 16%N; 18%N] (mkst (SD t5) NS NS (@None (list N)) (@None (list N))) [(mkcp 2%nat false (mkst (SD t0) NS NS (Some (@nil N)) (Some (@nil N))) true 0%N (mkst (SD t1) NS NS (@None (list N)) (@None (list N)))); (mkcp 6%nat true (mkst (SD t0) (SD t2) (SD t3) (Some [40946%N]) (@None (list N))) true 0%N (mkst (SD t1) NS NS (@None (list N)) (@None (list N)))); (mkcp 7%nat false (mkst (SD t0) (SD t4) (SD t3) (Some [40946%N]) (@None (list N))) true 0%N (mkst (SD t1) NS NS (@None (list N)) (@None (list N)))); (mkcp 8%nat false (mkst NS (SD t4) (SD t0) (Some [40946%N]) (@None (list N))) true 0%N (mkst (SD t1) NS NS (@None (list N)) (@None (list N)))); (mkcp 9%nat false (mkst (SD t4) NS (SD t0) (Some [40946%N]) (@None (list N))) true 0%N (mkst (SD t1) NS NS (@None (list N)) (@None (list N)))); (mkcp 11%nat false (mkst (SD t5) NS (SD t0) (Some [40946%N]) (@None (list N))) true 0%N (mkst (SD t1) NS NS (@None (list N)) (@None (list N)))); (mkcp 11%nat true (mkst (SD t5) NS (SD t6) (Some [40946%N]) (@None (list N))) true 0%N (mkst (SD t1) NS NS (@None (list N)) (@None (list N)))); (mkcp 11%nat true (mkst (SD t5) NS (SD t3) (Some [40946%N]) (@None (list N))) true 0%N (mkst (SD t1) NS NS (@None (list N)) (@None (list N))))]).
Eval vm_compute in (run_case c).
Eval vm_compute in (map step_tag (fst (sync (c_fixed c) (c_force c) (c_srv c) (c_tar c) (c_chunk c) (c_s0 c))), point_codes c, final_code c).
