(* C21 — protected configuration files are never silently overwritten or removed.

   Executable model of /repo/src/pkgcore/ebuild/triggers.py
     collapse_envd (the part that concerns CONFIG_PROTECT, CONFIG_PROTECT_MASK, COLLISION_IGNORE,
     COLON_SEPARATED, SPACE_SEPARATED), gen_config_protect_filter, gen_collision_ignore_filter,
     simple_chksum_compare, ConfigProtectInstall(+_restore), ConfigProtectUninstall, FileCollision
     (CollisionProtect)
   and of the cset plumbing of merge/engine.py that feeds them (install / replace / uninstall:
   offset insertion, livefs intersections, get_remove_cset, get_merged_cset) with the merge and
   unmerge triggers reduced to their effect on a path-keyed map of files and symlinks.

   The model is of the REPAIRED behaviour (fixes/C21-1 … C21-6 on top of fixes/C20-1).

   Modelling conventions (see notes/C21.md):
   * a filesystem / contents set is an association list  location -> node ; locations are
     normalised absolute paths (no trailing slash); file contents are opaque tokens, two regular
     files "have the same checksums" iff their tokens are equal (hash collisions are not modelled);
   * with normalised paths  insert_offset off p = rstrip "/" off ++ p ;
   * env.d files arrive parsed (name, [(key, value)]) — read_bash_dict is snakeoil, not pkgcore;
   * text is ASCII.                                                                         *)
From Coq Require Import List NArith ZArith Bool Arith.
Import ListNotations.
From Verif Require Import Base.Val C22.Model_C22.

(* ------------------------------------------------------------------ strings *)
Definition cfgp : str := [46; 95; 99; 102; 103]%N.          (* "._cfg" *)
Definition US : N := 95%N.                                  (* "_" *)

Definition ends_with (suf s : str) : bool := starts_with (rev suf) (rev s).

Fixpoint str_ltb (a b : str) : bool :=                     (* Python's str "<" on code points *)
  match a, b with
  | [], [] => false
  | [], _ :: _ => true
  | _ :: _, [] => false
  | x :: a', y :: b' => if N.ltb x y then true else if N.ltb y x then false else str_ltb a' b'
  end.

Fixpoint insert_str (x : str) (l : list str) : list str :=
  match l with
  | [] => [x]
  | y :: r => if str_ltb y x then y :: insert_str x r else x :: l
  end.
Definition sort_str (l : list str) : list str := fold_right insert_str [] l.

Definition is_ws (c : N) : bool :=
  N.eqb c 32 || (N.leb 9 c && N.leb c 13) || (N.leb 28 c && N.leb c 31).
Definition is_digit (c : N) : bool := N.leb 48 c && N.leb c 57.

Fixpoint split_by_aux (sep : N -> bool) (cur : str) (s : str) : list str :=
  match s with
  | [] => [rev cur]
  | c :: r => if sep c then rev cur :: split_by_aux sep [] r else split_by_aux sep (c :: cur) r
  end.
Definition nonempty (s : str) : bool := match s with [] => false | _ => true end.
(* x.split()  /  [f for f in x.split(":") if f] *)
Definition split_ws (s : str) : list str := filter nonempty (split_by_aux is_ws [] s).
Definition split_colon (s : str) : list str := filter nonempty (split_by_aux (N.eqb 58) [] s).

Definition mem_str (k : str) (l : list str) : bool := existsb (str_eqb k) l.

(* os.path.basename *)
Fixpoint take_while (f : N -> bool) (s : str) : str :=
  match s with
  | [] => []
  | c :: r => if f c then c :: take_while f r else []
  end.
Definition basename (p : str) : str := rev (take_while (fun c => negb (is_sl c)) (rev p)).

(* ------------------------------------------------------------------ fnmatch (full match) *)
Inductive pitem := PStar | PAny | PLit (c : N) | PClass (neg : bool) (ranges : list (N * N)).

(* the text of a bracket expression after "[": Some (stuff, rest-after-"]") as translate() finds it *)
Fixpoint upto_rb (s : str) : option (str * str) :=
  match s with
  | [] => None
  | c :: r => if N.eqb c 93 then Some ([], r)
              else match upto_rb r with Some (a, b) => Some (c :: a, b) | None => None end
  end.
Definition split_class (r : str) : option (str * str) :=
  let '(pre1, r1) := match r with c :: t => if N.eqb c 33 then ([c], t) else ([], r) | [] => ([], r) end in
  let '(pre2, r2) := match r1 with c :: t => if N.eqb c 93 then ([c], t) else ([], r1) | [] => ([], r1) end in
  match upto_rb r2 with
  | Some (a, rest) => Some (pre1 ++ pre2 ++ a, rest)
  | None => None
  end.
(* members of a class body: "a-c" is a range (dropped when empty), anything else a literal *)
Fixpoint class_ranges (s : str) : list (N * N) :=
  match s with
  | a :: t =>
      match t with
      | b :: c :: r =>
          if N.eqb b 45 then (if N.leb a c then [(a, c)] else []) ++ class_ranges r
          else (a, a) :: class_ranges t
      | _ => (a, a) :: class_ranges t
      end
  | [] => []
  end.
Fixpoint parse_pat (fuel : nat) (p : str) : list pitem :=
  match fuel with
  | O => []
  | S f =>
      match p with
      | [] => []
      | c :: r =>
          if N.eqb c 42 then PStar :: parse_pat f r
          else if N.eqb c 63 then PAny :: parse_pat f r
          else if N.eqb c 91 then
            match split_class r with
            | Some (stuff, rest) =>
                match stuff with
                | x :: body => if N.eqb x 33 then PClass true (class_ranges body) :: parse_pat f rest
                               else PClass false (class_ranges stuff) :: parse_pat f rest
                | [] => PClass false [] :: parse_pat f rest
                end
            | None => PLit c :: parse_pat f r
            end
          else PLit c :: parse_pat f r
      end
  end.
Definition item_ok (it : pitem) (c : N) : bool :=
  match it with
  | PStar | PAny => true
  | PLit x => N.eqb x c
  | PClass neg rs => xorb neg (existsb (fun r => N.leb (fst r) c && N.leb c (snd r)) rs)
  end.
Fixpoint gmatch (items : list pitem) (s : str) : bool :=
  match items with
  | [] => match s with [] => true | _ => false end
  | PStar :: r =>
      (fix star (s : str) : bool :=
         gmatch r s || match s with [] => false | _ :: s' => star s' end) s
  | it :: r => match s with [] => false | c :: s' => item_ok it c && gmatch r s' end
  end.
(* StrRegex(fnmatch.translate(pat), match=True).match(s) *)
Definition fnmatch (pat s : str) : bool := gmatch (parse_pat (S (length pat)) pat) s.

(* ------------------------------------------------------------------ nodes, path-keyed maps *)
(* a regular file: (content token, attributes token "mode.uid.gid"); both opaque to the triggers *)
Definition fdata := (str * str)%type.
Inductive node := File (data : fdata) | Sym (target : str) | Dir.
Definition pmap := list (str * node).

Fixpoint pm_get (k : str) (m : pmap) : option node :=
  match m with
  | [] => None
  | (k', n) :: r => if str_eqb k k' then Some n else pm_get k r
  end.
Definition pm_del (k : str) (m : pmap) : pmap := filter (fun e => negb (str_eqb k (fst e))) m.
(* dict[k] = n : in place when present, appended otherwise *)
Fixpoint pm_set (k : str) (n : node) (m : pmap) : pmap :=
  match m with
  | [] => [(k, n)]
  | (k', n') :: r => if str_eqb k k' then (k, n) :: r else (k', n') :: pm_set k n r
  end.
Definition pm_has (k : str) (m : pmap) : bool := match pm_get k m with Some _ => true | None => false end.

(* simple_chksum_compare on a pair of fs objects (either order): both regular, same checksums *)
Definition same_content (a b : node) : bool :=
  match a, b with
  | File x, File y => str_eqb (fst x) (fst y)          (* checksums only: mode and owner play no part *)
  | _, _ => false
  end.

(* os.path.isdir(path) on the live tree *)
Definition is_dir (fs : pmap) (path : str) : bool :=
  let q := normpath path in
  str_eqb q [SL]
  || existsb (fun e => (str_eqb (fst e) q && match snd e with Dir => true | _ => false end)
                       || starts_with (q ++ [SL]) (fst e)) fs.

(* ------------------------------------------------------------------ env.d *)
Definition envfile := (str * list (str * str))%type.
Definition k_cp : str := [67;79;78;70;73;71;95;80;82;79;84;69;67;84]%N.
Definition k_cpm : str := k_cp ++ [95;77;65;83;75]%N.
Definition k_ci : str := [67;79;76;76;73;83;73;79;78;95;73;71;78;79;82;69]%N.
Definition k_colon : str := [67;79;76;79;78;95;83;69;80;65;82;65;84;69;68]%N.
Definition k_space : str := [83;80;65;67;69;95;83;69;80;65;82;65;84;69;68]%N.

Definition envd_name_ok (x : str) : bool :=
  negb (ends_with [46;98;97;107]%N x) && negb (ends_with [126]%N x) && negb (starts_with cfgp x)
  && Nat.ltb 2 (length x)
  && match x with a :: b :: _ => is_digit a && is_digit b | _ => false end.

Fixpoint assoc (k : str) (l : list (str * str)) : option str :=
  match l with
  | [] => None
  | (k', v) :: r => if str_eqb k k' then Some v else assoc k r
  end.
(* files in sorted(listdir_files(base)) order *)
Fixpoint insert_file (x : envfile) (l : list envfile) : list envfile :=
  match l with
  | [] => [x]
  | y :: r => if str_ltb (fst y) (fst x) then y :: insert_file x r else x :: l
  end.
Definition envd_files (e : list envfile) : list envfile :=
  filter (fun f => envd_name_ok (fst f)) (fold_right insert_file [] e).
Definition values_of (k : str) (e : list envfile) : list str :=
  flat_map (fun f => match assoc k (snd f) with Some v => [v] | None => [] end) (envd_files e).
Definition declared (decl k : str) (e : list envfile) : bool :=
  existsb (fun v => mem_str k (split_ws v)) (values_of decl e).
(* collapsed_d[k] as a list; [base_incr]: k is in the built-in incrementals *)
Definition collapsed (base_incr : bool) (k : str) (e : list envfile) : list str :=
  let vals := values_of k e in
  let colon := declared k_colon k e in
  if base_incr || colon || declared k_space k e then
    flat_map (if colon then split_colon else split_ws) vals
  else split_ws (last vals []).       (* not incremental: the last value, a string (split by fix C21-1) *)

Fixpoint uniq (l : list str) : list str :=                 (* stable_unique *)
  match l with
  | [] => []
  | x :: r => x :: filter (fun y => negb (str_eqb x y)) (uniq r)
  end.

Definition etc : str := [47;101;116;99]%N.
Definition prefix_pat (x : str) : str := rstrip_sl (normpath x) ++ [SL].

(* gen_config_protect_filter(offset, xp, xm).match *)
Definition protect_filter (e : list envfile) (xp xm : list str) (p : str) : bool :=
  let pos := collapsed true k_cp e ++ xp ++ [etc] in
  let neg := collapsed true k_cpm e ++ xm in
  existsb (fun x => starts_with (prefix_pat x) p) pos
  && negb (existsb (fun x => starts_with (prefix_pat x) p) neg).

Definition keep1 : str := [42;47;46;107;101;101;112]%N.                 (* "*/.keep" *)
Definition keep2 : str := keep1 ++ [95;42]%N.                          (* "*/.keep_*" *)
Definition slash_star : str := [47;42]%N.

(* the pattern list of gen_collision_ignore_filter(offset, xi) *)
Definition ignore_pats (e : list envfile) (xi : list str) (off : str) (fs : pmap) : list str :=
  map (fun x => if negb (ends_with slash_star x) && is_dir fs (pjoin off (lstrip_sl x))
                then rstrip_sl x ++ slash_star else x)
      (uniq (collapsed false k_ci e ++ xi ++ [keep1; keep2])).
Definition ignore_filter (e : list envfile) (xi : list str) (off : str) (fs : pmap) (p : str) : bool :=
  existsb (fun pat => fnmatch pat p) (ignore_pats e xi off fs).

(* ------------------------------------------------------------------ offsets *)
Definition off_prefix (off : str) : str := rstrip_sl off.
Definition add_off (off : str) (p : str) : str := off_prefix off ++ p.        (* insert_offset, normalised p *)
Definition strip_off (off : str) (loc : str) : str := skipn (length (off_prefix off)) loc.

(* ------------------------------------------------------------------ ._cfgNNNN_name *)
Definition digit_val (c : N) : Z := Z.of_N c - 48.
(* "._cfg" d d d d "_" name  ->  (number, name) *)
Definition parse_cfg (x : str) : option (Z * str) :=
  match skipn 5 x with
  | a :: b :: c :: d :: u :: name =>
      if is_digit a && is_digit b && is_digit c && is_digit d && N.eqb u US
      then Some (((digit_val a * 10 + digit_val b) * 10 + digit_val c) * 10 + digit_val d, name)%Z
      else None
  | _ => None
  end.

Definition digit_of (z : Z) : N := Z.to_N (z mod 10 + 48).
(* decimal digits of z >= 0, at least [w] of them (fuel bounds the number of extra digits) *)
Fixpoint digits (fuel : nat) (w : nat) (z : Z) : str :=
  match fuel with
  | O => []
  | S f =>
      match w with
      | O => if (z =? 0)%Z then [] else digits f O (z / 10) ++ [digit_of z]
      | S w' => digits f w' (z / 10) ++ [digit_of z]
      end
  end.
(* f"{count:04d}" ; counts are below 10^12 in every reachable state (see fmt04_parse) *)
Definition fmt04 (z : Z) : str :=
  if (z <? 0)%Z then 45%N :: digits 16 3 (- z) else digits 16 4 z.

Definition cfg_name (count : Z) (fname : str) : str := cfgp ++ fmt04 count ++ US :: fname.

(* sorted(x for x in listdir_files(dir_loc) if x.startswith("._cfg")) *)
Definition cfg_listing (fs : pmap) (d : str) : list str :=
  sort_str (flat_map (fun e => match snd e with
                               | File _ => if str_eqb (dirname (fst e)) d && starts_with cfgp (basename (fst e))
                                           then [basename (fst e)] else []
                               | _ => []
                               end) fs).
(* updates[fname] *)
Definition pending (fs : pmap) (d fname : str) : list (Z * str) :=
  flat_map (fun x => match parse_cfg x with
                     | Some (c, fn) => if str_eqb fn fname then [(c, x)] else []
                     | None => []
                     end) (cfg_listing fs d).
Definition live_at (fs : pmap) (p : str) : node :=
  match pm_get p fs with Some n => n | None => Dir end.
(* the count loop *)
Fixpoint pick_count (fs : pmap) (d : str) (entry : node) (ups : list (Z * str)) (count : Z) : Z :=
  match ups with
  | [] => count
  | (c, x) :: r =>
      if same_content (live_at fs (pjoin d x)) entry then c
      else pick_count fs d entry r (Z.max count (c + 1))
  end.
Definition cfg_count (fs : pmap) (loc : str) (entry : node) : Z :=
  pick_count fs (dirname loc) entry (pending fs (dirname loc) (basename loc)) 0.
Definition new_loc (fs : pmap) (loc : str) (entry : node) : str :=
  pjoin (dirname loc) (cfg_name (cfg_count fs loc entry) (basename loc)).

(* ------------------------------------------------------------------ ConfigProtectInstall *)
Section Triggers.
Variable prot ign : str -> bool.     (* the two filters, on offset-relative locations *)
Variable off : str.
Variable fs : pmap.                  (* the live tree when the trigger runs *)

(* does the trigger protect install entry e ? *)
Definition is_protected (e : str * node) : bool :=
  match pm_get (fst e) fs with
  | Some (File d) =>
      negb (ign (strip_off off (fst e))) && prot (strip_off off (fst e))
      && negb (same_content (snd e) (File d))
  | _ => false
  end.
(* self.renames : (new entry, old entry) *)
Definition renames (inst : pmap) : list ((str * node) * (str * node)) :=
  map (fun e => ((new_loc fs (fst e) (snd e), snd e), e)) (filter is_protected inst).
Definition apply_rename (cs : pmap) (r : (str * node) * (str * node)) : pmap :=
  pm_set (fst (fst r)) (snd (fst r)) (pm_del (fst (snd r)) cs).
Definition pre_merge (inst : pmap) : pmap := fold_left apply_rename (renames inst) inst.
(* ConfigProtectInstall_restore *)
Definition apply_restore (cs : pmap) (r : (str * node) * (str * node)) : pmap :=
  if pm_has (fst (fst r)) cs then pm_set (fst (snd r)) (snd (snd r)) (pm_del (fst (fst r)) cs) else cs.
Definition post_merge (inst : pmap) (cs : pmap) : pmap := fold_left apply_restore (renames inst) cs.

(* ------------------------------------------------------------------ ConfigProtectUninstall *)
(* livefs.intersect(cset) *)
Definition live_of (cs : pmap) : pmap :=
  flat_map (fun e => match pm_get (fst e) fs with Some n => [(fst e, n)] | None => [] end) cs.
(* x (a live object of the uninstall set) stays because it differs from what was recorded *)
Definition stays (recorded : pmap) (x : str * node) : bool :=
  match snd x with
  | File d =>
      negb (ign (strip_off off (fst x))) && prot (strip_off off (fst x))
      && match pm_get (fst x) recorded with
         | Some r => negb (same_content r (File d))
         | None => false
         end
  | _ => false
  end.
(* the uninstall cset handed to the unmerge trigger; [inst] = the install cset (replace) or [] *)
Definition uninstall_set (recorded inst : pmap) : pmap :=
  filter (fun x => negb (stays recorded x))
         (filter (fun x => negb (pm_has (fst x) inst)) (live_of recorded)).
End Triggers.

(* merge_contents / unmerge_contents reduced to files and symlinks *)
Definition merge_fs (fs cs : pmap) : pmap :=
  fold_left (fun f e => match snd e with Dir => f | n => pm_set (fst e) n f end) cs fs.
Definition unmerge_fs (fs cs : pmap) : pmap :=
  fold_left (fun f e => match snd e with Dir => f | _ => pm_del (fst e) f end) cs fs.

(* FileCollision.trigger: the colliding files that block the merge *)
Definition collisions (prot ign : str -> bool) (off : str) (fs inst old_live : pmap) : pmap :=
  filter (fun x => negb (prot (strip_off off (fst x)) || ign (strip_off off (fst x)))
                   && negb (pm_has (fst x) old_live))
         (filter (fun x => match pm_get (fst x) inst with Some Dir => false | _ => true end)
                 (live_of fs inst)).

(* ------------------------------------------------------------------ a whole engine run *)
Record input := {
  i_mode : N;                        (* 0 install, 1 replace, 2 uninstall *)
  i_coll : bool;                     (* CollisionProtect registered *)
  i_off : str;
  i_envd : list envfile;             (* <offset>/etc/env.d, parsed *)
  i_xp : list str; i_xm : list str; i_xi : list str;
  i_fs : pmap;                       (* live tree, full locations *)
  i_new : pmap;                      (* contents of the new package, offset-relative *)
  i_old : pmap;                      (* recorded contents of the old package, offset-relative *)
  i_probes : list str }.

Record output := { o_blocked : bool; o_recorded : list str; o_fs : pmap; o_probes : list (bool * bool) }.

Definition with_off (off : str) (cs : pmap) : pmap := map (fun e => (add_off off (fst e), snd e)) cs.

Definition run (i : input) : output :=
  let off := i_off i in
  let fs0 := i_fs i in
  let installing := negb (N.eqb (i_mode i) 2) in
  let uninstalling := negb (N.eqb (i_mode i) 0) in
  let inst := if installing then with_off off (i_new i) else [] in
  let recorded := if uninstalling then with_off off (i_old i) else [] in
  let protI := protect_filter (i_envd i) (i_xp i) (i_xm i) in      (* ConfigProtectInstall, FileCollision *)
  let protU := protect_filter (i_envd i) [] [] in                  (* ConfigProtectUninstall *)
  let ign0 := ignore_filter (i_envd i) [] off fs0 in
  let probes := map (fun p => (protI p, ign0 p)) (i_probes i) in
  (* sanity_check *)
  let blocked :=
    installing && i_coll i
    && match collisions protI (ignore_filter (i_envd i) (i_xi i) off fs0) off fs0 inst
                        (live_of fs0 recorded) with [] => false | _ => true end in
  if blocked then {| o_blocked := true; o_recorded := []; o_fs := fs0; o_probes := probes |}
  else
    (* pre_merge, merge, post_merge *)
    let inst1 := pre_merge protI ign0 off fs0 inst in
    let fs1 := merge_fs fs0 inst1 in
    let inst2 := post_merge protI ign0 off fs0 inst inst1 in
    let rec := map (fun e => strip_off off (fst e)) inst2 in
    (* pre_unmerge, unmerge *)
    let ign1 := ignore_filter (i_envd i) [] off fs1 in
    let fs2 := unmerge_fs fs1 (uninstall_set protU ign1 off fs1 recorded inst2) in
    {| o_blocked := false; o_recorded := rec; o_fs := fs2; o_probes := probes |}.

(* ------------------------------------------------------------------ encoders for the harness *)
(* a case travels as ONE byte-string literal (cheap for coqc to parse); sections are separated by
   "@", items by "|", fields by ";", key/value by "^" — characters the generator never emits *)
Inductive bstr := BS (l : list Byte.byte).
Definition bs_parse (l : list Byte.byte) : bstr := BS l.
Definition bs_print (b : bstr) : list Byte.byte := match b with BS l => l end.
Declare Scope bs_scope.
Delimit Scope bs_scope with bs.
String Notation bstr bs_parse bs_print : bs_scope.
Definition s2l (b : bstr) : str := match b with BS l => map Byte.to_N l end.
Definition VT (s : bstr) : val := VS (s2l s).

Definition split_on (sep : N) (s : str) : list str := split_by_aux (N.eqb sep) [] s.
Definition items (s : str) : list str := match s with [] => [] | _ => split_on 124 s end.
Definition dec_fdata (s : str) : fdata :=                   (* "content,attrs" *)
  match split_on 44 s with
  | c :: a :: _ => (c, a)
  | _ => (s, [])
  end.
Definition dec_node (f : list str) : str * node :=
  match f with
  | [loc; k; data] =>
      (loc, if str_eqb k [102%N] then File (dec_fdata data) else if str_eqb k [115%N] then Sym data else Dir)
  | loc :: _ => (loc, Dir)
  | [] => ([], Dir)
  end.
Definition dec_pmap (s : str) : pmap := map (fun x => dec_node (split_on 59 x)) (items s).
Definition dec_kv (x : str) : str * str :=
  match split_on 94 x with [k; v] => (k, v) | k :: _ => (k, []) | [] => ([], []) end.
Definition dec_envfile (x : str) : envfile :=
  match split_on 59 x with name :: kvs => (name, map dec_kv kvs) | [] => ([], []) end.
Definition dec_input (b : bstr) : input :=
  match split_on 64 (s2l b) with
  | [m; off; envd; xp; xm; xi; fs; new; old; probes] =>
      {| i_mode := match m with c :: _ => (c - 48)%N | [] => 0%N end;
         i_coll := match m with _ :: c :: _ => N.eqb c 49 | _ => false end;
         i_off := off; i_envd := map dec_envfile (items envd);
         i_xp := items xp; i_xm := items xm; i_xi := items xi;
         i_fs := dec_pmap fs; i_new := dec_pmap new; i_old := dec_pmap old; i_probes := items probes |}
  | _ => {| i_mode := 0%N; i_coll := false; i_off := [SL]; i_envd := []; i_xp := []; i_xm := []; i_xi := [];
            i_fs := []; i_new := []; i_old := []; i_probes := [] |}
  end.

Fixpoint join (sep : N) (l : list str) : str :=
  match l with
  | [] => []
  | [x] => x
  | x :: r => x ++ sep :: join sep r
  end.
(* files and symlinks of a tree, sorted by location: "loc;f;content,attrs" / "loc;s;target" *)
Definition show_tree (m : pmap) : str :=
  join 124 (sort_str (flat_map (fun e => match snd e with
                                        | File d => [fst e ++ [59; 102; 59]%N ++ fst d ++ [44%N] ++ snd d]
                                        | Sym t => [fst e ++ [59; 115; 59]%N ++ t]
                                        | Dir => []
                                        end) m)).
Definition show_output (o : output) : val :=
  if o_blocked o then VErr [66%N]      (* "B": BlockModification *)
  else VS (join 124 (sort_str (o_recorded o)) ++ [64%N] ++ show_tree (o_fs o) ++ [64%N]
           ++ flat_map (fun pr : bool * bool => [if fst pr then 49%N else 48%N; if snd pr then 49%N else 48%N]) (o_probes o)).
Definition run_merge (b : bstr) : val := show_output (run (dec_input b)).
