"""C48 — cached metadata is used only while it is still valid (DESIGN §6 C48).

Stream "read": random small repositories on disk (2-3 packages whose inherit lists are equal or
overlap, up to five eclasses in one or two stacked repositories, 1-3 metadata caches of either
layout, writable / read-only / unwritable).  A history is a sequence of SESSIONS: before each
session 1-3 random edits (any kind), then ONE long-lived set of objects (eclass cache, metadata
caches, package_factory = one repository object of one process) reads every package in a random
order (sometimes one of them twice) through the real package_factory._get_metadata, with ebuild /
cache-entry edits between the reads of a session (eclass files are only edited between sessions:
a process keeps its first view of them).  State that the objects carry from one read to the next
(e.g. the eclass-data memo) is therefore exercised.  Only the ebuild daemon is replaced:
`processor.reuse_or_request` yields a stub whose get_keys() parses the ebuild text and counts its calls.
  (A) outcome (index of the cache used / regenerated, payload returned) and the entry found in
      every cache afterwards                                    impl vs Model_C48.get_metadata
  (B) in Coq: Spec_C48.spec_read_ok on the implementation's recorded result;
      directly in Python, from the raw files only (own parser, os.stat, hashlib): the cache was used
      iff some cache held an entry recording the ebuild's current validation value and, for
      every recorded eclass, the current file's values; the returned metadata equals metadata
      regenerated from scratch whenever every edit changed the validation values; after a
      regeneration a second read is served from the cache.
"""

from __future__ import annotations

import contextlib
import hashlib
import json
import os
import shutil
import tempfile
from types import SimpleNamespace

from .common import VERIF, Check, Err, cN, cbool, clist, copt, cpair, impl_call

IMPORTS = ("From Coq Require Import List NArith ZArith Bool.\n"
           "From Verif Require Import Base.Val C48.Model_C48 C48.Spec_C48.")
ANCHORS = ["cache/__init__.py::base.validate_entry", "ebuild/eclass_cache.py::base.rebuild_cache_entry",
           "ebuild/eclass_cache.py::StackedCaches._load_eclasses", "ebuild/eclass_cache.py::cache._load_eclasses",
           "ebuild/ebuild_src.py::package_factory._get_metadata",
           "ebuild/ebuild_src.py::package_factory._update_metadata"]
ECL = ["e0", "e1", "e2", "e3", "e4"]
T0 = 1_600_000_000


def md5_of(path):
    with open(path, "rb") as f:
        return int(hashlib.md5(f.read()).hexdigest(), 16)


class Repo:
    """the on-disk fixture"""

    def __init__(self, root, rng, spec=None):
        """spec (matrix / corpus cells): {'nstack', 'caches': [(layout, ro)], 'pkgs', 'inherits': {pkg: [names]}}"""
        self.root, self.rng = root, rng
        self.dirs = [os.path.join(root, "repoA", "eclass"), os.path.join(root, "repoB", "eclass")]
        self.nstack = spec["nstack"] if spec else rng.choice([1, 2, 2])
        for d in self.dirs:
            os.makedirs(d)
        self.pkgs = list(spec["pkgs"]) if spec else ["pkg-1", "pkg-2"] + (["pkg-3"] if rng.random() < 0.4 else [])
        os.makedirs(os.path.join(root, "repoA", "cat", "pkg"))
        self.clock = T0
        self.counter = 0
        self.payload = {}
        self.inherit_key = True if spec else rng.random() < 0.85
        self.dirty = set()          # packages for which an edit kept a validation value although content changed
        ncache = len(spec["caches"]) if spec else rng.choice([1, 1, 2, 2, 3])
        self.caches = []
        for i in range(ncache):
            if spec:
                lay, ro, wfail = spec["caches"][i][0], spec["caches"][i][1], False
            else:
                lay = rng.choice(["flat", "md5"])
                ro = rng.random() < 0.2
                wfail = (not ro) and rng.random() < 0.1
            loc = os.path.join(root, f"cache{i}")
            os.makedirs(loc)
            if wfail:
                with open(os.path.join(loc, "cat"), "w") as f:      # the category "directory" is a file
                    f.write("")
            self.caches.append({"lay": lay, "ro": ro, "wfail": wfail, "loc": loc})
        have = rng.sample(ECL, rng.randint(2, 4))
        base = rng.sample(have, rng.randint(1, min(3, len(have))))
        for n in have:
            # dirs[0] is the overlay (searched first), dirs[1] its master; with masters, at least one
            # inherited eclass lives in the master only, so the overlay can start shadowing it later
            r = 1 if (self.nstack == 2 and n == base[0]) else rng.randrange(self.nstack)
            self.write_eclass(r, n)
        for j, p in enumerate(self.pkgs):
            if spec:
                for n in spec["inherits"][p]:
                    if not any(os.path.exists(os.path.join(d, n + ".eclass")) for d in self.dirs[:self.nstack]):
                        self.write_eclass(self.nstack - 1, n)
                self.write_ebuild(p, list(spec["inherits"][p]))
                continue
            if j == 0 or rng.random() < 0.6:
                inh = list(base)                                     # the same inherit list
            else:
                inh = [n for n in base if rng.random() < 0.7] + [n for n in ECL if n not in base and rng.random() < 0.25]
            rng.shuffle(inh)
            self.write_ebuild(p, inh)

    # ---------------------------------------------------------------- files
    def tick(self):
        self.clock += self.rng.randint(1, 50)
        return self.clock

    def ebuild(self, p):
        return os.path.join(self.root, "repoA", "cat", "pkg", p + ".ebuild")

    def write_ebuild(self, p, inherits, keep_mtime=False):
        path = self.ebuild(p)
        old = os.stat(path).st_mtime if os.path.exists(path) else None
        self.counter += 1
        self.payload[p] = self.counter
        with open(path, "w") as f:
            f.write(f"EAPI=8\nDESCRIPTION=d{self.counter}\ninherit {' '.join(inherits)}\n")
        t = old if (keep_mtime and old is not None) else self.tick()
        os.utime(path, (t, t))

    def ebuild_inherits(self, p):
        with open(self.ebuild(p)) as f:
            for l in f:
                if l.startswith("inherit"):
                    return l.split()[1:]
        return []

    def write_eclass(self, repo, name, keep_mtime=False):
        p = os.path.join(self.dirs[repo], name + ".eclass")
        old = os.stat(p).st_mtime if os.path.exists(p) else None
        with open(p, "w") as f:
            f.write(f"# {name} {self.rng.randrange(10**9)}\n")
        t = old if (keep_mtime and old is not None) else self.tick()
        os.utime(p, (t, t))

    def eclass_files(self):
        out = []
        for r in range(self.nstack):
            for fn in sorted(os.listdir(self.dirs[r])):
                if fn.endswith(".eclass"):
                    out.append((r, fn[:-7]))
        return out

    def entry_path(self, i, p):
        return os.path.join(self.caches[i]["loc"], "cat", p)

    # ---------------------------------------------------------------- observation (model input / output)
    def dir_id(self, d):
        d = os.path.normpath(d)
        for i, x in enumerate(self.dirs):
            if d == x:
                return i + 1
        return 90 + (sum(d.encode()) % 9)

    def world(self, p):
        st = os.stat(self.ebuild(p))
        eb = (0, int(st.st_mtime), md5_of(self.ebuild(p)))
        stack = []
        for r in range(self.nstack):
            repo = []
            for fn in sorted(os.listdir(self.dirs[r])):
                if fn.endswith(".eclass"):
                    q = os.path.join(self.dirs[r], fn)
                    repo.append((ECL.index(fn[:-7]), (r + 1, int(os.stat(q).st_mtime), md5_of(q))))
            stack.append(repo)
        visible = {n for repo in stack for n, _ in repo}
        inh = [ECL.index(n) for n in self.ebuild_inherits(p) if ECL.index(n) in visible]
        return {"pkg": p, "ebuild": eb, "stack": stack, "inherited": inh,
                "inherit_key": bool(self.inherit_key and inh), "payload": self.payload[p]}

    def mk_cache(self, i):
        from pkgcore.cache import flat_hash
        c = self.caches[i]
        if c["lay"] == "flat":
            return flat_hash.database(c["loc"], readonly=c["ro"])
        o = flat_hash.md5_cache(c["loc"], readonly=c["ro"])
        o.location = c["loc"]
        return o

    def slot(self, i, p):
        """what cache[cpv] gives for cache i (a fresh cache object), canonicalised"""
        from pkgcore.cache import errors
        try:
            d = self.mk_cache(i)["cat/" + p]
        except KeyError:
            return None
        except errors.CacheError:
            return Err("C")
        lay = self.caches[i]["lay"]
        chf = d["_mtime_" if lay == "flat" else "_md5_"]
        ecl = d.get("_eclasses_")
        if ecl is not None:
            out = []
            for n, chfs in ecl:
                v = dict(chfs)
                nid = ECL.index(n) if n in ECL else 50
                out.append([nid, self.dir_id(v["eclassdir"]), v["mtime"]] if lay == "flat" else [nid, v["md5"]])
            ecl = sorted(out)           # order inside an entry is memo-dependent and irrelevant: compare as a set
        desc = d.get("DESCRIPTION", "d0")
        pay = int(desc[1:]) if desc[1:].isdigit() else 0
        return [chf, ecl, d.get("INHERIT") is not None, pay]


class Session:
    """one long-lived repository object: eclass cache, metadata caches and package factory are
    built once and serve every read of the session"""

    def __init__(self, repo):
        from pkgcore.ebuild import ebuild_src, eclass_cache
        from pkgcore.ebuild.eapi import get_eapi

        self.repo, self.src, self.eapi = repo, ebuild_src, get_eapi("8")
        ecs = [eclass_cache.cache(repo.dirs[r]) for r in range(repo.nstack)]
        self.ec = ecs[0] if repo.nstack == 1 else eclass_cache.StackedCaches(ecs)
        caches = [repo.mk_cache(i) for i in range(len(repo.caches))]
        self.log = []
        for i, c in enumerate(caches):
            real = c.validate_entry

            def wrapped(item, h, e, real=real, i=i):
                r = real(item, h, e)
                self.log.append((i, bool(r)))
                return r
            c.validate_entry = wrapped
        parent = SimpleNamespace(_get_ebuild_path=lambda pkg: pkg.path)
        self.pf = ebuild_src.package_factory(parent, tuple(caches), self.ec, {}, {})
        self.stub = Stub(repo, self.ec)
        self.held = []          # package objects keep their metadata for the life of the repository object

    def read(self, p):
        del self.log[:]
        self.stub.calls = 0
        pkg = SimpleNamespace(cpvstr="cat/" + p, path=self.repo.ebuild(p), eapi=self.eapi)

        @contextlib.contextmanager
        def fake_request(ebp=None):
            yield self.stub
        saved = self.src.processor.reuse_or_request
        self.src.processor.reuse_or_request = fake_request
        try:
            data = self.pf._get_metadata(pkg)
        finally:
            self.src.processor.reuse_or_request = saved
        self.held.append(data)
        used = [i for i, r in self.log if r]
        pay = int(data.get("DESCRIPTION", "d0")[1:])
        idx = used[0] if used else -1
        if (idx == -1) != (self.stub.calls == 1) or self.stub.calls > 1:
            raise AssertionError(f"validate log {self.log} vs regeneration count {self.stub.calls}")
        return [idx, pay]


class Stub:
    """stands in for the ebuild daemon: metadata straight from the ebuild text"""

    def __init__(self, repo, ec):
        self.repo, self.ec, self.calls = repo, ec, 0

    def get_keys(self, pkg, ecache):
        self.calls += 1
        d = {"EAPI": "8", "SLOT": "0", "DEFINED_PHASES": "-", "KEYWORDS": "~amd64"}
        inh = []
        with open(pkg.path) as f:
            for l in f:
                l = l.rstrip("\n")
                if l.startswith("DESCRIPTION="):
                    d["DESCRIPTION"] = l.split("=", 1)[1]
                elif l.startswith("inherit"):
                    inh = [n for n in l.split()[1:] if n in ecache.eclasses]
        if inh:
            d["INHERITED"] = " ".join(inh)
            if self.repo.inherit_key:
                d["INHERIT"] = " ".join(inh)
        return d


# ------------------------------------------------------------------ the statement, from raw files only
def raw_entry(path, lay):
    """own reader of an entry file: (chf, eclasses or None, has_inherit) or None when unusable"""
    try:
        with open(path, encoding="utf8") as f:
            lines = [l.strip() for l in f]
    except (FileNotFoundError, NotADirectoryError):
        return None
    d = {}
    for l in lines:
        if "=" not in l:
            return None
        k, v = l.split("=", 1)
        d[k] = v
    ck = "_mtime_" if lay == "flat" else "_md5_"
    try:
        chf = int(d[ck]) if lay == "flat" else int(d[ck], 16)
    except (KeyError, ValueError):
        return None
    ecl = None
    if "_eclasses_" in d:
        parts = d["_eclasses_"].strip().split("\t")
        ecl = []
        if parts != [""]:
            n = 3 if lay == "flat" else 2
            if len(parts) % n:
                return None
            try:
                for i in range(0, len(parts), n):
                    ecl.append((parts[i], (parts[i + 1], int(parts[i + 2])) if lay == "flat" else (int(parts[i + 1], 16),)))
            except ValueError:
                return None
    return chf, ecl, "INHERIT" in d


def raw_valid(repo, i, p):
    lay = repo.caches[i]["lay"]
    e = raw_entry(repo.entry_path(i, p), lay)
    if e is None:
        return False
    chf, ecl, has_inherit = e
    now = int(os.stat(repo.ebuild(p)).st_mtime) if lay == "flat" else md5_of(repo.ebuild(p))
    if chf != now:
        return False
    if ecl is None:
        return True
    if not has_inherit:
        return False
    for name, rec in ecl:
        found = None
        for r in range(repo.nstack):
            q = os.path.join(repo.dirs[r], name + ".eclass")
            if os.path.isfile(q):
                found = q
                break
        if found is None:
            return False
        if lay == "flat":
            if os.path.normpath(rec[0]) != os.path.dirname(found) or rec[1] != int(os.stat(found).st_mtime):
                return False
        elif rec[0] != md5_of(found):
            return False
    return True


# ------------------------------------------------------------------ edits
BOUNDARY_STAMPS = [0, 0, 1, 2 ** 31 - 1, 2 ** 31, 2 ** 32]
MID_KINDS = ["ebuild_content", "ebuild_touch", "ebuild_older", "ebuild_boundary_mtime", "ebuild_same_mtime", "ebuild_inherits",
             "drop_inherit_key", "corrupt", "delete", "copy", "empty_eclasses", "stale_eclass_value"]
ECLASS_KINDS = ["eclass_edit", "eclass_edit", "eclass_touch", "eclass_older", "eclass_boundary_mtime", "eclass_same_mtime", "eclass_remove",
                "eclass_move", "eclass_shadow", "eclass_add", "overlay_shadows_master", "overlay_shadows_master",
                "overlay_copy_removed"]
ALL_KINDS = MID_KINDS + ECLASS_KINDS + ECLASS_KINDS + ["toggle_ro", "none"]


def edit(repo, rng, mid_session):
    """one random edit; within a session only ebuilds and cache entries are touched"""
    k = rng.choice(MID_KINDS if mid_session else ALL_KINDS)
    p = rng.choice(repo.pkgs)
    label = k
    files = repo.eclass_files()
    if k.startswith("ebuild") or k in ("drop_inherit_key", "corrupt", "delete", "empty_eclasses", "stale_eclass_value", "copy"):
        label = f"{k}({p})"
    inh = repo.ebuild_inherits(p)
    if k == "ebuild_content":
        repo.write_ebuild(p, inh)
    elif k == "ebuild_touch":
        t = repo.tick()
        os.utime(repo.ebuild(p), (t, t))
    elif k == "ebuild_older":                            # the mtime moves backwards (e.g. a restored file)
        t = max(0, os.stat(repo.ebuild(p)).st_mtime - rng.randint(1, 1000))
        os.utime(repo.ebuild(p), (t, t))
    elif k == "ebuild_boundary_mtime":                   # epoch 0 / 1 / around 2^31, 2^32 (normalised trees, snapshots)
        t = rng.choice(BOUNDARY_STAMPS)
        os.utime(repo.ebuild(p), (t, t))
    elif k == "ebuild_same_mtime":
        repo.write_ebuild(p, inh, keep_mtime=True)
        repo.dirty.add(p)
    elif k == "ebuild_inherits":
        other = repo.ebuild_inherits(rng.choice(repo.pkgs))
        repo.write_ebuild(p, list(other) if rng.random() < 0.5 else rng.sample(ECL, rng.randint(0, 3)))
    elif k in ("eclass_edit", "eclass_touch", "eclass_older", "eclass_boundary_mtime", "eclass_same_mtime", "eclass_remove",
               "eclass_move") and files:
        used = {n for q in repo.pkgs for n in repo.ebuild_inherits(q)}
        pref = [f for f in files if f[1] in used]
        r, n = rng.choice(pref if pref and rng.random() < 0.8 else files)      # mostly an inherited eclass
        q = os.path.join(repo.dirs[r], n + ".eclass")
        label = f"{k}({n})"
        if k == "eclass_edit":
            repo.write_eclass(r, n)
        elif k == "eclass_touch":
            t = repo.tick()
            os.utime(q, (t, t))
        elif k == "eclass_older":
            t = max(0, os.stat(q).st_mtime - rng.randint(1, 1000))
            os.utime(q, (t, t))
        elif k == "eclass_boundary_mtime":
            t = rng.choice(BOUNDARY_STAMPS)
            os.utime(q, (t, t))
        elif k == "eclass_same_mtime":
            repo.write_eclass(r, n, keep_mtime=True)
            repo.dirty.update(repo.pkgs)
        elif k == "eclass_remove":
            os.unlink(q)
        elif repo.nstack == 2:                           # moved between the stacked repositories
            q2 = os.path.join(repo.dirs[1 - r], n + ".eclass")
            if not os.path.exists(q2):
                t = os.stat(q).st_mtime
                shutil.move(q, q2)
                os.utime(q2, (t, t))
    elif k == "overlay_shadows_master" and repo.nstack == 2:
        # an inherited eclass that only the master has gets a DIFFERENT copy in the overlay; the
        # master's file (what existing entries recorded) stays byte-identical
        used = {n for q in repo.pkgs for n in repo.ebuild_inherits(q)}
        cand = [n for r, n in files if r == 1 and n in used
                and not os.path.exists(os.path.join(repo.dirs[0], n + ".eclass"))]
        if cand:
            n = rng.choice(cand)
            label = f"{k}({n})"
            repo.write_eclass(0, n)
    elif k == "overlay_copy_removed" and repo.nstack == 2:
        # the overlay's shadowing copy disappears: the master's (different) copy becomes visible
        cand = [n for r, n in files if r == 0 and os.path.exists(os.path.join(repo.dirs[1], n + ".eclass"))]
        if cand:
            n = rng.choice(cand)
            label = f"{k}({n})"
            os.unlink(os.path.join(repo.dirs[0], n + ".eclass"))
    elif k == "eclass_shadow" and repo.nstack == 2:      # the same name appears in the other repository
        n = rng.choice(ECL)
        r = rng.randrange(2)
        if not os.path.exists(os.path.join(repo.dirs[r], n + ".eclass")):
            repo.write_eclass(r, n)
    elif k == "eclass_add":
        repo.write_eclass(rng.randrange(repo.nstack), rng.choice(ECL))
    elif k in ("drop_inherit_key", "corrupt", "delete", "empty_eclasses", "stale_eclass_value"):
        i = rng.randrange(len(repo.caches))
        q = repo.entry_path(i, p)
        if os.path.isfile(q):
            with open(q) as f:
                lines = f.read().split("\n")
            if k == "drop_inherit_key":
                lines = [l for l in lines if not l.startswith("INHERIT=")]
            elif k == "corrupt":
                lines.insert(rng.randrange(len(lines)), "garbage-without-equals")
            elif k == "empty_eclasses":
                lines = [l for l in lines if not l.startswith("_eclasses_=")] + ["_eclasses_="]
            elif k == "stale_eclass_value":
                lines = [l.replace("\t", "\t1", 1) if l.startswith("_eclasses_=") else l for l in lines]
            if k == "delete":
                os.unlink(q)
            else:
                with open(q, "w") as f:
                    f.write("\n".join(l for l in lines if l) + "\n")
    elif k == "copy" and len(repo.caches) > 1:
        i, j = rng.sample(range(len(repo.caches)), 2)
        if (repo.caches[i]["lay"] == repo.caches[j]["lay"] and os.path.isfile(repo.entry_path(i, p))
                and not repo.caches[j]["wfail"]):
            os.makedirs(os.path.dirname(repo.entry_path(j, p)), exist_ok=True)
            shutil.copy(repo.entry_path(i, p), repo.entry_path(j, p))
    elif k == "toggle_ro":
        c = rng.choice(repo.caches)
        if not c["wfail"]:
            c["ro"] = not c["ro"]
    return k, label


# ------------------------------------------------------------------ Coq rendering
def c_f(f):
    return f"(mk_f {cN(f[0])} {cN(f[1])} {cN(f[2])})"


def c_world(w):
    stack = clist([clist([cpair(cN(n), c_f(f)) for n, f in repo], "N * efile") for repo in w["stack"]],
                  "list (N * efile)")
    return (f"(mk_w {c_f(w['ebuild'])} {stack} {clist([cN(n) for n in w['inherited']], 'N')} "
            f"{cbool(w['inherit_key'])} {cN(w['payload'])})")


def c_slot(s, lay):
    if s is None:
        return "Absent"
    if isinstance(s, Err):
        return "Corrupt"
    chf, ecl, inh, pay = s
    if ecl is None:
        e = "(@None (list (N * efile)))"
    else:
        e = "(Some " + clist([cpair(cN(r[0]), c_f((r[1], r[2], 0) if lay == "flat" else (0, 0, r[1]))) for r in ecl],
                             "N * efile") + ")"
    return f"(mk_e {cN(chf)} {e} {cbool(inh)} {cN(pay)})"


def c_caches(repo, slots):
    return clist([f"(mk_c {'Flat' if c['lay'] == 'flat' else 'Md5'} {cbool(c['ro'])} {cbool(c['wfail'])} {c_slot(s, c['lay'])})"
                  for c, s in zip(repo.caches, slots)], "cache")


# ------------------------------------------------------------------ the matrix of rarely combined options
SHAPES = ["valid", "no_inherit", "no_inherit_stale_ebuild", "stale_ebuild", "stale_eclass", "empty_eclasses",
          "corrupt", "absent", "no_eclasses"]
POSITIONS = ["only", "after-empty", "before-valid"]


def matrix_cell(root, rng, cell):
    """a repository whose cache T (layout, writable/read-only) holds, for pkg-1, an entry of the given
    shape; T is the only cache, or comes after an empty writable cache, or before a cache with a
    valid entry.  pkg-2 inherits the same eclasses and keeps a valid entry."""
    lay, ro, shape, pos, stamps = cell
    inh = [] if shape == "no_eclasses" else ["e1", "e3"]
    caches = {"only": [(lay, False)], "after-empty": [(lay, False), (lay, False)],
              "before-valid": [(lay, False), (lay, False)]}[pos]
    repo = Repo(root, rng, spec={"nstack": 2, "caches": caches, "pkgs": ["pkg-1", "pkg-2"],
                                 "inherits": {"pkg-1": inh, "pkg-2": ["e1", "e3"]}})
    hist = [f"matrix cell: layout={lay} cache T {'read-only' if ro else 'writable'}, pkg-1 entry shape={shape}, position={pos}, stamps={stamps}"]
    if stamps == "epoch":                       # boundary values: mtime exactly 0 (ebuilds, one eclass) and 1
        for p in repo.pkgs:
            os.utime(repo.ebuild(p), (0, 0))
        for j, (r, n) in enumerate(repo.eclass_files()):
            os.utime(os.path.join(repo.dirs[r], n + ".eclass"), (j % 2, j % 2))
    sess = Session(repo)
    for p in repo.pkgs:                         # populate cache 0 (all caches writable for now)
        sess.read(p)
    t = 0
    if pos == "after-empty":                    # T is cache 1; cache 0 stays writable and empty
        t = 1
        for p in repo.pkgs:
            os.makedirs(os.path.dirname(repo.entry_path(1, p)), exist_ok=True)
            shutil.move(repo.entry_path(0, p), repo.entry_path(1, p))
    elif pos == "before-valid":                 # cache 1 holds valid entries
        for p in repo.pkgs:
            os.makedirs(os.path.dirname(repo.entry_path(1, p)), exist_ok=True)
            shutil.copy(repo.entry_path(0, p), repo.entry_path(1, p))
    q = repo.entry_path(t, "pkg-1")
    with open(q) as f:
        lines = [l for l in f.read().split("\n") if l]
    if shape in ("no_inherit", "no_inherit_stale_ebuild"):
        lines = [l for l in lines if not l.startswith("INHERIT=")]
    elif shape == "empty_eclasses":
        lines = [l for l in lines if not l.startswith("_eclasses_=")] + ["_eclasses_="]
    elif shape == "corrupt":
        lines.insert(1, "garbage-without-equals")
    if shape == "absent":
        os.unlink(q)
    else:
        with open(q, "w") as f:
            f.write("\n".join(lines) + "\n")
    if shape in ("stale_ebuild", "no_inherit_stale_ebuild"):
        repo.write_ebuild("pkg-1", inh)
        if pos == "before-valid":               # keep cache 1's entry valid: regenerate it there
            pass
    elif shape == "stale_eclass":
        repo.write_eclass(1, "e3")
    repo.caches[t]["ro"] = ro
    return repo, hist


def main(chk: Check):
    rng = chk.rng
    chk.rule("histories over random on-disk repositories (2-3 packages with equal/overlapping inherit lists, 1-2 "
             "stacked eclass dirs, 1-3 caches of either layout, read-only / unwritable ones included): 2-4 sessions, "
             "each one long-lived repository object reading every package in random order (sometimes one twice); "
             "26 kinds of edit (boundary mtimes 0/1/2^31/2^32 for ebuilds and eclasses, overlay starts / stops shadowing a master's eclass, ebuild content/touch/older mtime/content-with-same-mtime/inherit list, eclass edit/"
             "touch/older/same-mtime/removal/move between stacked repos/shadowing/addition, entry without INHERIT, "
             "corrupt/deleted/copied entry, empty or stale _eclasses_, read-only toggle) before every session and "
             "(ebuild / entry kinds) between the reads of a session; non-trivial = distinct (world, cache states) "
             "in which at least one cache holds an entry")
    ok = chk.build(["C48/Prop_C48.vo"])
    if ok:
        chk.check_assumptions("C48/Prop_C48.v")
    chk.lint(["C48"])
    chk.check_fingerprint(ANCHORS)

    import logging
    logging.getLogger("pkgcore").setLevel(logging.CRITICAL)
    cases, py_bad, kinds_seen = [], [], {}
    counters = {'shared': 0}

    def judge(repo, sess, p, hist, regen_sets):
        """one metadata read: record the case for Coq, apply the direct oracle"""
        w = repo.world(p)
        nc = range(len(repo.caches))
        pre = [repo.slot(i, p) for i in nc]
        valid_now = [raw_valid(repo, i, p) for i in nc]
        res = sess.read(p)
        hist.append(f"read {p} -> " + ("regenerated" if res[0] < 0 else f"cache {res[0]}"))
        post = [repo.slot(i, p) for i in nc]
        term = cpair(c_world(w), c_caches(repo, pre))
        cases.append((term, [res, post]))
        if any(s is not None for s in pre):
            chk.nontrivial(term)
        names = frozenset(w["inherited"])
        if names and names in regen_sets and any(s is not None for s in pre):
            counters['shared'] += 1     # a package read after another one with the same eclasses was regenerated
        if res[0] < 0:
            regen_sets.append(names)
        # ---- (B) directly on the implementation
        ctx = {"history": list(hist), "package": p, "world": w,
               "caches": [dict(c, entry=s) for c, s in zip(repo.caches, pre)], "result": res, "after": post}
        first_valid = next((i for i, v in enumerate(valid_now) if v), -1)
        if res[0] != first_valid:
            py_bad.append(dict(ctx, what=(f"{p}: cache {res[0]} was used" if res[0] >= 0
                                          else f"{p}: metadata was regenerated")
                               + f" but the first cache whose entry is still valid is {first_valid} "
                                 "(validity computed from the raw files)"))
        elif p not in repo.dirty and res[1] != repo.payload[p]:
            py_bad.append(dict(ctx, what=f"{p}: returned metadata d{res[1]} differs from metadata "
                                         f"regenerated from scratch d{repo.payload[p]}"))
        elif res[0] == -1:
            writable = [i for i, c in enumerate(repo.caches) if not c["ro"] and not c["wfail"]]
            stale_left = [i for i in writable if os.path.isfile(repo.entry_path(i, p))
                          and raw_entry(repo.entry_path(i, p), repo.caches[i]["lay"]) is not None
                          and not raw_valid(repo, i, p)]
            fresh_ok = repo.inherit_key or not w["inherited"]
            if stale_left and fresh_ok:
                py_bad.append(dict(ctx, what=f"{p}: after the regeneration writable cache {stale_left[0]} "
                                             "still holds a stale entry"))
            elif writable and fresh_ok:
                res2 = sess.read(p)
                if res2[0] != writable[0]:
                    py_bad.append(dict(ctx, what=f"{p}: a second read after the regeneration was not served "
                                                 f"from the first writable cache {writable[0]} (got {res2[0]})"))
        return w, pre, res, post

    n_hist = chk.n(24, 200)
    base = tempfile.mkdtemp(prefix="verif_c48_")
    try:
        # ---- corpus cells, then the full MATRIX: layout x writable/read-only x entry shape x position
        #      of the cache in the tuple.  Deterministic; rarely combined options are all combined.
        cells = []
        for cp in sorted((VERIF / "corpus" / "C48").glob("*.json")):
            for c in json.loads(cp.read_text())["cells"]:
                cells.append((c["layout"], c["ro"], c["shape"], c["position"], c.get("stamps", "normal")))
        for lay in ("md5", "flat"):
            for ro in (False, True):
                for shape in SHAPES:
                    for pos in (POSITIONS if shape in ("valid", "no_inherit", "stale_ebuild") else POSITIONS[:1]):
                        for stamps in (("normal", "epoch") if shape in ("valid", "stale_eclass", "no_eclasses", "no_inherit") and pos == "only"
                                       else ("normal",)):
                            if (lay, ro, shape, pos, stamps) not in cells:
                                cells.append((lay, ro, shape, pos, stamps))
        for ci, cell in enumerate(cells):
            root = os.path.join(base, f"m{ci}")
            os.makedirs(root)
            repo, hist = matrix_cell(root, rng, cell)
            sess = Session(repo)
            hist.append("-- new repository object")
            regen_sets = []
            for p in repo.pkgs:
                w, pre, res, post = judge(repo, sess, p, hist, regen_sets)
            if ci < 2:
                chk.sample({"stream": "read", "matrix_cell": cell, "history": list(hist), "result": res,
                            "caches_before": pre, "caches_after": post})
            shutil.rmtree(root, ignore_errors=True)
        chk.cov["matrix_cells"] = len(cells)
        for h in range(n_hist):
            root = os.path.join(base, f"h{h}")
            os.makedirs(root)
            repo = Repo(root, rng)
            hist = ["packages: " + "; ".join(f"{p} inherits {' '.join(repo.ebuild_inherits(p)) or '-'}" for p in repo.pkgs)]
            for sess_no in range(rng.randint(2, 4)):
                if sess_no > 0:
                    for _ in range(rng.randint(1, 3)):
                        k, label = edit(repo, rng, False)
                        hist.append(label)
                        kinds_seen[k] = kinds_seen.get(k, 0) + 1
                        if label.startswith("overlay_shadows_master("):
                            kinds_seen["overlay_shadows_master:effective"] = kinds_seen.get("overlay_shadows_master:effective", 0) + 1
                sess = Session(repo)
                hist.append("-- new repository object")
                order = list(repo.pkgs)
                rng.shuffle(order)
                if rng.random() < 0.3:
                    order.append(rng.choice(repo.pkgs))
                regen_sets = []
                for j, p in enumerate(order):
                    if j > 0 and rng.random() < 0.3:
                        k, label = edit(repo, rng, True)
                        hist.append(label)
                        kinds_seen[k] = kinds_seen.get(k, 0) + 1
                    w, pre, res, post = judge(repo, sess, p, hist, regen_sets)
                    if h < 3 and sess_no == 1 and j == 1:
                        chk.sample({"stream": "read", "history": list(hist), "world": w, "caches_before": pre,
                                    "result": res, "caches_after": post})
            shutil.rmtree(root, ignore_errors=True)
    finally:
        shutil.rmtree(base, ignore_errors=True)
    chk.count("read", len(cases))
    chk.note("edit kinds exercised: " + ", ".join(f"{k}={v}" for k, v in sorted(kinds_seen.items())))
    chk.note(f"reads of a package holding a cache entry after the same repository object had regenerated another "
             f"package with the same inherited eclasses: {counters['shared']}")
    chk.cov["shared_eclass_reads_after_regen"] = counters["shared"]

    spec_bad = []
    r = chk.coq_eval("read", IMPORTS, "world * list cache", cases,
                     ["mismatches run_read cases", "where_ (fun i r => negb (spec_read_ok i r)) cases"],
                     shard=150) if ok else None
    if r is not None:
        spec_bad = [cases[i] for i in r[1]]
        for i in r[0][:3]:
            chk.violation("correspondence",
                          {"what": "implementation and Model_C48 disagree on a metadata read (the theorems of "
                                   "Prop_C48 no longer speak about this code)",
                           "input": cases[i][0], "implementation": cases[i][1]},
                          no_input=not (py_bad or spec_bad))
    for b in py_bad[:3]:
        chk.violation("property", {"what": b["what"], "input": b})
    if spec_bad and not py_bad:
        for s in spec_bad[:3]:
            chk.violation("property", {"what": "Spec_C48.spec_read_ok rejects the implementation's cache decision",
                                       "input": s[0], "implementation": s[1]})


def replay(chk, data):
    print("re-run with the same seed: VERIF_SEED=%s ./check C48 --tier %s" % (data.get("seed"), data.get("tier")))
