"""C14 — USE-configured package views always reflect the current USE set (DESIGN §6 C14).

The implementation is a real `PackageWrapper` made by `pkgcore.package.conditionals.make_wrapper`
over a `FakePkg` whose wrapped attributes (depend, rdepend, bdepend) are conditional DepSets and
are wrapped exactly as `ConfiguredTree` wraps them (`alias_method("evaluate_depset")`).

Streams (each case is one operation history; after EVERY op the harness records
[result or exception kind, membership of the 8 observed flags in pkg.use, pkg.changes_count()])
  hist   random histories over 4 changeable + 2 locked flags: request_enable / request_disable
         on "use" (1-3 values, sometimes a locked one, sometimes duplicates), rollback to a valid
         earlier point, commit, reads of the wrapped attributes interleaved at random
  enum   ALL histories of length <= 4 (quick; <= 5 thorough) over the alphabet
         {en a, en b, dis a, dis b, dis(b,locked-on), en(a,locked-off), rollback 0, rollback 1,
          commit, read}; sent to Coq as "fans" (a prefix + every continuation, Model_C14.run_fan /
          Spec_C14.spec_fan_ok) and re-evaluated one by one when a fan disagrees
  odd    malformed histories: out-of-range rollback points, empty / duplicate / all-locked value
         lists, flags no attribute mentions
  multi  SEVERAL configured packages side by side: 2-3 wrappers (created when first used, as repo
         lookups are) of one or two shared raw packages, from one or two make_wrapper classes, USE
         sets equal or differing in a few flags, ops interleaved or one package after the other;
         plus all two-package histories of length 4 (thorough 5) over {en a, dis a, commit, read} x 2.
         After every op the USE mask and changes_count of EVERY package are observed
         (Model_C14.run_multi / Spec_C14.spec_multi_ok; theorems multi_reads_current, multi_isolated)
(A) each recorded history is compared with Model_C14.run_hist (the REPAIRED wrapper) inside Coq;
(B) Spec_C14.spec_hist_ok is evaluated inside Coq on the implementation's recorded observations,
    and the same oracle runs directly in Python against `raw.evaluate_depset(set(pkg.use))`.
"""

import itertools
import json

from .common import Check, Err, Raw, clist, cpair, impl_call, shrink_list

IMPORTS = ("From Coq Require Import List NArith ZArith Bool.\n"
           "From Verif Require Import Base.Val C14.Model_C14 C14.Spec_C14.")
# numerals in the cases files are N by default; Z-typed arguments (VZ, Rollback, mk_obs, mk_input)
# are read in Z_scope through Coq's scope binding, so no per-literal delimiter is needed
PRE0 = "Local Open Scope N_scope."
ANCHORS = ["package/conditionals.py::_getattr_wrapped", "package/conditionals.py::make_wrapper"]
FLAGS = ["fa", "fb", "fc", "fd", "lk", "lm", "fe", "fg"]  # ids 0..7; 4,5 are the locked ones
LOCKED = (4, 5)
ATTRS = ["depend", "rdepend", "bdepend"]
KINDS = {"TypeError": "TypeError", "KeyError": "KeyError"}
TY = "hist_input"


# ----------------------------------------------------------------------------- depsets
def gen_nodes(rng, leaf_ids, depth, flags):
    """random conditional forest; returns nested python: int leaf | (flag, neg, kids)"""
    out = []
    for _ in range(rng.randint(1, 3)):
        if depth > 0 and rng.random() < 0.6:
            out.append((rng.choice(flags), rng.random() < 0.35,
                        gen_nodes(rng, leaf_ids, depth - 1, flags)))
        else:
            out.append(next(leaf_ids))
    return out


def nodes_str(nodes):
    parts = []
    for n in nodes:
        if isinstance(n, int):
            parts.append(f"x/p{n}")
        else:
            f, neg, kids = n
            parts.append(f"{'!' if neg else ''}{FLAGS[f]}? ( {nodes_str(kids)} )")
    return " ".join(parts)


def cN(n):
    return str(int(n))


def cZ(n):
    return f"({int(n)})" if n < 0 else str(int(n))


def mask(ids):
    return sum(1 << i for i in set(ids))


def nodes_coq(nodes):
    return clist([f"Leaf {cN(n)}" if isinstance(n, int)
                  else f"Cond {cN(n[0])} {'true' if n[1] else 'false'} {nodes_coq(n[2])}"
                  for n in nodes], "node")


def nodes_json(nodes):
    return [n if isinstance(n, int) else [n[0], n[1], nodes_json(n[2])] for n in nodes]


def nodes_from_json(j):
    return [n if isinstance(n, int) else (n[0], bool(n[1]), nodes_from_json(n[2])) for n in j]


# ----------------------------------------------------------------------------- ops
# python form: ("en", [ids]) ("dis", [ids]) ("rb", k) ("commit",) ("read", attr_index)
def op_coq(o):
    if o[0] == "en":
        return f"Enable {clist([cN(x) for x in o[1]], 'N')}"
    if o[0] == "dis":
        return f"Disable {clist([cN(x) for x in o[1]], 'N')}"
    if o[0] == "rb":
        return f"Rollback {cZ(o[1])}"
    if o[0] == "commit":
        return "Commit"
    return f"Read {cN(o[1])}"


def case_term(use, ds_name, ops):
    return f"mk_input {mask(use)} {mask(LOCKED)} {ds_name} {clist([op_coq(o) for o in ops], 'op')}"


def res_coq(r):
    if r is True:
        return "(VB true)"
    if r is False:
        return "(VB false)"
    if r is None:
        return "VNone"
    if isinstance(r, Err):
        return "(VErr " + clist([str(ord(c)) for c in r.kind], "N") + ")"
    return "(VL " + clist([f"VZ {int(x)}" for x in r], "val") + ")"


def obs_term(obs):
    return Raw("VL " + clist([f"mk_obs {res_coq(r)} {m} {c}" for r, m, c in obs], "val"))


def flags_of(m):
    return [FLAGS[i] for i in range(8) if m >> i & 1]


class Impl:
    """driver of the real wrapper"""

    def __init__(self):
        from snakeoil import klass
        from pkgcore.ebuild.atom import atom
        from pkgcore.ebuild.conditionals import DepSet
        from pkgcore.package.conditionals import make_wrapper
        from pkgcore.test.misc import FakePkg

        self.atom, self.DepSet, self.FakePkg = atom, DepSet, FakePkg
        # as ConfiguredTree.config_wrappables does
        self.kls = make_wrapper(None, "use", {a: klass.alias_method("evaluate_depset") for a in ATTRS})
        # a second configured repo's class (stream "multi")
        self.kls2 = make_wrapper(None, "use", {a: klass.alias_method("evaluate_depset") for a in ATTRS})
        self._parsed = {}

    def depset(self, nodes):
        s = nodes_str(nodes)
        d = self._parsed.get(s)
        if d is None:
            d = self._parsed[s] = self.DepSet.parse(s, self.atom)
        return d

    def make(self, use, depsets):
        raw = self.FakePkg("dev-util/c14-1")
        for a, nodes in zip(ATTRS, depsets):
            object.__setattr__(raw, a, self.depset(nodes))
        w = self.kls(raw, initial_settings=[FLAGS[i] for i in use],
                     unchangable_settings=[FLAGS[i] for i in LOCKED])
        return raw, w

    @staticmethod
    def leaves(ds):
        return [int(str(x).split("/p", 1)[1]) for x in ds]

    def run_multi(self, raws, wr, ops, choose_rb=None):
        """several configured packages side by side.  raws: depsets per raw package;
        wr: (raw index, initial use, class index) per wrapper, each wrapper is created (as a repo
        lookup would) when the first op addressed to it runs; ops: (wrapper index, op).
        -> (ops run, observations [result, [mask, count of every wrapper]], oracle failures)"""
        rawobjs = []
        for depsets in raws:
            raw = self.FakePkg("dev-util/c14-1")
            for a, nodes in zip(ATTRS, depsets):
                object.__setattr__(raw, a, self.depset(nodes))
            rawobjs.append(raw)
        ws = [None] * len(wr)

        def state():
            out = []
            for i, (ri, use, ki) in enumerate(wr):
                if ws[i] is None:
                    out += [mask(use), 0]
                else:
                    out += [mask(FLAGS.index(f) for f in set(ws[i].use)), int(ws[i].changes_count())]
            return out

        obs, bad, done = [], [], []
        for idx, (wi, o) in enumerate(ops):
            ri, use, ki = wr[wi]
            if ws[wi] is None:
                ws[wi] = (self.kls, self.kls2)[ki](
                    rawobjs[ri], initial_settings=[FLAGS[i] for i in use],
                    unchangable_settings=[FLAGS[i] for i in LOCKED])
            w = ws[wi]
            before = state()
            if o[0] == "rb" and o[1] is None:
                o = ("rb", choose_rb(w.changes_count()))
            done.append((wi, o))
            if o[0] == "en":
                r = impl_call(lambda: w.request_enable("use", *[FLAGS[i] for i in o[1]]), kinds=KINDS)
            elif o[0] == "dis":
                r = impl_call(lambda: w.request_disable("use", *[FLAGS[i] for i in o[1]]), kinds=KINDS)
            elif o[0] == "rb":
                r = impl_call(lambda: w.rollback(o[1]), kinds=KINDS)
            elif o[0] == "commit":
                r = impl_call(w.commit, kinds=KINDS)
            else:
                r = impl_call(lambda: self.leaves(getattr(w, ATTRS[o[1]])), kinds=KINDS)
            if not (r is True or r is False or r is None or isinstance(r, (Err, list))):
                r = Err("unexpected:" + type(r).__name__)
            after = state()
            obs.append([r, after])
            cur = set(w.use)
            if o[0] == "read":
                want = self.leaves(getattr(rawobjs[ri], ATTRS[o[1]]).evaluate_depset(cur))
                if r != want:
                    bad.append({"at": idx, "wrapper": wi, "what": "stale read: a configured package's attribute "
                                "differs from raw.evaluate_depset(its current use) while other configured "
                                "packages are in use", "attr": ATTRS[o[1]],
                                "use": sorted(cur), "got": r, "expected": want})
            elif o[0] in ("en", "dis") and r is False and after[2 * wi] != before[2 * wi]:
                bad.append({"at": idx, "wrapper": wi, "what": "a refused request changed the USE set",
                            "before": flags_of(before[2 * wi]), "after": flags_of(after[2 * wi])})
            for j in range(len(wr)):
                if j != wi and after[2 * j:2 * j + 2] != before[2 * j:2 * j + 2]:
                    bad.append({"at": idx, "wrapper": wi, "what": "an operation on one configured package "
                                "changed the USE set / change count of another", "other": j})
        return done, obs, bad

    def run(self, use, depsets, ops, choose_rb=None):
        """-> (ops actually run, observations, property failures found by the direct oracle)"""
        raw, w = self.make(use, depsets)
        obs, bad, done = [], [], []
        for idx, o in enumerate(ops):
            before = set(w.use)
            if o[0] == "rb" and o[1] is None:  # generator: pick the point from the live count
                o = ("rb", choose_rb(w.changes_count()))
            done.append(o)
            if o[0] == "en":
                r = impl_call(lambda: w.request_enable("use", *[FLAGS[i] for i in o[1]]), kinds=KINDS)
            elif o[0] == "dis":
                r = impl_call(lambda: w.request_disable("use", *[FLAGS[i] for i in o[1]]), kinds=KINDS)
            elif o[0] == "rb":
                r = impl_call(lambda: w.rollback(o[1]), kinds=KINDS)
            elif o[0] == "commit":
                r = impl_call(w.commit, kinds=KINDS)
            else:
                r = impl_call(lambda: self.leaves(getattr(w, ATTRS[o[1]])), kinds=KINDS)
            cur = set(w.use)
            if r is True or r is False or r is None or isinstance(r, (Err, list)):
                pass
            else:
                r = Err("unexpected:" + type(r).__name__)
            obs.append([r, mask(FLAGS.index(f) for f in cur), int(w.changes_count())])
            # ---- (B) direct oracle on the implementation
            if o[0] == "read":
                want = self.leaves(getattr(raw, ATTRS[o[1]]).evaluate_depset(cur))
                if r != want:
                    bad.append({"at": idx, "what": "stale read: wrapped attribute differs from "
                                "raw.evaluate_depset(current use)", "attr": ATTRS[o[1]],
                                "use": sorted(cur), "got": r, "expected": want})
            elif o[0] in ("en", "dis") and r is False and cur != before:
                bad.append({"at": idx, "what": "a refused request changed the USE set",
                            "before": sorted(before), "after": sorted(cur)})
            elif o[0] in ("en", "dis") and isinstance(r, Err) and cur != before:
                bad.append({"at": idx, "what": f"a request raised {r.kind} and changed the USE set",
                            "before": sorted(before), "after": sorted(cur)})
        return done, obs, bad


def hist_json(use, depsets, ops):
    return {"use": [FLAGS[i] for i in use], "locked": [FLAGS[i] for i in LOCKED],
            "attributes": {a: nodes_str(d) for a, d in zip(ATTRS, depsets)},
            "ops": [op_show(o) for o in ops],
            "raw": {"use": list(use), "depsets": [nodes_json(d) for d in depsets],
                    "ops": [[o[0]] + ([list(o[1])] if o[0] in ("en", "dis") else
                                      [o[1]] if len(o) > 1 else []) for o in ops]}}


def op_show(o):
    if o[0] in ("en", "dis"):
        return ("request_enable" if o[0] == "en" else "request_disable") + \
            "('use', " + ", ".join(repr(FLAGS[i]) for i in o[1]) + ")"
    if o[0] == "rb":
        return f"rollback({o[1]})"
    if o[0] == "commit":
        return "commit()"
    return f"read .{ATTRS[o[1]]}"


def multi_term(raw_names, wr, ops):
    cfgs = clist([f"({ri}, {mask(use)}%Z)" for ri, use, _ in wr], "N * Z")
    mops = clist([f"({wi}%nat, {op_coq(o)})" for wi, o in ops], "nat * op")
    return f"(({clist(raw_names, 'list (list node)')}, {cfgs}, {mask(LOCKED)}%Z), {mops})"


def mobs_term(obs):
    return Raw("VL " + clist([f"VL [{res_coq(r)}; VL {clist(['VZ %d' % x for x in flat], 'val')}]"
                              for r, flat in obs], "val"))


def multi_json(raws, wr, ops):
    return {"multi": True,
            "raw_packages": [{a: nodes_str(d) for a, d in zip(ATTRS, depsets)} for depsets in raws],
            "configured_packages": [{"raw_package": ri, "use": [FLAGS[i] for i in use],
                                     "wrapper_class": ki} for ri, use, ki in wr],
            "ops": [f"pkg{wi}: {op_show(o)}" for wi, o in ops],
            "raw": {"raws": [[nodes_json(d) for d in depsets] for depsets in raws],
                    "wr": [[ri, list(use), ki] for ri, use, ki in wr],
                    "ops": [[wi, [o[0]] + ([list(o[1])] if o[0] in ("en", "dis") else
                                           [o[1]] if len(o) > 1 else [])] for wi, o in ops]}}


def multi_from_raw(raw):
    raws = [[nodes_from_json(d) for d in depsets] for depsets in raw["raws"]]
    wr = [(ri, tuple(use), ki) for ri, use, ki in raw["wr"]]
    ops = [(wi, ops_from_raw([o])[0]) for wi, o in raw["ops"]]
    return raws, wr, ops


def ops_from_raw(raw_ops):
    out = []
    for o in raw_ops:
        if o[0] in ("en", "dis"):
            out.append((o[0], tuple(o[1])))
        elif o[0] == "commit":
            out.append(("commit",))
        else:
            out.append((o[0], o[1]))
    return out


# ----------------------------------------------------------------------------- generators
def gen_vals(rng, odd=False):
    if odd:
        k = rng.random()
        if k < 0.2:
            return ()
        if k < 0.45:
            x = rng.randrange(6)
            return (x, x) + ((rng.randrange(6),) if rng.random() < 0.5 else ())
        if k < 0.65:
            return tuple(rng.sample(LOCKED, rng.randint(1, 2)))
        if k < 0.85:
            return tuple(rng.choice((6, 7, rng.randrange(6))) for _ in range(rng.randint(1, 3)))
    n = rng.choice((1, 1, 1, 2, 2, 3))
    vals = [rng.randrange(4) for _ in range(n)]
    if rng.random() < 0.3:
        vals.insert(rng.randint(0, len(vals)), rng.choice(LOCKED))
    return tuple(vals)


def gen_ops(rng, n, odd=False):
    ops = []
    for _ in range(n):
        k = rng.random()
        if k < 0.36:
            ops.append(("read", rng.randrange(len(ATTRS))))
        elif k < 0.56:
            ops.append(("en", gen_vals(rng, odd)))
        elif k < 0.76:
            ops.append(("dis", gen_vals(rng, odd)))
        elif k < 0.90:
            ops.append(("rb", None))
        else:
            ops.append(("commit",))
    return ops


ENUM_ALPHABET = [("en", (0,)), ("en", (1,)), ("dis", (0,)), ("dis", (1,)), ("dis", (1, 4)),
                 ("en", (0, 5)), ("rb", 0), ("rb", 1), ("commit",), ("read", 0)]
ENUM_USE = (0, 4)
ENUM_DS = [[(0, False, [1]), (0, True, [2]), (1, False, [3]), (4, False, [(1, True, [4])]), 0], [5], [6]]

# the three defects of the pinned tree (DESIGN §10) + the two found while building; run first
CORPUS = [
    ((0,), "enum", [("read", 0), ("dis", (0,)), ("read", 0)]),
    ((), "enum", [("read", 0), ("en", (0,)), ("commit",), ("read", 0)]),
    ((4,), "enum", [("dis", (1, 4)), ("read", 0)]),
    ((0,), "enum", [("en", (0, 5)), ("read", 0)]),
    ((0,), "enum", [("read", 0), ("dis", (0, 5)), ("read", 0)]),
    ((0,), "enum", [("dis", (0,)), ("dis", (0,)), ("read", 0)]),
]

# several configured packages of shared raw packages (round 4): (raw ds names, wrappers, ops)
MULTI_ALPHABET = [(w, o) for w in (0, 1) for o in (("en", (0,)), ("dis", (0,)), ("commit",), ("read", 0))]
MULTI_ENUM_WR = [(0, (0, 4), 0), (0, (4,), 0)]
MULTI_CORPUS = [
    # two lookups of the same cpv with different USE, both at generation 0
    (["enum"], [(0, (0, 4), 0), (0, (4,), 0)], [(0, ("read", 0)), (1, ("read", 0))]),
    # same initial USE, histories diverge, the second reaches the generation the first cached at
    (["enum"], [(0, (), 0), (0, (), 0)],
     [(0, ("en", (0,))), (0, ("read", 0)), (1, ("commit",)), (1, ("read", 0))]),
    # one after the other: the first is used and dropped, the second is looked up later
    (["enum"], [(0, (0,), 0), (0, (1,), 0)],
     [(0, ("read", 0)), (0, ("dis", (0,))), (0, ("read", 0)), (0, ("commit",)), (0, ("read", 0)),
      (1, ("read", 0)), (1, ("en", (0,))), (1, ("read", 0)), (1, ("rb", 0)), (1, ("read", 0))]),
    # the same raw package configured by two repos (two wrapper classes)
    (["enum"], [(0, (0,), 0), (0, (), 1)],
     [(0, ("read", 0)), (1, ("read", 0)), (1, ("en", (1,))), (0, ("dis", (0,))), (0, ("read", 0)), (1, ("read", 0))]),
    # two raw packages configured by the same repo
    (["enum", "enum2"], [(0, (0,), 0), (1, (0,), 0)],
     [(0, ("read", 0)), (1, ("read", 0)), (0, ("dis", (0,))), (1, ("read", 0)), (0, ("read", 0))]),
]
ENUM2_DS = [[(0, False, [7]), (0, True, [8]), 9], [5], [6]]


def main(chk: Check):
    rng = chk.rng
    chk.rule("operation histories on a real PackageWrapper (4 changeable + 2 locked flags, 3 wrapped "
             "conditional DepSets): random histories of 6-16 ops with reads interleaved, all histories "
             "of length <=4 (thorough <=5) over a 10-op alphabet, and a malformed stream; after every op "
             "result/exception, USE membership and changes_count are compared with the model; "
             "non-trivial = a history in which a read follows a successful change of the USE set "
             "(counted once per distinct history)")
    ok = chk.build(["C14/Prop_C14.vo"])
    if ok:
        chk.check_assumptions("C14/Prop_C14.v")
    chk.lint(["C14"])
    chk.check_fingerprint(ANCHORS)

    import time
    timing = chk.cov.setdefault("timing_s", {})
    timing["build+assumptions+lint"] = round(time.time() - chk.t0, 1)
    t1 = time.time()
    impl = Impl()
    # ---- depset pool (shared by the cases through the preamble)
    pool = {"enum": ENUM_DS, "enum2": ENUM2_DS}
    for k in range(chk.n(24, 120)):
        ids = itertools.count(10 * k)
        pool[f"ds{k}"] = [gen_nodes(rng, ids, 2, list(range(6))) for _ in ATTRS]
    preamble = PRE0 + "\n" + "\n".join(
        f"Definition {name} : list (list node) := {clist([nodes_coq(d) for d in dss], 'list node')}."
        for name, dss in pool.items())
    pool_names = [n for n in pool if n not in ("enum", "enum2")]

    streams = {"hist": [], "enum": [], "odd": []}   # name -> [(use, ds_name, ops, obs)]
    py_bad = []

    def drive(stream, use, ds_name, ops, choose_rb=None):
        done, obs, bad = impl.run(use, pool[ds_name], ops, choose_rb)
        streams[stream].append((tuple(use), ds_name, done, obs))
        if bad:
            py_bad.append((tuple(use), ds_name, done, bad))
        # non-triviality: a read after a successful change of the USE set
        changed, prev = False, mask(use)
        for o, ob in zip(done, obs):
            cur = ob[1]
            if cur != prev and not isinstance(ob[0], Err) and ob[0] is not False:
                changed = True
            if o[0] == "read" and changed:
                chk.nontrivial((stream, tuple(use), ds_name, tuple(done)))
                break
            prev = cur
        return obs

    # corpus first
    for use, ds_name, ops in CORPUS:
        drive("enum", use, ds_name, ops)
    from .common import VERIF  # corpus/C14/*.json: histories in hist_json()["raw"] form
    for f in sorted((VERIF / "corpus" / "C14").glob("*.json")):
        raw = json.loads(f.read_text())
        raw = raw.get("raw", raw)
        name = f"corpus_{f.stem}".replace("-", "_")
        pool[name] = [nodes_from_json(d) for d in raw["depsets"]]
        preamble += (f"\nDefinition {name} : list (list node) := "
                     f"{clist([nodes_coq(d) for d in pool[name]], 'list node')}.")
        drive("hist", tuple(raw["use"]), name, ops_from_raw(raw["ops"]))

    # random histories
    def valid_rb(cnt):
        return rng.randint(0, cnt)

    def odd_rb(cnt):
        return rng.choice((-1, cnt + 1, cnt + 3, -5, rng.randint(0, cnt)))

    for _ in range(chk.n(500, 4000)):
        use = [i for i in range(6) if rng.random() < 0.4]
        drive("hist", use, rng.choice(pool_names), gen_ops(rng, rng.randint(6, 16)), valid_rb)
    for _ in range(chk.n(120, 1000)):
        use = [i for i in range(8) if rng.random() < 0.35]
        drive("odd", use, rng.choice(pool_names), gen_ops(rng, rng.randint(3, 10), odd=True), odd_rb)
    # exhaustive small histories: every prefix of length maxlen-1, each followed by every op
    # (every op of a history is observed, so the shorter histories are covered as prefixes)
    maxlen = 5 if chk.thorough else 4   # not escalated by a fingerprint change: already exhaustive
    fans = []   # (prefix ops, prefix obs, [last obs per op of the alphabet])
    for pre in itertools.product(ENUM_ALPHABET, repeat=maxlen - 1):
        pre_obs, last_obs = None, []
        for last in ENUM_ALPHABET:
            obs = drive("enum", ENUM_USE, "enum", list(pre) + [last])
            if pre_obs is None:
                pre_obs = obs[:-1]
            elif pre_obs != obs[:-1]:
                chk.violation("correspondence", {"what": "the same prefix run twice gave different observations",
                                                 "input": hist_json(ENUM_USE, ENUM_DS, list(pre))}, no_input=True)
            last_obs.append(obs[-1])
        fans.append((list(pre), pre_obs, last_obs))

    # ---- several configured packages side by side (fresh wrappers of shared raw packages)
    multi, multi_bad = [], []   # (raw names, wr, ops, obs)

    def drive_multi(raw_names, wr, ops, choose_rb=None):
        done, obs, bad = impl.run_multi([pool[n] for n in raw_names], wr, ops, choose_rb)
        multi.append((list(raw_names), list(wr), done, obs))
        if bad:
            multi_bad.append((list(raw_names), list(wr), done, bad))
        # non-trivial: a read by one package of an attribute another package OF THE SAME RAW
        # PACKAGE read before, while their USE sets differ
        readers = {}
        for (wi, o), ob in zip(done, obs):
            if o[0] == "read":
                ri = wr[wi][0]
                if any(wr[j][0] == ri and j != wi and ob[1][2 * j] != ob[1][2 * wi]
                       for j in readers.get((ri, o[1]), ())):
                    chk.nontrivial(("multi", tuple(raw_names), tuple(wr), tuple(done)))
                    break
                readers.setdefault((ri, o[1]), set()).add(wi)

    for raw_names, wr, ops in MULTI_CORPUS:
        drive_multi(raw_names, wr, ops)
    for f in sorted((VERIF / "corpus" / "C14").glob("multi/*.json")):
        raw = json.loads(f.read_text())
        raws, wr, ops = multi_from_raw(raw.get("raw", raw))
        names = []
        for k, depsets in enumerate(raws):
            name = f"mcorpus_{f.stem}_{k}".replace("-", "_")
            pool[name] = depsets
            preamble += (f"\nDefinition {name} : list (list node) := "
                         f"{clist([nodes_coq(d) for d in depsets], 'list node')}.")
            names.append(name)
        drive_multi(names, wr, ops)
    for _ in range(chk.n(400, 3000)):
        nraw = rng.choice((1, 1, 1, 2))
        raw_names = rng.sample(pool_names, nraw)
        nw = rng.choice((2, 2, 3))
        base = [i for i in range(6) if rng.random() < 0.4]
        wr = []
        for _k in range(nw):
            # USE sets of lookups of the same package are equal or differ in a few flags
            use = set(base)
            for _j in range(rng.choice((0, 1, 1, 2))):
                use ^= {rng.randrange(6)}
            wr.append((rng.randrange(nraw), tuple(sorted(use)), 0 if rng.random() < 0.85 else 1))
        ops = gen_ops(rng, rng.randint(6, 18))
        if rng.random() < 0.5:     # side by side
            mops = [(rng.randrange(nw), o) for o in ops]
        else:                      # one after the other, attributes not re-read at every step
            mops = sorted(((rng.randrange(nw), o) for o in ops), key=lambda x: x[0])
        drive_multi(raw_names, wr, mops, valid_rb)
    mlen = 5 if chk.thorough else 4
    for mops in itertools.product(MULTI_ALPHABET, repeat=mlen):
        if len({w for w, _ in mops}) == 2:      # single-package histories are stream "enum"
            drive_multi(["enum"], MULTI_ENUM_WR, list(mops))
    chk.count("multi", len(multi))

    timing["implementation"] = round(time.time() - t1, 1)
    t1 = time.time()
    # distribution of ops / outcomes (evidence)
    dist = {}
    for name, cs in streams.items():
        chk.count(name, len(cs))
        for _, _, ops, obs in cs:
            for o, ob in zip(ops, obs):
                r = ob[0]
                key = o[0] + ":" + ("raise " + r.kind if isinstance(r, Err) else
                                    "value" if isinstance(r, list) else str(r))
                dist[key] = dist.get(key, 0) + 1
    chk.cov["op_outcome_histogram"] = dict(sorted(dist.items()))
    for c in multi[len(MULTI_CORPUS):: max(1, len(multi) // 2)][:2]:
        chk.sample({"stream": "multi", "history": multi_json([pool[n] for n in c[0]], c[1], c[2]),
                    "observed": [[("raise " + ob[0].kind) if isinstance(ob[0], Err) else ob[0], ob[1]]
                                 for ob in c[3]]}, limit=8)
    for name in ("hist", "odd", "enum"):
        cs = streams[name]
        for c in cs[:: max(1, len(cs) // 2)][:2]:
            chk.sample({"stream": name, "history": hist_json(c[0], pool[c[1]], c[2]),
                        "observed": [[("raise " + ob[0].kind) if isinstance(ob[0], Err) else ob[0],
                                      flags_of(ob[1]), ob[2]] for ob in c[3]]})

    # ---- (A) and (B) inside Coq
    spec_bad, corr_bad = [], []
    n_corpus = len(CORPUS)

    def eval_linear(name, allc):
        cases = [(case_term(use, ds_name, ops), obs_term(obs)) for _, (use, ds_name, ops, obs) in allc]
        r = chk.coq_eval(name, IMPORTS, TY, cases,
                         ["mismatches run_hist cases",
                          "where_ (fun i r => negb (spec_hist_ok i r)) cases"],
                         shard=1500, preamble=preamble)
        if r is not None:
            corr_bad.extend(allc[i] for i in r[0])
            spec_bad.extend(allc[i] for i in r[1])

    if ok:
        import concurrent.futures as cf
        lasts = clist([op_coq(o) for o in ENUM_ALPHABET], "op")
        fcases = [(f"({case_term(ENUM_USE, 'enum', pre)}, {lasts})",
                   Raw(f"VL [{obs_term(pre_obs).term}; {obs_term(last_obs).term}]"))
                  for pre, pre_obs, last_obs in fans]
        mcases = [(multi_term(names, wr, ops), mobs_term(obs)) for names, wr, ops, obs in multi]
        multi_corr, multi_spec = [], []
        with cf.ThreadPoolExecutor(max_workers=3) as ex:
            f3 = ex.submit(chk.coq_eval, "multi", IMPORTS, "multi_input", mcases,
                           ["mismatches run_multi cases",
                            "where_ (fun i r => negb (spec_multi_ok i r)) cases"],
                           shard=1000, preamble=preamble)
            # random, malformed and corpus histories one by one
            f1 = ex.submit(eval_linear, "hist", [(name, c) for name, cs in streams.items()
                                                 for c in (cs[:n_corpus] if name == "enum" else cs)])
            # the enumeration as fans
            f2 = ex.submit(chk.coq_eval, "fan", IMPORTS, "fan_input", fcases,
                           ["mismatches run_fan cases",
                            "where_ (fun i r => negb (spec_fan_ok i r)) cases"],
                           shard=250, preamble=preamble)
            f1.result()
            r = f2.result()
            r3 = f3.result()
        if r3 is not None:
            multi_corr = [multi[i] for i in r3[0]]
            multi_spec = [multi[i] for i in r3[1]]
        if r is not None and (r[0] or r[1]):
            # pinpoint: re-evaluate the histories of the disagreeing fans one by one
            badfans = sorted(set(r[0]) | set(r[1]))[:40]
            redo = []
            for k in badfans:
                pre, pre_obs, last_obs = fans[k]
                redo += [("enum", (tuple(ENUM_USE), "enum", pre + [o], pre_obs + [ob]))
                         for o, ob in zip(ENUM_ALPHABET, last_obs)]
            nb = len(corr_bad) + len(spec_bad)
            eval_linear("fan_redo", redo)
            if len(corr_bad) + len(spec_bad) == nb:
                chk.violation("correspondence", {"what": "run_fan / spec_fan_ok reject a fan whose histories "
                                                         "are accepted one by one (check is inconsistent)",
                                                 "input": hist_json(ENUM_USE, ENUM_DS, fans[badfans[0]][0])},
                              no_input=True)
    timing["coq_eval"] = round(time.time() - t1, 1)
    # ---- report property failures (B): shrink the history on the implementation
    def fails(use, ds_name):
        def f(ops):
            _, _, bad = impl.run(use, pool[ds_name], list(ops))
            return bool(bad)
        return f

    reported = set()
    py_bad.sort(key=lambda b: len(b[2]))
    if len(py_bad) > 80:   # the shortest ones and a sample of the rest
        py_bad = py_bad[:40] + rng.sample(py_bad[40:], 40)
    for use, ds_name, ops, bad in py_bad:
        small = shrink_list(ops, fails(use, ds_name), 1)
        done, obs, bad2 = impl.run(use, pool[ds_name], small)
        key = (bad2[0]["what"], tuple(o[0] for o in small))
        if key in reported:
            continue
        reported.add(key)
        chk.violation("property", {"what": bad2[0]["what"], "failure": bad2[0],
                                   "input": hist_json(use, pool[ds_name], small),
                                   "observed": [[ob[0], flags_of(ob[1]), ob[2]]
                                                for ob in obs],
                                   "theorem": "reads_current / refused_unchanged (Prop_C14) hold of the "
                                              "repaired model; this tree does not behave like it"})
        if len(reported) >= 6:
            break
    # several configured packages: shrink the op list, then drop unused wrappers' ops naturally
    mreported = set()
    multi_bad.sort(key=lambda b: len(b[2]))
    for names, wr, ops, bad in multi_bad[:60]:
        raws = [pool[n] for n in names]
        small = shrink_list(ops, lambda xs: bool(impl.run_multi(raws, wr, list(xs))[2]), 1)
        done, obs, bad2 = impl.run_multi(raws, wr, small)
        key = (bad2[0]["what"], tuple((wi, o[0]) for wi, o in small))
        if key in mreported:
            continue
        mreported.add(key)
        chk.violation("property", {"what": bad2[0]["what"], "failure": bad2[0],
                                   "input": multi_json(raws, wr, small),
                                   "observed": [[ob[0], [flags_of(m) if k % 2 == 0 else m
                                                         for k, m in enumerate(ob[1])]] for ob in obs],
                                   "theorem": "multi_reads_current / multi_isolated (Prop_C14): configured "
                                              "packages share nothing observable in the model"})
        if len(mreported) >= 4:
            break
    if multi_spec and not multi_bad:
        for names, wr, ops, obs in multi_spec[:3]:
            chk.violation("property", {"what": "Spec_C14.spec_multi_ok rejects the recorded history of several "
                                               "configured packages",
                                       "input": multi_json([pool[n] for n in names], wr, ops),
                                       "observed": [[ob[0], ob[1]] for ob in obs]})
    if multi_corr:
        multi_corr.sort(key=lambda c: len(c[2]))
        for names, wr, ops, obs in multi_corr[:3]:
            chk.violation("correspondence",
                          {"what": "implementation and Model_C14.run_multi disagree on stream 'multi' "
                                   "(configured packages are independent in the model)",
                           "input": multi_json([pool[n] for n in names], wr, ops),
                           "implementation": [[ob[0], ob[1]] for ob in obs]},
                          no_input=not (multi_bad or multi_spec))
    if spec_bad and not py_bad:
        for name, (use, ds_name, ops, obs) in spec_bad[:3]:
            chk.violation("property", {"what": "Spec_C14.spec_hist_ok rejects the recorded history (a read "
                                               "is not the evaluation under the recorded USE set, a refused "
                                               "request changed it, or a request raised)",
                                       "input": hist_json(use, pool[ds_name], ops),
                                       "observed": [[ob[0], flags_of(ob[1]), ob[2]]
                                                    for ob in obs]})
    if corr_bad:
        # does the tree behave like the unrepaired wrapper?
        cases = [(case_term(c[0], c[1], c[2]), obs_term(c[3])) for _, c in corr_bad[:400]]
        r = chk.coq_eval("pinned", IMPORTS, TY, cases, ["mismatches run_hist_pinned cases"], preamble=preamble)
        if r is not None:
            chk.note(f"{len(corr_bad)} histories disagree with the repaired model; of the first {len(cases)}, "
                     f"{len(cases) - len(r[0])} agree with step_pinned (the unrepaired wrapper: is "
                     "fixes/C14-cache-invalidation.patch applied?)")
        corr_bad.sort(key=lambda c: len(c[1][2]))
        for name, (use, ds_name, ops, obs) in corr_bad[:3]:
            chk.violation("correspondence",
                          {"what": f"implementation and Model_C14.run_hist disagree on stream '{name}' "
                                   "(theorems of Prop_C14 no longer speak about this code)",
                           "input": hist_json(use, pool[ds_name], ops),
                           "implementation": [[ob[0], flags_of(ob[1]), ob[2]]
                                              for ob in obs]},
                          no_input=not (py_bad or spec_bad))


def replay(chk: Check, data):
    """re-run one recorded history against implementation, model and spec"""
    inp = data.get("detail", {}).get("input") or data.get("input")
    if not inp or "raw" not in inp:
        print("no history in this replay file")
        return
    raw = inp["raw"]
    if inp.get("multi"):
        raws, wr, ops = multi_from_raw(raw)
        impl = Impl()
        done, obs, bad = impl.run_multi(raws, wr, ops)
        print("implementation:")
        for (wi, o), ob in zip(done, obs):
            print("  pkg%d %-40s -> %r  [use mask, changes_count] per pkg = %s" % (wi, op_show(o), ob[0], ob[1]))
        print("direct oracle :", bad or "ok")
        if chk.build(["C14/Prop_C14.vo"]):
            pre = PRE0 + "".join(f"\nDefinition dsr{k} : list (list node) := "
                                 f"{clist([nodes_coq(d) for d in ds], 'list node')}." for k, ds in enumerate(raws))
            r = chk.coq_eval("replay", IMPORTS, "multi_input",
                             [(multi_term([f"dsr{k}" for k in range(len(raws))], wr, done), mobs_term(obs))],
                             ["mismatches run_multi cases",
                              "where_ (fun i r => negb (spec_multi_ok i r)) cases"], preamble=pre)
            if r is not None:
                print("model agrees:", not r[0], "| spec accepts the recorded history:", not r[1])
        return
    use, depsets, ops = tuple(raw["use"]), [nodes_from_json(d) for d in raw["depsets"]], ops_from_raw(raw["ops"])
    impl = Impl()
    done, obs, bad = impl.run(use, depsets, ops)
    print("implementation:")
    for o, ob in zip(done, obs):
        print("  %-40s -> %r  use=%s changes_count=%d" % (op_show(o), ob[0], flags_of(ob[1]), ob[2]))
    print("direct oracle :", bad or "ok")
    if chk.build(["C14/Prop_C14.vo"]):
        pre = PRE0 + f"\nDefinition dsr : list (list node) := {clist([nodes_coq(d) for d in depsets], 'list node')}."
        r = chk.coq_eval("replay", IMPORTS, TY, [(case_term(use, "dsr", done), obs_term(obs))],
                         ["mismatches run_hist cases", "mismatches run_hist_pinned cases",
                          "where_ (fun i r => negb (spec_hist_ok i r)) cases"], preamble=pre)
        if r is not None:
            print("model (repaired) agrees:", not r[0], "| step_pinned agrees:", not r[1],
                  "| spec accepts the recorded history:", not r[2])
