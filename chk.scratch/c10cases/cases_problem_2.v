From Coq Require Import List NArith ZArith Bool.
From Verif Require Import Base.Val C10.Model_C10 C10.Spec_C10.
Import ListNotations.

Definition cases : list ((fcs_input) * val) := 
[
  (([(Cond false 0%N [(Cond false 1%N [(Flag false false [2%N])])])], ([0%N; 1%N; 2%N; 5%N], (@nil (N)), [0%N], [5%N])),
   (prob_val [(0, [false]); (1, [true; false]); (2, [true; false]); (5, [false; true])]%N [(7, [0; 1; 2; 4; 5; 6; 7])]%N));
  (([(Grp KOr false [(Flag false false [0%N]); (Grp KAnd false [(Flag false false [1%N]); (Flag false false [2%N])])])], ([0%N; 1%N; 2%N], (@nil (N)), (@nil (N)), (@nil (N)))),
   (prob_val [(0, [true; false]); (1, [true; false]); (2, [true; false])]%N [(7, [1; 3; 5; 6; 7])]%N));
  (([(Grp KOr false [(Flag false false [0%N]); (Grp KAnd false [(Flag false false [1%N]); (Flag false false [2%N])])])], ([0%N; 1%N; 2%N], [0%N], (@nil (N)), [0%N; 1%N; 2%N])),
   (prob_val [(0, [true]); (1, [false; true]); (2, [false; true])]%N [(7, [1; 3; 5; 6; 7])]%N));
  (([(Grp KOr false [(Flag false false [0%N]); (Grp KAnd false [(Flag false false [1%N]); (Flag false false [2%N])])])], ([0%N; 1%N; 2%N], (@nil (N)), [0%N], [5%N])),
   (prob_val [(0, [false]); (1, [true; false]); (2, [true; false])]%N [(7, [1; 3; 5; 6; 7])]%N));
  (([(Grp KOr false [(Flag false false [0%N]); (Grp KAnd false [(Flag false false [1%N]); (Flag false false [2%N])])])], ([0%N], (@nil (N)), (@nil (N)), (@nil (N)))),
   (prob_val [(0, [true; false]); (1, [false]); (2, [false])]%N [(7, [1; 3; 5; 6; 7])]%N));
  (([(Grp KOr false [(Flag false false [0%N]); (Grp KAnd false [(Flag false false [1%N]); (Flag false false [2%N])])])], ([0%N], [0%N], (@nil (N)), [0%N; 1%N; 2%N])),
   (prob_val [(0, [true]); (1, [false]); (2, [false])]%N [(7, [1; 3; 5; 6; 7])]%N));
  (([(Grp KOr false [(Flag false false [0%N]); (Grp KAnd false [(Flag false false [1%N]); (Flag false false [2%N])])])], ([0%N], (@nil (N)), [0%N], [5%N])),
   (prob_val [(0, [false]); (1, [false]); (2, [false])]%N [(7, [1; 3; 5; 6; 7])]%N));
  (([(Grp KOr false [(Flag false false [0%N]); (Grp KAnd false [(Flag false false [1%N]); (Flag false false [2%N])])])], ([0%N; 1%N; 2%N; 5%N], (@nil (N)), (@nil (N)), (@nil (N)))),
   (prob_val [(0, [true; false]); (1, [true; false]); (2, [true; false]); (5, [true; false])]%N [(7, [1; 3; 5; 6; 7])]%N));
  (([(Grp KOr false [(Flag false false [0%N]); (Grp KAnd false [(Flag false false [1%N]); (Flag false false [2%N])])])], ([0%N; 1%N; 2%N; 5%N], [0%N], (@nil (N)), [0%N; 1%N; 2%N])),
   (prob_val [(0, [true]); (1, [false; true]); (2, [false; true]); (5, [true; false])]%N [(7, [1; 3; 5; 6; 7])]%N));
  (([(Grp KOr false [(Flag false false [0%N]); (Grp KAnd false [(Flag false false [1%N]); (Flag false false [2%N])])])], ([0%N; 1%N; 2%N; 5%N], (@nil (N)), [0%N], [5%N])),
   (prob_val [(0, [false]); (1, [true; false]); (2, [true; false]); (5, [false; true])]%N [(7, [1; 3; 5; 6; 7])]%N));
  (([(Grp KOne false [(Flag false false [0%N]); (Grp KAnd false [(Flag false false [1%N]); (Flag true false [2%N])])])], ([0%N; 1%N; 2%N], (@nil (N)), (@nil (N)), (@nil (N)))),
   (prob_val [(0, [true; false]); (1, [true; false]); (2, [true; false])]%N [(7, [1; 2; 5; 7])]%N));
  (([(Grp KOne false [(Flag false false [0%N]); (Grp KAnd false [(Flag false false [1%N]); (Flag true false [2%N])])])], ([0%N; 1%N; 2%N], [0%N], (@nil (N)), [0%N; 1%N; 2%N])),
   (prob_val [(0, [true]); (1, [false; true]); (2, [false; true])]%N [(7, [1; 2; 5; 7])]%N));
  (([(Grp KOne false [(Flag false false [0%N]); (Grp KAnd false [(Flag false false [1%N]); (Flag true false [2%N])])])], ([0%N; 1%N; 2%N], (@nil (N)), [0%N], [5%N])),
   (prob_val [(0, [false]); (1, [true; false]); (2, [true; false])]%N [(7, [1; 2; 5; 7])]%N));
  (([(Grp KOne false [(Flag false false [0%N]); (Grp KAnd false [(Flag false false [1%N]); (Flag true false [2%N])])])], ([0%N], (@nil (N)), (@nil (N)), (@nil (N)))),
   (prob_val [(0, [true; false]); (1, [false]); (2, [false])]%N [(7, [1; 2; 5; 7])]%N));
  (([(Grp KOne false [(Flag false false [0%N]); (Grp KAnd false [(Flag false false [1%N]); (Flag true false [2%N])])])], ([0%N], [0%N], (@nil (N)), [0%N; 1%N; 2%N])),
   (prob_val [(0, [true]); (1, [false]); (2, [false])]%N [(7, [1; 2; 5; 7])]%N));
  (([(Grp KOne false [(Flag false false [0%N]); (Grp KAnd false [(Flag false false [1%N]); (Flag true false [2%N])])])], ([0%N], (@nil (N)), [0%N], [5%N])),
   (prob_val [(0, [false]); (1, [false]); (2, [false])]%N [(7, [1; 2; 5; 7])]%N));
  (([(Grp KOne false [(Flag false false [0%N]); (Grp KAnd false [(Flag false false [1%N]); (Flag true false [2%N])])])], ([0%N; 1%N; 2%N; 5%N], (@nil (N)), (@nil (N)), (@nil (N)))),
   (prob_val [(0, [true; false]); (1, [true; false]); (2, [true; false]); (5, [true; false])]%N [(7, [1; 2; 5; 7])]%N));
  (([(Grp KOne false [(Flag false false [0%N]); (Grp KAnd false [(Flag false false [1%N]); (Flag true false [2%N])])])], ([0%N; 1%N; 2%N; 5%N], [0%N], (@nil (N)), [0%N; 1%N; 2%N])),
   (prob_val [(0, [true]); (1, [false; true]); (2, [false; true]); (5, [true; false])]%N [(7, [1; 2; 5; 7])]%N));
  (([(Grp KOne false [(Flag false false [0%N]); (Grp KAnd false [(Flag false false [1%N]); (Flag true false [2%N])])])], ([0%N; 1%N; 2%N; 5%N], (@nil (N)), [0%N], [5%N])),
   (prob_val [(0, [false]); (1, [true; false]); (2, [true; false]); (5, [false; true])]%N [(7, [1; 2; 5; 7])]%N));
  (([(Cond false 0%N [(Grp KOr false [(Flag false false [1%N]); (Flag false false [2%N])])]); (Grp KAmo false [(Flag false false [0%N]); (Flag false false [2%N])])], ([0%N; 1%N; 2%N], (@nil (N)), (@nil (N)), (@nil (N)))),
   (prob_val [(0, [true; false]); (1, [true; false]); (2, [true; false])]%N [(7, [0; 2; 3; 4; 5; 6; 7]); (5, [0; 1; 4])]%N));
  (([(Cond false 0%N [(Grp KOr false [(Flag false false [1%N]); (Flag false false [2%N])])]); (Grp KAmo false [(Flag false false [0%N]); (Flag false false [2%N])])], ([0%N; 1%N; 2%N], [0%N], (@nil (N)), [0%N; 1%N; 2%N])),
   (prob_val [(0, [true]); (1, [false; true]); (2, [false; true])]%N [(7, [0; 2; 3; 4; 5; 6; 7]); (5, [0; 1; 4])]%N));
  (([(Cond false 0%N [(Grp KOr false [(Flag false false [1%N]); (Flag false false [2%N])])]); (Grp KAmo false [(Flag false false [0%N]); (Flag false false [2%N])])], ([0%N; 1%N; 2%N], (@nil (N)), [0%N], [5%N])),
   (prob_val [(0, [false]); (1, [true; false]); (2, [true; false])]%N [(7, [0; 2; 3; 4; 5; 6; 7]); (5, [0; 1; 4])]%N));
  (([(Cond false 0%N [(Grp KOr false [(Flag false false [1%N]); (Flag false false [2%N])])]); (Grp KAmo false [(Flag false false [0%N]); (Flag false false [2%N])])], ([0%N], (@nil (N)), (@nil (N)), (@nil (N)))),
   (prob_val [(0, [true; false]); (1, [false]); (2, [false])]%N [(7, [0; 2; 3; 4; 5; 6; 7]); (5, [0; 1; 4])]%N));
  (([(Cond false 0%N [(Grp KOr false [(Flag false false [1%N]); (Flag false false [2%N])])]); (Grp KAmo false [(Flag false false [0%N]); (Flag false false [2%N])])], ([0%N], [0%N], (@nil (N)), [0%N; 1%N; 2%N])),
   (prob_val [(0, [true]); (1, [false]); (2, [false])]%N [(7, [0; 2; 3; 4; 5; 6; 7]); (5, [0; 1; 4])]%N));
  (([(Cond false 0%N [(Grp KOr false [(Flag false false [1%N]); (Flag false false [2%N])])]); (Grp KAmo false [(Flag false false [0%N]); (Flag false false [2%N])])], ([0%N], (@nil (N)), [0%N], [5%N])),
   (prob_val [(0, [false]); (1, [false]); (2, [false])]%N [(7, [0; 2; 3; 4; 5; 6; 7]); (5, [0; 1; 4])]%N));
  (([(Cond false 0%N [(Grp KOr false [(Flag false false [1%N]); (Flag false false [2%N])])]); (Grp KAmo false [(Flag false false [0%N]); (Flag false false [2%N])])], ([0%N; 1%N; 2%N; 5%N], (@nil (N)), (@nil (N)), (@nil (N)))),
   (prob_val [(0, [true; false]); (1, [true; false]); (2, [true; false]); (5, [true; false])]%N [(7, [0; 2; 3; 4; 5; 6; 7]); (5, [0; 1; 4])]%N));
  (([(Cond false 0%N [(Grp KOr false [(Flag false false [1%N]); (Flag false false [2%N])])]); (Grp KAmo false [(Flag false false [0%N]); (Flag false false [2%N])])], ([0%N; 1%N; 2%N; 5%N], [0%N], (@nil (N)), [0%N; 1%N; 2%N])),
   (prob_val [(0, [true]); (1, [false; true]); (2, [false; true]); (5, [true; false])]%N [(7, [0; 2; 3; 4; 5; 6; 7]); (5, [0; 1; 4])]%N));
  (([(Cond false 0%N [(Grp KOr false [(Flag false false [1%N]); (Flag false false [2%N])])]); (Grp KAmo false [(Flag false false [0%N]); (Flag false false [2%N])])], ([0%N; 1%N; 2%N; 5%N], (@nil (N)), [0%N], [5%N])),
   (prob_val [(0, [false]); (1, [true; false]); (2, [true; false]); (5, [false; true])]%N [(7, [0; 2; 3; 4; 5; 6; 7]); (5, [0; 1; 4])]%N));
  (((@nil (ru)), ((@nil (N)), (@nil (N)), (@nil (N)), (@nil (N)))),
   (prob_val (@nil (N * list bool))%N (@nil (N * list N))%N));
  (((@nil (ru)), ((@nil (N)), (@nil (N)), (@nil (N)), (@nil (N)))),
   (prob_val (@nil (N * list bool))%N (@nil (N * list N))%N));
  (((@nil (ru)), ((@nil (N)), (@nil (N)), (@nil (N)), [5%N])),
   (prob_val (@nil (N * list bool))%N (@nil (N * list N))%N));
  (((@nil (ru)), ((@nil (N)), (@nil (N)), (@nil (N)), (@nil (N)))),
   (prob_val (@nil (N * list bool))%N (@nil (N * list N))%N));
  (((@nil (ru)), ((@nil (N)), (@nil (N)), (@nil (N)), (@nil (N)))),
   (prob_val (@nil (N * list bool))%N (@nil (N * list N))%N));
  (((@nil (ru)), ((@nil (N)), (@nil (N)), (@nil (N)), [5%N])),
   (prob_val (@nil (N * list bool))%N (@nil (N * list N))%N));
  (((@nil (ru)), ([5%N], (@nil (N)), (@nil (N)), (@nil (N)))),
   (prob_val [(5, [true; false])]%N (@nil (N * list N))%N));
  (((@nil (ru)), ([5%N], (@nil (N)), (@nil (N)), (@nil (N)))),
   (prob_val [(5, [true; false])]%N (@nil (N * list N))%N));
  (((@nil (ru)), ([5%N], (@nil (N)), (@nil (N)), [5%N])),
   (prob_val [(5, [false; true])]%N (@nil (N * list N))%N));
  (([(Grp KOr false [(Flag false false [1%N]); (Flag false false [1%N])]); (Grp KAnd false [(Flag true false [1%N; 2%N]); (Grp KAnd false [(Grp KOr false [(Flag true false (@nil (N))); (Flag false false [1%N; 2%N])]); (Grp KAnd true [(Flag false false [1%N])])])])], ([2%N; 5%N], (@nil (N)), [5%N], [1%N])),
   (VErr [65;115;115;101;114;116;105;111;110;69;114;114;111;114]%N));
  (([(Flag true false [1%N; 2%N]); (Flag false false [0%N; 2%N])], ([1%N; 2%N; 5%N], [1%N], (@nil (N)), [1%N; 2%N; 5%N])),
   (prob_val [(0, [false]); (1, [true]); (2, [false; true]); (5, [false; true])]%N [(6, [0]); (5, [1; 4; 5])]%N));
  (([(Flag false false [0%N; 1%N])], ([0%N; 1%N; 5%N], (@nil (N)), [5%N], (@nil (N)))),
   (prob_val [(0, [true; false]); (1, [true; false]); (5, [false])]%N [(3, [1; 2; 3])]%N));
  (([(Grp KAnd false [(Cond true 1%N (@nil (ru))); (Grp KAnd false [(Flag false false [0%N; 1%N]); (Flag false false [1%N; 2%N]); (Flag false false [0%N; 1%N])])]); (Flag false true [0%N; 2%N])], ([0%N; 2%N; 5%N], [2%N], [5%N], [5%N])),
   (VErr [65;115;115;101;114;116;105;111;110;69;114;114;111;114]%N));
  (([(Flag false false [0%N])], ([5%N], (@nil (N)), (@nil (N)), (@nil (N)))),
   (prob_val [(0, [false]); (5, [true; false])]%N [(1, [1])]%N));
  (([(Grp KOr false (@nil (ru))); (Cond true 0%N [(Flag true false [2%N])])], ([0%N; 2%N], [0%N], (@nil (N)), [2%N])),
   (VErr [86;97;108;117;101;69;114;114;111;114]%N));
  (([(Grp KAmo false (@nil (ru))); (Flag false true (@nil (N)))], ([5%N], (@nil (N)), (@nil (N)), [5%N])),
   (VErr [86;97;108;117;101;69;114;114;111;114]%N));
  (([(Grp KAmo true [(Flag true false [3%N]); (Flag false false (@nil (N)))])], ([3%N; 5%N], [5%N], (@nil (N)), [3%N])),
   (prob_val [(3, [false; true]); (5, [true])]%N [(8, (@nil (N)))]%N));
  (([(Flag true false [0%N]); (Flag false false [0%N])], ((@nil (N)), (@nil (N)), (@nil (N)), (@nil (N)))),
   (prob_val [(0, [false])]%N [(1, [0]); (1, [1])]%N));
  (([(Grp KOne true (@nil (ru))); (Flag true false [0%N])], ([0%N], [0%N], (@nil (N)), [5%N])),
   (VErr [86;97;108;117;101;69;114;114;111;114]%N));
  (([(Flag false false [0%N; 1%N]); (Grp KOne false [(Flag true false [0%N; 1%N])])], ([1%N; 5%N], [5%N], [0%N], (@nil (N)))),
   (prob_val [(0, [false]); (1, [true; false]); (5, [true])]%N [(3, [1; 2; 3]); (3, [0])]%N));
  (([(Flag false false [0%N; 1%N])], ([0%N; 1%N], (@nil (N)), (@nil (N)), (@nil (N)))),
   (prob_val [(0, [true; false]); (1, [true; false])]%N [(3, [1; 2; 3])]%N));
  (([(Grp KAnd false (@nil (ru)))], ([5%N], (@nil (N)), (@nil (N)), [5%N])),
   (prob_val [(5, [false; true])]%N (@nil (N * list N))%N));
  (([(Flag true false [1%N])], ([1%N; 5%N], (@nil (N)), [1%N], (@nil (N)))),
   (prob_val [(1, [false]); (5, [true; false])]%N [(2, [0])]%N));
  (([(Flag false false [0%N]); (Cond false 2%N [(Grp KOr false (@nil (ru)))])], ([0%N; 2%N], (@nil (N)), [0%N], [5%N])),
   (VErr [86;97;108;117;101;69;114;114;111;114]%N));
  (([(Flag false false [0%N])], ([0%N; 5%N], (@nil (N)), [5%N], [5%N])),
   (prob_val [(0, [true; false]); (5, [false])]%N [(1, [1])]%N));
  (([(Grp KAmo false (@nil (ru)))], ([5%N], (@nil (N)), (@nil (N)), (@nil (N)))),
   (VErr [86;97;108;117;101;69;114;114;111;114]%N));
  (([(Cond false 1%N [(Grp KOr true (@nil (ru))); (Grp KOr true [(Cond true 1%N [(Flag true false [0%N; 1%N]); (Flag false false [1%N])])])]); (Flag false false [0%N; 1%N])], ([0%N; 1%N; 5%N], (@nil (N)), [0%N], [0%N; 5%N])),
   (VErr [86;97;108;117;101;69;114;114;111;114]%N));
  (([(Cond false 0%N [(Flag false false [0%N]); (Flag false false [0%N; 1%N]); (Flag false false [0%N])]); (Flag false false (@nil (N)))], ([0%N; 1%N], (@nil (N)), (@nil (N)), (@nil (N)))),
   (prob_val [(0, [true; false]); (1, [true; false])]%N [(1, [0; 1]); (3, [0; 1; 2; 3]); (1, [0; 1]); (0, (@nil (N)))]%N));
  (([(Grp KAnd false [(Grp KAmo false (@nil (ru)))]); (Grp KOne false [(Grp KOr false [(Flag false false [0%N]); (Flag true false [0%N])])])], ([0%N], (@nil (N)), (@nil (N)), (@nil (N)))),
   (VErr [86;97;108;117;101;69;114;114;111;114]%N));
  (([(Flag true false [1%N])], ([1%N], (@nil (N)), (@nil (N)), (@nil (N)))),
   (prob_val [(1, [true; false])]%N [(2, [0])]%N));
  (([(Flag false false [2%N])], ([5%N], (@nil (N)), [2%N], [5%N])),
   (prob_val [(2, [false]); (5, [false; true])]%N [(4, [4])]%N));
  (([(Cond false 1%N [(Flag true false [0%N; 1%N])])], ([0%N; 1%N; 5%N], (@nil (N)), (@nil (N)), [0%N])),
   (prob_val [(0, [false; true]); (1, [true; false]); (5, [true; false])]%N [(3, [0; 1])]%N))
].
Eval vm_compute in (mismatches run_problem cases).
