(* GENERATED from pkgsets/glsa.py (GlsaDirSet.op_translate) by harness/tables.py on every run — do not edit. *)
From Coq Require Import List ZArith NArith Bool.
Import ListNotations.
From Verif Require Import Base.Val.
(* {'ge': '>=', 'gt': '>', 'lt': '<', 'le': '<=', 'eq': '='} *)
Definition op_translate : list (str * str) := [([103;101]%N, [62;61]%N); ([103;116]%N, [62]%N); ([108;116]%N, [60]%N); ([108;101]%N, [60;61]%N); ([101;113]%N, [61]%N)].
