#!/bin/sh
# usage: run.sh NAME...   (applies one mutation at a time to /tmp/wt_C46 and runs the check)
cd /verif
for name in "$@"; do
  git -C /tmp/wt_C46 checkout -q -- src/pkgcore/scripts/pclean.py
  /venv/bin/python - "$name" <<'PY'
import sys
sys.path.insert(0, "/verif/chk.scratch/c46/mut")
from muts import M
p = "/tmp/wt_C46/src/pkgcore/scripts/pclean.py"
s = open(p).read()
for old, new in M[sys.argv[1]]:
    assert s.count(old) == 1, (sys.argv[1], s.count(old))
    s = s.replace(old, new)
open(p, "w").write(s)
PY
  echo "=== $name" >> /verif/chk.scratch/c46/mut/results.txt
  VERIF_REPO=/tmp/wt_C46 ./check C46 > /verif/chk.scratch/c46/mut/$name.out 2>&1
  echo "exit=$?" >> /verif/chk.scratch/c46/mut/results.txt
  tail -4 /verif/chk.scratch/c46/mut/$name.out >> /verif/chk.scratch/c46/mut/results.txt
  for f in $(grep -o 'replay=[^ ]*' /verif/chk.scratch/c46/mut/$name.out | head -2 | cut -d= -f2); do
    /venv/bin/python -c "
import json,sys
d=json.load(open('$f')); det=d['detail']
print('   ', d['kind'], '|', str(det.get('what'))[:160], '| argv', det.get('input',{}).get('argv') if isinstance(det.get('input'),dict) else det.get('input'))" >> /verif/chk.scratch/c46/mut/results.txt
  done
done
git -C /tmp/wt_C46 checkout -q -- src/pkgcore/scripts/pclean.py
