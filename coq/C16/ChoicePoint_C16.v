(* ChoicePoint_C16.v — resolver/choice_point.py as a state machine on a long-lived object: the
   candidate iterator, the current candidate with its five (progressively filtered) dependency
   CNFs, and the accumulated solution_filters; operations reduce_atoms / force_next_pkg /
   current_pkg / bool in any sequence.  Model (bug-compatible transcription) and Spec (what the
   pruning is for: the current candidate is always the first not yet discarded candidate none of
   whose requirement groups has lost all its alternatives).  No proofs here. *)
From Coq Require Import List NArith ZArith Bool.
Import ListNotations.
From Verif Require Import Base.Val.

Definition clause := list N.                       (* alternatives, as atom ids *)
Definition depset := list clause.                  (* one class, CNF *)
Record pk := mkpk { pid : N; pdeps : list depset }.   (* _bdeps, _deps, _rdeps, _prdeps, _ideps *)

Definition inb (x : N) (l : list N) : bool := existsb (N.eqb x) l.
Definition keep (f : list N) (c : clause) : clause := filter (fun x => negb (inb x f)) c.

(* ---------------------------------------------------------------- Model *)
(* _filter_choices: a generator that stops at the first group that lost every alternative *)
Fixpoint filter_choices (f : list N) (ds : depset) : depset :=
  match ds with
  | [] => []
  | c :: ds' => match keep f c with
                | [] => []
                | l => l :: filter_choices f ds'
                end
  end.
(* the for/else over the five slots: Some = every slot kept its length *)
Fixpoint try_all (f : list N) (dss : list depset) : option (list depset) :=
  match dss with
  | [] => Some []
  | d :: r => let q := filter_choices f d in
              if Nat.eqb (length q) (length d)
              then match try_all f r with Some r' => Some (q :: r') | None => None end
              else None
  end.
(* the while loop: first candidate of the list that passes, with its filtered slots *)
Fixpoint scan (f : list N) (cands : list pk) : option (nat * pk * list pk) :=
  match cands with
  | [] => None
  | p :: r => match try_all f (pdeps p) with
              | Some d => Some (O, mkpk (pid p) d, r)
              | None => match scan f r with
                        | Some (k, q, r') => Some (S k, q, r')
                        | None => None
                        end
              end
  end.

Record st := mkst { rest : list pk; cur : option pk; alive : bool; flt : list N }.
Definition init (ps : list pk) : st := mkst ps None true [].

Inductive op := Reduce (atoms : list N) | ForceNext | Cur | Truth.
Definition index_error : val := VErr [73;110;100;101;120;69;114;114;111;114]%N.

Definition reduce (s : st) (atoms : list N) : st * val :=
  if negb (alive s) then (s, index_error)
  else
    let f := flt s ++ atoms in
    let cands := match cur s with Some c => c :: rest s | None => rest s end in
    match scan f cands with
    | Some (k, q, r) => (mkst r (Some q) true f, VB (negb (Nat.eqb k 0)))
    | None => (mkst [] None false f, VB true)
    end.

Definition step (s : st) (o : op) : st * val :=
  match o with
  | Reduce a => reduce s a
  | ForceNext =>
      if negb (alive s) then (s, VB false)
      else match rest s with
           | [] => (mkst [] None false (flt s), VB false)
           | p :: r => reduce (mkst r (Some p) true (flt s)) []
           end
  | Cur | Truth =>
      match cur s with
      | Some c => (s, match o with Cur => VZ (Z.of_N (pid c)) | _ => VB true end)
      | None =>
          if negb (alive s) then (s, match o with Cur => index_error | _ => VB false end)
          else match rest s with
               | [] => (mkst [] None false (flt s), match o with Cur => index_error | _ => VB false end)
               | p :: r => (mkst r (Some p) true (flt s),
                            match o with Cur => VZ (Z.of_N (pid p)) | _ => VB true end)
               end
      end
  end.

Definition enc_deps (d : list depset) : val :=
  VL (map (fun ds => VL (map (fun c => VL (map (fun a => VZ (Z.of_N a)) c)) ds)) d).
Definition observe (s : st) (ret : val) : val :=
  match cur s with
  | Some c => VL [ret; VZ (Z.of_N (pid c)); enc_deps (pdeps c)]
  | None => VL [ret; VNone; VNone]
  end.
Fixpoint run (s : st) (ops : list op) : list val :=
  match ops with
  | [] => []
  | o :: ops' => let '(s', r) := step s o in observe s' r :: run s' ops'
  end.
Definition run_cp (i : list pk * list op) : val := VL (run (init (fst i)) (snd i)).

(* ---------------------------------------------------------------- Spec *)
(* a candidate is viable under filters f when every group of every class keeps an alternative *)
Definition viable (f : list N) (p : pk) : bool :=
  forallb (forallb (fun c => existsb (fun x => negb (inb x f)) c)) (pdeps p).
Definition prune (f : list N) (d : list depset) : list depset := map (map (keep f)) d.
Fixpoint drop_unviable (f : list N) (cands : list pk) : list pk :=
  match cands with
  | [] => []
  | p :: r => if viable f p then cands else drop_unviable f r
  end.

(* declarative run over the ORIGINAL candidates: the id of the current candidate after each op
   (None when there is none) *)
Record sst := mksst { scands : list pk; started : bool; salive : bool; sflt : list N }.
Definition sstep (s : sst) (o : op) : sst :=
  match o with
  | Reduce a =>
      if negb (salive s) then s
      else let f := sflt s ++ a in
           match drop_unviable f (scands s) with
           | [] => mksst [] true false f
           | l => mksst l true true f
           end
  | ForceNext =>
      if negb (salive s) then s
      else let l := if started s then tl (scands s) else scands s in
           match l with
           | [] => mksst [] true false (sflt s)
           | _ => match drop_unviable (sflt s) l with
                  | [] => mksst [] true false (sflt s)
                  | l' => mksst l' true true (sflt s)
                  end
           end
  | Cur | Truth =>
      if started s || negb (salive s) then s
      else match scands s with
           | [] => mksst [] true false (sflt s)
           | _ => mksst (scands s) true true (sflt s)
           end
  end.
Definition scur (s : sst) : option N :=
  if started s && salive s then match scands s with p :: _ => Some (pid p) | [] => None end else None.
Fixpoint srun (s : sst) (ops : list op) : list (option N) :=
  match ops with
  | [] => []
  | o :: ops' => let s' := sstep s o in scur s' :: srun s' ops'
  end.

(* acceptor on the IMPLEMENTATION's recorded observations (comparison B): after every call the
   current candidate is the one the declarative run names *)
Definition obs_cur (v : val) : option (option N) :=
  match v with
  | VL [_; VZ z; _] => Some (Some (Z.to_N z))
  | VL [_; VNone; _] => Some None
  | _ => None
  end.
Definition optN_eqb (a b : option N) : bool :=
  match a, b with Some x, Some y => N.eqb x y | None, None => true | _, _ => false end.
Fixpoint all2 (l : list val) (e : list (option N)) : bool :=
  match l, e with
  | [], [] => true
  | v :: l', x :: e' => match obs_cur v with Some y => optN_eqb y x && all2 l' e' | None => false end
  | _, _ => false
  end.
Definition spec_cp_ok (i : list pk * list op) (res : val) : bool :=
  match res with
  | VL l => all2 l (srun (mksst (fst i) false true []) (snd i))
  | _ => false
  end.
