"""apply one textual mutation to a fresh worktree copy, run ./check C11 against it, report"""
import subprocess, sys, os, shutil
MUTS = {
 "M1": ("src/pkgcore/ebuild/misc.py", '        if "*" in cinst.neg:  # remove all previous set flags\n', '        if "*" in cinst.neg and not cinst.pos:  # remove all previous set flags\n'),
 "M2": ("src/pkgcore/ebuild/misc.py", "        for vals in self._dict.values():\n            vals.append(payload)\n", "        if restrict == packages.AlwaysTrue:\n            for vals in self._dict.values():\n                vals.append(payload)\n"),
 "M3": ("src/pkgcore/ebuild/misc.py", "        for key, values in cdict._dict.items():\n            d[key].extend(values)\n", "        for key, values in cdict._dict.items():\n            d[key][:0] = values\n"),
 "M4": ("src/pkgcore/ebuild/misc.py", "        obj._global_settings = list(self._global_settings)\n        return obj\n", "        return obj\n"),
 "M5": ("src/pkgcore/ebuild/domain.py", '                    if flag == "-*":\n                        buffer.clear()\n', '                    if flag == "-*":\n'),
 "M6": ("src/pkgcore/ebuild/domain.py", "                start_idx = idx\n", "                start_idx = idx + 1\n"),
 "M8": ("src/pkgcore/ebuild/misc.py", "        if restrict == packages.AlwaysTrue:\n            self._global_settings[:] = list(\n                _build_cp_atom_payload(self._global_settings, restrict)\n            )\n", "        self._global_settings[:] = list(\n            _build_cp_atom_payload(self._global_settings, restrict)\n        )\n"),
 "M9": ("src/pkgcore/ebuild/misc.py", "            for p in data.pos:\n                ldefault(p, True)\n            continue\n", "            for p in data.pos:\n                locked[p] = True\n            continue\n"),
 "M10": ("src/pkgcore/ebuild/misc.py", "                if x not in self._dict[cinst.key.key]\n", "                if x not in self._dict[cinst.key.key][:1]\n"),
 "M11": ("src/pkgcore/ebuild/domain.py", "        use.merge(self.profile.pkg_use)\n        use.update_from_stream(chunked_data(k, *v) for k, v in self.pkg_use)\n", "        use.update_from_stream(chunked_data(k, *v) for k, v in self.pkg_use)\n        use.merge(self.profile.pkg_use)\n"),
 "M12": ("src/pkgcore/ebuild/profiles.py", "        for mapping in stack:\n            d.merge(mapping)\n", "        for mapping in reversed(list(stack)):\n            d.merge(mapping)\n"),
 "H1": ("src/pkgcore/ebuild/misc.py", "        orig.difference_update(cinst.neg)\n        orig.update(cinst.pos)\n", "        for flag in cinst.neg:\n            orig.discard(flag)\n        for flag in cinst.pos:\n            orig.add(flag)\n"),
 "H2": ("src/pkgcore/ebuild/misc.py", "        items = self._dict.get(pkg.key)\n        if items is None:\n            items = self._global_settings\n        s = set(pre_defaults)\n        incremental_chunked(s, (cinst for cinst in items if cinst.key.match(pkg)))\n", "        items = self._dict.get(pkg.key, self._global_settings)\n        s = set(pre_defaults)\n        incremental_chunked(s, [cinst for cinst in items if cinst.key.match(pkg)])\n"),
}
name = sys.argv[1]
wt = f"/tmp/wt_C11_{name}"
subprocess.run(["git", "-C", "/repo", "worktree", "remove", "--force", wt], capture_output=True)
subprocess.run(["git", "-C", "/repo", "worktree", "add", "--detach", wt, "HEAD"], capture_output=True, check=True)
path, old, new = MUTS[name]
fp = os.path.join(wt, path)
s = open(fp).read()
assert s.count(old) == 1, (name, s.count(old))
open(fp, "w").write(s.replace(old, new))
env = dict(os.environ, VERIF_REPO=wt, VERIF_SEED=os.environ.get("VERIF_SEED", "0"))
r = subprocess.run(["./check", "C11"], cwd="/verif", env=env, capture_output=True, text=True)
out = [l[:220] for l in r.stdout.splitlines() if not l.startswith("KNOWN")]
print(name, "exit", r.returncode)
for l in out[-4:]:
    print("   ", l)
# first violation detail
import json, re
m = re.search(r"replay=(\S+)", r.stdout)
if m:
    d = json.load(open(m.group(1)))
    print("    ", d["kind"], json.dumps(d["detail"])[:600])
subprocess.run(["git", "-C", "/repo", "worktree", "remove", "--force", wt], capture_output=True)
