import sys, os, tempfile, shutil, random, logging, json
sys.path.insert(0, "/verif")
from harness import c29
from harness.common import Check
chk = Check("C29")
logging.getLogger("pkgcore").setLevel(logging.CRITICAL)
os.umask(0o022)
kind = sys.argv[1]
rng = random.Random(int(sys.argv[2]) if len(sys.argv) > 2 else 0)
sc = c29.gen_scenario(rng, kind)
print(sc)
work = tempfile.mkdtemp(prefix="c29d_")
import time
t=time.time()
try:
    res = c29.run_scenario(chk, work, sc)
finally:
    shutil.rmtree(work, ignore_errors=True)
print("time", time.time()-t)
n = res["n"]
print("calls", n, "ops", len(res["ops"]), "window", c29.window_of(res))
for i,c in enumerate(res["trace"]): print(i, res["idx"][i], c)
for k,(v,st) in sorted(res["views"].items()):
    tag = "old" if v == res["views"][0][0] else "new" if v == res["views"][n][0] else "NEITHER"
    print(k, tag, v if isinstance(v, c29.Err) else [e[0]+"/"+e[1] for e in v], st)
print(c29.judge(chk, res))
print(chk.known_seen.keys())
