#!/bin/bash
# mutation self-tests for C35: each mutation is applied on top of the four C35 patches
set -u
OUT=/verif/chk.scratch/c35/mut
mk() {
  local name=$1
  git -C /repo worktree remove --force /tmp/wt_C35_$name 2>/dev/null
  git -C /repo worktree add --detach /tmp/wt_C35_$name HEAD >/dev/null 2>&1
  cp -r /repo/data/lib/pkgcore/ebd/.generated /tmp/wt_C35_$name/data/lib/pkgcore/ebd/
  for f in hook-trace clear-preloaded-literal sandbox-summary-literal env-failure-drain; do
    git -C /tmp/wt_C35_$name apply /verif/fixes/C35-$f.patch || echo "PATCH FAILED $f"
  done
}
edit() { /venv/bin/python - "$@" <<'PY'
import sys
path, old, new = sys.argv[1:4]
s = open(path).read()
assert s.count(old) >= 1, ("not found", old)
open(path, "w").write(s.replace(old, new, 1))
PY
}
run() {
  local name=$1
  ( cd /verif && VERIF_C35_PIN=1 VERIF_C35_OP_TIMEOUT=30 VERIF_REPO=/tmp/wt_C35_$name timeout 900 ./check C35 > $OUT/$name.out 2>&1; echo "exit=$?" >> $OUT/$name.out )
  cp /verif/evidence/C35.json $OUT/$name.evidence.json 2>/dev/null
  git -C /tmp/wt_C35_$name diff > $OUT/$name.diff
  echo "== $name: $(grep -c '^VIOLATION' $OUT/$name.out) violation lines, $(tail -1 $OUT/$name.out)"
  git -C /repo worktree remove --force /tmp/wt_C35_$name
}
P=src/pkgcore/ebuild/processor.py
D=data/lib/pkgcore/ebd/ebuild-daemon.bash
L=data/lib/pkgcore/ebd/ebuild-daemon-lib.bash
for m in "$@"; do
  mk $m
  W=/tmp/wt_C35_$m
  case $m in
    M1) # sync expect with outstanding async expects forgets to queue itself: reads one reply too few
      edit $W/$P '        self._outstanding_expects.append((flush, want))
        return self._consume_async_expects()' '        return self._consume_async_expects()' ;;
    M2) # inherit answer: the path line stays in python's buffer (unflushed) while python goes on to read
      edit $W/$P '        ebp.write(eclass.path)' '        ebp.write(eclass.path, flush=False)' ;;
    M3) # daemon: reply literal of `alive` changed
      edit $W/$D '				__ebd_write_line "yep!"
				;;
			*)
				die "unknown ebd com' '				__ebd_write_line "yep"
				;;
			*)
				die "unknown ebd com' ;;
    M4) # daemon: a failed preload sends no reply at all
      edit $W/$D '						success='"'"'failed'"'"'
						break' '						unset -v e x success
						continue 2' ;;
    M5) # daemon: unknown commands are ignored instead of fatal
      edit $W/$D '				die "unknown ebd com: '"'"'${com}'"'"'"' '				echo "ignoring unknown ebd com: '"'"'${com}'"'"'" >&2' ;;
    M6) # python: an unlisted request is skipped instead of raising UnhandledCommand
      edit $W/$P '                    raise UnhandledCommand(line)
        except FinishedProcessing as fp:' '                    continue
        except FinishedProcessing as fp:' ;;
    M7) # python: generic_handler no longer collects outstanding async expects first
      edit $W/$P '            if self._outstanding_expects and not self._consume_async_expects():' '            if False and not self._consume_async_expects():' ;;
    M8) # daemon: metadata failure path reports nothing (phases failed line dropped when stderr is empty)
      edit $W/$D '					[[ -n ${error_output} ]] || error_output="ebd::${com% *} failed"
					__ebd_write_line "phases failed ${error_output}"' '					[[ -n ${error_output} ]] && __ebd_write_line "phases failed ${error_output}"' ;;
    H1) # harmless: handler table built in another order, a log message reworded, a comment in bash
      edit $W/$P '        handlers["SIGINT"] = chuck_KeyboardInterrupt
        handlers["SIGTERM"] = chuck_TermInterrupt' '        handlers["SIGTERM"] = chuck_TermInterrupt
        handlers["SIGINT"] = chuck_KeyboardInterrupt'
      edit $W/$P 'logger.error("error in daemon")' 'logger.error("daemon replies out of alignment")'
      edit $W/$D '				__ebd_write_line "yep!"
				;;
			*)
				die "unknown ebd com' '				# liveness probe
				__ebd_write_line "yep!"
				;;
			*)
				die "unknown ebd com' ;;
  esac
  run $m
done
