(* Model_C20.v — executable model of what an unmerge does to the live filesystem:
     pkgcore.fs.ops.unmerge_contents (ops.py:296)
     the uninstall / replace cset wiring of MergeEngine (engine.py: uninstall_csets,
       replace_csets, get_uninstall_livefs_intersect, get_remove_cset as REPAIRED by
       fixes/C20-1 and fixes/C20-2) and livefs.intersect
     BaseSystemUnmergeProtection (triggers.py:455) with its list, the schedule of the default
       triggers (default_plugins_triggers, base.register, MergeEngine.execute_hook) and the ignored
       errno tuple taken from gen/Tables_C20.v (regenerated from source each run)
   over the abstract filesystem of C18/Fs.v.  Bug-compatible; no proofs here.

   Paths: the model root [] is the harness' scratch base directory; the engine offset is a path
   below it.  A location is resolved the way the kernel does it for lstat/unlink/rmdir
   (C18/Model_C18 [canon]: every component but the last followed), and the state changes only
   through Fs.apply_op (Unlink / Rmdir) on the canonical path. *)
From Coq Require Import List NArith ZArith Bool.
From Coq Require Strings.Byte.
Import ListNotations.
From Verif Require Import Base.Val C18.Fs C18.Model_C18 gen.Tables_C20.

(* ------------------------------------------------------------------ input *)
Record uinput := {
  u_fs  : fs;                    (* live tree when the `unmerge` hook starts *)
  u_off : path;                  (* engine offset below the scratch base *)
  u_old : list path;             (* locations of the old package's contents, in set order, relative to the offset *)
  u_new : option (list path)     (* None: MergeEngine.uninstall; Some l: MergeEngine.replace, l = new package's locations *)
}.

Definition entry := (path * bool)%type.        (* offset-prefixed location, "the live object is a directory" *)

Definition mem_path (p : path) (l : list path) : bool :=
  existsb (fun q => if path_eq_dec p q then true else false) l.

(* Python's str order on code points (fsBase.__lt__, the key of default_plugins_triggers) *)
Fixpoint str_ltb (a b : str) : bool :=
  match a, b with
  | _, [] => false
  | [], _ :: _ => true
  | x :: a', y :: b' => if N.ltb x y then true else if N.eqb x y then str_ltb a' b' else false
  end.

(* ------------------------------------------------------------------ livefs.intersect *)
(* gen_obj(location) = lstat: Some (canonical path, is-directory); ENOENT / ENOTDIR are skipped *)
Definition lstat (s : fs) (p : path) : option (path * bool) :=
  match canon s p with
  | WOk cp => match node_at s cp with
              | Some n => Some (cp, is_dir_node n)
              | None => None
              end
  | _ => None
  end.

Definition intersect (s : fs) (ps : list path) : list entry :=
  flat_map (fun p => match lstat s p with Some (_, d) => [(p, d)] | None => [] end) ps.

(* ------------------------------------------------------------------ get_remove_cset (repaired) *)
(* livefs._realpath_dir: realpath(dirname)/basename; only results whose parent exists matter *)
Definition canon_opt (s : fs) (p : path) : option path :=
  match canon s p with WOk c => Some c | _ => None end.

Definition canon_list (s : fs) (ps : list path) : list path :=
  flat_map (fun p => match canon_opt s p with Some c => [c] | None => [] end) ps.

Definition keep_removed (s : fs) (new nc : list path) (e : entry) : bool :=
  negb (mem_path (fst e) new)
  && negb (match canon_opt s (fst e) with Some c => mem_path c nc | None => false end).

Definition remove_cset (s : fs) (old : list entry) (new : list path) : list entry :=
  filter (keep_removed s new (canon_list s new)) old.

(* ------------------------------------------------------------------ which default trigger runs when *)
Definition trig := (str * Z * list str * option (list N))%type.
Definition t_name (t : trig) : str := let '(n, _, _, _) := t in n.
Definition t_prio (t : trig) : Z := let '(_, p, _, _) := t in p.
Definition t_hooks (t : trig) : list str := let '(_, _, h, _) := t in h.
Definition t_modes (t : trig) : option (list N) := let '(_, _, _, m) := t in m.

Definition mem_str (x : str) (l : list str) : bool := existsb (str_eqb x) l.

(* default_plugins_triggers(): sorted(triggers, reverse=True, key=(priority, __name__)) *)
Definition key_ltb (a b : trig) : bool :=
  Z.ltb (t_prio a) (t_prio b) || (Z.eqb (t_prio a) (t_prio b) && str_ltb (t_name a) (t_name b)).
Fixpoint insert_reg (x : trig) (l : list trig) : list trig :=
  match l with
  | [] => [x]
  | y :: r => if key_ltb x y then y :: insert_reg x r else x :: l
  end.
Definition registration_order : list trig := fold_right insert_reg [] default_triggers.

(* the hooks an engine of that mode has (replace: the union) *)
Definition mode_hooks (m : N) : list str :=
  if N.eqb m INSTALL_MODE then install_hooks
  else if N.eqb m UNINSTALL_MODE then uninstall_hooks
  else install_hooks ++ uninstall_hooks.

(* base.register: skipped when _engine_types excludes the mode; add_trigger per hook the engine knows *)
Definition applies (m : N) (t : trig) : bool :=
  match t_modes t with None => true | Some l => existsb (N.eqb m) l end.
Definition registered (m : N) (hook : str) : list trig :=
  if mem_str hook (mode_hooks m)
  then filter (fun t => applies m t && mem_str hook (t_hooks t)) registration_order
  else [].

(* execute_hook: sorted(self.hooks[hook], key=priority) - ascending, stable *)
Fixpoint insert_run (x : trig) (l : list trig) : list trig :=
  match l with
  | [] => [x]
  | y :: r => if Z.leb (t_prio x) (t_prio y) then x :: l else y :: insert_run x r
  end.
Definition run_order (m : N) (hook : str) : list trig := fold_right insert_run [] (registered m hook).
Definition run_names (m : N) (hook : str) : list str := map t_name (run_order m hook).

Fixpoint index_of (x : str) (l : list str) : option nat :=
  match l with
  | [] => None
  | y :: r => if str_eqb x y then Some O else option_map S (index_of x r)
  end.
Definition runs_before (a b : str) (l : list str) : bool :=
  match index_of a l, index_of b l with
  | Some i, Some j => Nat.ltb i j
  | _, _ => false
  end.

Definition engine_modes : list N := [REPLACE_MODE; INSTALL_MODE; UNINSTALL_MODE].


(* ------------------------------------------------------------------ BaseSystemUnmergeProtection *)
(* _block = x.lstrip("/"); pjoin(engine.offset, x), normalised by contentsSet.__contains__ *)
Definition protected (off : path) : list path :=
  map (fun x => off ++ split_slash x) preserve_sequence.

(* the filtering only precedes the removal when, in the engine's `unmerge` hook, the protection
   trigger runs before the unmerge trigger *)
Definition protect_first (m : N) : bool :=
  runs_before name_protection name_unmerge (run_names m name_unmerge).

Definition protect (m : N) (off : path) (l : list entry) : list entry :=
  if protect_first m then filter (fun e => negb (mem_path (fst e) (protected off))) l else l.

Definition with_off (off : path) (l : list path) : list path := map (app off) l.

Definition engine_mode (i : uinput) : N :=
  match u_new i with None => UNINSTALL_MODE | Some _ => REPLACE_MODE end.

(* csets["uninstall"] as the `unmerge` trigger sees it *)
Definition uninstall_cset (i : uinput) : list entry :=
  let s := u_fs i in
  let old := intersect s (with_off (u_off i) (u_old i)) in
  protect (engine_mode i) (u_off i)
    (match u_new i with
     | None => old
     | Some ns => remove_cset s old (with_off (u_off i) ns)
     end).

(* ------------------------------------------------------------------ unmerge_contents *)
(* one attempted os call: rmdir?, the location as passed, Some canonical path when it succeeded *)
Inductive ev := Ev (rm : bool) (lit : path) (res : option path).

Definition ev_res (e : ev) : option path := match e with Ev _ _ r => r end.
Definition ev_lit (e : ev) : path := match e with Ev _ l _ => l end.
Definition ev_rm (e : ev) : bool := match e with Ev r _ _ => r end.

Inductive step := Done (cp : path) (s' : fs) | Ignored | Raised.

(* unlink_if_exists(location): only ENOENT is swallowed *)
Definition unlink_step (s : fs) (p : path) : step :=
  match canon s p with
  | WOk cp =>
      match apply_op s (Unlink cp) with
      | Some s' => Done cp s'
      | None => match node_at s cp with
                | None => Ignored                (* ENOENT *)
                | Some _ => Raised               (* a directory: EISDIR / EPERM *)
                end
      end
  | WNoEnt => Ignored
  | WOther => Raised                             (* ENOTDIR / ELOOP *)
  end.

Definition errno_ignored (e : N) : bool := existsb (N.eqb e) rmdir_ignored.

(* os.rmdir(location) inside the errno filter *)
Definition rmdir_step (s : fs) (p : path) : step :=
  match canon s p with
  | WOk cp =>
      match apply_op s (Rmdir cp) with
      | Some s' => Done cp s'
      | None =>
          let e := match node_at s cp with
                   | None => E_NOENT
                   | Some n => if is_dir_node n
                               then (match cp with [] => E_BUSY | _ => E_NOTEMPTY end)
                               else E_NOTDIR
                   end in
          if errno_ignored e then Ignored else Raised
      end
  | WNoEnt => if errno_ignored E_NOENT then Ignored else Raised
  | WOther => if errno_ignored E_NOTDIR then Ignored else Raised
  end.

(* run a list of attempts: trace, final state, "an exception left the loop" *)
Fixpoint phase (rm : bool) (stepf : fs -> path -> step) (s : fs) (ps : list path) : list ev * fs * bool :=
  match ps with
  | [] => ([], s, false)
  | p :: r =>
      match stepf s p with
      | Done cp s' => let '(t, s2, e) := phase rm stepf s' r in (Ev rm p (Some cp) :: t, s2, e)
      | Ignored => let '(t, s2, e) := phase rm stepf s r in (Ev rm p None :: t, s2, e)
      | Raised => ([Ev rm p None], s, true)
      end
  end.

(* fsBase.__lt__ compares the location strings *)
Definition loc_str (p : path) : str := concat (map (cons SLASH) p).
Definition loc_ltb (p q : path) : bool := str_ltb (loc_str p) (loc_str q).

(* l.sort(reverse=True) *)
Fixpoint insert_desc (x : path) (l : list path) : list path :=
  match l with
  | [] => [x]
  | y :: r => if loc_ltb x y then y :: insert_desc x r else x :: l
  end.
Definition sort_desc (l : list path) : list path := fold_right insert_desc [] l.

Definition nondirs (cs : list entry) : list path := map fst (filter (fun e => negb (snd e)) cs).
Definition dirs (cs : list entry) : list path := map fst (filter (fun e => snd e) cs).

Definition unmerge (s : fs) (cs : list entry) : list ev * fs * bool :=
  let '(t1, s1, e1) := phase false unlink_step s (nondirs cs) in
  if e1 then (t1, s1, true)
  else let '(t2, s2, e2) := phase true rmdir_step s1 (sort_desc (dirs cs)) in (t1 ++ t2, s2, e2).

Definition run_engine (i : uinput) : list ev * fs * bool := unmerge (u_fs i) (uninstall_cset i).

(* replay of a trace: the successful calls, as Fs removals *)
Definition replay (s : fs) (t : list ev) : fs :=
  fold_left (fun a e => match ev_res e with Some c => remove a c | None => a end) t s.

(* ------------------------------------------------------------------ harness codec *)
(* one byte-string literal per case:   OFF @ FS @ OLD @ NEW
     OFF  a/b            (may be empty)
     FS   path=K;path=K  K = d | f<data> | l<target> | p | c     (paths relative to the base)
     OLD  path;path      (relative to the offset)
     NEW  -              uninstall         | +path;path   replace
   result string:         TRACE @ FS @ E
     TRACE  u<lit>><canonical> | u<lit>! | r<lit>><canonical> | r<lit>!   joined by ';'
     E      0 | 1 (raised) *)
Inductive bstr := BS (l : list Byte.byte).
Definition bs_parse (l : list Byte.byte) : bstr := BS l.
Definition bs_print (b : bstr) : list Byte.byte := match b with BS l => l end.
Declare Scope bs_scope.
Delimit Scope bs_scope with bs.
String Notation bstr bs_parse bs_print : bs_scope.
Definition s2l (b : bstr) : str := match b with BS l => map Byte.to_N l end.

Fixpoint split_on_aux (c : N) (s cur : str) : list str :=
  match s with
  | [] => [rev cur]
  | x :: r => if N.eqb x c then rev cur :: split_on_aux c r [] else split_on_aux c r (x :: cur)
  end.
Definition split_on (c : N) (s : str) : list str := split_on_aux c s [].
Definition fields (c : N) (s : str) : list str := match s with [] => [] | _ => split_on c s end.

Definition AT : N := 64%N.   Definition SEMI : N := 59%N.   Definition EQ : N := 61%N.
Definition GT : N := 62%N.   Definition BANG : N := 33%N.

Definition dec_node (k : str) : node :=
  match k with
  | [] => Dev 0 0 0 0 0
  | c :: r =>
      if N.eqb c 100 then Dir 0 0 0 0
      else if N.eqb c 102 then File r 0 0 0 0 0
      else if N.eqb c 108 then Sym r 0 0 0
      else if N.eqb c 112 then Fifo 0 0 0 0
      else Dev 0 0 0 0 0
  end.
Fixpoint cut_at (c : N) (s : str) : str * str :=
  match s with
  | [] => ([], [])
  | x :: r => if N.eqb x c then ([], r) else let '(a, b) := cut_at c r in (x :: a, b)
  end.
Definition dec_fs (s : str) : fs :=
  map (fun e => let '(p, k) := cut_at EQ e in (split_slash p, dec_node k)) (fields SEMI s).
Definition dec_paths (s : str) : list path := map split_slash (fields SEMI s).

Definition dec_case (b : bstr) : uinput :=
  match split_on AT (s2l b) with
  | [o; f; old; new] =>
      {| u_fs := dec_fs f; u_off := split_slash o; u_old := dec_paths old;
         u_new := match new with
                  | c :: r => if N.eqb c 43 then Some (dec_paths r) else None
                  | [] => None
                  end |}
  | _ => {| u_fs := []; u_off := []; u_old := []; u_new := None |}
  end.

Fixpoint join_with (c : N) (l : list str) : str :=
  match l with
  | [] => []
  | [x] => x
  | x :: r => x ++ c :: join_with c r
  end.
Definition show_path (p : path) : str := join_with SLASH p.
Definition show_node (n : node) : str :=
  match n with
  | Dir _ _ _ _ => [100%N]
  | File d _ _ _ _ _ => 102%N :: d
  | Sym t _ _ _ => 108%N :: t
  | Fifo _ _ _ _ => [112%N]
  | Dev _ _ _ _ _ => [99%N]
  end.
Definition show_fs (s : fs) : str :=
  join_with SEMI (map (fun e => show_path (fst e) ++ EQ :: show_node (snd e)) s).
Definition show_ev (e : ev) : str :=
  match e with
  | Ev rm l r => (if rm then 114%N else 117%N) :: show_path l
                 ++ match r with
                    | Some c => GT :: (if path_eq_dec c l then [] else show_path c)
                    | None => [BANG]
                    end
  end.
(* the after-snapshot is reported as a difference against the before-snapshot: the paths that
   are gone (in before-order), then every binding of the after-snapshot that the before-snapshot
   does not have identically (the model never produces one) *)
Definition gone_paths (s0 s' : fs) : list path :=
  map fst (filter (fun e => match lookup s' (fst e) with None => true | Some _ => false end) s0).
Definition show_result (s0 : fs) (r : list ev * fs * bool) : str :=
  let '(t, s, e) := r in
  join_with SEMI (map show_ev t) ++ AT :: join_with SEMI (map show_path (gone_paths s0 s))
  ++ AT :: AT :: [if e then 49%N else 48%N].

Definition run_case (b : bstr) : val :=
  let i := dec_case b in VS (show_result (u_fs i) (run_engine i)).

(* stream `order`: the class names of the triggers an engine of that mode runs in that hook *)
Definition run_hook_order (i : N * str) : val := VL (map VS (run_names (fst i) (snd i))).

(* the after-snapshot described by an implementation result string, relative to s0 *)
Definition result_fs (s0 : fs) (r : val) : option fs :=
  match r with
  | VS s => match split_on AT s with
            | [_; g; x; _] =>
                let gone := dec_paths g in
                let extra := dec_fs x in
                Some (extra ++ filter (fun e => negb (mem_path (fst e) gone)
                                               && negb (mem_path (fst e) (map fst extra))) s0)
            | _ => None
            end
  | _ => None
  end.
