(* Negate_C04.v — atoms built with negate_vers=True (atom(..., negate_vers=True)): the version
   clause of the operators <,<=,=,>=,>,~ is inverted; `=*` and unversioned atoms ignore the flag
   (atom.restrictions passes negate only to VersionMatch). *)
From Coq Require Import List NArith ZArith Bool Lia.
Import ListNotations.
From Verif Require Import Base.Val C01.Model_C01 C04.Model_C04 C04.Spec_C04 C04.Proofs_C04.

Section Spec.
Variable vc : str -> option N -> str -> option N -> Z.

(* the version clause of the statement, inverted for a negated operator atom *)
Definition ver_ok_nv (a : atom) (p : package) : bool :=
  if a_negate_vers a && N.ltb (a_op a) 6 then negb (ver_ok vc a p) else ver_ok vc a p.

Definition pms_match_nv (a : atom) (p : package) : bool :=
  str_eqb (a_cat a) (p_cat p) && str_eqb (a_pkg a) (p_pkg p)
  && ver_ok_nv a p
  && opt_eq (a_slot a) (p_slot p) && opt_eq (a_subslot a) (p_subslot p)
  && opt_eq (a_repo a) (p_repo p)
  && use_ok a p.
End Spec.

Lemma pms_match_nv_plain vc a p : a_negate_vers a = false -> pms_match_nv vc a p = pms_match vc a p.
Proof. intro H. unfold pms_match_nv, ver_ok_nv, pms_match. rewrite H. reflexivity. Qed.

Lemma vmatch_negate vc op v r pv pr : vmatch vc op true v r pv pr = negb (vmatch vc op false v r pv pr).
Proof. unfold vmatch. destruct (op_droprev op); rewrite xorb_false_r, xorb_true_r; reflexivity. Qed.

Definition with_negate (a : atom) (n : bool) : atom :=
  {| a_cat := a_cat a; a_pkg := a_pkg a; a_op := a_op a; a_ver := a_ver a; a_rev := a_rev a;
     a_fullver := a_fullver a; a_slot := a_slot a; a_subslot := a_subslot a; a_slotop := a_slotop a;
     a_repo := a_repo a; a_use := a_use a; a_blocks := a_blocks a; a_strong := a_strong a;
     a_negate_vers := n |}.

Lemma match_is_pms_negate_partial_proof : forall vc a p,
  sign_valued vc -> wf_atom a = true ->
  known_glob a p = false -> known_use_nand a p = false ->
  atom_match vc a p = pms_match_nv vc a p.
Proof.
  intros vc a p Hs Hwf Kg Ku.
  unfold atom_match, atom_restrictions, pms_match_nv. rewrite !forallb_app.
  rewrite (use_part vc a p Ku).
  unfold wf_atom in Hwf. apply andb_true_iff in Hwf as [Hwf Hsub]. apply andb_true_iff in Hwf as [Hop Hfv].
  apply N.leb_le in Hop.
  assert (Hv : forallb (eval_restr vc p)
                 (match a_fullver a with
                  | Some fv => if N.eqb (a_op a) 6 then [RGlob fv]
                               else [RVersion (a_op a) (a_ver a) (a_rev a) (a_negate_vers a)]
                  | None => [] end) = ver_ok_nv vc a p).
  { unfold ver_ok_nv, ver_ok, known_glob in *. destruct (a_fullver a) as [fv|] eqn:Efv; cbn in Hfv.
    - destruct (N.eqb (a_op a) 7) eqn:E7; [discriminate|]. apply N.eqb_neq in E7.
      destruct (N.eqb (a_op a) 6) eqn:E6.
      + apply N.eqb_eq in E6. rewrite E6. cbn. rewrite andb_true_r, andb_false_r. cbn in Kg.
        destruct (startswith (p_fullver p) fv) eqn:Esw.
        * cbn in Kg. apply negb_false_iff in Kg. rewrite Kg. reflexivity.
        * destruct (comp_prefix fv (p_fullver p)) eqn:Ecp; [|reflexivity].
          apply comp_prefix_startswith in Ecp. congruence.
      + apply N.eqb_neq in E6. cbn. rewrite andb_true_r.
        assert (L : N.ltb (a_op a) 6 = true) by (apply N.ltb_lt; lia). rewrite L, andb_true_r.
        assert (E : vmatch vc (a_op a) false (a_ver a) (a_rev a) (p_ver p) (p_rev p)
                    = match a_op a with
                      | 0%N => Z.ltb (vc (p_ver p) (p_rev p) (a_ver a) (a_rev a)) 0
                      | 1%N => Z.leb (vc (p_ver p) (p_rev p) (a_ver a) (a_rev a)) 0
                      | 2%N => Z.eqb (vc (p_ver p) (p_rev p) (a_ver a) (a_rev a)) 0
                      | 3%N => Z.leb 0 (vc (p_ver p) (p_rev p) (a_ver a) (a_rev a))
                      | 4%N => Z.ltb 0 (vc (p_ver p) (p_rev p) (a_ver a) (a_rev a))
                      | 5%N => Z.eqb (vc (p_ver p) None (a_ver a) None) 0
                      | 6%N => match Some fv with Some g => comp_prefix g (p_fullver p) | None => true end
                      | _ => true
                      end).
        { rewrite (vmatch_ops vc (a_op a) _ _ _ _ Hs); [|lia].
          assert (Hc : (a_op a = 0 \/ a_op a = 1 \/ a_op a = 2 \/ a_op a = 3 \/ a_op a = 4 \/ a_op a = 5)%N) by lia.
          destruct Hc as [->|[->|[->|[->|[->| ->]]]]]; reflexivity. }
        destruct (a_negate_vers a); [rewrite vmatch_negate|]; rewrite E; reflexivity.
    - destruct (N.eqb (a_op a) 7) eqn:E7; [|discriminate]. apply N.eqb_eq in E7. rewrite E7.
      cbn. rewrite andb_false_r. reflexivity. }
  rewrite Hv.
  assert (Hsl : forallb (eval_restr vc p)
                  (match a_slot a with
                   | Some s => RSlot s :: match a_subslot a with Some ss => [RSubSlot ss] | None => [] end
                   | None => [] end)
                = opt_eq (a_slot a) (p_slot p) && opt_eq (a_subslot a) (p_subslot p)).
  { destruct (a_slot a), (a_subslot a); cbn in *; rewrite ?andb_true_r; try reflexivity; discriminate. }
  rewrite Hsl.
  assert (Hr : forallb (eval_restr vc p) (match a_repo a with Some r => [RRepo r] | None => [] end)
               = opt_eq (a_repo a) (p_repo p)).
  { destruct (a_repo a); cbn; rewrite ?andb_true_r; reflexivity. }
  rewrite Hr. cbn [forallb eval_restr]. rewrite andb_true_r.
  destruct (opt_eq (a_repo a) (p_repo p)), (str_eqb (a_pkg a) (p_pkg p)), (str_eqb (a_cat a) (p_cat p)),
    (ver_ok_nv vc a p), (opt_eq (a_slot a) (p_slot p)), (opt_eq (a_subslot a) (p_subslot p)), (use_ok a p);
    reflexivity.
Qed.

(* non-vacuity: atom('<a/b-1.1', negate_vers=True) matches a/b-10 and not a/b-1 *)
Example negate_example :
  let a := with_negate (mk_atom 0 [49; 46; 49]%N (Some [49; 46; 49]%N) None) true in
  atom_match ver_cmp a (mk_pkg [49; 48]%N [] []) = true /\ atom_match ver_cmp a (mk_pkg [49]%N [] []) = false.
Proof. split; vm_compute; reflexivity. Qed.

(* comparison (B) inside Coq for every atom, negated or not *)
Definition spec_match_bad_nv (i : atom * package) (res : val) : bool :=
  negb (val_eqb res (VB (pms_match_nv ver_cmp (fst i) (snd i)))).
