#!/bin/sh
# Regenerate coq/_CoqProject (every .v under coq/ except generated cases) and the coq_makefile Makefile.
# Safe under concurrency: callers hold coq/.build.lock (harness/common.py, setup.sh); temp names are per-process.
set -e
cd "$(dirname "$0")/../coq"
tmp=_CoqProject.new.$$
{
  echo "-R . Verif"
  echo "-arg -w -arg -notation-overridden,-deprecated-hint-without-locality,-deprecated-instance-without-locality"
  find . -name '*.v' ! -path './cases/*' | sed 's|^\./||' | LC_ALL=C sort
} > $tmp
if ! cmp -s $tmp _CoqProject 2>/dev/null; then mv $tmp _CoqProject; else rm -f $tmp; fi
coq_makefile -f _CoqProject -o Makefile >/dev/null
