(* Sorted_C08.v — sorted and stacked queries: orders are transitive, the sorted query is a sorted
   permutation of the plain one, the stacked query is the chain / merge of the per-repository answers. *)
From Coq Require Import List NArith ZArith Bool Sorting.Sorted Sorting.Permutation Sorting.Mergesort
  Relations.Relation_Definitions Classes.RelationClasses.
Import ListNotations.
From Verif Require Import Base.Val C06.Restr C08.Ord_C08 C08.Model_C08 C08.Spec_C08 C08.Dnf_C08 C08.Proofs_C08.

(* ------------------------------------------------------------------ the orders *)
Lemma str_leb_trans a : forall b c, str_leb a b = true -> str_leb b c = true -> str_leb a c = true.
Proof.
  induction a as [|x a IH]; intros [|y b] [|z c]; cbn; try discriminate; auto.
  destruct (N.eqb x y) eqn:E1; destruct (N.eqb y z) eqn:E2.
  - apply N.eqb_eq in E1, E2. subst. rewrite N.eqb_refl. apply IH.
  - apply N.eqb_eq in E1. subst. rewrite E2. auto.
  - apply N.eqb_eq in E2. subst. rewrite E1. auto.
  - intros H1 H2. apply N.ltb_lt in H1, H2. assert (H : (x < z)%N) by (eapply N.lt_trans; eauto).
    destruct (N.eqb x z) eqn:E3.
    + apply N.eqb_eq in E3. subst. exfalso. exact (N.lt_irrefl _ H).
    + now apply N.ltb_lt.
Qed.
Lemma str_leb_antisym a : forall b, str_leb a b = true -> str_leb b a = true -> a = b.
Proof.
  induction a as [|x a IH]; intros [|y b]; cbn; try discriminate; auto.
  rewrite (N.eqb_sym y x). destruct (N.eqb x y) eqn:E.
  - apply N.eqb_eq in E. subst. intros H1 H2. f_equal. now apply IH.
  - intros H1 H2. apply N.ltb_lt in H1, H2. exfalso. exact (N.lt_asymm _ _ H1 H2).
Qed.

Lemma cp_leb_trans a b c : cp_leb a b = true -> cp_leb b c = true -> cp_leb a c = true.
Proof.
  destruct a as [a1 a2], b as [b1 b2], c as [c1 c2]. unfold cp_leb. cbn [fst snd].
  destruct (str_eqb a1 b1) eqn:E1; destruct (str_eqb b1 c1) eqn:E2.
  - apply str_eqb_eq in E1, E2. subst. rewrite str_eqb_refl. apply str_leb_trans.
  - apply str_eqb_eq in E1. subst. rewrite E2. auto.
  - apply str_eqb_eq in E2. subst. rewrite E1. auto.
  - intros H1 H2. destruct (str_eqb a1 c1) eqn:E3.
    + apply str_eqb_eq in E3. subst. rewrite (str_leb_antisym _ _ H1 H2), str_eqb_refl in E1. discriminate.
    + exact (str_leb_trans _ _ _ H1 H2).
Qed.

Definition cp_le (a b : cp) : Prop := cp_leb a b = true.
Definition ver_le (a b : N) : Prop := N.leb a b = true.

Lemma cp_sort_strong l : StronglySorted cp_le (CpSort.sort l).
Proof.
  apply Sorted_StronglySorted; [intros a b c; apply cp_leb_trans|]. apply CpSort.Sorted_sort.
Qed.
Lemma ver_sort_strong l : StronglySorted ver_le (VerSort.sort l).
Proof.
  apply Sorted_StronglySorted; [|apply VerSort.Sorted_sort].
  intros a b c H1 H2. unfold ver_le in *. apply N.leb_le in H1, H2. apply N.leb_le. eapply N.le_trans; eauto.
Qed.

(* ------------------------------------------------------------------ list facts *)
Lemma SS_app {A} (Rel : A -> A -> Prop) l1 l2 :
  StronglySorted Rel l1 -> StronglySorted Rel l2 ->
  (forall x y, In x l1 -> In y l2 -> Rel x y) -> StronglySorted Rel (l1 ++ l2).
Proof.
  induction l1 as [|a l1 IH]; cbn; intros H1 H2 Hx; [assumption|].
  inversion H1; subst. constructor.
  - apply IH; auto.
  - apply Forall_app. split; [assumption|]. apply Forall_forall. intros y Hy. apply Hx; auto.
Qed.
Lemma SS_filter {A} (Rel : A -> A -> Prop) (f : A -> bool) l :
  StronglySorted Rel l -> StronglySorted Rel (filter f l).
Proof.
  induction 1 as [|a l Hs IH Hf]; cbn; [constructor|]. destruct (f a); [|assumption].
  constructor; [assumption|]. rewrite Forall_forall in *. intros x Hx. apply filter_In in Hx. apply Hf. tauto.
Qed.
Lemma SS_map {A B} (RA : A -> A -> Prop) (RB : B -> B -> Prop) (f : A -> B) l :
  (forall x y, RA x y -> RB (f x) (f y)) -> StronglySorted RA l -> StronglySorted RB (map f l).
Proof.
  intros Hm. induction 1 as [|a l Hs IH Hf]; cbn; constructor; [assumption|].
  rewrite Forall_forall in *. intros y Hy. apply in_map_iff in Hy as [x [<- Hx]]. auto.
Qed.
Lemma SS_strict {A} (Rel : A -> A -> Prop) l :
  StronglySorted Rel l -> NoDup l -> StronglySorted (fun a b => Rel a b /\ a <> b) l.
Proof.
  induction 1 as [|a l Hs IH Hf]; intros Hnd; [constructor|]. inversion Hnd; subst.
  constructor; [auto|]. rewrite Forall_forall in *. intros x Hx. split; [auto|]. intros ->. contradiction.
Qed.
Lemma SS_flat_map {A B} (RA : A -> A -> Prop) (RB : B -> B -> Prop) (g : A -> list B) (key : B -> A) ks :
  StronglySorted RA ks -> (forall k, StronglySorted RB (g k)) ->
  (forall k x, In x (g k) -> key x = k) ->
  (forall x y, RA (key x) (key y) -> RB x y) -> StronglySorted RB (flat_map g ks).
Proof.
  intros Hks Hg Hkey Hrel. induction Hks as [|k ks Hs IH Hf]; cbn; [constructor|].
  apply SS_app; auto. intros x y Hx Hy. apply in_flat_map in Hy as [k' [Hk' Hy]].
  apply Hrel. rewrite (Hkey _ _ Hx), (Hkey _ _ Hy). rewrite Forall_forall in Hf. auto.
Qed.
Lemma Permutation_filter' {A} (f : A -> bool) l l' :
  Permutation l l' -> Permutation (filter f l) (filter f l').
Proof.
  induction 1; cbn; auto.
  - destruct (f x); auto.
  - destruct (f x), (f y); auto. apply perm_swap.
  - eapply Permutation_trans; eauto.
Qed.
Lemma Permutation_flat_map_pw {A B} (f g : A -> list B) l :
  (forall a, Permutation (f a) (g a)) -> Permutation (flat_map f l) (flat_map g l).
Proof. intros H. induction l; cbn; auto. apply Permutation_app; auto. Qed.

(* ------------------------------------------------------------------ the sorted query *)
Lemma obj_le_keys x y : cp_le (okey x) (okey y) /\ okey x <> okey y -> obj_le x y.
Proof.
  intros [Hle Hne]. unfold obj_le, obj_leb.
  destruct (str_eqb (fst (okey x)) (fst (okey y)) && str_eqb (snd (okey x)) (snd (okey y))) eqn:E; [|exact Hle].
  apply andb_true_iff in E as [E1 E2]. apply str_eqb_eq in E1, E2. exfalso. apply Hne.
  destruct (okey x), (okey y). cbn in *. congruence.
Qed.

Lemma expand_sorted_strong R m k : StronglySorted obj_le (expand_sorted R m k).
Proof.
  unfold expand_sorted, expand. destruct m.
  - apply (SS_map ver_le); [|apply ver_sort_strong]. intros x y H. unfold obj_le, obj_leb. cbn.
    now rewrite !str_eqb_refl.
  - destruct (nonempty _); repeat constructor.
  - destruct (nonempty _); repeat constructor.
Qed.
Lemma expand_sorted_perm R m k : Permutation (expand R m k) (expand_sorted R m k).
Proof.
  unfold expand_sorted, expand. destruct m; auto. apply Permutation_map. apply VerSort.Permuted_sort.
Qed.
Lemma expand_sorted_key R m k x : In x (expand_sorted R m k) -> okey x = k.
Proof.
  intros H. apply (Permutation_in _ (Permutation_sym (expand_sorted_perm R m k))) in H.
  destruct k as [c p]. unfold expand in H. cbn [fst snd] in H. destruct m.
  - apply in_map_iff in H as [v [<- _]]. reflexivity.
  - destruct (nonempty _); [destruct H as [<-|[]]; reflexivity|destruct H].
  - destruct (nonempty _); [destruct H as [<-|[]]; reflexivity|destruct H].
Qed.

Theorem sorted_query_proof : forall w R m r l,
  repo_wf R -> itermatch_sorted w R m r = Some l ->
  StronglySorted obj_le l /\ exists got, itermatch w R m r = Some got /\ Permutation got l.
Proof.
  intros w R m r l Hwf Hq. unfold itermatch_sorted in Hq. unfold itermatch.
  destruct (candidates w R r) as [cs|] eqn:Ec; [|discriminate]. injection Hq as <-. split.
  - apply SS_filter.
    apply (SS_flat_map (fun a b => cp_le a b /\ a <> b) obj_le (expand_sorted R m) okey).
    + apply SS_strict; [apply cp_sort_strong|].
      apply (Permutation_NoDup (CpSort.Permuted_sort cs)). exact (candidates_nodup_proof w R r cs Hwf Ec).
    + apply expand_sorted_strong.
    + apply expand_sorted_key.
    + apply obj_le_keys.
  - eexists. split; [reflexivity|]. apply Permutation_filter'.
    eapply Permutation_trans; [apply Permutation_flat_map_pw; apply expand_sorted_perm|].
    apply Permutation_flat_map. apply CpSort.Permuted_sort.
Qed.

(* ------------------------------------------------------------------ stacked repositories *)
Lemma all_some_Forall2 {A B} (f : A -> option B) l xs :
  all_some (map f l) = Some xs -> Forall2 (fun a x => f a = Some x) l xs.
Proof.
  revert xs. induction l as [|a l IH]; cbn; intros xs H.
  - injection H as <-. constructor.
  - destruct (f a) as [x|] eqn:E; [|discriminate]. destruct (all_some (map f l)) as [xs'|]; [|discriminate].
    injection H as <-. constructor; auto.
Qed.

Theorem multiplex_union_proof : forall w Rs m r got,
  Forall repo_wf Rs -> flat_atom r = true -> m <> MUnvTuple ->
  multiplex w Rs m r = Some got ->
  exists parts, got = concat parts /\
    Forall2 (fun R part => exact_answer part (brute w R m r)) Rs parts.
Proof.
  intros w Rs m r got Hwf Hfa Hm Hq. unfold multiplex in Hq.
  destruct (all_some (map (fun R => itermatch w R m r) Rs)) as [parts|] eqn:E; [|discriminate].
  injection Hq as <-. exists parts. split; [reflexivity|].
  apply all_some_Forall2 in E. induction E as [|R part Rs parts H E IH]; [constructor|].
  inversion Hwf; subst. constructor; [|auto]. eapply query_exact_proof; eauto.
Qed.

Lemma fold_merge_perm parts : Permutation (concat parts) (fold_right ObjSort.merge [] parts).
Proof.
  induction parts as [|p parts IH]; cbn; [constructor|].
  eapply Permutation_trans; [apply Permutation_app_head; exact IH|]. apply ObjSort.Permuted_merge.
Qed.
Lemma fold_merge_sorted parts : Forall (Sorted obj_le) parts -> Sorted obj_le (fold_right ObjSort.merge [] parts).
Proof.
  induction 1 as [|p parts Hp _ IH]; cbn; [constructor|].
  apply Sorted_LocallySorted_iff. apply ObjSort.Sorted_merge; apply Sorted_LocallySorted_iff; assumption.
Qed.

Theorem multiplex_sorted_proof : forall w Rs m r l,
  Forall repo_wf Rs -> multiplex_sorted w Rs m r = Some l ->
  Sorted obj_le l /\ exists got, multiplex w Rs m r = Some got /\ Permutation got l.
Proof.
  intros w Rs m r l Hwf Hq. unfold multiplex_sorted in Hq. unfold multiplex.
  destruct (all_some (map (fun R => itermatch_sorted w R m r) Rs)) as [parts|] eqn:E; [|discriminate].
  injection Hq as <-. apply all_some_Forall2 in E.
  assert (H : Forall (Sorted obj_le) parts /\
              exists gots, all_some (map (fun R => itermatch w R m r) Rs) = Some gots /\
                           Permutation (concat gots) (concat parts)).
  { induction E as [|R part Rs parts H E IH].
    - split; [constructor|]. exists []. split; [reflexivity|constructor].
    - inversion Hwf; subst. destruct (IH H3) as [Hs [gots [Hg Hp]]].
      destruct (sorted_query_proof w R m r part H2 H) as [Hss [got [Hgot Hperm]]].
      split; [constructor; [now apply StronglySorted_Sorted|assumption]|].
      exists (got :: gots). cbn [map all_some]. rewrite Hgot, Hg. split; [reflexivity|].
      cbn [concat]. now apply Permutation_app. }
  destruct H as [Hs [gots [Hg Hp]]]. split; [now apply fold_merge_sorted|].
  exists (concat gots). rewrite Hg. split; [reflexivity|].
  eapply Permutation_trans; [exact Hp|apply fold_merge_perm].
Qed.

(* ------------------------------------------------------------------ the bare-tuple unversioned query *)
(* the full statement for the default unversioned call: the tuples yielded are exactly the
   category/package pairs whose package object the restriction matches *)
Definition unversioned_tuple_full : Prop :=
  forall w R r got, repo_wf R -> flat_atom r = true ->
    itermatch w R MUnvTuple r = Some got ->
    forall o, In o got <-> In o (map as_tuple (brute w R MUnvCPV r)).

Definition ex_a : str := [97]%N.
Definition ex_b : str := [98]%N.
Definition ex_x : str := [120]%N.
Definition ex_y : str := [121]%N.
Definition ex_repo : repo :=
  [(ex_a, [(ex_x, [1; 2]%N); (ex_y, [1]%N)]); (ex_b, [(ex_x, [1]%N); (ex_y, [])])].
(* leaf 0: category == a, leaf 1: package == x, leaf 2: some other attribute (true on version 1) *)
Definition ex_world : world :=
  {| info := fun i => match i with 0%N => LCat (MExact ex_a false) | 1%N => LPkg (MExact ex_x false) | _ => LOther 0%N end;
     pred := fun _ _ => false;
     opq := fun _ o => match o with PV _ _ 1%N => true | _ => false end |}.

Lemma ex_repo_wf : repo_wf ex_repo.
Proof.
  assert (Hab : ex_a <> ex_b) by discriminate. assert (Hxy : ex_x <> ex_y) by discriminate.
  split.
  - cbn. repeat constructor; cbn; intuition congruence.
  - repeat constructor; cbn; try (intuition congruence); try (intros [H|[]]; discriminate).
Qed.

Theorem unversioned_tuple_refuted_proof : ~ unversioned_tuple_full.
Proof.
  intros H. specialize (H ex_world ex_repo (Leaf false 0%N) [] ex_repo_wf eq_refl eq_refl (PT ex_a ex_x)).
  apply proj2 in H. apply H. vm_compute. now left.
Qed.

(* what the bare tuple does: it has no attributes, so every leaf reads "missing" *)
Theorem tuple_matches_blind_proof : forall w r c p, matches w r (PT c p) = eval (fun _ => false) r.
Proof. reflexivity. Qed.

(* ------------------------------------------------------------------ examples (non-vacuity) *)
(* the formerly broken query: And(category != a through the wrapper's negate, package == x) *)
Example ex_negated_wrapper :
  itermatch ex_world ex_repo MVersioned (Node KAnd false [Leaf true 0%N; Leaf false 1%N])
  = Some [PV ex_b ex_x 1%N]
  /\ brute ex_world ex_repo MVersioned (Node KAnd false [Leaf true 0%N; Leaf false 1%N]) = [PV ex_b ex_x 1%N]
  /\ length (universe ex_repo MVersioned) = 4%nat.
Proof. vm_compute. auto. Qed.
(* a normal form mixing a clause that names category and package with one that names neither *)
Example ex_mixed_dnf :
  let r := Node KOr false [Node KAnd false [Leaf false 0%N; Leaf false 1%N]; Node KAnd false [Leaf false 2%N; Leaf true 1%N]] in
  candidates ex_world ex_repo r = Some (all_cp ex_repo)
  /\ itermatch ex_world ex_repo MVersioned r = Some [PV ex_a ex_x 1%N; PV ex_a ex_x 2%N; PV ex_a ex_y 1%N].
Proof. vm_compute. auto. Qed.
(* the fast path narrowing to one key, and the sorted / unversioned / stacked variants *)
Example ex_variants :
  let r := Node KAnd false [Leaf false 0%N; Leaf false 1%N] in
  candidates ex_world ex_repo r = Some [(ex_a, ex_x)]
  /\ itermatch_sorted ex_world [(ex_a, [(ex_x, [2; 1]%N)])] MVersioned r = Some [PV ex_a ex_x 1%N; PV ex_a ex_x 2%N]
  /\ itermatch ex_world ex_repo MUnvCPV r = Some [PU ex_a ex_x]
  /\ itermatch ex_world ex_repo MUnvTuple r = Some []
  /\ multiplex_sorted ex_world [ex_repo; [(ex_a, [(ex_x, [3; 1]%N)])]] MVersioned r
     = Some [PV ex_a ex_x 1%N; PV ex_a ex_x 1%N; PV ex_a ex_x 2%N; PV ex_a ex_x 3%N].
Proof. vm_compute. repeat split. Qed.

(* ------------------------------------------------------------------ bare tuples outside the known class *)
Lemma pl_leaves r : forall b x, In x (pl b r) -> In (snd x) (leaves r).
Proof.
  apply (RestrInd.restr_ind' (fun r => forall b x, In x (pl b r) -> In (snd x) (leaves r))).
  - intros n i b x H. cbn in H. destruct (b && n); [destruct H|]. destruct H as [<-|[]]. now left.
  - intros b0 b x [].
  - intros r' _ b x [].
  - intros k n cs IH b x H. rewrite Forall_forall in IH. cbn [leaves].
    assert (Hg : In x (flat_map (pl true) cs) -> In (snd x) (flat_map leaves cs)).
    { intros H'. apply in_flat_map in H' as [ch [Hch Hx]]. apply in_flat_map. exists ch. split; [assumption|].
      exact (IH ch Hch true x Hx). }
    destruct k; destruct n; cbn in H; try contradiction; auto.
Qed.

Lemma eval_leaffree e1 e2 r : leaves r = [] -> eval e1 r = eval e2 r.
Proof.
  revert r. apply (RestrInd.restr_ind' (fun r => leaves r = [] -> eval e1 r = eval e2 r)).
  - intros n i H. discriminate.
  - reflexivity.
  - intros r' IH H. cbn. f_equal. apply IH. exact H.
  - intros k n cs IH H. cbn [eval]. f_equal. apply RestrInd.map_ext_Forall'.
    rewrite Forall_forall in *. intros ch Hch. apply IH; [assumption|].
    cbn [leaves] in H. destruct (leaves ch) as [|i l] eqn:E; [reflexivity|]. exfalso.
    assert (Hi : In i (flat_map leaves cs)) by (apply in_flat_map; exists ch; split; [assumption|rewrite E; now left]).
    rewrite H in Hi. destruct Hi.
Qed.

Lemma leaffree_candidates w R r cs c p : leaves r = [] ->
  In c (categories R) -> In p (packages_get R c) -> candidates w R r = Some cs -> In (c, p) cs.
Proof.
  intros Hl Hc Hp Hcs. unfold candidates in Hcs.
  assert (Hpl : forall b, pl b r = []).
  { intros b. destruct (pl b r) as [|x l] eqn:E; [reflexivity|]. exfalso.
    assert (H : In (snd x) (leaves r)) by (apply (pl_leaves r b); rewrite E; now left). rewrite Hl in H. destruct H. }
  destruct (atom_key w r) as [k|] eqn:Ek.
  - exfalso. destruct r as [| | |[] [] chs]; try discriminate. cbn in Ek.
    destruct (first_some (leaf_exact w true) chs) as [c0|] eqn:E1; [|discriminate].
    destruct (first_some_leaf w true chs c0 E1) as [i [Hi _]]. cbn [leaves] in Hl.
    assert (H : In i (flat_map leaves chs)) by (apply in_flat_map; exists (Leaf false i); split; [assumption|now left]).
    rewrite Hl in H. destruct H.
  - assert (Hfast : In (c, p) (fast w R r)) by (apply fast_sound_nocoll; auto).
    destruct r as [n i|b|r'|k n chs]; cbn [identify] in Hcs; try (injection Hcs as <-; exact Hfast).
    assert (Hd : identify_dnf w R (Node k n chs) = Some cs -> In (c, p) cs).
    { unfold identify_dnf. destruct (Proofs_C06.dnf_never_refuses_proof true (Node k n chs)) as [s [Hs Hne]].
      rewrite Hs. replace (existsb _ (map (clause_cp w) s)) with true.
      - intros H. injection H as <-. now apply in_cps_of.
      - symmetry. destruct s as [|cl s]; [congruence|]. cbn [map existsb].
        assert (E : flat_map (pl true) cl = []).
        { destruct (flat_map (pl true) cl) as [|x l] eqn:E; [reflexivity|]. exfalso.
          assert (H : In x (pl true (Node k n chs))).
          { apply (clause_leaf_in_tree (Node k n chs) (cl :: s) cl x Hs); [now left|rewrite E; now left]. }
          rewrite Hpl in H. destruct H. }
        unfold clause_cp. rewrite E. reflexivity. }
    destruct k; try exact (Hd Hcs). injection Hcs as <-. exact Hfast.
Qed.

Lemma universe_intro R m c ps p vs o : In (c, ps) R -> In (p, vs) ps ->
  match m with
  | MVersioned => exists v, o = PV c p v /\ In v vs
  | MUnvCPV => o = PU c p /\ vs <> []
  | MUnvTuple => o = PT c p /\ vs <> []
  end -> In o (universe R m).
Proof.
  intros Hc Hp Ho. unfold universe. apply in_flat_map. exists (c, ps). split; [assumption|].
  apply in_flat_map. exists (p, vs). split; [assumption|]. cbn [fst snd]. destruct m.
  - destruct Ho as [v [-> Hv]]. now apply in_map.
  - destruct Ho as [-> Hne]. destruct vs; [congruence|now left].
  - destruct Ho as [-> Hne]. destruct vs; [congruence|now left].
Qed.

Theorem unversioned_tuple_partial_proof : forall w R r got,
  repo_wf R -> tuple_class r = false -> itermatch w R MUnvTuple r = Some got ->
  forall o, In o got <-> In o (map as_tuple (brute w R MUnvCPV r)).
Proof.
  intros w R r got Hwf Hcl Hq o.
  assert (Hl : leaves r = []) by (unfold tuple_class in Hcl; destruct (leaves r); [reflexivity|discriminate]).
  unfold itermatch in Hq. destruct (candidates w R r) as [cs|] eqn:Ec; [|discriminate]. injection Hq as <-.
  rewrite filter_In, in_map_iff. split.
  - intros [Hin Hm]. apply in_flat_map in Hin as [k [_ Hin]].
    destruct (expand_in R MUnvTuple k o Hin) as [_ Hu].
    destruct (universe_inv R MUnvTuple o Hu) as [c [ps [p [vs [Hc [Hp [_ [-> Hne]]]]]]]].
    exists (PU c p). split; [reflexivity|]. unfold brute. apply filter_In. split.
    + apply (universe_intro R MUnvCPV c ps p vs); auto.
    + unfold matches in *. rewrite <- Hm. now apply eval_leaffree.
  - intros [o' [<- Ho']]. unfold brute in Ho'. apply filter_In in Ho' as [Hu Hm].
    destruct (universe_inv R MUnvCPV o' Hu) as [c [ps [p [vs [Hc [Hp [_ [-> Hne]]]]]]]]. cbn [as_tuple].
    assert (Hu' : In (PT c p) (universe R MUnvTuple)) by (apply (universe_intro R MUnvTuple c ps p vs); auto).
    destruct (universe_expand R Hwf MUnvTuple (PT c p) Hu') as [Hexp [Hcat Hpkg]]. cbn [okey fst snd] in *.
    split.
    + apply in_flat_map. exists (c, p). split; [|assumption]. exact (leaffree_candidates w R r cs c p Hl Hcat Hpkg Ec).
    + unfold matches in *. rewrite <- Hm. now apply eval_leaffree.
Qed.
