(* Sem_C11.v — per-flag (last writer) semantics of chunk lists and the collapse lemma for
   _build_cp_atom_payload.  Lemmas only; used by Proofs_C11.v. *)
From Coq Require Import List NArith ZArith Bool Lia.
Import ListNotations.
From Verif Require Import Base.Val C11.Model_C11 C11.Spec_C11.
Open Scope N_scope.

(* ------------------------------------------------------------------ basics *)
Lemma mem_In x l : mem x l = true <-> In x l.
Proof.
  unfold mem. rewrite existsb_exists. split.
  - intros [y [Hy He]]. apply N.eqb_eq in He. subst. exact Hy.
  - intro H. exists x. split; [exact H | apply N.eqb_refl].
Qed.
Lemma mem_false x l : mem x l = false <-> ~ In x l.
Proof.
  rewrite <- mem_In. destruct (mem x l); split; intro H; try discriminate; try reflexivity.
  exfalso. apply H. reflexivity.
Qed.

(* a negated token [t] clears flag [f] *)
Definition tclears (t f : N) : bool := (t =? 0) || pre_clears t f || (t =? f).
Definition cleared (ng : list N) (f : N) : bool := existsb (fun t => tclears t f) ng.

Lemma rule_neg_In t s f : In f (rule_neg t s) <-> In f s /\ tclears t f = false.
Proof.
  unfold rule_neg, tclears, pre_clears.
  destruct (t =? 0) eqn:E0; cbn [orb].
  - cbn. split; [tauto | intros [_ H]; discriminate].
  - apply N.eqb_neq in E0.
    destruct (t <? 10) eqn:E10.
    + rewrite filter_In, andb_true_iff, !negb_true_iff.
      assert (Hp : (0 <? t) = true) by (apply N.ltb_lt; lia). rewrite Hp. cbn [andb].
      rewrite orb_false_iff, (N.eqb_sym f t). tauto.
    + rewrite filter_In, negb_true_iff. rewrite andb_false_r. cbn [orb].
      rewrite (N.eqb_sym f t). tauto.
Qed.

Lemma fold_rule_neg_In ng : forall s f,
  In f (fold_left (fun s t => rule_neg t s) ng s) <-> In f s /\ cleared ng f = false.
Proof.
  induction ng as [|t ng IH]; intros s f; cbn [fold_left cleared existsb].
  - tauto.
  - rewrite IH, rule_neg_In. fold (cleared ng f). rewrite orb_false_iff. tauto.
Qed.
Lemma fold_rule_pos_In ps : forall s f,
  In f (fold_left (fun s t => rule_pos t s) ps s) <-> In f s \/ In f ps.
Proof.
  induction ps as [|t ps IH]; intros s f; cbn [fold_left].
  - cbn. tauto.
  - rewrite IH. unfold rule_pos. rewrite in_app_iff. cbn. intuition.
Qed.
Lemma apply_entry_In e s f :
  In f (apply_entry e s) <-> In f (pos e) \/ (In f s /\ cleared (neg e) f = false).
Proof. unfold apply_entry. rewrite fold_rule_pos_In, fold_rule_neg_In. tauto. Qed.

Lemma cleared_false ng f :
  cleared ng f = false <->
  mem 0 ng = false /\ existsb (fun t => pre_clears t f) ng = false /\ mem f ng = false.
Proof.
  unfold cleared, mem. induction ng as [|t ng IH]; cbn [existsb].
  - tauto.
  - rewrite !orb_false_iff, IH. unfold tclears. rewrite !orb_false_iff.
    rewrite (N.eqb_sym 0 t), (N.eqb_sym f t). tauto.
Qed.

Lemma apply_chunk_In c s f :
  In f (apply_chunk c s) <-> In f (pos c) \/ (In f s /\ cleared (neg c) f = false).
Proof.
  unfold apply_chunk. rewrite in_app_iff, !filter_In, !negb_true_iff, cleared_false.
  destruct (mem 0 (neg c)); cbn [In]; intuition congruence.
Qed.

Lemma apply_entry_chunk c s : same_set (apply_entry c s) (apply_chunk c s).
Proof. intro f. rewrite apply_entry_In, apply_chunk_In. tauto. Qed.

Lemma apply_chunk_ext c s s' : same_set s s' -> same_set (apply_chunk c s) (apply_chunk c s').
Proof. intros H f. rewrite !apply_chunk_In, (H f). tauto. Qed.


(* ------------------------------------------------------------------ last-writer semantics *)
Definition eff_chunk (c : chunk) (f : N) : option bool :=
  if mem f (pos c) then Some true else if cleared (neg c) f then Some false else None.
Definition orelse (a b : option bool) : option bool := match a with Some x => Some x | None => b end.
Fixpoint effl (l : list chunk) (p : pkg) (f : N) : option bool :=
  match l with
  | [] => None
  | c :: r => orelse (effl r p f) (if applies (sc c) p then eff_chunk c f else None)
  end.

Lemma orelse_assoc a b c : orelse (orelse a b) c = orelse a (orelse b c).
Proof. destruct a; reflexivity. Qed.
Lemma orelse_none_r a : orelse a None = a.
Proof. destruct a; reflexivity. Qed.

Lemma effl_app a b p f : effl (a ++ b) p f = orelse (effl b p f) (effl a p f).
Proof.
  induction a as [|c a IH]; cbn [app effl].
  - rewrite orelse_none_r. reflexivity.
  - rewrite IH, orelse_assoc. reflexivity.
Qed.

Lemma render_list_cons c items p pre :
  render_list (c :: items) p pre =
  render_list items p (if applies (sc c) p then apply_chunk c pre else pre).
Proof. reflexivity. Qed.

Lemma render_effl : forall items p pre f,
  In f (render_list items p pre) <->
  match effl items p f with Some b => b = true | None => In f pre end.
Proof.
  induction items as [|c items IH]; intros p pre f.
  - cbn. tauto.
  - rewrite render_list_cons, IH. cbn [effl].
    destruct (effl items p f) as [b|]; cbn [orelse]; [tauto|].
    destruct (applies (sc c) p); [|tauto].
    rewrite apply_chunk_In. unfold eff_chunk.
    destruct (mem f (pos c)) eqn:Ep.
    + apply mem_In in Ep. intuition.
    + apply mem_false in Ep. destruct (cleared (neg c) f); intuition congruence.
Qed.

(* two chunk lists with the same last-writer semantics render the same sets *)
Lemma effl_render_same l1 l2 p :
  (forall f, effl l1 p f = effl l2 p f) ->
  forall pre, same_set (render_list l1 p pre) (render_list l2 p pre).
Proof. intros H pre f. rewrite !render_effl, H. tauto. Qed.

(* ------------------------------------------------------------------ good chunks *)
(* no wildcard negation; no flag both negated and added *)
Definition nowild (c : chunk) : bool := forallb (fun t => 10 <=? t) (neg c).
Definition disjoint_c (c : chunk) : bool := forallb (fun f => negb (mem f (neg c))) (pos c).
Definition good (c : chunk) : bool := nowild c && disjoint_c c.

Lemma cleared_nowild ng f : forallb (fun t => 10 <=? t) ng = true -> cleared ng f = mem f ng.
Proof.
  unfold cleared, mem. induction ng as [|t ng IH]; cbn [forallb existsb]; [reflexivity|].
  intro H. apply andb_true_iff in H as [H1 H2]. rewrite (IH H2). f_equal.
  unfold tclears, pre_clears. apply N.leb_le in H1.
  assert (E0 : (t =? 0) = false) by (apply N.eqb_neq; lia).
  assert (E1 : (t <? 10) = false) by (apply N.ltb_ge; lia).
  rewrite E0, E1, andb_false_r. cbn. apply N.eqb_sym.
Qed.

Lemma eff_good c f : good c = true ->
  eff_chunk c f = if mem f (neg c) then Some false else if mem f (pos c) then Some true else None.
Proof.
  unfold good, eff_chunk. intro H. apply andb_true_iff in H as [Hw Hd].
  rewrite (cleared_nowild _ _ Hw).
  destruct (mem f (pos c)) eqn:Ep; [|reflexivity].
  unfold disjoint_c in Hd. rewrite forallb_forall in Hd.
  apply mem_In in Ep. specialize (Hd f Ep). apply negb_true_iff in Hd. rewrite Hd. reflexivity.
Qed.

(* ------------------------------------------------------------------ the locked map *)
Lemma lk_get_app lk t b x :
  lk_get (lk ++ [(t, b)]) x = orelse (lk_get lk x) (if t =? x then Some b else None).
Proof.
  induction lk as [|[k v] lk IH]; cbn [app lk_get].
  - reflexivity.
  - destruct (k =? x); [reflexivity | exact IH].
Qed.

Lemma lk_get_setdefault b ts : forall lk x,
  lk_get (lk_setdefault b ts lk) x = orelse (lk_get lk x) (if mem x ts then Some b else None).
Proof.
  induction ts as [|t ts IH]; intros lk x; cbn [lk_setdefault].
  - cbn. rewrite orelse_none_r. reflexivity.
  - rewrite IH. unfold lk_has. destruct (lk_get lk t) eqn:Et.
    + destruct (lk_get lk x) eqn:Ex; cbn [orelse]; [reflexivity|].
      unfold mem. cbn [existsb]. destruct (x =? t) eqn:Ext.
      * apply N.eqb_eq in Ext. subst. congruence.
      * reflexivity.
    + rewrite lk_get_app. destruct (lk_get lk x) eqn:Ex; cbn [orelse]; [reflexivity|].
      unfold mem. cbn [existsb]. rewrite (N.eqb_sym x t).
      destruct (t =? x); cbn [orelse orb]; [|reflexivity].
      destruct (existsb (N.eqb x) ts); reflexivity.
Qed.

Lemma NoDup_snoc (l : list N) a : NoDup l -> ~ In a l -> NoDup (l ++ [a]).
Proof.
  induction l as [|x l IH]; cbn; intros Hn Hi.
  - constructor; [tauto | constructor].
  - inversion Hn; subst. constructor.
    + rewrite in_app_iff. cbn. intros [H|[H|[]]]; [tauto | subst; tauto].
    + apply IH; tauto.
Qed.
Definition keys_nodup (lk : locked) : Prop := NoDup (map fst lk).
Lemma lk_get_none_notin lk t : lk_get lk t = None -> ~ In t (map fst lk).
Proof.
  induction lk as [|[k v] lk IH]; cbn; [tauto|].
  destruct (k =? t) eqn:E; [discriminate|]. apply N.eqb_neq in E. intros H [H1|H1]; [congruence|].
  exact (IH H H1).
Qed.
Lemma setdefault_nodup b ts : forall lk, keys_nodup lk -> keys_nodup (lk_setdefault b ts lk).
Proof.
  induction ts as [|t ts IH]; intros lk H; cbn [lk_setdefault]; [exact H|].
  apply IH. unfold lk_has. destruct (lk_get lk t) eqn:E; [exact H|].
  unfold keys_nodup. rewrite map_app. cbn [map fst]. apply NoDup_snoc; [exact H|].
  apply lk_get_none_notin. exact E.
Qed.

(* ------------------------------------------------------------------ pass1: what the locked map holds *)
Definition lock_eff (c : chunk) (t : N) : option bool :=
  if mem t (neg c) then Some false else if mem t (pos c) then Some true else None.
Fixpoint lsem (seq : list chunk) (t : N) : option bool :=
  match seq with
  | [] => None
  | c :: r => orelse (lsem r t) (if lockable c then lock_eff c t else None)
  end.

Definition filt (lk : locked) (c : chunk) : chunk :=
  mkc (sc c) (filter (fun x => negb (lk_has lk x)) (neg c)) (filter (fun x => negb (lk_has lk x)) (pos c)).

Lemma pass1_cons c r :
  pass1 (c :: r) =
  if lockable c then (lk_setdefault true (pos c) (lk_setdefault false (neg c) (fst (pass1 r))), snd (pass1 r))
  else (fst (pass1 r), if empty_chunk (filt (fst (pass1 r)) c) then snd (pass1 r)
                       else filt (fst (pass1 r)) c :: snd (pass1 r)).
Proof. cbn [pass1]. destruct (pass1 r) as [lk l]. reflexivity. Qed.

Lemma lk_get_pass1 seq t : lk_get (fst (pass1 seq)) t = lsem seq t.
Proof.
  induction seq as [|c r IH]; [reflexivity|].
  rewrite pass1_cons. cbn [lsem]. destruct (lockable c); cbn [fst].
  - rewrite !lk_get_setdefault, IH, orelse_assoc. f_equal. unfold lock_eff.
    destruct (mem t (neg c)); cbn [orelse]; reflexivity.
  - rewrite IH, orelse_none_r. reflexivity.
Qed.

Lemma pass1_nodup seq : keys_nodup (fst (pass1 seq)).
Proof.
  induction seq as [|c r IH]; [constructor|].
  rewrite pass1_cons. destruct (lockable c); cbn [fst]; [|exact IH].
  apply setdefault_nodup, setdefault_nodup, IH.
Qed.

Lemma mem_filter q l f : mem f (filter q l) = mem f l && q f.
Proof.
  unfold mem. induction l as [|x l IH]; cbn [filter existsb]; [reflexivity|].
  destruct (q x) eqn:Eq; cbn [existsb]; rewrite IH.
  - destruct (f =? x) eqn:E; cbn [orb]; [|reflexivity].
    apply N.eqb_eq in E. subst. rewrite Eq. reflexivity.
  - destruct (f =? x) eqn:E; cbn [orb]; [|reflexivity].
    apply N.eqb_eq in E. subst. rewrite Eq, andb_false_r. reflexivity.
Qed.

Lemma merged_mem q lk f : keys_nodup lk ->
  mem f (map fst (filter (fun kv => q (snd kv)) lk)) =
  match lk_get lk f with Some b => q b | None => false end.
Proof.
  unfold keys_nodup. induction lk as [|[k v] lk IH]; intro Hn; [reflexivity|].
  cbn [map fst] in Hn. inversion Hn as [|? ? Hk Hn']; subst.
  cbn [filter snd lk_get]. destruct (k =? f) eqn:E.
  - apply N.eqb_eq in E. subst k.
    assert (Hz : mem f (map fst (filter (fun kv => q (snd kv)) lk)) = false).
    { apply mem_false. intro Hi. apply Hk. apply in_map_iff in Hi as [[k' v'] [E1 E2]].
      apply filter_In in E2 as [E2 _]. cbn in E1. subst. apply in_map_iff. exists (f, v'). tauto. }
    destruct (q v); cbn [map fst]; [|exact Hz].
    unfold mem. cbn [existsb]. rewrite N.eqb_refl. reflexivity.
  - rewrite <- (IH Hn'). destruct (q v); cbn [map fst]; [|reflexivity].
    unfold mem. cbn [existsb]. rewrite (N.eqb_sym f k), E. reflexivity.
Qed.

Lemma lsem_false_in seq t : lsem seq t = Some false ->
  exists c, In c seq /\ lockable c = true /\ In t (neg c).
Proof.
  induction seq as [|c r IH]; cbn [lsem]; [discriminate|].
  destruct (lsem r t) as [b|] eqn:E; cbn [orelse].
  - intro H. injection H as ->. destruct (IH eq_refl) as [c' [H1 H2]]. exists c'. cbn. tauto.
  - destruct (lockable c) eqn:El; [|discriminate]. unfold lock_eff.
    destruct (mem t (neg c)) eqn:Em; [|destruct (mem t (pos c)); discriminate].
    intros _. exists c. cbn. apply mem_In in Em. tauto.
Qed.

Section Collapse.
  Variable p : pkg.
  Variable f : N.
  Variable lkF : locked.

  Definition R (seq : list chunk) : list chunk :=
    filter (fun c => negb (empty_chunk c)) (map (pass2 lkF) (snd (pass1 seq))).

  Lemma good_sub c n' p' :
    good c = true -> incl n' (neg c) -> incl p' (pos c) -> good (mkc (sc c) n' p') = true.
  Proof.
    unfold good, nowild, disjoint_c. cbn [neg pos]. intros H Hn Hp.
    apply andb_true_iff in H as [H1 H2]. rewrite forallb_forall in H1, H2.
    apply andb_true_iff; split; apply forallb_forall.
    - intros x Hx. apply H1, Hn, Hx.
    - intros x Hx. specialize (H2 x (Hp x Hx)). apply negb_true_iff in H2. apply negb_true_iff.
      apply mem_false. intro Hi. apply mem_false in H2. apply H2, Hn, Hi.
  Qed.

  Lemma incl_filter_N q (l : list N) : incl (filter q l) l.
  Proof. intros x Hx. apply filter_In in Hx. tauto. Qed.

  Lemma good_pass2_filt lk c : good c = true -> good (pass2 lkF (filt lk c)) = true.
  Proof.
    intro H. unfold pass2, filt. cbn [sc neg pos].
    apply (good_sub c); [exact H| |]; intros x Hx; apply incl_filter_N in Hx; apply incl_filter_N in Hx; exact Hx.
  Qed.

  (* what survives of a good specific chunk *)
  Lemma eff_pass2_filt lk c : good c = true ->
    eff_chunk (pass2 lkF (filt lk c)) f =
    match eff_chunk c f with
    | None => None
    | Some s => if lk_has lk f then None
                else match lk_get lkF f with
                     | Some b => if Bool.eqb b s then None else Some s
                     | None => Some s
                     end
    end.
  Proof.
    intro H. rewrite (eff_good _ f (good_pass2_filt lk c H)), (eff_good _ f H).
    unfold pass2, filt. cbn [sc neg pos]. rewrite !mem_filter.
    assert (Hd : mem f (neg c) = true -> mem f (pos c) = false).
    { unfold good, disjoint_c in H. apply andb_true_iff in H as [_ H]. rewrite forallb_forall in H.
      intro Hn. destruct (mem f (pos c)) eqn:Ep; [|reflexivity].
      apply mem_In in Ep. specialize (H f Ep). rewrite Hn in H. discriminate. }
    destruct (mem f (neg c)) eqn:En.
    - rewrite (Hd eq_refl). cbn [andb].
      destruct (lk_has lk f); cbn [negb andb]; [reflexivity|].
      destruct (lk_get lkF f) as [[|]|]; reflexivity.
    - cbn [andb]. destruct (mem f (pos c)); cbn [andb]; [|reflexivity].
      destruct (lk_has lk f); cbn [negb andb]; [reflexivity|].
      destruct (lk_get lkF f) as [[|]|]; reflexivity.
  Qed.

  Lemma R_cons c r :
    effl (R (c :: r)) p f =
    if lockable c then effl (R r) p f
    else orelse (effl (R r) p f)
                (if applies (sc c) p then eff_chunk (pass2 lkF (filt (fst (pass1 r)) c)) f else None).
  Proof.
    unfold R. rewrite pass1_cons. destruct (lockable c); cbn [snd]; [reflexivity|].
    set (c' := filt (fst (pass1 r)) c).
    destruct (empty_chunk c') eqn:Ee.
    - (* dropped after pass 1: it is empty, pass2 keeps it empty *)
      assert (Hz : eff_chunk (pass2 lkF c') f = None).
      { unfold empty_chunk in Ee. apply andb_true_iff in Ee as [E1 E2].
        destruct (neg c') eqn:N1; [|discriminate]. destruct (pos c') eqn:P1; [|discriminate].
        unfold eff_chunk, pass2. rewrite N1, P1. reflexivity. }
      rewrite Hz. destruct (applies (sc c) p); rewrite orelse_none_r; reflexivity.
    - cbn [map filter]. destruct (empty_chunk (pass2 lkF c')) eqn:Ee2; cbn [negb].
      + assert (Hz : eff_chunk (pass2 lkF c') f = None).
        { unfold empty_chunk in Ee2. apply andb_true_iff in Ee2 as [E1 E2].
          destruct (neg (pass2 lkF c')) eqn:N1; [|discriminate].
          destruct (pos (pass2 lkF c')) eqn:P1; [|discriminate].
          unfold eff_chunk. rewrite N1, P1. reflexivity. }
        rewrite Hz. destruct (applies (sc c) p); rewrite orelse_none_r; reflexivity.
      + cbn [effl]. reflexivity.
  Qed.

  Definition seq_ok (seq : list chunk) : Prop :=
    (forall c, In c seq -> lockable c = true -> applies (sc c) p = true) /\
    (forall c, In c seq -> applies (sc c) p = true -> good c = true).
  Definition sign_ok (seq : list chunk) : Prop :=
    forall c1 c2 x, In c1 seq -> In c2 seq -> lockable c1 = false -> lockable c2 = false ->
      applies (sc c1) p = true -> applies (sc c2) p = true -> In x (neg c1) -> In x (pos c2) -> False.

  Lemma seq_ok_tail c r : seq_ok (c :: r) -> seq_ok r.
  Proof. intros [H1 H2]. split; intros c' Hc; [apply H1 | apply H2]; right; exact Hc. Qed.
  Lemma sign_ok_tail c r : sign_ok (c :: r) -> sign_ok r.
  Proof. intros H c1 c2 x H1 H2. apply (H c1 c2 x); right; assumption. Qed.

  Lemma lock_eff_good c t : good c = true -> lock_eff c t = eff_chunk c t.
  Proof. intro H. rewrite (eff_good _ _ H). reflexivity. Qed.

  (* no applicable chunk mentions f => nothing is locked for f and nothing survives *)
  Lemma effl_none_lsem seq : seq_ok seq -> effl seq p f = None -> lsem seq f = None.
  Proof.
    induction seq as [|c r IH]; intros Hok; [reflexivity|].
    cbn [effl lsem]. destruct (effl r p f) eqn:E; cbn [orelse]; [discriminate|].
    intro H. rewrite (IH (seq_ok_tail _ _ Hok) eq_refl). cbn [orelse].
    destruct (lockable c) eqn:El; [|reflexivity].
    destruct Hok as [H1 H2]. rewrite (H1 c (or_introl eq_refl) El) in H.
    rewrite lock_eff_good; [exact H|]. apply H2; [left; reflexivity | apply H1; [left; reflexivity | exact El]].
  Qed.

  Lemma effl_none_R seq : seq_ok seq -> effl seq p f = None -> effl (R seq) p f = None.
  Proof.
    induction seq as [|c r IH]; intros Hok; [reflexivity|].
    rewrite R_cons. cbn [effl]. destruct (effl r p f) eqn:E; cbn [orelse]; [discriminate|].
    intro H. rewrite (IH (seq_ok_tail _ _ Hok) eq_refl).
    destruct (lockable c); [reflexivity|]. cbn [orelse].
    destruct (applies (sc c) p) eqn:Ea; [|reflexivity].
    destruct Hok as [_ H2]. rewrite eff_pass2_filt; [|apply H2; [left; reflexivity | exact Ea]].
    rewrite H. reflexivity.
  Qed.

  (* the rightmost applicable writer of f *)
  Lemma effl_writer seq b : effl seq p f = Some b ->
    exists s, In s seq /\ applies (sc s) p = true /\ eff_chunk s f = Some b.
  Proof.
    induction seq as [|c r IH]; cbn [effl]; [discriminate|].
    destruct (effl r p f) as [b'|] eqn:E; cbn [orelse].
    - intro H. injection H as ->. destruct (IH eq_refl) as [s [H1 H2]]. exists s. cbn. tauto.
    - destruct (applies (sc c) p) eqn:Ea; [|discriminate]. intro H. exists c. cbn. tauto.
  Qed.
  Lemma lsem_none_lockable seq s : lsem seq f = None -> In s seq -> lockable s = true -> lock_eff s f = None.
  Proof.
    induction seq as [|c r IH]; cbn [lsem In]; [tauto|].
    destruct (lsem r f) eqn:E; cbn [orelse]; [discriminate|].
    intros H [->|Hi] Hl; [rewrite Hl in H; exact H | exact (IH eq_refl Hi Hl)].
  Qed.

  Lemma eff_sign c b : good c = true -> eff_chunk c f = Some b ->
    if b then In f (pos c) else In f (neg c).
  Proof.
    intros H. rewrite (eff_good _ _ H).
    destruct (mem f (neg c)) eqn:En.
    - intro E. injection E as <-. apply mem_In. exact En.
    - destruct (mem f (pos c)) eqn:Ep; [|discriminate]. intro E. injection E as <-. apply mem_In. exact Ep.
  Qed.

  Lemma collapse_claim seq :
    seq_ok seq -> sign_ok seq ->
    (forall b, lsem seq f = Some b -> lk_get lkF f = Some b) ->
    orelse (effl (R seq) p f) (lk_get lkF f) = orelse (effl seq p f) (lk_get lkF f).
  Proof.
    induction seq as [|c r IH]; intros Hok Hsg Hc; [reflexivity|].
    assert (Hokr := seq_ok_tail _ _ Hok). assert (Hsgr := sign_ok_tail _ _ Hsg).
    assert (Hcr : forall b, lsem r f = Some b -> lk_get lkF f = Some b).
    { intros b Hb. apply Hc. cbn [lsem]. rewrite Hb. reflexivity. }
    specialize (IH Hokr Hsgr Hcr).
    rewrite R_cons. cbn [effl]. destruct Hok as [Hk1 Hk2].
    destruct (lockable c) eqn:El.
    - (* a lockable chunk: it applies and is good *)
      assert (Ha : applies (sc c) p = true) by (apply Hk1; [left; reflexivity | exact El]).
      assert (Hg : good c = true) by (apply Hk2; [left; reflexivity | exact Ha]).
      rewrite Ha. destruct (effl r p f) as [b|] eqn:Er; cbn [orelse]; [exact IH|].
      cbn [orelse] in IH. rewrite IH.
      destruct (eff_chunk c f) as [b|] eqn:Ec; [|reflexivity].
      apply Hc. cbn [lsem]. rewrite (effl_none_lsem r Hokr Er), El. cbn [orelse].
      rewrite lock_eff_good; assumption.
    - destruct (applies (sc c) p) eqn:Ea.
      2:{ rewrite !orelse_none_r. exact IH. }
      assert (Hg : good c = true) by (apply Hk2; [left; reflexivity | exact Ea]).
      rewrite (eff_pass2_filt _ _ Hg).
      destruct (effl r p f) as [b|] eqn:Er; cbn [orelse].
      + (* something to the right writes f *)
        cbn [orelse] in IH. destruct (effl (R r) p f) as [b'|] eqn:ERr; cbn [orelse]; [exact IH|].
        cbn [orelse] in IH.
        destruct (eff_chunk c f) as [s|] eqn:Ec; [|exact IH].
        unfold lk_has. rewrite lk_get_pass1.
        destruct (lsem r f) as [x|] eqn:Els; [exact IH|].
        rewrite IH. destruct (Bool.eqb b s) eqn:Ebs; [reflexivity|]. exfalso.
        (* the writer to the right is a specific chunk with the other sign *)
        destruct (effl_writer r b Er) as [w [Hw1 [Hw2 Hw3]]].
        assert (Hgw : good w = true) by (apply Hk2; [right; exact Hw1 | exact Hw2]).
        assert (Hlw : lockable w = false).
        { destruct (lockable w) eqn:E; [|reflexivity].
          pose proof (lsem_none_lockable r w Els Hw1 E) as Hn.
          rewrite (lock_eff_good _ _ Hgw), Hw3 in Hn. discriminate. }
        pose proof (eff_sign w b Hgw Hw3) as S1. pose proof (eff_sign c s Hg Ec) as S2.
        destruct b, s; try discriminate.
        * apply (Hsg c w f); cbn; auto.
        * apply (Hsg w c f); cbn; auto.
      + (* nothing to the right mentions f *)
        rewrite (effl_none_R r Hokr Er). cbn [orelse].
        unfold lk_has. rewrite lk_get_pass1, (effl_none_lsem r Hokr Er).
        destruct (eff_chunk c f) as [s|] eqn:Ec; [|reflexivity].
        destruct (lk_get lkF f) as [b|] eqn:Eg; [|reflexivity].
        destruct (Bool.eqb b s) eqn:Ebs; cbn [orelse]; [|reflexivity].
        apply Bool.eqb_prop in Ebs. subst. reflexivity.
  Qed.
End Collapse.

(* ------------------------------------------------------------------ build = _build_cp_atom_payload *)
Lemma filter_all (q : N -> bool) l : (forall x, q x = true) -> filter q l = l.
Proof. intro H. induction l as [|x l IH]; cbn; [reflexivity|]. rewrite H, IH. reflexivity. Qed.

Lemma pass2_nil c : pass2 [] c = c.
Proof. unfold pass2. cbn [lk_get lk_true negb]. rewrite !filter_all by reflexivity. destruct c; reflexivity. Qed.

Lemma eff_empty c f : empty_chunk c = true -> eff_chunk c f = None.
Proof.
  unfold empty_chunk, eff_chunk. intro H. apply andb_true_iff in H as [H1 H2].
  destruct (neg c); [|discriminate]. destruct (pos c); [|discriminate]. reflexivity.
Qed.
Lemma effl_filter_ne l p f : effl (filter (fun c => negb (empty_chunk c)) l) p f = effl l p f.
Proof.
  induction l as [|c l IH]; [reflexivity|]. cbn [filter effl].
  destruct (empty_chunk c) eqn:E; cbn [negb effl]; rewrite IH; [|reflexivity].
  rewrite (eff_empty _ _ E). destruct (applies (sc c) p); rewrite orelse_none_r; reflexivity.
Qed.

Lemma merged_nowild p seq r :
  seq_ok p seq -> nowild (merged r (fst (pass1 seq))) = true.
Proof.
  intros [H1 H2]. unfold nowild, merged. cbn [neg]. apply forallb_forall. intros t Ht.
  apply mem_In in Ht. rewrite (merged_mem negb _ _ (pass1_nodup seq)) in Ht.
  rewrite lk_get_pass1 in Ht. destruct (lsem seq t) as [[|]|] eqn:E; try discriminate.
  destruct (lsem_false_in _ _ E) as [c [Hc [Hl Hn]]].
  specialize (H2 c Hc (H1 c Hc Hl)). unfold good, nowild in H2. apply andb_true_iff in H2 as [H2 _].
  rewrite forallb_forall in H2. exact (H2 t Hn).
Qed.

Lemma merged_eff p seq r f :
  seq_ok p seq -> eff_chunk (merged r (fst (pass1 seq))) f = lsem seq f.
Proof.
  intro Hok. unfold eff_chunk. rewrite (cleared_nowild _ _ (merged_nowild p seq r Hok)).
  unfold merged. cbn [neg pos].
  pose proof (merged_mem (fun b => b) _ f (pass1_nodup seq)) as Hp.
  pose proof (merged_mem negb _ f (pass1_nodup seq)) as Hn.
  cbn beta in Hp. rewrite Hp, Hn, lk_get_pass1.
  destruct (lsem seq f) as [[|]|]; reflexivity.
Qed.

Lemma build_unfold c1 c2 rest r :
  build (c1 :: c2 :: rest) r =
  match fst (pass1 (c1 :: c2 :: rest)) with
  | [] => snd (pass1 (c1 :: c2 :: rest))
  | _ => merged r (fst (pass1 (c1 :: c2 :: rest)))
         :: R (fst (pass1 (c1 :: c2 :: rest))) (c1 :: c2 :: rest)
  end.
Proof.
  unfold build, R. destruct (pass1 (c1 :: c2 :: rest)) as [lk l]. cbn [fst snd].
  destruct lk; reflexivity.
Qed.

(* collapsing a chunk sequence keeps its last-writer semantics for package p, provided the
   lockable chunks (global / simple atom) apply to p, the chunks applying to p are free of
   wildcards and of flags both negated and added, and the specific chunks applying to p never
   give one flag opposite signs *)
Theorem build_effl p seq r f :
  seq_ok p seq -> sign_ok p seq -> applies r p = true ->
  effl (build seq r) p f = effl seq p f.
Proof.
  intros Hok Hsg Hr.
  destruct seq as [|c1 [|c2 rest]]; [reflexivity | reflexivity |].
  rewrite build_unfold. set (seq := c1 :: c2 :: rest) in *.
  pose proof (collapse_claim p f (fst (pass1 seq)) seq Hok Hsg) as Hc.
  assert (Hcons : forall b, lsem seq f = Some b -> lk_get (fst (pass1 seq)) f = Some b).
  { intros b Hb. rewrite lk_get_pass1. exact Hb. }
  specialize (Hc Hcons).
  assert (Hfin : orelse (effl seq p f) (lk_get (fst (pass1 seq)) f) = effl seq p f).
  { destruct (effl seq p f) eqn:E; [reflexivity|]. cbn [orelse].
    rewrite lk_get_pass1. apply (effl_none_lsem p f seq Hok E). }
  destruct (fst (pass1 seq)) as [|kv lk] eqn:Elk.
  - (* nothing locked *)
    unfold R in Hc. rewrite Hfin in Hc. cbn [lk_get] in Hc. rewrite orelse_none_r in Hc.
    rewrite <- Hc, effl_filter_ne. f_equal.
    clear. symmetry. induction (snd (pass1 seq)) as [|x l IH]; [reflexivity|]. cbn [map]. rewrite pass2_nil. f_equal. exact IH.
  - cbn [effl]. cbn [merged sc]. rewrite Hr.
    replace (eff_chunk (merged r (kv :: lk)) f) with (lk_get (kv :: lk) f).
    + rewrite Hc. exact Hfin.
    + rewrite <- Elk. rewrite merged_eff with (p := p) by exact Hok. apply lk_get_pass1.
Qed.

(* where the chunks of a collapsed sequence come from *)
Lemma pass1_snd_in seq x : In x (snd (pass1 seq)) ->
  exists c, In c seq /\ lockable c = false /\ sc x = sc c /\ incl (neg x) (neg c) /\ incl (pos x) (pos c).
Proof.
  induction seq as [|c r IH]; [intros []|].
  rewrite pass1_cons. destruct (lockable c) eqn:El; cbn [snd].
  - intro H. destruct (IH H) as [c' Hc']. exists c'. cbn. tauto.
  - intro H.
    assert (Hx : x = filt (fst (pass1 r)) c \/ In x (snd (pass1 r))).
    { destruct (empty_chunk (filt (fst (pass1 r)) c)); [right; exact H|].
      destruct H as [<-|H]; [left; reflexivity | right; exact H]. }
    destruct Hx as [->|Hx].
    + exists c. cbn [In filt sc neg pos]. repeat split; auto; intros y Hy; apply filter_In in Hy; tauto.
    + destruct (IH Hx) as [c' Hc']. exists c'. cbn. tauto.
Qed.

Lemma build_in seq r x : In x (build seq r) ->
  In x seq
  \/ (x = merged r (fst (pass1 seq)) /\ fst (pass1 seq) <> [])
  \/ exists c, In c seq /\ lockable c = false /\ sc x = sc c /\ incl (neg x) (neg c) /\ incl (pos x) (pos c).
Proof.
  destruct seq as [|c1 [|c2 rest]]; [intros [] | intro H; left; exact H |].
  rewrite build_unfold. set (seq := c1 :: c2 :: rest).
  destruct (fst (pass1 seq)) as [|kv lk] eqn:Elk.
  - intro H. right; right. apply pass1_snd_in. exact H.
  - intros [<-|H]; [right; left; split; [reflexivity | discriminate]|].
    right; right. unfold R in H. apply filter_In in H as [H _]. apply in_map_iff in H as [y [<- Hy]].
    destruct (pass1_snd_in _ _ Hy) as [c [H1 [H2 [H3 [H4 H5]]]]].
    exists c. unfold pass2. cbn [sc neg pos]. repeat split; auto;
      intros z Hz; apply filter_In in Hz; [apply H4 | apply H5]; tauto.
Qed.
