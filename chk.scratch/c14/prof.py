import time, random, itertools
from harness import c14
impl = c14.Impl()
t=time.time()
n=0
for ops in itertools.product(c14.ENUM_ALPHABET, repeat=3):
    impl.run(c14.ENUM_USE, c14.ENUM_DS, list(ops)); n+=1
print(n, time.time()-t)
import cProfile, pstats
cProfile.run("for ops in itertools.product(c14.ENUM_ALPHABET, repeat=2): impl.run(c14.ENUM_USE, c14.ENUM_DS, list(ops))", "/verif/chk.scratch/c14/p.out")
pstats.Stats("/verif/chk.scratch/c14/p.out").sort_stats("cumtime").print_stats(14)
