(* C21 — property theorems (statements only; proofs are in Proofs_C21.v). *)
From Coq Require Import List NArith ZArith Bool.
Import ListNotations.
From Verif Require Import Base.Val C22.Model_C22 C21.Model_C21 C21.Spec_C21 C21.Proofs_C21.

(* Unmerging (uninstall, or the unmerge half of a replace) never removes a protected file whose
   content differs from what the package recorded. *)
Theorem uninstall_keeps_modified :
  forall (prot ign : str -> bool) (off : str) (fs recorded inst : pmap) (P d : str),
    protected_file prot ign off fs P d ->
    differs_from_recorded recorded P d ->
    pm_get P (unmerge_fs fs (uninstall_set prot ign off fs recorded inst)) = Some (File d).
Proof. exact uninstall_keeps_modified_proof. Qed.
Print Assumptions uninstall_keeps_modified.
